From Coq Require Import List NArith Bool Lia String.
Import ListNotations.
Open Scope string_scope. Open Scope list_scope.

Definition name := string.
Inductive node := F | D (kids : list (name * node)).
Definition path := list name.
Record entry := { epath : path; edir : bool }.
Definition frame := list (path * node).
Definition wd := list frame.

Definition push (p : path) (kids : list (name * node)) : frame :=
  map (fun k => (p ++ [fst k], snd k)) kids.

Fixpoint wd_next (st : wd) : option (entry * wd) :=
  match st with
  | [] => None
  | [] :: rest => wd_next rest
  | ((p, n) :: sibs) :: rest =>
      match n with
      | F => Some ({| epath := p; edir := false |}, sibs :: rest)
      | D kids => Some ({| epath := p; edir := true |}, push p kids :: sibs :: rest)
      end
  end.
Definition wd_skip (st : wd) : wd := tl st.

Inductive verdict := Keep | VFile | VTree.
Inductive tag := Filtrate | RNode | RTree.
Definition layer := entry -> verdict.

Definition step_layer (v : verdict) (t : tag) : tag * bool :=
  match v, t with
  | Keep, _ => (t, false)
  | VFile, Filtrate => (RNode, false)
  | VFile, _ => (t, false)
  | VTree, Filtrate => (RTree, true)
  | VTree, RNode => (RTree, true)
  | VTree, RTree => (RTree, false)
  end.

Fixpoint through (ls : list layer) (e : entry) (t : tag) (cancels : nat) : tag * nat :=
  match ls with
  | [] => (t, cancels)
  | l :: ls' =>
      let '(t', c) := step_layer (l e) t in
      through ls' e t' (if c then S cancels else cancels)
  end.

Fixpoint run (fuel : nat) (ls : list layer) (st : wd) : list (entry * tag) :=
  match fuel with O => [] | S fuel' =>
  match wd_next st with
  | None => []
  | Some (e, st') =>
      let '(t, c) := through ls e Filtrate 0 in
      let st'' := if edir e then Nat.iter c wd_skip st' else st' in
      (e, t) :: run fuel' ls st''
  end end.

Definition final_tag (ls : list layer) (e : entry) : tag := fst (through ls e Filtrate 0).

Fixpoint spec (ls : list layer) (p : path) (n : node) : list (entry * tag) :=
  match n with
  | F => let e := {| epath := p; edir := false |} in [(e, final_tag ls e)]
  | D kids => let e := {| epath := p; edir := true |} in
      let t := final_tag ls e in
      (e, t) :: match t with
                | RTree => []
                | _ => (fix go (ks : list (name * node)) := match ks with [] => [] | k :: ks' => spec ls (p ++ [fst k]) (snd k) ++ go ks' end) kids
                end
  end.

Definition spec_frame ls (f : frame) := flat_map (fun pn => spec ls (fst pn) (snd pn)) f.
Definition spec_wd ls (st : wd) := flat_map (spec_frame ls) st.

Fixpoint nsize (n : node) : nat :=
  match n with F => 1 | D kids => S ((fix go ks := match ks with [] => 0 | k :: ks' => nsize (snd k) + go ks' end) kids) end.
Definition fsize (f : frame) := fold_right (fun pn a => nsize (snd pn) + a) 0 f.
Definition wsize (st : wd) := fold_right (fun f a => fsize f + a) 0 st.

Lemma push_spec ls p kids :
  spec_frame ls (push p kids) =
  (fix go (ks : list (name * node)) := match ks with [] => [] | k :: ks' => spec ls (p ++ [fst k]) (snd k) ++ go ks' end) kids.
Proof. induction kids as [|k ks IH]; cbn; [reflexivity|]. f_equal. exact IH. Qed.

Lemma fsize_push p kids : fsize (push p kids) = (fix go ks := match ks with [] => 0 | k :: ks' => nsize (snd k) + go ks' end) kids.
Proof. induction kids as [|k ks IH]; cbn; [reflexivity|]. f_equal. exact IH. Qed.


Lemma through_RTree ls e : forall c, through ls e RTree c = (RTree, c).
Proof. induction ls as [|l ls IH]; intros c; cbn [through]; [reflexivity|]. destruct (l e); cbn [step_layer]; apply IH. Qed.

Lemma through_shape ls e : forall t c, t <> RTree ->
  (through ls e t c = (RTree, S c)) \/ (exists t', t' <> RTree /\ through ls e t c = (t', c)).
Proof.
  induction ls as [|l ls IH]; intros t c Ht; cbn [through].
  - right; exists t; auto.
  - destruct (l e) eqn:El, t; cbn [step_layer]; try congruence;
      try (apply IH; congruence); left; apply through_RTree.
Qed.

Lemma wsize_cons f st : wsize (f :: st) = fsize f + wsize st. Proof. reflexivity. Qed.
Lemma fsize_cons p n f : fsize ((p, n) :: f) = nsize n + fsize f. Proof. reflexivity. Qed.
Lemma fsize_nil : fsize [] = 0. Proof. reflexivity. Qed.

Lemma wd_next_none ls st : wd_next st = None -> spec_wd ls st = [].
Proof.
  induction st as [|f rest IH]; [reflexivity|]. destruct f as [|[p n] sibs]; cbn [wd_next].
  - intros H. cbn. apply IH, H.
  - destruct n; discriminate.
Qed.

Lemma wd_next_some ls st e st' : wd_next st = Some (e, st') ->
  spec_wd ls st = (e, final_tag ls e) ::
     (if edir e then match final_tag ls e with RTree => spec_wd ls (wd_skip st') | _ => spec_wd ls st' end
      else spec_wd ls st')
  /\ 2 * wsize st' + List.length st' < 2 * wsize st + List.length st
  /\ (edir e = true -> 2 * wsize (wd_skip st') + List.length (wd_skip st') < 2 * wsize st + List.length st).
Proof.
  induction st as [|f rest IH]; [discriminate|]. destruct f as [|[p n] sibs]; cbn [wd_next].
  - intros H. destruct (IH H) as (H1 & H2 & H3).
    change (spec_wd ls ([] :: rest)) with (spec_wd ls rest). rewrite H1.
    split; [reflexivity|]. rewrite wsize_cons, fsize_nil. cbn [List.length]. split; [lia|]. intros Hd. specialize (H3 Hd). lia.
  - destruct n as [|kids]; intros H; inversion H; subst; clear H; cbn [edir].
    + split; [reflexivity|]. rewrite !wsize_cons, fsize_cons. cbn [List.length nsize]. split; [lia|discriminate].
    + unfold spec_wd at 1. cbn [flat_map spec_frame fst snd spec]. fold (spec_frame ls sibs). 
      split.
      * cbn [app]. f_equal. unfold wd_skip; cbn [tl].
        destruct (final_tag ls {| epath := p; edir := true |}) eqn:Et;
          unfold spec_wd; cbn [flat_map]; rewrite ?push_spec, <- ?app_assoc; reflexivity.
      * unfold wd_skip; cbn [tl]. rewrite !wsize_cons, fsize_cons, fsize_push. cbn [List.length nsize].
        split; [lia|]. intros _. lia.
Qed.

Theorem run_refines ls : forall fuel st, 2 * wsize st + List.length st < fuel -> run fuel ls st = spec_wd ls st.
Proof.
  induction fuel as [|fuel IH]; intros st Hf; [lia|]. cbn [run].
  destruct (wd_next st) as [[e st']|] eqn:En.
  - destruct (wd_next_some ls _ _ _ En) as (Hs & Hm1 & Hm2). rewrite Hs.
    unfold final_tag in *.
    destruct (through_shape ls e Filtrate 0 ltac:(discriminate)) as [Ht | (t' & Hn & Ht)]; rewrite Ht in *; cbn [fst].
    + destruct (edir e) eqn:Ed; cbn [Nat.iter].
      * f_equal. apply IH. specialize (Hm2 eq_refl). lia.
      * f_equal. apply IH. lia.
    + destruct (edir e) eqn:Ed; cbn [Nat.iter].
      * f_equal. destruct t'; try congruence; apply IH; lia.
      * f_equal. apply IH; lia.
  - symmetry. apply wd_next_none, En.
Qed.
Print Assumptions run_refines.
