From Coq Require Import List NArith Bool Lia.
Import ListNotations.
Open Scope N_scope.

Definition char := N.
Definition str := list char.
Definition sep : char := 47.

Inductive arch := AChar (c : char) | ARange (a b : char).
Inductive leaf :=
| LLit (ci : bool) (s : str)
| LSep
| LClass (neg : bool) (a : list arch)
| LOne
| LZom
| LTree (has_root : bool).

Inductive token :=
| TLeaf (l : leaf)
| TAlt (bs : list token)
| TCat (ts : list token)
| TRep (b : token) (lo : nat) (hi : option nat).

(* bounded enumeration of expansions: repetitions unrolled up to [cap] times when unbounded *)
Section Enum.
Variable cap : nat.
Fixpoint seqn (lo n : nat) : list nat := match n with O => [] | S n' => lo :: seqn (S lo) n' end.
Fixpoint power (xs : list (list leaf)) (k : nat) : list (list leaf) :=
  match k with O => [[]] | S k' => flat_map (fun a => map (fun b => a ++ b) (power xs k')) xs end.
Fixpoint expand (t : token) : list (list leaf) :=
  match t with
  | TLeaf l => [[l]]
  | TAlt bs => (fix go bs := match bs with [] => [] | b :: bs' => expand b ++ go bs' end) bs
  | TCat ts => (fix go ts := match ts with [] => [[]] | t :: ts' =>
                   flat_map (fun a => map (fun b => a ++ b) (go ts')) (expand t) end) ts
  | TRep b lo hi =>
      let xs := expand b in
      let top := match hi with Some h => h | None => Nat.max lo cap end in
      flat_map (power xs) (seqn lo (S top - lo))
  end.
End Enum.

Definition arch_in (c : char) (a : arch) : bool :=
  match a with AChar d => N.eqb c d | ARange x y => N.leb x c && N.leb c y end.

Definition ci_eq (orbit : char -> list char) (c d : char) : bool :=
  N.eqb c d || existsb (N.eqb d) (orbit c).

(* ASCII-only orbit for the prototype *)
Definition orbit (c : char) : list char :=
  if (N.leb 65 c && N.leb c 90) then [c + 32] else if (N.leb 97 c && N.leb c 122) then [c - 32] else [].

Definition starts_sep (w : str) := match w with c :: _ => N.eqb c sep | [] => false end.
Definition ends_sep (w : str) := starts_sep (rev w).
Definition is_nil {A} (w : list A) := match w with [] => true | _ => false end.

(* does piece w match a tree wildcard at flat position (first,last) *)
Definition tree_piece (first last has_root : bool) (w : str) : bool :=
  let lead := (first && negb has_root) || starts_sep w || (last && negb (first && has_root) && is_nil w) in
  let trail := last || ends_sep w || (first && negb has_root && is_nil w) in
  lead && trail.

Fixpoint splits {A} (w : list A) : list (list A * list A) :=
  match w with [] => [([], [])] | c :: w' => ([], w) :: map (fun p => (c :: fst p, snd p)) (splits w') end.

Fixpoint lit_match (ci : bool) (s w : str) : option str :=
  match s, w with
  | [], _ => Some w
  | c :: s', d :: w' => if (if ci then ci_eq orbit c d else N.eqb c d) then lit_match ci s' w' else None
  | _ :: _, [] => None
  end.

Fixpoint flat_match (first : bool) (x : list leaf) (w : str) : bool :=
  match x with
  | [] => is_nil w
  | l :: x' =>
      let last := is_nil x' in
      match l with
      | LLit ci s => match lit_match ci s w with Some r => flat_match false x' r | None => false end
      | LSep => match w with c :: r => N.eqb c sep && flat_match false x' r | [] => false end
      | LOne => match w with c :: r => negb (N.eqb c sep) && flat_match false x' r | [] => false end
      | LClass neg a => match w with c :: r => negb (N.eqb c sep) && xorb neg (existsb (arch_in c) a) && flat_match false x' r | [] => false end
      | LZom => existsb (fun p => forallb (fun c => negb (N.eqb c sep)) (fst p) && flat_match false x' (snd p)) (splits w)
      | LTree hr => existsb (fun p => tree_piece first last hr (fst p) && flat_match false x' (snd p)) (splits w)
      end
  end.

Definition lang_b (cap : nat) (t : token) (p : str) : bool :=
  existsb (fun x => flat_match true x p) (expand cap t).

(* helpers to write examples *)
Definition L (s : str) := TLeaf (LLit false s).
Definition Li (s : str) := TLeaf (LLit true s).
Definition S_ := TLeaf LSep.
Definition Z := TLeaf LZom.
Definition T (r : bool) := TLeaf (LTree r).
Definition a := [97]. Definition b := [98]. Definition x := [120].
Definition sl := [47].

(* **/a *)
Definition g1 := TCat [T false; L a].
Eval vm_compute in map (lang_b 3 g1) [a; sl ++ a; x ++ sl ++ a; x ++ [10] ++ x ++ sl ++ a; x ++ a; sl ++ sl ++ a].
(* expect: true true true true false true *)
(* /**/a *)
Definition g2 := TCat [T true; L a].
Eval vm_compute in map (lang_b 3 g2) [sl ++ a; sl ++ x ++ a; sl ++ x ++ sl ++ a; a].
(* expect: true false true false *)
(* /** *)
Definition g3 := TCat [T true].
Eval vm_compute in map (lang_b 3 g3) [a; sl ++ a; []; sl].
(* expect: false true false true *)
(* <a:0,>{**/b} *)
Definition g4 := TCat [TRep (TCat [L a]) 0 None; TAlt [TCat [T false; L b]]].
Eval vm_compute in map (lang_b 3 g4) [b; sl ++ b; a ++ sl ++ b; a ++ b].
(* expect (spec): true true true false *)
(* <a/**/:2>  (trailing / absorbed; tree is last in body) *)
Definition g5 := TCat [TRep (TCat [L a; T true]) 2 (Some 2%nat)].
Eval vm_compute in map (lang_b 3 g5) [a ++ a; a ++ sl ++ a; a ++ sl ++ a ++ sl; a ++ sl ++ x ++ sl ++ a ++ sl ++ x].
(* expect (spec): false true true true *)
(* a/**/b *)
Definition g6 := TCat [L a; T true; L b].
Eval vm_compute in map (lang_b 3 g6) [a ++ sl ++ b; a ++ sl ++ x ++ sl ++ b; a; a ++ b; a ++ sl ++ sl ++ b].
(* expect: true true false false true *)
(* a/** *)
Definition g7 := TCat [L a; T true].
Eval vm_compute in map (lang_b 3 g7) [a; a ++ sl; a ++ sl ++ x; a ++ x].
(* expect: true true true false *)
