From Coq Require Import List NArith Bool Lia String.
Import ListNotations.
Open Scope string_scope. Open Scope list_scope.

Definition name := string.
Inductive node := F | D (kids : list (name * node)).
Definition path := list name.

Record entry := { epath : path; edir : bool }.

(* walkdir: stack of remaining sibling lists; top = most recently pushed directory *)
Definition frame := list (path * node).
Definition wd := list frame.

Fixpoint wd_next (fuel : nat) (st : wd) : option (entry * wd) :=
  match fuel with O => None | S fuel =>
  match st with
  | [] => None
  | [] :: rest => wd_next fuel rest
  | ((p, n) :: sibs) :: rest =>
      match n with
      | F => Some ({| epath := p; edir := false |}, sibs :: rest)
      | D kids => Some ({| epath := p; edir := true |},
                        map (fun k => (p ++ [fst k], snd k)) kids :: sibs :: rest)
      end
  end end.
Definition wd_skip (st : wd) : wd := tl st.

Inductive verdict := Keep | VFile | VTree.
Inductive tag := Filtrate | RNode | RTree.
Definition layer := entry -> verdict.

(* one layer's transition; returns new tag and whether it cancels. [buggy] = pinned code *)
Definition step_layer (buggy : bool) (v : verdict) (t : tag) : tag * bool :=
  match v, t with
  | Keep, _ => (t, false)
  | VFile, Filtrate => (RNode, false)
  | VFile, _ => (t, false)
  | VTree, Filtrate => (if buggy then RNode else RTree, true)
  | VTree, RNode => (RTree, true)
  | VTree, RTree => (RTree, false)
  end.

(* feed one entry through all layers; observation log = tag seen on entry to each layer *)
Fixpoint through (buggy : bool) (ls : list layer) (e : entry) (t : tag) (cancels : nat) : tag * nat * list tag :=
  match ls with
  | [] => (t, cancels, [])
  | l :: ls' =>
      let '(t', c) := step_layer buggy (l e) t in
      let '(tf, cf, log) := through buggy ls' e t' (if c then S cancels else cancels) in
      (tf, cf, t :: log)
  end.

Fixpoint run (buggy : bool) (fuel : nat) (ls : list layer) (st : wd) : list (entry * tag) :=
  match fuel with O => [] | S fuel' =>
  match wd_next fuel st with
  | None => []
  | Some (e, st') =>
      let '(t, c, _) := through buggy ls e Filtrate 0 in
      let st'' := if edir e then Nat.iter c wd_skip st' else st' in
      (e, t) :: run buggy fuel' ls st''
  end end.

(* specification: pruned pre-order *)
Definition final_tag (ls : list layer) (e : entry) : tag :=
  let '(t, _, _) := through false ls e Filtrate 0 in t.
Fixpoint spec (fuel : nat) (ls : list layer) (p : path) (n : node) : list (entry * tag) :=
  match fuel with O => [] | S fuel' =>
  match n with
  | F => let e := {| epath := p; edir := false |} in [(e, final_tag ls e)]
  | D kids => let e := {| epath := p; edir := true |} in
      let t := final_tag ls e in
      (e, t) :: match t with RTree => [] | _ => flat_map (fun k => spec fuel' ls (p ++ [fst k]) (snd k)) kids end
  end end.

Definition tree := D [("top.txt", F); ("z", D [("y.txt", F)]); ("a", D [("b", D [("c.txt", F)]); ("x.txt", F)])].
Definition notz : layer := fun e => match epath e with "z" :: _ => VTree | _ => Keep end.
Definition show (r : list (entry * tag)) := map (fun et => (epath (fst et), snd et)) r.
Definition yielded (r : list (entry * tag)) := map (fun et => epath (fst et)) (filter (fun et => match snd et with Filtrate => true | _ => false end) r).

Eval vm_compute in yielded (run true 100 [notz; notz] [[([], tree)]]).
Eval vm_compute in yielded (run false 100 [notz; notz] [[([], tree)]]).
Eval vm_compute in yielded (spec 100 [notz; notz] [] tree).
