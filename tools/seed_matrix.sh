#!/bin/bash
# seed_matrix.sh <check seeds...>  -- every seeded change against the quick check of its own property, for several generator seeds
# (applies each change to /repo and reverts it; do not run anything else that builds from /repo meanwhile)
cd /verif
echo $$ > /verif/.cache/matrix.pid
for d in seeded/C*; do
  s=$(basename $d); p=${s%-*}
  [ -n "$MATRIX_FROM" ] && [[ "$s" < "$MATRIX_FROM" ]] && continue
  (cd /repo && git apply /verif/$d/patch.diff) || { echo "$s patch does not apply"; continue; }
  line="$s"
  for sd in "$@"; do
    out=$(./check $p --tier quick --seed $sd 2>/dev/null | grep VIOLATION | head -1)
    if [ -z "$out" ]; then line="$line seed$sd=MISSED"; elif echo "$out" | grep -q no-failing-input-found; then line="$line seed$sd=tie"; else line="$line seed$sd=input"; fi
  done
  (cd /repo && git checkout -- .)
  echo "$line"
done
git -C /repo status --short | head -3
echo MATRIX-COMPLETE
