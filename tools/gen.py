# gen.py -- generators: glob expressions (structured, mostly valid; a malformed stream), candidate
# paths (sampled from the token tree of a glob, mutants, fixed short paths), S-expression reader for
# the canonical token tree rendering.  Every random choice comes from the rng that is passed in.
import random

LITS = ['a', 'b', 'A', 'B', 'ab', 'x', '.', '..', 'é', 'ǅ', 'ß', 'K', 'k', '1', 'a.b', 'x.txt', '-', 'a-b', 'ꙮ', ' ', 'i', '!']
ESC_LITS = ['\\*', '\\?', '\\[', '\\{', '\\,', '\\(', '\\)', '\\<', '\\:', '\\$', 'a\\*b']
CLASSES = ['[ab]', '[!a]', '[a-c]', '[a]', '[!ab]', '[A-Z]', '[a-a]', '[/]', '[a/]', '[!/]', '[\\-]', '[é]', '[a\\]]',
           '[+-0]', '[ -~]', '[#-z]', '[.-0]', '[!+-0]', '[!-9]', '[,-9a]',
           '[b-a]', '[---]', '[a-]', '[!]', '[]]', '[!b-a]', '[!z-a]', '[xb-a]', '[!xz-a/]']
BOUNDS = ['', ':', ':0,1', ':1', ':2', ':1,2', ':0,2', ':1,', ':0,', ':2,3', ':3', ':0,3', ':2,']
ODD_BOUNDS = [':0,0', ':2,1', ':0', ':65536', ':4294967296', ':18446744073709551616', ':1,18446744073709551615', ':4294967295,']
FLAGS = ['(?i)', '(?-i)', '(?i-i)', '(?-ii)']


class ExprGen:
    def __init__(self, rng, wild=0.06, maxdepth=3):
        self.rng = rng
        self.wild = wild          # probability of a deliberately odd choice
        self.maxdepth = maxdepth

    def flag(self):
        r = self.rng
        return r.choice(FLAGS) if r.random() < 0.12 else ''

    def atom(self, depth, prev_zom):
        """a non-boundary atom; returns (text, is_zom)"""
        r = self.rng
        x = r.random()
        if x < 0.38:
            return (r.choice(ESC_LITS) if r.random() < 0.08 else r.choice(LITS)), False
        if x < 0.48:
            return '?', False
        if x < 0.60:
            if prev_zom and r.random() > self.wild:
                return r.choice(LITS), False
            return r.choice(['*', '*', '$']), True
        if x < 0.72:
            return r.choice(CLASSES[:20] if r.random() > self.wild else CLASSES), False
        if depth >= self.maxdepth:
            return r.choice(LITS), False
        if x < 0.87:
            n = r.choice([1, 2, 2, 3])
            return '{' + ','.join(self.glob(depth + 1, sub=True) for _ in range(n)) + '}', False
        b = r.choice(BOUNDS) if r.random() > self.wild else r.choice(ODD_BOUNDS)
        return '<' + self.glob(depth + 1, sub=True) + b + '>', False

    def component(self, depth):
        r = self.rng
        n = r.choice([1, 1, 1, 2, 2, 3])
        out, prev = [], False
        for _ in range(n):
            t, z = self.atom(depth, prev)
            out.append(self.flag() + t)
            prev = z
        return ''.join(out)

    def glob(self, depth=0, sub=False):
        r = self.rng
        ncomp = r.choice([1, 1, 2, 2, 3]) if sub else r.choice([1, 2, 2, 3, 3, 4])
        parts = []
        # leading
        x = r.random()
        if sub:
            lead = '' if x < 0.75 else r.choice(['/', '**/', '/**/']) if x < 0.97 else '**'
        else:
            lead = '' if x < 0.6 else r.choice(['/', '**/', '/**/', '**/', '/'])
        parts.append(lead)
        for i in range(ncomp):
            if i > 0:
                x = r.random()
                parts.append('/' if x < 0.7 else '/**/' if x < 0.97 else r.choice(['//', '/**/**/', '**']))
            parts.append(self.component(depth))
        x = r.random()
        if x < 0.12:
            parts.append('/**')
        elif x < 0.16:
            parts.append('/')
        elif x < 0.18:
            parts.append(self.flag() or '(?i)')
        e = ''.join(parts)
        if not sub and r.random() < 0.05:
            e = r.choice(['**', '/**', '**/', '/**/', '/', '', '*', '?', '(?i)**', '**/*', '{**/a,b}', '</a:1,>', '<*/>', '<a/:1,>']) if r.random() < 0.5 else e
        return e


def malformed(rng):
    soup = '/?*$:<>()[]{},\\!-ai01é愛'
    x = rng.random()
    if x < 0.4:
        return ''.join(rng.choice(soup) for _ in range(rng.randint(1, 10)))
    g = ExprGen(rng, wild=0.3).glob()
    if x < 0.7 and g:
        i = rng.randrange(len(g))
        return g[:i] + rng.choice(soup) + g[i + rng.choice([0, 1]):]
    if x < 0.85 and g:
        return g[:rng.randrange(len(g) + 1)]
    return g + rng.choice(['(?i)', '\\', '(?', '{', '<', '[', '<a:', '愛\\愛', '(?i)愛\\x'])


# ---- token tree rendering (src/verif.rs) reader ------------------------------------------------------
def parse_sexp(text):
    toks = text.replace('(', ' ( ').replace(')', ' ) ').split()
    pos = 0

    def rd():
        nonlocal pos
        t = toks[pos]
        pos += 1
        if t == '(':
            l = []
            while toks[pos] != ')':
                l.append(rd())
            pos += 1
            return l
        return t
    return rd()


def unhex(s):
    return bytes.fromhex(s[1:]).decode('utf-8')


def tree_of(sx):
    """nested lists -> dict tree"""
    k = sx[0]
    if k == 'L':
        return {'k': 'L', 'ci': sx[1] == '1', 'text': unhex(sx[2]), 'span': (int(sx[3]), int(sx[4]))}
    if k == 'S':
        return {'k': 'S', 'span': (int(sx[1]), int(sx[2]))}
    if k == 'C':
        archs = []
        for a in sx[2]:
            if a[0] == 'c':
                archs.append((int(a[1:], 16),))
            else:
                lo, hi = a[1:].split('-')
                archs.append((int(lo, 16), int(hi, 16)))
        return {'k': 'C', 'neg': sx[1] == '1', 'archs': archs, 'span': (int(sx[3]), int(sx[4]))}
    if k == 'O':
        return {'k': 'O', 'span': (int(sx[1]), int(sx[2]))}
    if k == 'Z':
        return {'k': 'Z', 'lazy': sx[1] == '1', 'span': (int(sx[2]), int(sx[3]))}
    if k == 'T':
        return {'k': 'T', 'root': sx[1] == '1', 'span': (int(sx[2]), int(sx[3]))}
    if k in ('A', 'K'):
        return {'k': k, 'ch': [tree_of(c) for c in sx[1]], 'span': (int(sx[2]), int(sx[3]))}
    if k == 'R':
        return {'k': 'R', 'lo': int(sx[1]), 'hi': None if sx[2] == '-' else int(sx[2]), 'ch': [tree_of(sx[3])],
                'span': (int(sx[4]), int(sx[5]))}
    raise ValueError('bad tree ' + str(sx))


def read_tree(text):
    return tree_of(parse_sexp(text))


def tree_stats(t):
    """(nodes, depth, kinds)"""
    if 'ch' not in t:
        return 1, 0, {t['k']}
    n, d, ks = 1, 0, {t['k']}
    for c in t['ch']:
        a, b, k = tree_stats(c)
        n += a
        d = max(d, b + 1)
        ks |= k
    return n, d, ks


FILLER = ['x', 'y', 'a', 'A', 'é', 'xy', '.', 'b']


def sample_path(t, rng, first=True, last=True):
    """a string that probably matches the tree (not necessarily)"""
    k = t['k']
    if k == 'L':
        s = t['text']
        if t['ci'] and rng.random() < 0.5:
            s = ''.join(c.upper() if rng.random() < 0.5 else c.lower() for c in s)
        elif rng.random() < 0.04:
            s = s.swapcase()
        return s
    if k == 'S':
        return '/'
    if k == 'C':
        if not t['archs']:
            return ''
        if t['neg']:
            return rng.choice(['z', 'Z', '0', 'é', '/'])
        if rng.random() < 0.35 and any((len(a) == 1 and a[0] == 47) or (len(a) == 2 and min(a) <= 47 <= max(a)) for a in t['archs']):
            return '/'      # a class never matches the separator, also when a range spans it
        a = rng.choice(t['archs'])
        c = a[0] if len(a) == 1 else rng.randint(min(a), max(a[0], a[1])) if a[0] <= a[1] else a[0]
        try:
            s = chr(c)
            s.encode('utf-8')
        except (ValueError, UnicodeEncodeError):
            s = 'a'
        if rng.random() < 0.06:
            s = s.swapcase()
        return s
    if k == 'O':
        return rng.choice(FILLER[:5] + ['\n'])[:1]
    if k == 'Z':
        return rng.choice(['', '', 'x', 'xy', 'a.b', 'é', 'x\ny'])
    if k == 'T':
        mid = rng.choice(['', 'x', 'x/y', 'x\ny', 'é/a', 'a'])
        lead = '/' if (t['root'] or not first) else ''
        if rng.random() < 0.08:
            lead = '' if lead else '/'
        trail = '' if last else '/'
        if not mid:
            return lead if lead else (trail if rng.random() < 0.3 else '')
        if rng.random() < 0.08:
            trail = '' if trail else '/'
        return lead + mid + trail
    if k == 'A':
        return sample_path(rng.choice(t['ch']), rng, first, last)
    if k == 'K':
        n = len(t['ch'])
        return ''.join(sample_path(c, rng, first and i == 0, last and i == n - 1) for i, c in enumerate(t['ch']))
    if k == 'R':
        lo, hi = t['lo'], t['hi']
        if hi is not None and hi < lo:
            lo, hi = hi, lo
        top = min(hi if hi is not None else lo + 2, lo + 3, 6)
        lo = min(lo, 6)
        n = rng.randint(lo, max(lo, top))
        return ''.join(sample_path(t['ch'][0], rng, first and i == 0, last and i == n - 1) for i in range(n))
    return ''


def mutate(p, rng):
    alpha = list(set(p) | set('/ab\nA.x'))
    x = rng.random()
    if not p or x < 0.3:
        i = rng.randrange(len(p) + 1)
        return p[:i] + rng.choice(alpha) + p[i:]
    i = rng.randrange(len(p))
    if x < 0.6:
        return p[:i] + p[i + 1:]
    if x < 0.85:
        return p[:i] + rng.choice(alpha) + p[i + 1:]
    return p[:i] + p[i:i + 1].swapcase() + p[i + 1:]


FIXED_PATHS = ['', '/', 'a', 'a/', '/a', 'a/b', '/a/b', 'a//b', 'b', 'A', 'x/a', 'a/x', 'x\ny/a', 'xa', '/xa', 'a/b/c', '.', '..', 'a/..']


def paths_for(tree, rng, n=14, m=12):
    ps = []
    seen = set()

    def add(p):
        if p not in seen and len(p.encode('utf-8')) < 200:
            seen.add(p)
            ps.append(p)
    for _ in range(n):
        add(sample_path(tree, rng))
    base = list(ps) or ['a']
    for _ in range(m):
        add(mutate(rng.choice(base), rng))
    for p in rng.sample(FIXED_PATHS, 8):
        add(p)
    return ps


def canonical(p):
    """no empty component except that the path may start with one `/` (DESIGN 5.1)"""
    if p in ('', '/'):
        return True
    q = p[1:] if p.startswith('/') else p
    return all(c != '' for c in q.split('/'))


def ncomp(p):
    return len([c for c in p.split('/') if c != ''])
