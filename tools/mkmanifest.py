#!/usr/bin/env python3
# mkmanifest.py -- writes /verif/MANIFEST.json from the table below (keeps it valid and in one place).
import json, os, subprocess

VERIF = os.path.dirname(os.path.dirname(os.path.abspath(__file__)))

BASE = ("Trusted base: Coq 8.16.1 kernel (coqc; vm_compute only for witnesses / finite tables, no native_compute); no axioms "
        "(Print Assumptions of every property theorem: Closed under the global context; hygiene grep for Admitted/Axiom/Parameter/...); "
        "the hand-written Gallina model of the Rust code (coq/theories) - the Rust code is modelled, not verified; the tie is checked on every run by "
        "running the OCaml extraction of the model (ExtrOcamlBasic only) and the implementation (harness crate, path=/repo, --cfg olson_sean_k_wax_verif) "
        "on the same generated inputs and by comparing tables dumped from the built code over all code points; OCaml driver, Rust harness, Python "
        "orchestrator; regex crate engine modelled by language semantics; walkdir / std::fs / std::path modelled; platform: Linux cfg only.")

TECH = "Coq proof about an executable Gallina model + extraction-based differential correspondence with the code + spec oracle on the implementation"

CHECKS = {
    'C01': "Proved (all inputs): C01_conformance - for every token tree with valid class ranges and ordered bounds in the decidable class trees_exact, the program the "
           "encoder emits matches a text iff the text is in the documented language Lang (expansions + flat-position semantics, stated without regexes); C01_built_globs_conform - the hypotheses are discharged for every glob that builds outside the three known classes, whose predicates are exactly the complement of the class (C01_class_of_conformance_is_the_complement_of_the_known_classes); per-leaf "
           "statements (`?`, `*`/`$`, classes independent of the case-folding relation, lone tree wildcard = every text incl. newline). Tie: token tree, regex text, "
           "is_match vs the extracted model engine, which is itself proved to decide the language sem (C01_model_engine_decides_the_language: sound, fuel adequate), so the differential test validates sem against the regex crate. Oracle: is_match vs the executable Spec.spec_match, proved to decide Lang for every tree and text (C01_oracle_decides_the_documented_language; C01_executables_agree); outside trees_exact only the three named known classes are tolerated.",
    'C04': "Proved (all globs, all paths, every parse the engine can end with): C04_captures_are_a_consistent_assignment - the path splits into one text per top-level "
           "token, each matched by its own token; a capturing token other than a tree wildcard recorded exactly its text in its own group, a tree wildcard nothing or a "
           "span inside its text; groups numbered in token order (ordered, disjoint; one group per capturing token, none for nested tokens; wildcard groups "
           "separator-free). The statement is for any final continuation, so it covers the leftmost-first parse and the parse the regex crate picks (it lifts common "
           "alternation prefixes); the tie accepts a differing assignment only if the model engine finds a parse with exactly it. Tie: captures() and every capture "
           "span (borrowed/owned, indices 0..n+1) vs the model engine. Oracle: ordering, disjointness, separator-freeness, complete components, re-match of each "
           "capture by its own sub-expression.",
    'C05': "Proved (all strings / all token trees): the parser model never takes its out-of-fuel exit (C05_parser_never_out_of_fuel: every token consumes a character, "
           "nesting costs four units of fuel per character), so the model of Glob::new is total; the variance algebra is closed - no unreachable!()/expect site is "
           "reachable, the depth / size / text / exhaustiveness queries and the rule checker can only fail by a checked-arithmetic overflow "
           "(C05_queries_panic_only_by_overflow), and a build can only panic there or in the regex compiler (C05_build_panic_sites) - exactly the two known classes; "
           "partition() of a built glob can only fail by checked overflow (C05_partition_panics_only_by_overflow); combinators of built globs are total. "
           "Model has explicit Panic outcomes and an exact model of the regex nest limit; tie: outcome of every build on a malformed/huge stream vs the model; "
           "oracle: no panic outside the known classes (and only where the model predicts it), compile errors only for large bounds. Partial: stack exhaustion / "
           "memory are outside any Gallina model.",
    'C06': "Proved: a glob that builds has ordered, non-degenerate bounds and no adjacent boundaries at every node (the level-order enumeration is proved to reach "
           "every descendant; the fuel of both breadth-first traversals of the rule checker is proved adequate for every tree); no concatenation the parser produces holds two adjacent zero-or-more wildcards; and the boundary rule over expansions is sound for every glob without repetitions, however the alternations nest (C06_built_globs_without_repetitions_have_no_adjacent_boundaries: the breadth-first branch check characterised declaratively - every reachable item is processed without error - and an induction that carries the inherited outer context through nested alternations; parsed trees have the shape the branch rules assume; the same for adjacent zero-or-more wildcards: C06_built_globs_without_repetitions_have_no_adjacent_zero_or_more_wildcards; and with repetitions that are written out at least once and whose bodies begin and end with a leaf: C06_built_globs_with_required_repetitions_have_no_adjacent_boundaries / _zero_or_more_wildcards - consecutive copies meet at the leaf terminals check_repetition compared; the complement is the known class wraparound_nested_edge and the optional repetitions); and the other direction for the boundary rule - no false rejection: an AdjacentBoundary verdict on an expression without repetitions always has a witness expansion (C06_adjacent_boundary_verdicts_have_a_witness: every item the branch check reaches is embedded between real neighbours; C06_adjacent_zero_or_more_verdicts_have_a_witness likewise). Tie: Ok/Err + rule kind vs the model "
           "of the repaired checker. Oracle: Glob::new(e).is_ok() <=> an independent re-statement of the documented rules over expansions of the parse tree (two named "
           "known classes).",
    'C07': "Proved (all inputs): at the level of the documented language an alternation is the union of its branches and a repetition is its body written out a "
           "permitted number of times, also in place inside any surrounding concatenation (C07_alternation_composes_in_place, C07_repetition_composes_in_place); "
           "the program of a combinator matches exactly the union of its patterns' programs; the tree `any` builds has as documented language exactly the union of the languages of its patterns (C07_combinator_language_is_the_union) and `any` of built globs never fails; alternation of programs is union; grouping mode is "
           "irrelevant to the language. Tie: any() tree/program/is_match. Oracle: substitution / unrolling / wrapping families compared on the implementation.",
    'C08': "Proved (all built globs x all texts): the partition equation at the level of the documented language (C08_partition_preserves_the_language: the texts of the "
           "glob are the invariant prefix followed by the texts of the postfix; a tree wildcard after the prefix gives up its separator; the prefix may be any run of "
           "tokens with invariant text; C08_partition_without_prefix for globs without prefix or beginning with a rooted tree wildcard) and idempotence "
           "(C08_partition_is_idempotent: partitioned again, the postfix yields an empty prefix and itself, outside the known class rooted_repetition); the capture spans of the postfix lie in the displayed suffix on character boundaries (C08_postfix_capture_spans_are_relative_to_the_suffix); for every glob that builds and has no repetition the postfix is never rooted (C08_postfix_is_never_rooted, through the rule-checker theorem of C06 over expansions) and idempotence holds without side condition; the same with repetitions written out at least once whose bodies begin and end with a leaf, when the starting chain of the glob holds no repetition (C08_postfix_is_never_rooted_with_required_repetitions, C08_partition_is_idempotent_with_required_repetitions). "
           "Proved: partitioning a built glob is total up to checked overflow (C08_partition_is_total_up_to_overflow: the top-level tokens tile the expression, so the "
           "popped bytes end where a token begins and an unrooted tree wildcard skips one ASCII character; the postfix always re-annotates); the display-suffix "
           "arithmetic (dropping the popped bytes leaves the suffix on a character boundary). Tie: every observable of partition() vs the model. "
           "Oracle: glob matches p <=> prefix joined with a remainder the postfix matches; postfix unrooted; re-partition identity; rebuild of the displayed postfix.",
    'C09': "Proved (partial, stated as such): soundness on the class of patterns all of whose expansions end in a tree wildcard; and the verdict itself for every flat "
           "rule-checked pattern not ending in a separator (C09_flat_always_sound: an Always verdict of the model of the pinned code means the last tree wildcard is "
           "followed by `*` components only - C09_always_means_open_tail - and then everything beneath a matched path is matched; C09_built_flat_globs_always_sound: for flat globs that build the rule and parser side conditions are discharged); and for every glob that builds and has no repetition, however the alternations nest (C09_built_globs_without_repetitions_always_sound: every expansion is covered by a member of the term of the exhaustiveness fold, an unbounded member means a tree wildcard followed by separators and `*` only, the rule-checker theorems of C06 over expansions make that tail `*`, `*/*`, ...; excluded: the known class trailing_boundary); and with repetitions that are written out at least once and are bounded above or hold a bounded token (C09_built_globs_with_required_repetitions_always_sound: `<a:1,2>/**`, `<a/:1,>*/**/*`; upper bounds survive conjunction, finalisation and products by ranges bounded above; per expansion that respects the two adjacency rules; C09_built_globs_with_required_repetitions_always_sound_unconditionally discharges them by C06 with repetitions when the bodies begin and end with a leaf; C09_built_globs_with_plain_repetitions_always_sound: also optional repetitions that are bounded above with a body that holds no tree wildcard - their term has no unbounded member, C09_terms_of_tree_free_tokens_promise_nothing - which narrows the known class optional_repetition to repetitions whose own term is unbounded); C09_contiguous_terms_reach_the_next_depth: the arithmetic of the repaired multiplication rule (13th repair). Tie: is_exhaustive() and the negation's "
           "exhaustive/non-exhaustive partition vs the model of the repaired sequencer. Oracle: for every Always verdict, descendants of matched canonical paths are matched.",
    'C10': "Proved (partial, stated as such; all patterns of the class x all canonical paths): every pattern without repetitions - alternations, concatenations, leaves "
           "and tree wildcards at any nesting - reports a depth variance that contains the component count of every matched canonical path "
           "(C10_patterns_without_repetitions_sound / C10_built_globs_without_repetitions_sound_unconditionally, where adjacency is discharged by the rule-checker theorem of C06, and C10_built_globs_without_repetitions_sound_for_paths_rooted_like_the_glob, where the path is rooted exactly when has_root says Always: terms are sound summaries of flat sequences, summaries compose under "
           "conjunction whatever the grouping, the disjunction covers its operands; the matching expansion has no adjacent boundaries; the known class closed_variant_finalize "
           "is excluded by its predicate); every flat glob that builds, with or without tree wildcards (C10_built_flat_globs_sound, C10_flat_with_tree_wildcards_sound, "
           "C10_flat_sound: exact depth without tree wildcards, a sound lower bound with them); and with repetitions that are written out at least once and whose body has a single depth term (C10_patterns_with_simple_repetitions_sound: ranges instead of exact counts; C10_conjunction_sound, C10_product_sound for arbitrary ranges; C10_built_globs_with_simple_repetitions_sound_unconditionally: adjacency discharged by C06 with repetitions when the bodies begin and end with a leaf; C10_built_globs_with_simple_repetitions_sound_for_paths_rooted_like_the_glob: rootedness stated through has_root for globs that start plainly). Optional repetitions and bodies with several terms: the general statement is in the file as C10_full. Tie: depth() exact variance vs the model of the whole algebra "
           "(conjunction table, disjunction over hash sets, products, finalize). Oracle: component count of every matched canonical path within the reported variance.",
    'C11': "Proved (all token trees, combinators included): C11_one_and_only - if the pattern reports invariant text, its documented language is exactly that text: no "
           "other text belongs to it (C11_unique; hypothesis on the two tables: a caseless character only folds to itself; validated over all code points on every "
           "run) and the text does (C11_matched; for trees in which no class lists the separator - the known class separator_class); two different texts => variant; "
           "for every glob that builds the side condition on the tree is discharged (C11_built_globs_one_and_only: the parser never produces an empty branch, the rule "
           "checker rejects the bounds 0,0). "
           "Tie: text() vs the model. Oracle: invariant text is matched (absent separator classes) and is the only matched path, incl. its case variants.",
    'C12': "Proved (all token trees, combinators included): has_root = Always => every path of the documented language begins with a separator "
           "(C12_built_root_sound: for every glob that builds, without side condition); a glob that builds and has no repetition never reports Sometimes (C12_built_globs_without_repetitions_are_never_sometimes_rooted: the RootedSubGlob rule reaches nested branches through the inherited context; C12_built_globs_that_start_plainly_are_never_sometimes_rooted: the same whenever the starting chain of the tree holds no repetition, or the expression begins with a repetition whose body begins with a leaf); "
           "C12_semantic_literals_found - the breadth-first literal search reaches every component at every nesting depth (fuel proved adequate), so a component spelled "
           "`.` or `..` anywhere makes has_semantic_literals true. Tie: has_root(), "
           "has_semantic_literals(). Oracle: matched paths of always-rooted patterns; globs never Sometimes (one known class); `.`/`..` components at any depth.",
    'C17': "Proved (all strings): every span of the token tree of an expression that parses, every capture span, every location of a parse error and the span of every "
           "rule error delimit whole characters of the expression (within bounds, on character boundaries) - by induction over the fuelled model of the nom grammar and "
           "the breadth-first rule checker; after partition the capture spans of the postfix lie in the displayed suffix (C17_postfix_capture_spans_lie_in_the_suffix). Tie: every error and capture span vs the span-annotated parser model. "
           "Oracle: bounds and character boundaries of every span, capture slices re-parse to the captured token kind, also after partition.",
    'C18': "Proved end to end in the model of the build pipeline (all strings): C18_escape_builds_a_glob_for_exactly_the_text - for every string without backslash, "
           "without two adjacent separators and shorter than the invariant size limit, build(escape s) is a glob (it parses into literals and separators that spell s - "
           "parser fuel proved adequate -, passes every rule, compiles), its text is invariant and equal to s, and its program matches s and no other text, whatever "
           "the case-folding table; every parser-special character except `/` `\\` is a meta-character; identity on meta-free strings. Tie: escape() and the three "
           "character tables over all 1,114,112 code points; tree / program of Glob::new(escape(s)). Oracle: Glob::new(escape(s)) text/match/mutants.",
    'C19': "Proved: fold_map with the identity returns the same tree (bounds survive NaturalRange). Tie: tree/program vs model. Oracle: all conversion routes give identical "
           "observables (tree, program, queries, matches, capture spans borrowed/owned).",
    'C02': "Proved (all trees with valid names, all token trees with separator-free literals - proved of every tree the parser produces - any engine that decides the "
           "regular languages): C02_walk_of_a_glob_yields_exactly_its_matches - the machine with the glob layer built from the encoder's complete program and component "
           "programs yields exactly the entries the complete program matches, in pre-order, each once. Pruning soundness of the component programs is a theorem "
           "(C02_component_programs_prune_soundly), no longer a hypothesis; for globs with an invariant prefix the walk of the sub-directory yields exactly the matching entries of the whole tree below the prefix (C02_prefixed_glob_walk_yields_exactly_its_matches: lookup, prefix splitting and the starting directory are in the model); for a glob that builds outside the three known classes of C01 the yielded entries are exactly those whose path is in the documented language (C02_walk_of_a_built_glob_yields_its_documented_language); table hypothesis (case folding never relates `/`) checked over all code points on every run. "
           "Tie: token tree, complete program and component programs of every walked glob, and the item sequences of real "
           "walks over generated on-disk trees vs the model's run on the independently read tree. Oracle: independent read-back filtered by is_match.",
    'C03': "Proved (all trees with valid names, underlying stacks, depth windows): C03_not_is_a_filter_for_tree_terminated_negations - when the exhaustive part of the "
           "negation is a token tree every expansion of which ends in a tree wildcard (class of the conformance theorem, e.g. `**/target/**`), run by any engine that "
           "decides its language, and the negation does not match the empty path, not() yields exactly the entries of the underlying walk that the negation does not "
           "match: the promise of the exhaustive verdict is discharged by the C09 theorem through conformance. For arbitrary programs the statement is proved given "
           "that promise (C03_not_is_a_filter); per-entry characterisation of the filtrate. C03_negation_of_flat_patterns_is_a_filter: for negations every alternative of "
           "which is a flat rule-checked pattern (`**/target/**`, `*.md`, `src/**/*.tmp`, any() of such) the two partition programs together decide exactly the "
           "documented language of the pattern and not() is the per-entry filter, with the exhaustiveness promise proved rather than assumed; the same for a negated glob that builds, has no repetition and is not an alternation at its top (`**/{.git,node_modules}/**`: C03_negation_of_a_built_glob_without_repetitions_is_a_filter, through C09 for such globs), and in general whenever the verdicts of the alternatives are sound (C03_negation_is_a_filter_when_the_verdicts_of_its_alternatives_are_sound); every negated glob that builds, has no repetition and cannot end with a separator, whatever its shape, and every combinator of such globs (C03_negation_of_any_built_glob_without_repetitions_is_a_filter, C03_negation_of_a_combinator_of_built_globs_without_repetitions_is_a_filter: the alternatives inherit what the rule checker guarantees of the whole); and with repetitions that are required, bounded above or holding a bounded token, with leaf-terminal bodies (C03_negation_of_any_built_glob_with_required_repetitions_is_a_filter, through C09 and C06 with repetitions). Tie: partition programs and item sequences. "
           "Oracle: walk.not(p) vs the underlying walk filtered entry by entry with is_match.",
    'C13': "Proved: the combinator stack machine (walkdir stack + layers with residue transitions) refines the pruned pre-order specification for all trees and stacks. "
           "Tie: full feed sequences observed by a pass-through filter_entry. Oracle: nothing beneath a discarded directory is fed downstream; no sibling is lost.",
    'C14': "Proved: path arithmetic of entries on normalised component lists. Tie: the five accessors of every yielded entry. Oracle: join(root, relative) = path, depth = components.",
    'C15': "Proved: every produced entry lies in the depth window; for glob walks with a prefix the starting directory, the prefix components and the window at the pivot are part of the model and every entry's depth from the directory given lies in the configured window (C15_glob_walk_in_window; upper bound when the window reaches the pivot - known class max_below_prefix). Tie/Oracle: windows also handed over as (max, min); all (min,max) pairs x both link behaviours on trees with links vs independent traversal.",
    'C16': "Proved: corollaries of the refinement: permutation invariance of yields, monotone tags, observe-once. Tie/Oracle: all permutations of generated stacks.",
    'C20': "Proved: error items pass every layer unchanged and in place (model); the entries of a walk over a tree with faults are item for item the walk of the healed tree (C20_entries_are_the_fault_free_walk), which has no error item. Tie/Oracle: trees with unreadable directories / dangling / re-entrant links vs the model "
           "and vs a fault-free walk of the readable part. Partial: the OS/walkdir fault behaviour is trusted.",
}


def main():
    pending = {}      # property -> reason, for checks that are not registered yet
    path = os.path.join(VERIF, 'tools', 'pending.json')
    if os.path.exists(path):
        pending = json.load(open(path))
    checks, na = [], []
    for i in range(1, 21):
        pid = 'C%02d' % i
        if pid in pending:
            na.append({'property_id': pid, 'reason': pending[pid]})
            continue
        checks.append({
            'property_id': pid,
            'quick_cmd': './check %s --tier quick' % pid,
            'thorough_cmd': './check %s --tier thorough' % pid,
            'evidence_file': '/verif/evidence/%s.json' % pid,
            'replay_cmd_template': './check %s --replay {path}' % pid,
            'engine': 'coq-proof+correspondence',
            'level_claimed': {'category': 'proof', 'text': CHECKS[pid], 'design_ref': 'DESIGN.md section 6 (%s) and section 11' % pid},
            'level_note': BASE,
            'technique': TECH,
        })
    hooks = subprocess.run(['git', '-C', '/repo', 'log', '--format=%h %s'], stdout=subprocess.PIPE).stdout.decode().split('\n')
    hook_commits = [l.split(' ')[0] for l in hooks if 'verif hook' in l]
    m = {
        'version': 1,
        'setup_cmd': './setup.sh',
        'hooks': {
            'guard': 'olson_sean_k_wax_verif',
            'enable': 'RUSTFLAGS="--cfg olson_sean_k_wax_verif" cargo build --release --offline in /verif/harness (wax = { path = "/repo" })',
            'baseline_off_cmd': 'cd /repo && cargo test --workspace --no-fail-fast --offline',
            'source_commits': hook_commits,
            'add_only': True,
        },
        'engines': [{
            'name': 'coq-proof+correspondence',
            'path': '/verif/coq (model, proofs, property theorems), /verif/ocaml (extraction driver), /verif/harness (Rust probe), /verif/tools (orchestrator)',
            'serves_properties': [c['property_id'] for c in checks],
            'kind_free_text': 'machine-checked proof in Coq 8.16.1 about a hand-written executable Gallina model of the code; the model is tied to /repo on every run by '
                              'running its OCaml extraction and the implementation on the same inputs (differential correspondence) and by tables regenerated from the built code',
        }],
        'checks': checks,
        'not_applicable': na,
        'notes': 'DESIGN.md describes the approach; KNOWN_FINDINGS.txt lists recorded findings (by class + witness) and fix: commits; seeded/ holds the validated seeded changes.',
    }
    json.dump(m, open(os.path.join(VERIF, 'MANIFEST.json'), 'w'), indent=1)
    print('MANIFEST.json: %d checks, %d not registered' % (len(checks), len(na)))


if __name__ == '__main__':
    main()
