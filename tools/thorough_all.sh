#!/bin/bash
# thorough_all.sh -- setup, then the thorough tier of every check once; prints VIOLATION lines and timings
cd "$(dirname "$0")/.."
./setup.sh >/dev/null 2>&1 || { echo "setup failed"; exit 2; }
for i in $(seq -w 1 20); do
  s=$(date +%s)
  out=$(./check C$i --tier thorough 2>/dev/null | grep VIOLATION | head -3)
  echo "C$i thorough $(( $(date +%s) - s ))s ${out:-clean}"
done
echo THOROUGH-COMPLETE
