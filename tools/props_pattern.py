# props_pattern.py -- tie and oracle of the properties about patterns (no file system):
# C01 C04 C05 C06 C07 C08 C09 C10 C11 C12 C17 C18 C19.
import json, os, random, re
import waxlib as W
import gen as G

hx = W.hx


def load_corpus(name):
    path = os.path.join(W.VERIF, 'corpus', name)
    out = []
    if os.path.exists(path):
        for line in open(path, encoding='utf-8'):
            line = line.rstrip('\n')
            if line.startswith('#'):
                continue
            out.append(json.loads(line) if line.startswith(('"', '[', '{')) else line)
    return out


def sizes(tier, quick, thorough):
    return thorough if tier == 'thorough' else quick


# ---- shared stages --------------------------------------------------------------------------------------
class Item:
    __slots__ = ('e', 'impl', 'model', 'ihead', 'if_', 'mhead', 'mf', 'tree', 'paths', 'imm', 'mmm', 'lang', 'cls')

    def __init__(self, e):
        self.e = e
        self.tree = None
        self.paths = []
        self.imm = self.mmm = self.lang = None
        self.cls = {}


def gen_exprs(rng, n, wild=0.06):
    g = G.ExprGen(rng, wild=wild)
    seen, out = set(), []
    for e in load_corpus('exprs.jsonl'):
        if e not in seen:
            seen.add(e)
            out.append(e)
    tries = 0
    while len(out) < n and tries < 20 * n:
        tries += 1
        e = g.glob()
        if e not in seen and len(e) < 120:
            seen.add(e)
            out.append(e)
    return out


def stage_globs(exprs):
    cmds = ['glob ' + hx(e) for e in exprs]
    impl = W.run_impl(cmds)
    model = W.run_model(cmds)
    items = []
    for e, i, m in zip(exprs, impl, model):
        it = Item(e)
        it.impl, it.model = i, m
        it.ihead, it.if_ = W.fields(i)
        it.mhead, it.mf = W.fields(m)
        if it.ihead == 'ok' and it.if_.get('tree', '!') != '!':
            try:
                it.tree = G.read_tree(it.if_['tree'])
            except Exception:
                it.tree = None
        items.append(it)
    return items


def stage_match(items, rng, npaths=(14, 12)):
    built = [it for it in items if it.ihead == 'ok' and it.tree is not None]
    cmds, lcmds = [], []
    for it in built:
        it.paths = G.paths_for(it.tree, rng, *npaths)
        args = ' '.join(hx(p) for p in it.paths)
        cmds.append('mm %s %s' % (hx(it.e), args))
        lcmds.append('lang %s %s' % (hx(it.e), args))
    impl = W.run_impl(cmds)
    model = W.run_model(cmds)
    lang = W.run_model(lcmds)
    for it, i, m, l in zip(built, impl, model, lang):
        it.imm = i.split('|') if i not in ('panic', 'err', 'crashed', 'missing') else None
        it.mmm = m.split('|') if m not in ('panic', 'err', 'crashed', 'missing', 'model-out-of-fuel', 'model-timeout', 'model-stack-overflow') else None
        parts = l.split('\t')
        if len(parts) == 2 and parts[1] != 'skip':
            it.cls = dict(kv.split('=') for kv in parts[0].split())
            it.lang = parts[1].split('|')
        elif len(parts) == 2:
            it.cls = dict(kv.split('=') for kv in parts[0].split())
    # the classes of a tree must not depend on the budget of the matcher: where the `lang` command ran out of time, ask for them alone
    late = [it for it in built if not it.cls]
    if late:
        for it, c in zip(late, W.run_model(['cls %s' % hx(it.e) for it in late])):
            if '=' in c and '\t' not in c:
                it.cls = dict(kv.split('=') for kv in c.split())
    return built


def has_big_bound(e):
    return any(int(d) >= 256 for d in re.findall(r'\d+', e))


def bit(r):
    return r[:1]


def tie_fields(res, items, names, what):
    """the named fields of the `glob` report must agree between implementation and model"""
    bad = []
    for it in items:
        if it.ihead == 'cerr' and it.mhead == 'ok' and has_big_bound(it.e):
            continue      # the size of the compiled program is not modelled (see C05)
        if it.ihead != it.mhead and not (it.ihead.split(' ')[0] == it.mhead.split(' ')[0] and 'head' not in names):
            res.tie_fail('%s: build outcome differs' % what, {'glob': it.e, 'impl': it.impl[:300], 'model': it.model[:300]})
            bad.append(it)
            continue
        if it.ihead != 'ok':
            continue
        for n in names:
            if n == 'head':
                continue
            if it.if_.get(n) != it.mf.get(n):
                res.tie_fail('%s: field %s differs' % (what, n),
                             {'glob': it.e, 'field': n, 'impl': it.if_.get(n), 'model': it.mf.get(n)})
                bad.append(it)
                break
    return bad


def note_shapes(res, items):
    for it in items:
        res.count('outcome:' + it.ihead.split(' ')[0])
        if it.tree is not None:
            n, d, ks = G.tree_stats(it.tree)
            res.count('nodes:%s' % ('1-4' if n <= 4 else '5-9' if n <= 9 else '10-19' if n <= 19 else '20+'))
            res.count('depth:%d' % min(d, 6))
            for k in ks:
                res.count('kind:' + k)


def known_line(res, kf, still_fails, detail):
    if still_fails:
        print('KNOWN-FINDING: property=%s class=%s %s' % (res.pid, kf['class'], detail), flush=True)
        res.known_hits[kf['class']] = res.known_hits.get(kf['class'], 0)
    else:
        res.notes.append('known finding %s no longer reproduces on its witness' % kf['class'])


# ---- C01 ----------------------------------------------------------------------------------------------------
def c01_known_class(it):
    if it.cls.get('exact') == '1' and it.cls.get('revrange') != '1':
        return None        # inside the class of C01_conformance: a disagreement there is never a known finding
    if it.cls.get('rft') == '1':
        return 'rooted_first_tree'
    if it.cls.get('stable') == '0':
        return 'unstable_tree_position'
    if it.cls.get('revrange') == '1':
        return 'reversed_class_range'
    return None


def biased_exprs(rng, n, bias, seeds=()):
    g = G.ExprGen(rng, wild=0.03, maxdepth=4 if bias == 'deep' else 3)
    if bias == 'flags':
        g.flag = lambda: rng.choice(['(?i)', '(?-i)', '(?i)', '(?-i)', ''])
    out, seen = [], set()
    pool = {'flags': ['a', 'b', 'A', 'B', 'ab', 'k', 'K', 'x'], 'trees': None, 'classes': None, 'deep': None}[bias]
    tries = 0
    while len(out) < n and tries < 30 * n:
        tries += 1
        if bias == 'flags':
            parts = []
            for _ in range(rng.randint(2, 5)):
                x = rng.random()
                lit = rng.choice(pool)
                a = lit if x < 0.45 else '{%s,%s}' % (g.flag() + rng.choice(pool), g.flag() + rng.choice(pool)) if x < 0.7 else \
                    '<%s%s:1,2>' % (g.flag(), rng.choice(pool)) if x < 0.85 else rng.choice(['[ab]', '?', '*', '/'])
                parts.append(g.flag() + a)
            e = ''.join(parts)
        elif bias == 'trees':
            e = g.glob()
            if '**' not in e:
                continue
        elif bias == 'classes':
            e = g.glob()
            if '[' not in e:
                continue
        else:
            e = g.glob()
            if e.count('{') + e.count('<') < 2:
                continue
        if seeds and rng.random() < 0.2:
            sd = rng.choice(seeds)
            e = rng.choice([sd + e, e + sd, sd])
        if e not in seen and len(e) < 120:
            seen.add(e)
            out.append(e)
    return out


def c01_round(res, rng, exprs, kfs, tie=True):
    items = stage_globs(exprs)
    if tie:
        note_shapes(res, items)
        tie_fields(res, items, ['head', 'tree', 're'], 'C01 encoder')
    built = stage_match(items, rng)
    for it in built:
        if it.imm is None:
            continue
        for p, r in zip(it.paths, it.imm):
            res.evaluations += 1
            res.nontrivial.add((it.e, p))
        res.count('matches', sum(1 for r in it.imm if bit(r) == '1'))
        res.count('rejects', sum(1 for r in it.imm if bit(r) == '0'))
        if it.mmm is not None and tie:
            for p, a, b in zip(it.paths, it.imm, it.mmm):
                if bit(a) != bit(b):
                    res.tie_fail('C01 is_match differs from the model regex', {'glob': it.e, 'path': p, 'impl': a, 'model': b})
                    break
        if it.lang is None:
            res.count('spec-skipped')
            continue
        cls = c01_known_class(it)
        for p, a, s in zip(it.paths, it.imm, it.lang):
            if bit(a) != s:
                if cls and cls in kfs:
                    res.known_hits[cls] = res.known_hits.get(cls, 0) + 1
                else:
                    res.oracle_fail('is_match disagrees with the documented language',
                                    {'glob': it.e, 'path': p, 'impl_is_match': bit(a), 'spec': s, 'class': cls})
                break
        res.sample({'glob': it.e, 'paths': it.paths[:4], 'impl': [bit(r) for r in it.imm[:4]]})


def c01(res, rng, tier, replay=None):
    n = sizes(tier, 1200, 20000)
    res.rule = ('structured random glob expressions (ExprGen: literals incl. non-ASCII and case pairs, escapes, classes, '
                '? * $, alternations, repetitions with bounds, tree wildcards in every position, flags at gaps; '
                'corpus/exprs.jsonl first) x per-glob paths sampled from the token tree, one-edit mutants and fixed short paths; '
                'non-trivial = distinct (glob, path) pairs of globs that build; tie: token tree, regex text, is_match; '
                'oracle: is_match of the implementation vs Spec.spec_match (documented language)')
    if replay:
        c = replay['case']
        out = W.run_impl(['mm %s %s' % (hx(c['glob']), hx(c['path']))])
        spec = W.run_model(['lang %s %s' % (hx(c['glob']), hx(c['path']))])
        print('impl:', out[0], ' spec:', spec[0])
        return 0 if bit(out[0]) == spec[0].split('\t')[-1] else 1
    exprs = gen_exprs(rng, n)
    kfs = {k['class']: k for k in W.known_findings('C01')}
    c01_round(res, rng, exprs, kfs)
    if res.tie_failures and not res.oracle_failures:
        # the tie is broken: directed search for a failing input around the disagreeing inputs, with the
        # generator biased towards each feature in turn (flags at every gap, trees, classes, nesting)
        seeds = [c.get('glob') for _, c in res.tie_failures if isinstance(c.get('glob'), str)][:60]
        for bias in ('flags', 'trees', 'classes', 'deep'):
            if res.oracle_failures:
                break
            c01_round(res, rng, biased_exprs(rng, 1200, bias, seeds), kfs, tie=False)
            res.notes.append('directed search round: ' + bias)
    # the listed witnesses
    for cls, kf in kfs.items():
        w = kf['witness']
        a = W.run_impl(['mm %s %s' % (hx(w['glob']), hx(w['path']))])[0]
        s = W.run_model(['lang %s %s' % (hx(w['glob']), hx(w['path']))])[0].split('\t')[-1]
        known_line(res, kf, bit(a) != s, 'glob=%r path=%r is_match=%s documented=%s' % (w['glob'], w['path'], bit(a), s))



# ---- shared helpers for the query properties --------------------------------------------------------------
def prepare(res, rng, n, wild=0.06, npaths=(14, 12)):
    exprs = gen_exprs(rng, n, wild)
    items = stage_globs(exprs)
    note_shapes(res, items)
    built = stage_match(items, rng, npaths)
    return items, built


def matched_paths(it):
    if it.imm is None:
        return []
    return [p for p, r in zip(it.paths, it.imm) if bit(r) == '1']


def parse_depth(d):
    """'I3' -> (3, 3); 'V2..-' -> (2, None); 'V-..4' -> (0, 4)"""
    if d.startswith('I'):
        return int(d[1:]), int(d[1:])
    lo, hi = d[1:].split('..')
    return (0 if lo == '-' else int(lo)), (None if hi == '-' else int(hi))


def tree_iter(t):
    yield t
    for c in t.get('ch', []):
        yield from tree_iter(c)


def replay_generic(replay):
    c = replay['case']
    cmds = []
    if 'glob' in c:
        cmds.append('glob ' + hx(c['glob']))
        if 'path' in c:
            cmds.append('mm %s %s' % (hx(c['glob']), hx(c['path'])))
    for cmd, out in zip(cmds, W.run_impl(cmds)):
        print('impl:', cmd.split(' ')[0], out[:600])
    for cmd, out in zip(cmds, W.run_model(cmds)):
        print('model:', cmd.split(' ')[0], out[:600])
    print('case:', json.dumps(c, ensure_ascii=False))
    return 1


# ---- C10 depth ---------------------------------------------------------------------------------------------------
def c10(res, rng, tier, replay=None):
    if replay:
        return replay_generic(replay)
    n = sizes(tier, 1500, 20000)
    res.rule = ('ExprGen globs (see C01) x sampled paths; non-trivial = distinct (glob, canonical matched path with >= 1 component '
                'that agrees with has_root); tie: depth() of implementation vs model (exact variance); oracle: component count of every '
                'such matched path lies within the depth variance the implementation reports')
    # the table hypothesis of C10_flat_sound, over all code points: case folding never produces (or folds) a separator
    fold = open(os.path.join(W.TABLES, 'fold.tbl')).read().strip()
    res.evaluations += 1
    for item in [x for x in fold.split(';') if x]:
        c, orbit = item.split(':')
        if c == '47' or '47' in orbit.split(','):
            res.tie_fail('C10 table hypothesis: the case folding table relates a separator', {'entry': item})
    # crafted cells of the termination conjunction table: branches that are open / closed at either end, adjacent
    forms = ['{a,b/c}', '{a/,b/c/}', '{/a,/b/c}', '{/a/,/b/c/}', '{a,b/c/}', '{a/,/b}', '<a/:1,2>', '</a:1,2>', '<a/b:1,2>', '{a/**,b}', '{**/a,b}',
             '<a/:0,2>', '{a,b}', '<a:1,2>',
             # products of ranges: a bounded body repeated an exact number of times, a body of depth >= 2 repeated a range of times
             '<a/b/:1,2>', '<a/b/c/:1,3>', '<<a/:1,2>:2>', '<<a/:1,2>:3>', '<{a/,b/c/}:2>', '<*/*/:1,2>', '<a/b/:2,4>', '<<a/b/:1,2>:2,3>', '<{a,b/c}/:3>']
    glue = ['', 'x', '/', 'x/', '/x', '/x/', '/**/', '*']
    crafted = []
    for x in forms:
        for y in forms:
            for gl in glue:
                crafted.append(x + gl + y)
    rng.shuffle(crafted)
    crafted = crafted[:sizes(tier, 500, len(crafted))]
    exprs = list(dict.fromkeys(gen_exprs(rng, n) + crafted))
    items = stage_globs(exprs)
    note_shapes(res, items)
    built = stage_match(items, rng)
    bad = tie_fields(res, items, ['depth'], 'C10 depth()')
    kfs = {k['class']: k for k in W.known_findings('C10')}
    if bad:
        # directed search: many more paths for exactly the globs whose reported depth differs from the model
        extra = [it for it in bad if it.ihead == 'ok' and it.tree is not None][:150]
        more = stage_match(stage_globs([it.e for it in extra]), rng, (60, 20))
        built = more + built
        res.notes.append('directed search: %d globs with a differing depth re-sampled with 80 paths each' % len(more))
    for it in built:
        d = it.if_.get('depth', '!')
        if d == '!':
            continue
        lo, hi = parse_depth(d)
        root = it.if_.get('root')
        for p in matched_paths(it):
            if not G.canonical(p) or G.ncomp(p) < 1:
                continue
            if (root == 'A') != p.startswith('/'):
                continue
            res.evaluations += 1
            res.nontrivial.add((it.e, p))
            k = G.ncomp(p)
            if k < lo or (hi is not None and k > hi):
                cls = c10_class(it)
                if cls and cls in kfs:
                    res.known_hits[cls] = res.known_hits.get(cls, 0) + 1
                else:
                    res.oracle_fail('a matched canonical path has a component count outside the reported depth variance',
                                    {'glob': it.e, 'path': p, 'components': k, 'depth': d, 'class': cls})
                break
        res.sample({'glob': it.e, 'depth': d})
    for cls, kf in kfs.items():
        w = kf['witness']
        g = W.fields(W.run_impl(['glob ' + hx(w['glob'])])[0])[1]
        m = W.run_impl(['mm %s %s' % (hx(w['glob']), hx(w['path']))])[0]
        lo, hi = parse_depth(g.get('depth', 'I0'))
        k = G.ncomp(w['path'])
        known_line(res, kf, bit(m) == '1' and (k < lo or (hi is not None and k > hi)),
                   'glob=%r path=%r components=%d depth=%s' % (w['glob'], w['path'], k, g.get('depth')))


def c10_class(it):
    if it.cls.get('stable') == '0':
        return 'unstable_tree_position'
    if it.cls.get('closedvar') == '1':
        return 'closed_variant_finalize'
    return None      # a rooted first tree wildcard (C01) does not by itself explain a depth outside the reported variance


# ---- C11 text -------------------------------------------------------------------------------------------------------
def has_sep_class(t):
    return any(n['k'] == 'C' and any((len(a) == 1 and a[0] == 47) or (len(a) == 2 and a[0] <= 47 <= a[1]) for a in n['archs'])
               for n in tree_iter(t))


def c11(res, rng, tier, replay=None):
    if replay:
        return replay_generic(replay)
    n = sizes(tier, 1500, 20000)
    res.rule = ('ExprGen globs biased to invariant shapes x sampled paths + the reported text itself; non-trivial = distinct (glob, path); '
                'tie: text() impl vs model; oracle: invariant text => every matched path equals it, and it matches unless a class lists `/`; '
                'two distinct matched paths => variant')
    # the table hypothesis of C11_unique, over all code points: a character without casing is only folded to itself
    fold = open(os.path.join(W.TABLES, 'fold.tbl')).read().strip()
    casing = set(int(c) for c in open(os.path.join(W.TABLES, 'casing.tbl')).read().strip().split(',') if c)
    folded = [int(item.split(':')[0]) for item in fold.split(';') if item]
    res.count('code points with a case folding orbit', len(folded))
    bad = [c for c in folded if c not in casing]
    res.evaluations += 1
    if bad:
        res.tie_fail('C11 table hypothesis: characters that fold to another character but are reported as caseless',
                     {'characters': [chr(c) for c in bad[:20]], 'count': len(bad)})
    exprs = gen_exprs(rng, n // 2)
    g = G.ExprGen(rng, wild=0.02, maxdepth=2)
    inv_lits = ['a', 'b', 'ab', '.', '..', 'é', '1', 'x.txt', 'ǅ', 'K', 'ß']
    while len(exprs) < n:
        parts = []
        for _ in range(rng.randint(1, 4)):
            x = rng.random()
            a = rng.choice(inv_lits) if x < 0.5 else '[%s]' % rng.choice('abé1') if x < 0.62 else \
                '{%s}' % rng.choice(inv_lits) if x < 0.72 else '<%s:%d>' % (rng.choice(inv_lits), rng.randint(1, 3)) if x < 0.82 else \
                '(?i)' + rng.choice(inv_lits + ['1', '.', '-']) if x < 0.92 else g.component(1)
            parts.append(a)
        exprs.append(rng.choice(['', '', '/']) + '/'.join(parts))
    for pre in ['(?i)1', '(?i)2024-', '(?i).', '(?i)1/', '(?i)-_']:
        for mid in ['{(?-i)q1}', '<(?-i)rc:2>', '(?-i)q', '{(?-i)a,(?-i)a}', '{x}', '<y:1>']:
            exprs.append(pre + mid)
            exprs.append(pre + mid + '/z')
    # classes with an inverted range match nothing: they have no invariant text
    for e_ in ['[z-a]', 'x[z-a]', 'a/[9-0].txt', '{[b-a],[b-a]}', '<x[b-a]:2>', '[b-a]/y', 'p[c-a]q', '[a-a][b-a]', '[!z-a]']:
        exprs.append(e_)
    # branches whose texts are related without being equal: one is the other cut at a component boundary, a fragment more,
    # the same fragments with another kind (`/` as text of a class) - equality of texts must compare every fragment
    for a_, b_ in [('a', 'a/b'), ('a/b', 'a'), ('a', 'a/b/c'), ('a/', 'a/b'), ('a/b', 'a/b/'), ('x/y', 'x/y/z'), ('a', 'a/'), ('a/b', 'a/c'), ('ab', 'a/b'),
                   ('a', 'a[b]'), ('a[b]', 'a'), ('é', 'é/é')]:
        for ctx in ['{%s,%s}', 'p/{%s,%s}', '{%s,%s}/q', '{%s,%s,%s}', '<{%s,%s}:1>']:
            exprs.append(ctx % ((a_, b_, a_) if ctx.count('%s') == 3 else (a_, b_)))
    items = stage_globs(exprs)
    note_shapes(res, items)
    built = stage_match(items, rng)
    tie_fields(res, items, ['text'], 'C11 text()')
    # combinators of such pairs: any([a, a/b])
    acmds = ['any %s %s' % (hx(a_), hx(b_)) for a_, b_ in [('a', 'a/b'), ('a/b', 'a'), ('x/y', 'x/y/z'), ('a', 'a'), ('a/', 'a/b')]]
    for c_, ai, am in zip(acmds, W.run_impl(acmds), W.run_model(acmds)):
        res.evaluations += 1
        if W.fields(ai)[0] == 'ok' and W.fields(ai)[1].get('text') != W.fields(am)[1].get('text'):
            res.tie_fail('C11 text() of a combinator differs', {'cmd': c_, 'impl': W.fields(ai)[1].get('text'), 'model': W.fields(am)[1].get('text')})
    # add the reported text and its case variants as paths
    extra = [it for it in built if it.if_.get('text', 'V').startswith('I')]
    for it in extra:
        txt = W.unhx(it.if_['text'][1:])
        sampled = [p_ for p_ in (it.paths or []) if p_ != txt]
        it.paths = [txt] + [v for v in (txt.swapcase(), txt.upper(), txt.lower()) if v != txt] + sampled[:12]
    outs = W.run_impl(['mm %s %s' % (hx(it.e), ' '.join(hx(p) for p in it.paths)) for it in extra])
    for it, o in zip(extra, outs):
        if o in ('err', 'panic'):
            continue
        it.imm = o.split('|')
        o = it.imm[0]
        txt = W.unhx(it.if_['text'][1:])
        res.evaluations += 1
        res.nontrivial.add((it.e, txt))
        res.count('invariant')
        if bit(o) != '1' and not has_sep_class(it.tree):
            res.oracle_fail('the reported invariant text is not matched', {'glob': it.e, 'text': txt, 'impl': o})
        for p in matched_paths(it):
            if p != txt:
                res.oracle_fail('a path other than the reported invariant text is matched', {'glob': it.e, 'text': txt, 'path': p})
                break
        res.sample({'glob': it.e, 'text': txt})
    for it in built:
        res.evaluations += len(it.paths)
        for p in it.paths:
            res.nontrivial.add((it.e, p))


# ---- C12 root / semantic literals ------------------------------------------------------------------------------------
def expected_semantic(t):
    for n in tree_iter(t):
        if n['k'] != 'K':
            continue
        comp = []
        comps = []
        for c in n['ch']:
            if c['k'] in ('S', 'T'):
                comps.append(comp)
                comp = []
            else:
                comp.append(c)
        comps.append(comp)
        for comp in comps:
            if comp and all(c['k'] == 'L' for c in comp) and ''.join(c['text'] for c in comp) in ('.', '..'):
                return True
    return False


def starts_rooting(t):
    k = t['k']
    if k == 'S':
        return True
    if k == 'T':
        return t['root']
    if k == 'A':
        return any(starts_rooting(c) for c in t['ch'])
    if k in ('K', 'R'):
        return bool(t['ch']) and starts_rooting(t['ch'][0])
    return False


def nested_rooting(t):
    """an alternation branch or a repetition body begins with a *branch* token that can begin with
    a separator or a rooted tree wildcard (rooting is only checked on leaf terminals)"""
    for n in tree_iter(t):
        if n['k'] in ('A', 'R'):
            for b in n['ch']:
                first = b['ch'][0] if b['k'] == 'K' and b['ch'] else b
                if first['k'] in ('A', 'R') and starts_rooting(first):
                    return True
    return False


def c12(res, rng, tier, replay=None):
    if replay:
        return replay_generic(replay)
    n = sizes(tier, 1500, 20000)
    res.rule = ('ExprGen globs (many rooted, many with `.`/`..` components at every nesting depth) and any() combinators x sampled paths; '
                'non-trivial = distinct (pattern, path); tie: has_root(), has_semantic_literals() impl vs model; oracle: Always => every '
                'matched path starts with `/`; a glob is never Sometimes; a component spelled `.` or `..` anywhere => semantic literals')
    crafted = []
    for b1 in G.BOUNDS:
        for b2 in G.BOUNDS:
            crafted += ['<</a%s>%s>b' % (b1, b2), '<</**/a%s>%s>b' % (b1, b2), '<<a/%s>%s>b' % (b1, b2)]
        crafted += ['{</a%s>,b}' % b1, '<{/a,b}%s>c' % b1, '</a%s>b' % b1, '</**/a%s>' % b1, '<{</a%s>}:1>' % b1]
    dots = ['.(?i).', '(?i).(?-i).', '.(?-i)', '(?i)..', '.', '..', '.(?i).(?-i)', 'a.', '...']
    for dd in dots:
        crafted += [dd, dd + '/a', 'a/' + dd + '/b', '{a,%s}' % dd, '<a/%s:1,>' % dd, '{a,<b/{c,%s}/>}d' % dd, 'a/{b,c}/%s' % dd, '**/%s/**' % dd]
    rng.shuffle(crafted)
    exprs = list(dict.fromkeys(gen_exprs(rng, n) + crafted[:sizes(tier, 400, len(crafted))]))
    items = stage_globs(exprs)
    note_shapes(res, items)
    built = stage_match(items, rng)
    tie_fields(res, items, ['root', 'sem'], 'C12 has_root()/has_semantic_literals()')
    kfs = {k['class']: k for k in W.known_findings('C12')}
    for it in built:
        root = it.if_.get('root')
        res.count('root:' + str(root))
        if root == 'S':
            if 'nested_rooting' in kfs and nested_rooting(it.tree):
                res.known_hits['nested_rooting'] = res.known_hits.get('nested_rooting', 0) + 1
            else:
                res.oracle_fail('a glob reports that it is sometimes rooted', {'glob': it.e})
        for p in it.paths:
            res.evaluations += 1
            res.nontrivial.add((it.e, p))
        if root == 'A':
            for p in matched_paths(it):
                if not p.startswith('/'):
                    res.oracle_fail('always rooted but a matched path does not begin with a separator', {'glob': it.e, 'path': p})
                    break
        if expected_semantic(it.tree):
            res.count('semantic')
            if it.if_.get('sem') != '1':
                res.oracle_fail('a component spelled `.` or `..` is not reported as a semantic literal', {'glob': it.e})
        res.sample({'glob': it.e, 'root': root, 'sem': it.if_.get('sem')})
    for cls, kf in kfs.items():
        g_ = W.fields(W.run_impl(['glob ' + hx(kf['witness']['glob'])])[0])[1]
        known_line(res, kf, g_.get('root') == 'S', 'glob=%r has_root=%s' % (kf['witness']['glob'], g_.get('root')))
    # combinators
    fams = []
    ok = [it for it in built]
    for _ in range(min(len(ok) // 2, sizes(tier, 300, 4000))):
        k = rng.choice([1, 2, 2, 3])
        fams.append(rng.sample(ok, k))
    cmds = ['any ' + ' '.join(hx(it.e) for it in f) for f in fams]
    io, mo = W.run_impl(cmds), W.run_model(cmds)
    mcmds, keep = [], []
    for f, a, b in zip(fams, io, mo):
        ha, fa = W.fields(a)
        hb, fb = W.fields(b)
        if ha != hb or (ha == 'ok' and fa.get('root') != fb.get('root')):
            res.tie_fail('C12 has_root() of a combinator differs', {'any': [it.e for it in f], 'impl': a[:200], 'model': b[:200]})
        if ha == 'ok' and fa.get('root') == 'A':
            ps = [p for it in f for p in it.paths[:10]]
            mcmds.append('anymm %d %s %s' % (len(f), ' '.join(hx(it.e) for it in f), ' '.join(hx(p) for p in ps)))
            keep.append((f, ps))
    for (f, ps), o in zip(keep, W.run_impl(mcmds)):
        if o in ('panic', 'err'):
            continue
        for p, r in zip(ps, o.split('|')):
            res.evaluations += 1
            if bit(r) == '1' and not p.startswith('/'):
                res.oracle_fail('combinator always rooted but a matched path does not begin with a separator',
                                {'any': [it.e for it in f], 'path': p})
                break


# ---- C09 exhaustiveness -----------------------------------------------------------------------------------------------
def descendants(p, rng):
    tails = ['x', 'x/y', 'a', 'b/a', 'é', '.git', 'x\ny']
    out = []
    for t in rng.sample(tails, 3):
        out.append(p + t if p in ('', '/') else p + '/' + t)
    return out


def unbounded_family(rng):
    """repetitions of bodies built from tokens that are unbounded in breadth and text, nested and alternated: the family in which the 13th
    defect lived (a depth term with gaps multiplied by an unbounded range)"""
    atoms = ['*/', '/*', '*/*/', '**/', '*/**/', '*', 'a/', '?/', '*/*/*/']

    def body(d):
        r = rng.random()
        if d == 0 or r < 0.35:
            return rng.choice(atoms)
        if r < 0.6:
            return body(d - 1) + body(d - 1)
        if r < 0.8:
            return '{' + body(d - 1) + ',' + body(d - 1) + '}'
        return '<' + body(d - 1) + rng.choice(G.BOUNDS) + '>'
    return rng.choice(['', 'a/', '/', '**/']) + '<' + body(2) + rng.choice(G.BOUNDS) + '>' + rng.choice(['*', '', '**', '/**', '*/**/*', 'a'])


def c09(res, rng, tier, replay=None):
    if replay:
        return replay_generic(replay)
    n = sizes(tier, 1500, 20000)
    res.rule = ('ExprGen globs biased to end in tree wildcards / branches after tree wildcards, and any() of them; non-trivial = distinct '
                '(pattern, matched canonical path, descendant); tie: is_exhaustive() and the exhaustive / non-exhaustive partition of a negation '
                'impl vs model; oracle: Always => every canonical descendant of a matched canonical path is matched')
    exprs = gen_exprs(rng, n // 2)
    g = G.ExprGen(rng, wild=0.03, maxdepth=2)
    tails = ['<<*/*/%B>%B>*', '<<*/*/%B>>*', '<<*/%B>%B>*', '<<*/*/*/%B>:1,>*', '<*/%B>*', '<*/%B>', '<*/%B>**', '<**/%B>*', '<*/*/%B>*', '<</*%B>%B>', '**/<*%B>', '<*%B>/**', '/**', '**', '**/*', '**/{%s}', '**/<%s:1,2>', '/**/<%s:>', '{%s,**/%s}', '<*/>', '**/*/', '{a/**,%s/**}', '<%s/**:1,>',
             '**/%s/**', '{**/%s,b/**}', '<%s/:1,>**', '**/{%s,%s/**}', '{%s/**,**}',
             # a bounded branch at the front of the body of an unbounded repetition (repaired by 6c17bd8), and its unbounded relatives
             '<{%s}/:1,>*', '<<%s:1>/:1,>*', '*<<?*:2>/*:1,>', '<{%s}/*:1,>', '<<?>/:1,>*', '<<%s>/>*', '<<?:1,3>/>*', '<{%s,*}/:1,>*', '<{*}/%B>*', '<{%s}/%B>*', '<<??>/>*', '<<?*>/>*', '<<?*?>/>*', '/**/<?/?:>', '<<?>/>', '<<*?>/%B>*', '<<{?,??}>/>*', '**/<?:2,>', '**/<?:1,>', '**/<?>', '**/<?%B>', '<<?:2,>/>*', '**/<?*:2,>', '**/<*:2,>',
             # bodies whose depth term has gaps: an alternation of depths, a bounded variant range (repaired by 83c38c1), and their contiguous relatives
             '<{*/*/,*/*/*/*/}%B>*', '<*/*/*/<*/:0,1>%B>*', '<{*/*/,*/*/*/}%B>*', '<*/*/<*/%B>%B>*', '<{*,*/*/}%B>', '<{*/,*/*/}%B>*', '<{*/*/,%s/**/}%B>*', '<*/<*/*/:0,1>%B>*', '<{*/,**/%s/}%B>*']
    exprs += [unbounded_family(rng) for _ in range(n // 8)]
    while len(exprs) < n:
        t = rng.choice(tails)
        while '%B' in t:
            t = t.replace('%B', rng.choice(G.BOUNDS), 1)
        t = t.replace('%s', '\0')
        while '\0' in t:
            t = t.replace('\0', rng.choice(['a', 'b', 'ab', g.component(1)]), 1)
        head = rng.choice(['', '', g.component(1) + '/', '/', g.glob(1, sub=True) + '/'])
        e = head + t
        exprs.append(e if not (head.endswith('/') and t.startswith('/')) else head + t[1:])
    items = stage_globs(exprs)
    note_shapes(res, items)
    built = stage_match(items, rng)
    tie_fields(res, items, ['exh'], 'C09 is_exhaustive()')
    kfs = {k['class']: k for k in W.known_findings('C09')}
    # negation partitions
    ncmds = ['not ' + hx(it.e) for it in built[:sizes(tier, 400, 5000)]]
    for c, a, b in zip(ncmds, W.run_impl(ncmds), W.run_model(ncmds)):
        if a != b:
            res.tie_fail('C09 partition of a negation into exhaustive / non-exhaustive programs differs', {'cmd': c, 'impl': a[:300], 'model': b[:300]})
    always = [it for it in built if it.if_.get('exh') == 'A']
    cmds, keep = [], []
    for it in always:
        ps = [p for p in matched_paths(it) if G.canonical(p)]
        ds = [(p, q) for p in ps[:8] for q in descendants(p, rng)]
        if ds:
            cmds.append('mm %s %s' % (hx(it.e), ' '.join(hx(q) for _, q in ds)))
            keep.append((it, ds))
    res.count('always', len(always))
    for (it, ds), o in zip(keep, W.run_impl(cmds)):
        if o in ('panic', 'err'):
            continue
        for (p, q), r in zip(ds, o.split('|')):
            res.evaluations += 1
            res.nontrivial.add((it.e, p, q))
            if bit(r) != '1':
                cls = c09_class(it, p)
                if cls and cls in kfs:
                    res.known_hits[cls] = res.known_hits.get(cls, 0) + 1
                else:
                    res.oracle_fail('always exhaustive but a descendant of a matched path is not matched',
                                    {'glob': it.e, 'path': p, 'descendant': q, 'class': cls})
                break
        res.sample({'glob': it.e, 'exh': 'A', 'checked': [q for _, q in ds[:3]]})
    for cls, kf in kfs.items():
        w = kf['witness']
        g_ = W.fields(W.run_impl(['glob ' + hx(w['glob'])])[0])[1]
        m = W.run_impl(['mm %s %s %s' % (hx(w['glob']), hx(w['path']), hx(w['descendant']))])[0].split('|')
        known_line(res, kf, g_.get('exh') == 'A' and len(m) == 2 and bit(m[0]) == '1' and bit(m[1]) == '0',
                   'glob=%r is_exhaustive=%s matches %r but not %r' % (w['glob'], g_.get('exh'), w['path'], w['descendant']))


def c09_class(it, p):
    # a recorded finding is a deviation of the pinned code, which the model reproduces: when the model of the pinned code does not
    # say Always for this pattern, an Always from the implementation is something else
    if it.mhead == 'ok' and it.mf.get('exh') != 'A':
        return None
    if p in ('', '/') and (it.cls.get('endsep') == '1' or it.cls.get('fnull') == '1'):
        return 'trailing_boundary'
    if it.cls.get('optrep') == '1':
        return 'optional_repetition'
    return None



# ---- C04 captures ----------------------------------------------------------------------------------------------------------
FLAG_RE = re.compile(r'\(\?([-i]+)\)')


def flag_in_force(e, pos):
    """textual flag state at byte offset pos (the last toggle wins)"""
    prefix = e.encode('utf-8')[:pos].decode('utf-8', 'ignore')
    ci = False
    for m in FLAG_RE.finditer(prefix):
        body = m.group(1)
        i = 0
        while i < len(body):
            if body[i] == '-' and i + 1 < len(body):
                ci = False
                i += 2
            else:
                ci = True
                i += 1
    return '(?i)' if ci else ''


def parse_spans(r):
    """'1 0,3;0,1;-' -> [(0,3),(0,1),None]"""
    out = []
    for x in r.split(' ')[1].split(';'):
        out.append(None if x == '-' else tuple(int(v) for v in x.split(',')))
    return out


def c04(res, rng, tier, replay=None):
    if replay:
        return replay_generic(replay)
    n = sizes(tier, 1200, 15000)
    res.rule = ('ExprGen globs x sampled paths; non-trivial = distinct (glob, matched path); tie: captures() indices and spans, matched text spans '
                'for every index 0..n+1 borrowed and owned, impl vs the model leftmost-first matcher (an assignment that differs must be that of some parse of the path - searched exhaustively by the model matcher: the regex crate lifts common prefixes out of alternations, which reorders backtracking priorities); oracle on the implementation: capture 0 is the path, '
                'index n+1 is absent, participating captures ordered and disjoint, `? * $ [..]` captures separator-free, tree captures are runs '
                'of complete components, every capture re-matches its own sub-expression (sliced by its span, flags in force prepended)')
    items, built = prepare(res, rng, n)
    tie_fields(res, items, ['caps'], 'C04 captures()')
    kfs = {k['class']: k for k in W.known_findings('C04')}
    recheck = []
    differing = []
    for it in built:
        if it.imm is None:
            continue
        eb = it.e.encode('utf-8')
        toks = [c for c in (it.tree['ch'] if it.tree['k'] == 'K' else [it.tree]) if c['k'] in ('C', 'O', 'Z', 'T', 'A', 'R')]
        ncap = len(toks)
        caps = it.if_.get('caps', '')
        if caps != '!' and len([c for c in caps.split(';') if c]) != ncap:
            res.oracle_fail('captures() does not list one entry per capturing sub-expression', {'glob': it.e, 'caps': caps, 'expected': ncap})
        for idx, (p, r) in enumerate(zip(it.paths, it.imm)):
            if 'MISMATCH' in r:
                res.oracle_fail('matched text is inconsistent: ' + r, {'glob': it.e, 'path': p})
                break
            if it.mmm is not None and idx < len(it.mmm) and r != it.mmm[idx]:
                if bit(r) == '1' and bit(it.mmm[idx]) == '1':
                    # both match, the assignments differ: the regex crate factors common prefixes of alternation branches, which
                    # reorders the priorities of a backtracking engine; the assignment must still be that of *some* parse
                    differing.append((it, p, r, it.mmm[idx]))
                else:
                    res.tie_fail('C04 capture spans differ from the model matcher', {'glob': it.e, 'path': p, 'impl': r, 'model': it.mmm[idx]})
            if bit(r) != '1':
                continue
            res.evaluations += 1
            res.nontrivial.add((it.e, p))
            pb = p.encode('utf-8')
            sp = parse_spans(r)
            bad = None
            if len(sp) != ncap + 2 or sp[0] != (0, len(pb)) or sp[-1] is not None:
                bad = 'capture 0 / out-of-range index'
            prev = 0
            for k in range(1, min(len(sp), ncap + 1)):
                if bad or sp[k] is None:
                    continue
                a, b = sp[k]
                tok = toks[k - 1]
                txt = pb[a:b]
                if not (prev <= a <= b <= len(pb)):
                    bad = 'captures out of order or overlapping'
                    break
                prev = b
                if tok['k'] in ('C', 'O', 'Z') and b'/' in txt:
                    bad = 'separator captured by ? * $ or a class'
                if tok['k'] in ('C', 'O') and len(txt.decode('utf-8', 'ignore')) != 1:
                    bad = 'class or ? did not capture exactly one character'
                if tok['k'] == 'T' and txt:
                    lead = a == 0 or pb[a - 1:a] == b'/' or txt.startswith(b'/')
                    trail = b == len(pb) or txt.endswith(b'/') or pb[b:b + 1] == b'/'
                    if not (lead and trail):
                        bad = 'tree wildcard capture is not a run of complete components'
                if tok['k'] in ('C', 'O', 'Z', 'A', 'R'):
                    s0, n0 = tok['span']
                    sub = eb[s0:s0 + n0].decode('utf-8', 'ignore')
                    if '**' not in sub:
                        recheck.append((it, p, k, flag_in_force(it.e, s0) + sub, txt.decode('utf-8', 'ignore')))
            if bad:
                cls = 'rooted_first_tree' if it.cls.get('rft') == '1' else None
                if cls and cls in kfs:
                    res.known_hits[cls] = res.known_hits.get(cls, 0) + 1
                else:
                    res.oracle_fail(bad, {'glob': it.e, 'path': p, 'spans': r, 'class': cls})
                break
        res.sample({'glob': it.e, 'caps': caps})
    # assignments that differ from the backtracking order of the model matcher: they must be the assignment of some parse
    outs = W.run_model(['capsok %s %s %s' % (hx(it.e), hx(p), hx(r)) for (it, p, r, mm_) in differing])
    for (it, p, r, mm_), o in zip(differing, outs):
        if o == '1':
            res.count('capture assignments of a lower-priority parse (regex crate prefix factoring)')
        elif o == '0':
            res.tie_fail('C04 capture spans are not those of any parse of the path by the program', {'glob': it.e, 'path': p, 'impl': r, 'model': mm_})
        else:
            res.count('capture assignments not classified (%s)' % o)
    recheck = recheck[:sizes(tier, 6000, 60000)]
    outs = W.run_impl(['mm %s %s' % (hx(sub), hx(txt)) for (_, _, _, sub, txt) in recheck])
    for (it, p, k, sub, txt), o in zip(recheck, outs):
        res.count('recheck:' + o[:1])
        if o in ('err', 'panic'):
            continue      # the sub-expression does not build on its own (rooted, singular, ...)
        if bit(o) != '1':
            res.oracle_fail('a capture is not matched by its own sub-expression',
                            {'glob': it.e, 'path': p, 'index': k, 'sub_expression': sub, 'captured': txt})
    for cls, kf in kfs.items():
        w = kf['witness']
        o = W.run_impl(['mm %s %s' % (hx(w['glob']), hx(w['path']))])[0]
        sp = parse_spans(o) if bit(o) == '1' else []
        txt = w['path'].encode()[sp[1][0]:sp[1][1]].decode() if len(sp) > 1 and sp[1] else None
        known_line(res, kf, txt == w.get('capture'), 'glob=%r path=%r capture 1=%r' % (w['glob'], w['path'], txt))


# ---- C05 totality --------------------------------------------------------------------------------------------------------------
def nesting(e):
    d = m = 0
    for c in e:
        if c in '{<':
            d += 1
            m = max(m, d)
        elif c in '}>':
            d = max(0, d - 1)
    return m


def c05_class(e):
    nums = [int(d) for d in re.findall(r'\d+', e)]
    if any(v >= 2 ** 31 for v in nums):
        return 'huge_bounds'
    prod = 1
    for v in nums:
        prod *= max(v, 1)
    if prod >= 2 ** 31:
        return 'huge_bounds'
    if nesting(e) >= 40:
        return 'deep_nesting'
    return None


def c05(res, rng, tier, replay=None):
    if replay:
        return replay_generic(replay)
    n = sizes(tier, 4000, 100000)
    res.rule = ('malformed stream (meta-character soup, one-edit corruptions and truncations of valid expressions, dangling flags and escapes, '
                'multi-byte characters next to delimiters) + valid ExprGen globs with odd bounds (2^16, 2^32, 2^64) + nesting 10..120; every public '
                'operation under catch_unwind; non-trivial = distinct expressions; tie: outcome (ok / parse error / rule error+kind / panic) impl vs model; '
                'oracle: no panic outside the named classes huge_bounds, deep_nesting; compile error only with a large repetition bound')
    exprs, seen = [], set()
    for e in load_corpus('exprs.jsonl'):
        if e not in seen:
            seen.add(e)
            exprs.append(e)
    g = G.ExprGen(rng, wild=0.25)
    while len(exprs) < n:
        e = G.malformed(rng) if rng.random() < 0.6 else g.glob()
        if e not in seen and len(e) < 160:
            seen.add(e)
            exprs.append(e)
    for d in (10, 40, 80, 99, 120):
        exprs.append('{' * d + 'a' + '}' * d)
        exprs.append('<' * d + 'a' + '>' * d)
        exprs.append('a' + '{b,' * d + 'c' + '}' * d)
    items = stage_globs(exprs)
    note_shapes(res, items)
    kfs = {k['class']: k for k in W.known_findings('C05')}
    for it in items:
        res.evaluations += 1
        res.nontrivial.add(it.e)
        ih, mh = it.ihead.split(' ')[0], it.mhead.split(' ')[0]
        cls = c05_class(it.e)
        if ih != mh and not (ih == 'cerr' and mh == 'ok' and has_big_bound(it.e)) and not (cls and {ih, mh} <= {'panic', 'cerr', 'ok', 'crashed', 'model-stack-overflow', 'model-timeout'}):
            res.tie_fail('C05 build outcome differs', {'glob': it.e, 'impl': it.impl[:200], 'model': it.model[:200]})
        panicked = ih in ('panic', 'crashed', 'missing') or (ih == 'ok' and any(v == '!' for v in it.if_.values()))
        if panicked:
            if cls and cls in kfs and mh in ('panic', 'model-stack-overflow', 'model-timeout'):
                res.known_hits[cls] = res.known_hits.get(cls, 0) + 1
            else:
                res.oracle_fail('panic while building or querying', {'glob': it.e, 'impl': it.impl[:300], 'class': cls})
        if ih == 'cerr' and not has_big_bound(it.e):
            res.oracle_fail('compile error for a program that is not oversized', {'glob': it.e})
        if ih == 'ok' and it.mhead == 'ok':
            for f in ('depth', 'text', 'root', 'exh', 'caps', 'sem', 'empty', 'comps'):
                if (it.if_.get(f) == '!') != (it.mf.get(f) == '!') and not cls:
                    res.tie_fail('C05 a query panics in only one of implementation and model', {'glob': it.e, 'field': f, 'impl': it.if_.get(f), 'model': it.mf.get(f)})
    res.sample({'glob': items[-1].e[:40] + '...', 'outcome': items[-1].ihead})
    res.sample({'glob': items[len(items) // 2].e, 'outcome': items[len(items) // 2].ihead})
    # operations on built globs: partition, negation, matching (a sample)
    built = [it for it in items if it.ihead == 'ok'][:sizes(tier, 800, 8000)]
    cmds = ['part ' + hx(it.e) for it in built] + ['not ' + hx(it.e) for it in built] + \
           ['mm %s %s %s %s' % (hx(it.e), hx(''), hx('a/b'), hx('/\n')) for it in built]
    for c, o in zip(cmds, W.run_impl(cmds)):
        res.evaluations += 1
        if o.startswith(('panic', 'crashed', 'missing')) or '=!' in o:
            e = W.unhx(c.split(' ')[1])
            cls = c05_class(e)
            if cls and cls in kfs:
                res.known_hits[cls] = res.known_hits.get(cls, 0) + 1
            else:
                res.oracle_fail('panic in an operation on a built glob', {'cmd': c.split(' ')[0], 'glob': e, 'impl': o[:200]})
    # combinators: any() of built globs (and of the degenerate patterns) and every query on them
    pool = [it.e for it in built[:400]] + ['/', '', '**', '/**', 'a/**', '<a/:1,2>', '{a,a/b}', 'a/b', '*']
    fams = [rng.sample(pool, rng.choice([1, 2, 2, 3])) for _ in range(sizes(tier, 600, 6000))]
    fams += [['/', x] for x in ['a/**', '<a/:1,2>', '{a,a/b}', 'a/b', '**', '*', '']] + [[x, '/'] for x in ['a/**', '<a/:1,2>', '{a,a/b}']]
    acmds = ['any ' + ' '.join(hx(e) for e in f) for f in fams]
    for f, a, b in zip(fams, W.run_impl(acmds), W.run_model(acmds)):
        res.evaluations += 1
        res.nontrivial.add(tuple(f))
        ha, fa = W.fields(a)
        hb, fb = W.fields(b)
        cls = next((c05_class(e) for e in f if c05_class(e)), None)
        bad = ha in ('panic', 'crashed', 'missing') or (ha == 'ok' and any(v == '!' for v in fa.values()))
        model_bad = hb in ('panic', 'model-timeout', 'model-stack-overflow') or (hb == 'ok' and any(v == '!' for v in fb.values()))
        if bad and not (cls and cls in kfs and model_bad):
            res.oracle_fail('panic while building or querying a combinator', {'any': f, 'impl': a[:300], 'class': cls})
        elif ha == 'ok' and hb == 'ok' and not cls:
            for k in ('depth', 'text', 'root', 'exh'):
                if (fa.get(k) == '!') != (fb.get(k) == '!'):
                    res.tie_fail('C05 a query on a combinator panics in only one of implementation and model', {'any': f, 'field': k})
    # combinators of combinators, with empty groups at every position (any of nothing, any of any of nothing, ...)
    plain = [e for e in pool if not c05_class(e)][:60] + ['a', 'b/**', '']
    ncmds, nfam = [], []
    for _ in range(sizes(tier, 300, 3000)):
        groups = [rng.sample(plain, rng.choice([0, 0, 1, 2])) for _ in range(rng.choice([1, 2, 3]))]
        nfam.append(groups)
        toks = []
        for gi, g_ in enumerate(groups):
            toks += (['-'] if gi else []) + [hx(e) for e in g_]
        ncmds.append(' '.join(['anyn', hx(rng.choice(['', 'a', 'b/x']))] + toks))
    for groups, a, b in zip(nfam, W.run_impl(ncmds), W.run_model(ncmds)):
        res.evaluations += 1
        res.nontrivial.add(str(groups))
        ha, hb = W.fields(a)[0], W.fields(b)[0]
        if ha in ('panic', 'crashed', 'missing') or '=!' in a:
            res.oracle_fail('panic while building or querying a combinator of combinators', {'groups': groups, 'impl': a[:300]})
        elif hb not in ('model-timeout', 'model-stack-overflow') and a != b:
            res.tie_fail('C05 a combinator of combinators differs from the model', {'groups': groups, 'impl': a[:300], 'model': b[:300]})
    for cls, kf in kfs.items():
        o = W.run_impl(['glob ' + hx(kf['witness']['glob'])])[0]
        known_line(res, kf, o.startswith(('panic', 'crashed')) or '=!' in o, 'glob=%r outcome=%s' % (kf['witness']['glob'][:60], o[:30]))


# ---- C06 rules --------------------------------------------------------------------------------------------------------------------
def edge_kinds(t, first):
    """deep set of the kinds of leaf that may begin (end) an expansion of t, every repetition written out at
    least once: 'S' separator, 'Tr' / 'Tu' rooted / unrooted tree wildcard, 'Z' zero-or-more, 'X' anything else"""
    k = t['k']
    if k == 'S':
        return {'S'}
    if k == 'T':
        return {'Tr' if t['root'] else 'Tu'}
    if k == 'Z':
        return {'Z'}
    if k in ('L', 'C', 'O'):
        return {'X'}
    if k == 'A':
        out = set()
        for c in t['ch']:
            out |= edge_kinds(c, first)
        return out
    if k == 'K':
        return edge_kinds(t['ch'][0 if first else -1], first) if t['ch'] else set()
    if k == 'R':
        return edge_kinds(t['ch'][0], first)
    return set()


BOUND = {'S', 'Tr', 'Tu'}


def wf_violations(t, left_ctx=False, out=None, top=True):
    """the documented rules, evaluated over expansions (DESIGN C06); returns the set of violated rule tags.
    left_ctx: something precedes this token in the expression."""
    if out is None:
        out = set()
    k = t['k']
    if k == 'K':
        ch = t['ch']
        for i in range(len(ch) - 1):
            a, b = edge_kinds(ch[i], False), edge_kinds(ch[i + 1], True)
            if a & BOUND and b & BOUND:
                shallow = ch[i]['k'] in ('S', 'T') and ch[i + 1]['k'] in ('S', 'T')
                out.add('adjacent_boundary')
            if 'Z' in a and 'Z' in b:
                out.add('adjacent_zom')
        for i, c in enumerate(ch):
            wf_violations(c, left_ctx or i > 0, out, False)
    elif k == 'A':
        for b in t['ch']:
            toks = b['ch'] if b['k'] == 'K' else [b]
            if len(toks) == 1 and toks[0]['k'] == 'T':
                out.add('singular_tree')
            if not left_ctx and edge_kinds(b, True) & {'S', 'Tr'}:
                first = toks[0]
                out.add('rooted_branch' if first['k'] in ('S', 'T') else 'rooted_branch_nested')
            wf_violations(b, left_ctx, out, False)
    elif k == 'R':
        b = t['ch'][0]
        toks = b['ch'] if b['k'] == 'K' else [b]
        lo, hi = t['lo'], t['hi']
        if hi is not None and (hi < lo or (lo == 0 and hi == 0)):
            out.add('bounds')
        if len(toks) == 1 and toks[0]['k'] == 'T':
            out.add('singular_tree')
        if len(toks) == 1 and toks[0]['k'] in ('S', 'Z'):
            out.add('singular_body')
        optional = lo == 0 or (hi is not None and min(lo, hi) == 0)
        if optional and not left_ctx and edge_kinds(b, True) & {'S', 'Tr'}:
            out.add('rooted_branch' if toks[0]['k'] in ('S', 'T') else 'rooted_branch_nested')
        a, z = edge_kinds(b, False), edge_kinds(b, True)
        if a & BOUND and z & BOUND and len(toks) > 1:
            out.add('wrap_boundary' if toks[0]['k'] in ('S', 'T') and toks[-1]['k'] in ('S', 'T') else 'wrap_boundary_nested')
        wf_violations(b, left_ctx, out, False)
    return out


C06_KNOWN_TAGS = {'rooted_branch_nested': 'nested_rooting', 'wrap_boundary_nested': 'wraparound_nested_edge'}
MAX_INVARIANT_SIZE = 0x10000


def inv_size(t):
    """the invariant size in bytes of a token (None when its size varies), as documented: a literal counts its UTF-8 bytes, a separator
    one, `?` and a class four; concatenation adds, alternation needs equal branches, repetition multiplies an exact count"""
    k = t['k']
    if k == 'L':
        return len(t['text'].encode('utf-8'))
    if k == 'S':
        return 1
    if k == 'O':
        return 4
    if k == 'C':
        return 4 if t['archs'] else 0
    if k in ('Z', 'T'):
        return None
    if k == 'K':
        sizes_ = [inv_size(c) for c in t['ch']]
        return None if any(x is None for x in sizes_) else sum(sizes_)
    if k == 'A':
        sizes_ = [inv_size(c) for c in t['ch']]
        return sizes_[0] if sizes_ and all(x is not None and x == sizes_[0] for x in sizes_) else None
    if k == 'R':
        lo, hi = t['lo'], t['hi']
        b = inv_size(t['ch'][0])
        if hi is not None and lo == hi:
            return 0 if lo == 0 else (None if b is None else lo * b)
        return 0 if b == 0 else None
    return None


def oversized(t):
    s_ = inv_size(t)
    if s_ is not None and s_ >= MAX_INVARIANT_SIZE:
        return True
    return any(oversized(c) for c in t.get('ch', []))


def c06(res, rng, tier, replay=None):
    if replay:
        return replay_generic(replay)
    n = sizes(tier, 5000, 120000)
    res.rule = ('ExprGen expressions with a raised share of rule violations (adjacent boundaries / zero-or-more across branch edges at every nesting depth, '
                'singular bodies, rooted branches, odd bounds) + exhaustive small shapes (branch in first / middle / last position, with sibling branches); '
                'non-trivial = distinct expressions that parse; tie: Ok / Err + rule kind impl vs model; oracle: Glob::new(e).is_ok() <=> the documented '
                'rules hold over the expansions of the parse tree (python re-statement of WF, independent of the code)')
    exprs, seen = [], set()
    for e in load_corpus('exprs.jsonl'):
        if e not in seen:
            seen.add(e)
            exprs.append(e)
    # exhaustive small shapes: a branch in every position with every edge atom
    atoms = ['a', '/', '*', '**', '/**/', '**/', '/**', '?']
    inner = []
    for x in atoms:
        for y in ['', 'b', '/', '*']:
            inner.append(x + y if not (x.endswith('/') and y == '/') or True else x)
    shapes = []
    for b in inner:
        for b2 in ['c', '/d', 'e/', '*']:
            for wrap in ['{%s,%s}', '<%s:1,2>', '<%s:0,>', '{{%s,%s}f,g}', '<{%s,%s}:1,>']:
                body = wrap.replace('%s', b, 1).replace('%s', b2, 1) if wrap.count('%s') == 2 else wrap % b
                for ctx in ['%s', 'x%s', '%sy', 'x%sy', 'x/%s', '%s/y', 'x*%s', '%s*y', 'x/%s/y', '{p,q}%s{r,s}']:
                    shapes.append(ctx % body)
    rng.shuffle(shapes)
    for e in shapes[:sizes(tier, 2500, len(shapes))]:
        if e not in seen:
            seen.add(e)
            exprs.append(e)
    g = G.ExprGen(rng, wild=0.2)
    while len(exprs) < n:
        e = g.glob()
        if e not in seen and len(e) < 100:
            seen.add(e)
            exprs.append(e)
    # the size rule at its threshold (65536 bytes of invariant text), spelled as text, as repetitions, in branches, nested
    size_cases = ['a' * 65536, 'a' * 65535, '<a:65535>b', '<a:65535>', '<a:65536>', '<a:40000><b:40000>', '{<a:40000><b:40000>,c}', '<ab:32768>',
                  '<ab:32767>c', 'é' * 32768, 'é' * 32767 + 'a', '<?:16384>', '<?:16383>abc', '<[ab]:16384>', 'x/<a:65535>', '<a/:32768>', '<<a:256>:256>',
                  '<<a:256>:255>b', '{<a:65536>,<b:65536>}', '<a:65536>*', '*<a:65536>', '<a:65530>' + 'b' * 6, '<a:65530>' + 'b' * 5]
    for e in size_cases:
        if e not in seen:
            seen.add(e)
            exprs.append(e)
    items = stage_globs(exprs)
    note_shapes(res, items)
    for it in items:
        ih, mh = it.ihead, it.mhead
        if ih.startswith('rerr') or mh.startswith('rerr'):
            ih, mh = ' '.join(ih.split(' ')[:2]), ' '.join(mh.split(' ')[:2])     # kind, not span (spans are C17's)
        elif ih.startswith('perr') or mh.startswith('perr'):
            ih, mh = ih.split(' ')[0], mh.split(' ')[0]
        if mh in ('model-timeout', 'model-stack-overflow', 'model-out-of-fuel'):
            res.count('model gave no verdict within its budget: ' + mh)      # decided by the oracle below
            continue
        if ih != mh and not (ih == 'cerr' and mh == 'ok' and has_big_bound(it.e)) and not c05_class(it.e):
            res.tie_fail('C06 rule verdict differs', {'glob': it.e, 'impl': it.impl[:200], 'model': it.model[:200]})
    # parse trees (before the rules) for the oracle
    cand = [it for it in items if it.ihead.split(' ')[0] in ('ok', 'rerr') and ((not c05_class(it.e) and not has_big_bound(it.e)) or it.e in size_cases)]
    outs = W.run_impl(['parse ' + hx(it.e) for it in cand])
    kfs = {k['class']: k for k in W.known_findings('C06')}
    for it, o in zip(cand, outs):
        h, f = W.fields(o)
        if h != 'ok':
            continue
        try:
            tree = G.read_tree(f['tree'])
        except Exception:
            continue
        res.evaluations += 1
        res.nontrivial.add(it.e)
        v = wf_violations(tree)
        if oversized(tree):
            v.add('oversized_invariant')
        ok = it.ihead == 'ok'
        res.count('wf' if not v else 'illformed')
        for tag in v:
            res.count('rule:' + tag)
        if ok == (not v):
            continue
        if ok:
            unknown = [t for t in v if t not in C06_KNOWN_TAGS or C06_KNOWN_TAGS[t] not in kfs]
            if unknown:
                res.oracle_fail('an ill-formed expression builds', {'glob': it.e, 'violated': sorted(v)})
            else:
                for t in v:
                    c = C06_KNOWN_TAGS[t]
                    res.known_hits[c] = res.known_hits.get(c, 0) + 1
        else:
            res.oracle_fail('a well-formed expression is rejected', {'glob': it.e, 'impl': it.ihead})
        if root_sometimes(it):
            pass
    for it in items:
        if it.ihead == 'ok' and it.if_.get('root') == 'S':
            if 'nested_rooting' in kfs and it.tree is not None and nested_rooting(it.tree):
                res.known_hits['nested_rooting'] = res.known_hits.get('nested_rooting', 0) + 1
            else:
                res.oracle_fail('a built glob is sometimes rooted', {'glob': it.e})
    for it in items[:8]:
        res.sample({'glob': it.e, 'verdict': it.ihead})
    for cls, kf in kfs.items():
        w = kf['witness']
        o = W.run_impl(['glob ' + hx(w['glob'])])[0]
        known_line(res, kf, (o.split('\t')[0] == 'ok') == bool(w.get('builds', True)) , 'glob=%r outcome=%s' % (w['glob'], o.split('\t')[0]))


def root_sometimes(it):
    return it.if_.get('root') == 'S'


# ---- C07 composition -------------------------------------------------------------------------------------------------------------
def top_tokens(tree):
    return tree['ch'] if tree['k'] == 'K' else [tree]


def all_nodes_with_spans(t, repeated=False):
    """alternations and repetitions that are not beneath a repetition that may write its body out twice
    (there the choice is made per iteration: substitution in place is not a union)"""
    if t['k'] in ('A', 'R') and not repeated:
        yield t
    if t['k'] == 'R':
        lo, hi = t['lo'], t['hi']
        repeated = repeated or hi is None or max(lo, hi) >= 2
    for c in t.get('ch', []):
        yield from all_nodes_with_spans(c, repeated)


def c07(res, rng, tier, replay=None):
    if replay:
        return replay_generic(replay)
    n = sizes(tier, 900, 12000)
    res.rule = ('flag-free ExprGen globs; for an alternation / repetition at any depth the related expressions are made by text substitution through the '
                'token spans (each branch in place; the body written out k times for every permitted k <= 4; single-branch braces and <x:1> wrapped around a '
                'top-level token); families whose members all build (and whose junctions do not read as a new token: `*` next to `*`) are compared on the union of their sampled paths; non-trivial = distinct (family, path); '
                'tie: any(): token tree, regex, is_match impl vs model, text vs compiled vs nested; oracle: match sets are equal as the property states')
    g = G.ExprGen(rng, wild=0.02, maxdepth=2)
    g.flag = lambda: ''
    exprs, seen = [], set()
    for e in load_corpus('exprs.jsonl'):
        if '(?' not in e and e not in seen:
            seen.add(e)
            exprs.append(e)
    while len(exprs) < n:
        e = g.glob()
        if e not in seen and len(e) < 80 and ('{' in e or '<' in e or rng.random() < 0.3):
            seen.add(e)
            exprs.append(e)
    # flags in force *around* a branch (never inside one: flags are textual, a flag inside a branch leaks into what follows)
    for pre in ['(?i)a', '(?i)a(?-i)', '(?-i)a(?i)', 'a(?i)', '(?i)a/(?-i)', '(?i)']:
        for mid in ['{b,c}', '{b}', '<b:1,2>', '<b:1>', '{b,c/d}', '<b/:1,2>', '{bc,B}']:
            for post in ['', 'd', '(?i)d', '(?-i)d', '/d']:
                e = pre + mid + post
                if e not in seen:
                    seen.add(e)
                    exprs.append(e)
    items = stage_globs(exprs)
    note_shapes(res, items)
    built = stage_match(items, rng, (10, 8))
    kfs = {k['class']: k for k in W.known_findings('C07')}
    fams = []      # (kind, original item, [member expressions], mode) mode: 'union' | 'equal'
    for it in built:
        eb = it.e.encode('utf-8')
        nodes = list(all_nodes_with_spans(it.tree))
        rng.shuffle(nodes)
        for nd in nodes[:2]:
            s0, n0 = nd['span']
            # the span of a token begins with the flag directives that precede it: they stay in place
            lead = re.match(rb'^(\(\?[-i]+\))*', eb[s0:s0 + n0]).end()
            pre, post = eb[:s0 + lead], eb[s0 + n0:]
            def glued(*pieces):
                # writing pieces next to each other must not create a token that is in none of them: `*` `*` reads as a tree wildcard
                ps = [x for x in pieces if x]
                return any(a[-1:] in (b'*', b'$') and b[:1] == b'*' for a, b in zip(ps, ps[1:]))
            if nd['k'] == 'A':
                members = []
                if any(glued(pre, eb[b['span'][0]:b['span'][0] + b['span'][1]], post) for b in nd['ch']):
                    res.count('family-skipped:junction')
                    continue
                for b in nd['ch']:
                    bs, bn = b['span']
                    members.append((pre + eb[bs:bs + bn] + post).decode('utf-8', 'ignore'))
                fams.append(('alternation', it, members))
            else:
                b = nd['ch'][0]
                bs, bn = b['span']
                lo, hi = nd['lo'], nd['hi']
                if hi is not None and hi < lo:
                    lo, hi = hi, lo
                if lo > 4:
                    continue
                top = min(hi, 4) if hi is not None else 4
                body = eb[bs:bs + bn]
                if glued(pre, body, post) or glued(body, body) or glued(pre, post):
                    res.count('family-skipped:junction')
                    continue
                members = [(pre + eb[bs:bs + bn] * k + post).decode('utf-8', 'ignore') for k in range(lo, top + 1)]
                fams.append(('repetition' if hi is not None and hi <= 4 else 'repetition_lower', it, members))
        toks = top_tokens(it.tree)
        if toks and it.tree['k'] == 'K':
            t = rng.choice(toks)
            s0, n0 = t['span']
            if t['k'] != 'T' and n0 > 0:
                sub = eb[s0:s0 + n0]
                fams.append(('wrap', it, [(eb[:s0] + b'{' + sub + b'}' + eb[s0 + n0:]).decode('utf-8', 'ignore'),
                                          (eb[:s0] + b'<' + sub + b':1>' + eb[s0 + n0:]).decode('utf-8', 'ignore')]))
    fams = fams[:sizes(tier, 1500, 20000)]
    cmds = []
    for kind, it, members in fams:
        args = ' '.join(hx(p) for p in it.paths)
        for m in members:
            cmds.append('mm %s %s' % (hx(m), args))
    outs = W.run_impl(cmds)
    louts = W.run_model(['lang ' + c[3:] for c in cmds])
    pos = 0
    for kind, it, members in fams:
        rs = outs[pos:pos + len(members)]
        ls = louts[pos:pos + len(members)]
        pos += len(members)
        if any(r in ('err', 'panic', 'crashed', 'missing') for r in rs) or it.imm is None or not members:
            res.count('family-skipped:' + kind)
            continue
        res.count('family:' + kind)
        unstable = it.cls.get('stable') == '0' or it.cls.get('rft') == '1' or any('stable=0' in l or 'rft=1' in l for l in ls)
        bits = [[bit(x) for x in r.split('|')] for r in rs]
        for j, p in enumerate(it.paths):
            res.evaluations += 1
            res.nontrivial.add((it.e, kind, p))
            orig = bit(it.imm[j])
            if kind == 'wrap':
                okay = all(b[j] == orig for b in bits)
            elif kind == 'repetition_lower':
                okay = all(b[j] != '1' or orig == '1' for b in bits)      # every written-out form is included
            else:
                okay = (orig == '1') == any(b[j] == '1' for b in bits)
            if not okay:
                if unstable and 'unstable_tree_position' in kfs:
                    res.known_hits['unstable_tree_position'] = res.known_hits.get('unstable_tree_position', 0) + 1
                else:
                    res.oracle_fail('%s does not compose' % kind, {'glob': it.e, 'members': members, 'path': p, 'original': orig,
                                                                 'members_match': [b[j] for b in bits]})
                break
        res.sample({'glob': it.e, 'kind': kind, 'members': members[:3]})
    # any(): union, three routes
    anyf = []
    for _ in range(sizes(tier, 500, 6000)):
        anyf.append(rng.sample(built, rng.choice([1, 2, 2, 3])))
    acmds = ['any ' + ' '.join(hx(it.e) for it in f) for f in anyf]
    for f, a, b in zip(anyf, W.run_impl(acmds), W.run_model(acmds)):
        ha, fa = W.fields(a)
        hb, fb = W.fields(b)
        if ha != hb or (ha == 'ok' and (fa.get('tree') != fb.get('tree') or fa.get('re') != fb.get('re'))):
            res.tie_fail('C07 any(): token tree or program differs', {'any': [it.e for it in f], 'impl': a[:200], 'model': b[:200]})
    mcmds, keep = [], []
    for f in anyf:
        ps = [p for it in f for p in it.paths[:8]]
        es = ' '.join(hx(it.e) for it in f)
        mcmds.append('anymm %d %s %s' % (len(f), es, ' '.join(hx(p) for p in ps)))
        for it in f:
            mcmds.append('mm %s %s' % (hx(it.e), ' '.join(hx(p) for p in ps)))
        keep.append((f, ps))
    outs = W.run_impl(mcmds)
    mouts = W.run_model([c for c in mcmds if c.startswith('anymm')])
    pos = mi = 0
    for f, ps in keep:
        a = outs[pos]
        ms = outs[pos + 1:pos + 1 + len(f)]
        pos += 1 + len(f)
        am = mouts[mi]
        mi += 1
        if a in ('err', 'panic') or any(m in ('err', 'panic') for m in ms):
            continue
        if 'ANY-ROUTES-DIFFER' in a:
            res.oracle_fail('any() of text, of compiled globs and nested any() disagree', {'any': [it.e for it in f], 'impl': a[:200]})
        ab = [bit(x) for x in a.split('|')]
        if am not in ('err', 'panic', 'model-timeout') and [bit(x) for x in am.split('|')] != ab:
            res.tie_fail('C07 any(): is_match differs from the model', {'any': [it.e for it in f], 'impl': a[:120], 'model': am[:120]})
        mb = [[bit(x) for x in m.split('|')] for m in ms]
        for j, p in enumerate(ps):
            res.evaluations += 1
            if (ab[j] == '1') != any(b[j] == '1' for b in mb):
                # the combinator re-encodes the branches at its own position: only tree wildcards can notice
                if any(it.cls.get('stable') == '0' or it.cls.get('rft') == '1' for it in f) and 'unstable_tree_position' in kfs:
                    res.known_hits['unstable_tree_position'] = res.known_hits.get('unstable_tree_position', 0) + 1
                else:
                    res.oracle_fail('any() is not the union of its patterns', {'any': [it.e for it in f], 'path': p, 'any_matches': ab[j],
                                                                                'members_match': [b[j] for b in mb]})
                break
    for cls, kf in kfs.items():
        w = kf['witness']
        o = W.run_impl(['mm %s %s' % (hx(w['glob']), hx(w['path']))] + ['mm %s %s' % (hx(m), hx(w['path'])) for m in w['members']])
        known_line(res, kf, (bit(o[0]) == '1') != any(bit(x) == '1' for x in o[1:]),
                   'glob=%r members=%r path=%r: %s vs %s' % (w['glob'], w['members'], w['path'], bit(o[0]), [bit(x) for x in o[1:]]))


# ---- C08 partition -------------------------------------------------------------------------------------------------------------------
def split_prefix(prefix, p):
    """the remainder r with join(prefix, r) == p as std::path joins, or None"""
    if prefix == '':
        return p
    if p == prefix or p == prefix.rstrip('/') and prefix != '/':
        return ''
    pre = prefix if prefix.endswith('/') else prefix + '/'
    if p.startswith(pre):
        return p[len(pre):]
    return None


def c08_class(it, pf):
    e = it.e
    if it.cls.get('rft') == '1' or it.cls.get('stable') == '0':
        return 'unstable_tree_position'
    return None


def c08(res, rng, tier, replay=None):
    if replay:
        return replay_generic(replay)
    n = sizes(tier, 1500, 20000)
    res.rule = ('ExprGen globs biased to literal / invariant prefixes (plain, case-flagged, rooted by `/`, `/**` or a repetition, invariant alternations and '
                'repetitions in the prefix, wholly invariant) x sampled canonical paths; non-trivial = distinct (glob, canonical path); tie: partition(): prefix, '
                'postfix expression, its token tree / program / has_root / captures, re-partition, impl vs model; oracle: a canonical path matches the glob <=> '
                'it is prefix joined with a remainder that the postfix matches; postfix never rooted; re-partition is the identity; the displayed postfix is a '
                'suffix of the expression and rebuilds into a glob with the same matches and captures')
    exprs = gen_exprs(rng, n // 3)
    g = G.ExprGen(rng, wild=0.02, maxdepth=2)
    pre_atoms = ['a', 'b', 'ab', 'x.txt', '.', '..', 'é', '{a}', '<a:2>', '(?i)1', '(?i)a', '[a]', '{a/b}', '<a/:2>', '</a:1,>', 'ǅ', '(?i)ǅ', '[/]', '{a,a}']
    while len(exprs) < n:
        k = rng.randint(0, 3)
        pre = '/'.join(rng.choice(pre_atoms) for _ in range(k))
        lead = rng.choice(['', '', '/', '/**/' if k == 0 else '/'])
        post = rng.choice(['', g.glob(1, sub=True), '**', '*', '**/' + g.component(1), g.component(1)])
        sep = '/' if pre and post and not post.startswith('/') else ''
        if sep and rng.random() < 0.25:
            sep = ''        # variant text directly after the invariant run, without a separator in between
        e = lead + pre + sep + post
        exprs.append(e)
    exprs = list(dict.fromkeys(exprs))
    items = stage_globs(exprs)
    note_shapes(res, items)
    built = stage_match(items, rng)
    kfs = {k['class']: k for k in W.known_findings('C08')}
    cmds = ['part ' + hx(it.e) for it in built]
    io, mo = W.run_impl(cmds), W.run_model(cmds)
    jobs = []
    for it, a, b in zip(built, io, mo):
        if a != b and not c05_class(it.e):
            res.tie_fail('C08 partition() differs', {'glob': it.e, 'impl': a[:400], 'model': b[:400]})
        h, f = W.fields(a)
        if h != 'ok' or it.imm is None:
            continue
        prefix = W.unhx(f['prefix'])
        post = None if f.get('post') == '-' else W.unhx(f['post'])
        owned_view = (f.get('oprefix'), f.get('opost'), f.get('optree'), f.get('opre'))
        if owned_view != (f.get('prefix'), f.get('post'), f.get('ptree'), f.get('pre')):
            res.oracle_fail('partitioning the owned glob gives another prefix / postfix than partitioning the borrowed one',
                            {'glob': it.e, 'borrowed': [f.get('prefix'), W.unhx(f['post']) if f.get('post', '-') != '-' else None],
                             'owned': [f.get('oprefix'), W.unhx(f['opost']) if f.get('opost', '-') not in ('-', None, '!') else f.get('opost')]})
        res.count('post:none' if post is None else 'post:some')
        res.count('prefix:empty' if prefix == '' else 'prefix:some')
        if post is not None:
            if f.get('proot') == 'A' or f.get('proot') == 'S':
                cls = 'rooted_repetition'
                if cls in kfs and re.search(r'<', it.e):
                    res.known_hits[cls] = res.known_hits.get(cls, 0) + 1
                else:
                    res.oracle_fail('the postfix of a partition is rooted', {'glob': it.e, 'prefix': prefix, 'postfix': post})
            if not it.e.endswith(post):
                cls = 'partition_flag_before_root' if '(?' in it.e else None
                if cls and cls in kfs:
                    res.known_hits[cls] = res.known_hits.get(cls, 0) + 1
                else:
                    res.oracle_fail('the postfix does not display as a suffix of the expression', {'glob': it.e, 'postfix': post})
            rp = f.get('repart')
            if rp != '!' and rp is not None:
                p2, e2 = rp.split('|')
                if not (W.unhx(p2) == '' and e2 != '-' and W.unhx(e2) == post):
                    cls = 'rooted_repetition' if (f.get('proot') in ('A', 'S')) else None
                    if cls and cls in kfs:
                        res.known_hits[cls] = res.known_hits.get(cls, 0) + 1
                    else:
                        res.oracle_fail('partitioning the postfix again is not the identity', {'glob': it.e, 'postfix': post, 'repartition': [W.unhx(p2), e2]})
        canon = [(j, p) for j, p in enumerate(it.paths) if G.canonical(p)]
        rests = [(j, p, split_prefix(prefix, p)) for j, p in canon]
        jobs.append((it, prefix, post, f, rests))
    # postfix matches on the remainders (through the rebuilt displayed postfix: also checks the rebuild)
    mcmds, keep = [], []
    for it, prefix, post, f, rests in jobs:
        rs = [r for (_, _, r) in rests if r is not None]
        if post is not None and rs:
            mcmds.append('mm %s %s' % (hx(post), ' '.join(hx(r) for r in rs)))
            keep.append((it, prefix, post, f, rests, True))
        else:
            keep.append((it, prefix, post, f, rests, False))
    outs = iter(W.run_impl(mcmds))
    for it, prefix, post, f, rests, has in keep:
        o = next(outs) if has else None
        if has and o in ('err', 'panic'):
            cls = 'partition_flag_before_root' if '(?' in it.e else None
            if cls and cls in kfs:
                res.known_hits[cls] = res.known_hits.get(cls, 0) + 1
            else:
                res.oracle_fail('the displayed postfix does not rebuild', {'glob': it.e, 'postfix': post})
            continue
        pm = iter(o.split('|')) if has else iter([])
        for j, p, r in rests:
            res.evaluations += 1
            res.nontrivial.add((it.e, p))
            whole = bit(it.imm[j]) == '1'
            if r is None:
                parts = False
            elif post is None:
                parts = (r == '')
            else:
                parts = bit(next(pm)) == '1'
            if whole != parts:
                cls = c08_class(it, f)
                if has_sep_class(it.tree):
                    cls = 'separator_class'
                elif post is not None and it.e.endswith(post) and flag_in_force(it.e, len(it.e.encode()) - len(post.encode())) == '(?i)':
                    cls = 'partition_flag_loss'
                elif f.get('proot') in ('A', 'S'):
                    cls = 'rooted_repetition'
                elif r == '' and parts and not whole and (post is not None or p != prefix):
                    cls = 'prefix_only_path'
                if cls and cls in kfs:
                    res.known_hits[cls] = res.known_hits.get(cls, 0) + 1
                else:
                    res.oracle_fail('matching the glob differs from matching prefix + postfix',
                                    {'glob': it.e, 'path': p, 'prefix': prefix, 'postfix': post, 'remainder': r, 'glob_matches': whole, 'parts_match': parts, 'class': cls})
                break
        res.sample({'glob': it.e, 'prefix': prefix, 'postfix': post})
    for cls, kf in kfs.items():
        w = kf['witness']
        h, f = W.fields(W.run_impl(['part ' + hx(w['glob'])])[0])
        known_line(res, kf, h == 'ok' and all(f.get(k) == v for k, v in w.get('expect', {}).items()),
                   'glob=%r prefix=%s postfix=%s proot=%s' % (w['glob'], f.get('prefix'), f.get('post'), f.get('proot')))


# ---- C17 spans --------------------------------------------------------------------------------------------------------------------------
def span_ok(eb, s, n):
    if s < 0 or n < 0 or s + n > len(eb):
        return False
    for x in (s, s + n):
        if x < len(eb) and (eb[x] & 0xC0) == 0x80:
            return False
    return True


def c17(res, rng, tier, replay=None):
    if replay:
        return replay_generic(replay)
    n = sizes(tier, 5000, 120000)
    res.rule = ('malformed stream with multi-byte characters next to every fault (parse errors, faults at the end of input), rule violations, valid globs and '
                'their partitions; non-trivial = distinct expressions that produce at least one span; tie: every error and capture span impl vs model; '
                'oracle: every span lies within the expression on character boundaries; a capture span slices to a sub-expression that parses to exactly one '
                'token of the same kind; after partition the spans refer to the postfix expression')
    exprs, seen = [], set()
    for e in load_corpus('exprs.jsonl'):
        if e not in seen:
            seen.add(e)
            exprs.append(e)
    g = G.ExprGen(rng, wild=0.2)
    multi = ['愛', 'é', 'ꙮ', '𝄞']
    while len(exprs) < n:
        x = rng.random()
        e = G.malformed(rng) if x < 0.45 else g.glob()
        if rng.random() < 0.5 and e:
            i = rng.randrange(len(e) + 1)
            e = e[:i] + rng.choice(multi) + e[i:]
        if rng.random() < 0.1:
            e = e + rng.choice(['(?i)', '\\', '愛\\愛', '(?-i)', '[', '{a,', '<a:'])
        if rng.random() < 0.15 and '/' in e:
            # double a boundary (adjacent boundary rule errors of every shape, also at the very end)
            idxs = [i for i, c in enumerate(e) if c == '/']
            i = rng.choice(idxs)
            e = e[:i] + rng.choice(['//', '/**//', '//**/', '/**/**/', '**//']) + e[i + 1:]
            if rng.random() < 0.4:
                e = e[:i + 8]
        if e not in seen and len(e) < 120:
            seen.add(e)
            exprs.append(e)
    items = stage_globs(exprs)
    note_shapes(res, items)
    slices = []
    for it in items:
        eb = it.e.encode('utf-8')
        ih = it.ihead
        if ih.startswith(('perr', 'rerr')):
            res.evaluations += 1
            res.nontrivial.add(it.e)
            if it.ihead != it.mhead and not c05_class(it.e):
                res.tie_fail('C17 error spans differ', {'glob': it.e, 'impl': it.ihead, 'model': it.mhead})
            spans = ih.split(' ')[-1]
            for sp in [x for x in spans.split(';') if x]:
                s0, n0 = (int(v) for v in sp.split(','))
                if not span_ok(eb, s0, n0):
                    res.oracle_fail('an error span does not index the expression safely', {'glob': it.e, 'span': [s0, n0], 'bytes': len(eb), 'error': ih})
                    break
        elif ih == 'ok':
            caps = it.if_.get('caps', '')
            if it.mhead == 'ok' and caps != it.mf.get('caps') and not c05_class(it.e):
                res.tie_fail('C17 capture spans differ', {'glob': it.e, 'impl': caps, 'model': it.mf.get('caps')})
            if caps and caps != '!':
                res.evaluations += 1
                res.nontrivial.add(it.e)
                toks = [c for c in top_tokens(it.tree) if c['k'] in ('C', 'O', 'Z', 'T', 'A', 'R')] if it.tree else []
                for k, c in enumerate(caps.split(';')):
                    idx, sp = c.split(':')
                    s0, n0 = (int(v) for v in sp.split(','))
                    if not span_ok(eb, s0, n0):
                        res.oracle_fail('a capture span does not index the expression safely', {'glob': it.e, 'span': [s0, n0], 'bytes': len(eb)})
                        break
                    if k < len(toks):
                        slices.append((it, k, toks[k]['k'], eb[s0:s0 + n0].decode('utf-8', 'ignore'), 'glob'))
    # partitions
    built = [it for it in items if it.ihead == 'ok'][:sizes(tier, 1500, 20000)]
    pc = ['part ' + hx(it.e) for it in built]
    for it, a, b in zip(built, W.run_impl(pc), W.run_model(pc)):
        h, f = W.fields(a)
        hb, fb = W.fields(b)
        if h != 'ok' or f.get('post', '-') == '-':
            continue
        if hb == 'ok' and f.get('pcaps') != fb.get('pcaps') and not c05_class(it.e):
            res.tie_fail('C17 capture spans of the postfix differ', {'glob': it.e, 'impl': f.get('pcaps'), 'model': fb.get('pcaps')})
        post = W.unhx(f['post'])
        pb = post.encode('utf-8')
        try:
            ptoks = [c for c in top_tokens(G.read_tree(f['ptree'])) if c['k'] in ('C', 'O', 'Z', 'T', 'A', 'R')]
        except Exception:
            ptoks = []
        ocs, opost = f.get('opcaps', ''), f.get('opost', '-')
        if ocs and ocs != '!' and opost not in ('-', '!', None):
            ob = W.unhx(opost).encode('utf-8')
            for c in ocs.split(';'):
                s0, n0 = (int(v) for v in c.split(':')[1].split(','))
                if not span_ok(ob, s0, n0):
                    res.oracle_fail('a capture span of the postfix of the owned glob does not index that postfix expression safely',
                                    {'glob': it.e, 'postfix': W.unhx(opost), 'span': [s0, n0], 'bytes': len(ob)})
                    break
            if (ocs, opost) != (f.get('pcaps'), f.get('post')):
                res.oracle_fail('the capture spans of the postfix differ between the owned and the borrowed glob',
                                {'glob': it.e, 'borrowed': [W.unhx(f['post']), f.get('pcaps')], 'owned': [W.unhx(opost), ocs]})
        pcs = f.get('pcaps', '')
        if pcs and pcs != '!':
            res.evaluations += 1
            res.nontrivial.add((it.e, 'partition'))
            for k, c in enumerate(pcs.split(';')):
                idx, sp = c.split(':')
                s0, n0 = (int(v) for v in sp.split(','))
                if not span_ok(pb, s0, n0):
                    res.oracle_fail('a capture span of the postfix does not index the postfix expression safely',
                                    {'glob': it.e, 'postfix': post, 'span': [s0, n0], 'bytes': len(pb)})
                    break
                if k < len(ptoks):
                    slices.append((it, k, ptoks[k]['k'], pb[s0:s0 + n0].decode('utf-8', 'ignore'), 'postfix ' + post))
    slices = slices[:sizes(tier, 8000, 100000)]
    outs = W.run_impl(['parse ' + hx(sl) for (_, _, _, sl, _) in slices])
    kfs = {k['class']: k for k in W.known_findings('C17')}
    for (it, k, kind, sl, where), o in zip(slices, outs):
        h, f = W.fields(o)
        good = False
        if h == 'ok':
            try:
                t = G.read_tree(f['tree'])
                tt = top_tokens(t)
                good = len(tt) == 1 and tt[0]['k'] == kind
            except Exception:
                good = False
        res.count('slice:' + ('ok' if good else 'bad'))
        if not good:
            cls = 'partition_flag_before_root' if (where != 'glob' and '(?' in it.e) else None
            if cls and cls in kfs:
                res.known_hits[cls] = res.known_hits.get(cls, 0) + 1
            else:
                res.oracle_fail('a capture span does not delimit exactly the text of its sub-expression',
                                {'glob': it.e, 'where': where, 'index': k + 1, 'kind': kind, 'slice': sl, 'parse': o[:120]})
    for it in items[:6]:
        res.sample({'glob': it.e, 'outcome': it.ihead[:60]})
    for cls, kf in kfs.items():
        w = kf['witness']
        h, f = W.fields(W.run_impl(['part ' + hx(w['glob'])])[0])
        known_line(res, kf, h == 'ok' and f.get('post') == hx(w['postfix']), 'glob=%r postfix displays as %r' % (w['glob'], W.unhx(f['post']) if f.get('post', '-') != '-' else None))


# ---- C18 escape ---------------------------------------------------------------------------------------------------------------------------
def c18(res, rng, tier, replay=None):
    if replay:
        return replay_generic(replay)
    n = sizes(tier, 4000, 200000)
    res.rule = ('random strings over the meta-characters, separators, flag-like and class-like text, `-`, `!`, spaces, non-ASCII and control characters '
                '(every subset and order occurs); non-trivial = distinct strings; tie: escape() impl vs model, and the tables is_meta_character / '
                'is_contextual_meta_character / "parser does not read this character as itself" over all 1,114,112 code points impl vs model; oracle: for strings '
                'without backslash and adjacent separators the escaped glob builds, reports the string as invariant text, matches it and no one-edit mutant; '
                'every parser-special character except `/` and `\\` is reported as a meta-character; strings without meta-characters are unchanged')
    # tables over all code points (dumped by build_all from the built code)
    meta = open(os.path.join(W.TABLES, 'meta.tbl')).read().strip()
    special = open(os.path.join(W.TABLES, 'special.tbl')).read().strip()
    mm = W.run_model(['meta 0 1114112', 'special 0 1114112'], shards=2)
    res.evaluations += 2
    if mm[0] != meta:
        res.tie_fail('C18 meta-character tables differ over all code points', {'impl': meta, 'model': mm[0]})
    if mm[1] != special:
        res.tie_fail('C18 parser-special character sets differ over all code points', {'impl': special, 'model': mm[1]})
    metas = set(int(x) for x in meta.split('\t')[0][5:].split(',') if x)
    specials = set(int(x) for x in special.split(',') if x)
    missing = specials - metas - {47, 92}
    if missing:
        res.oracle_fail('a character the parser treats specially is not reported as a meta-character', {'characters': [chr(c) for c in sorted(missing)]})
    alpha = list('?*$:<>()[]{},') * 2 + list('/-!ai. \n\t=|~#&^%@+;\'"') + ['é', '愛', 'ǅ', '(?i)', '[a-c]', '{a,b}', '<a:1>', '**', 'x']
    strs, seen = [], set()
    while len(strs) < n:
        s = ''.join(rng.choice(alpha) for _ in range(rng.randint(0, 10)))
        if s not in seen:
            seen.add(s)
            strs.append(s)
    # texts just below the invariant size limit (65536 bytes): plain, with components and meta-characters, multi-byte
    for s_ in ['a' * 65535, 'a' * 65534, 'd[1]/' * 13107, '愛' * 21845, 'x/' * 32767 + 'y', '*' * 65535]:
        strs.append(s_)
    ecmds = ['esc ' + hx(s) for s in strs]
    ie, me = W.run_impl(ecmds), W.run_model(ecmds)
    gcmds, keep = [], []
    for s, a, b in zip(strs, ie, me):
        res.evaluations += 1
        res.nontrivial.add(s)
        if a != b:
            res.tie_fail('C18 escape() differs', {'text': s, 'impl': a, 'model': b})
        esc = W.unhx(a)
        if not any(ord(c) in metas for c in s) and esc != s:
            res.oracle_fail('escape changes a string without meta-characters', {'text': s, 'escaped': esc})
        if '\\' in s or '//' in s:
            continue
        muts = [G.mutate(s, rng) for _ in range(3)]
        muts = [m for m in muts if m != s]
        gcmds.append('glob ' + hx(esc))
        gcmds.append('mm %s %s' % (hx(esc), ' '.join(hx(p) for p in [s] + muts)))
        keep.append((s, esc, muts))
    outs = W.run_impl(gcmds)
    # the objects of the end-to-end theorem are the code's objects: token tree, program and text of every escaped glob
    mouts = W.run_model([c for c in gcmds if c.startswith('glob ')])
    for i, (s, esc, muts) in enumerate(keep):
        ih, if_ = W.fields(outs[2 * i])
        mh, mf_ = W.fields(mouts[i])
        if mh in ('model-timeout', 'model-stack-overflow', 'model-out-of-fuel'):
            res.count('model gave no verdict within its budget: ' + mh)
        elif ih != mh or any(if_.get(k) != mf_.get(k) for k in ('tree', 're', 'text')):
            res.tie_fail('C18 the glob built from the escaped string differs from the model', {'text': s, 'escaped': esc, 'impl': outs[2 * i][:300], 'model': mouts[i][:300]})
    for i, (s, esc, muts) in enumerate(keep):
        g_, m_ = outs[2 * i], outs[2 * i + 1]
        h, f = W.fields(g_)
        if h != 'ok':
            res.oracle_fail('the escaped string does not build', {'text': s, 'escaped': esc, 'impl': g_[:120]})
            continue
        if f.get('text') != 'I' + hx(s):
            res.oracle_fail('the escaped glob does not report the string as its invariant text', {'text': s, 'escaped': esc, 'reported': f.get('text')})
            continue
        rs = m_.split('|')
        if bit(rs[0]) != '1' or any(bit(r) == '1' for r in rs[1:]):
            res.oracle_fail('the escaped glob does not match exactly the string', {'text': s, 'escaped': esc, 'mutants': muts, 'results': [bit(r) for r in rs]})
    for s, esc, _ in keep[:8]:
        res.sample({'text': s, 'escaped': esc})


# ---- C19 conversions -----------------------------------------------------------------------------------------------------------------------
def c19(res, rng, tier, replay=None):
    if replay:
        c = replay['case']
        print(W.run_impl(['routes %s %s' % (hx(c['glob']), ' '.join(hx(p) for p in c.get('paths', [''])))]))
        return 1
    n = sizes(tier, 1200, 20000)
    res.rule = ('ExprGen globs x sampled paths; non-trivial = distinct (glob, path); every conversion route (Display+new, clone, into_owned, FromStr, TryFrom, '
                'clone of owned; any() of text / compiled / owned) must give identical observables: token tree, program, every query, is_match and all capture '
                'spans borrowed and owned; tie: the token tree and program of the original impl vs model (the model is route-free by construction)')
    items, built = prepare(res, rng, n, npaths=(8, 6))
    tie_fields(res, items, ['tree', 're'], 'C19 build')
    cmds = ['routes %s %s' % (hx(it.e), ' '.join(hx(p) for p in it.paths)) for it in built]
    for it, o in zip(built, W.run_impl(cmds)):
        res.evaluations += len(it.paths)
        for p in it.paths:
            res.nontrivial.add((it.e, p))
        res.count('routes:' + o.split(' ')[0])
        if not o.startswith('same'):
            if o.startswith('panic') and c05_class(it.e):
                continue
            res.oracle_fail('conversion routes disagree: ' + o, {'glob': it.e, 'paths': it.paths[:6]})
        if it.imm is not None and any('OWNED-MISMATCH' in r for r in it.imm):
            res.oracle_fail('owned matched text differs from the borrowed matched text', {'glob': it.e})
    for it in built[:8]:
        res.sample({'glob': it.e, 'paths': it.paths[:3]})


PROPS = {'C01': c01, 'C04': c04, 'C05': c05, 'C06': c06, 'C07': c07, 'C08': c08, 'C09': c09, 'C10': c10, 'C11': c11, 'C12': c12,
         'C17': c17, 'C18': c18, 'C19': c19}
