# props_pattern.py -- tie and oracle of the properties about patterns (no file system):
# C01 C04 C05 C06 C07 C08 C09 C10 C11 C12 C17 C18 C19.
import json, os, random, re
import waxlib as W
import gen as G

hx = W.hx


def load_corpus(name):
    path = os.path.join(W.VERIF, 'corpus', name)
    out = []
    if os.path.exists(path):
        for line in open(path, encoding='utf-8'):
            line = line.rstrip('\n')
            if line.startswith('#'):
                continue
            out.append(json.loads(line) if line.startswith(('"', '[', '{')) else line)
    return out


def sizes(tier, quick, thorough):
    return thorough if tier == 'thorough' else quick


# ---- shared stages --------------------------------------------------------------------------------------
class Item:
    __slots__ = ('e', 'impl', 'model', 'ihead', 'if_', 'mhead', 'mf', 'tree', 'paths', 'imm', 'mmm', 'lang', 'cls')

    def __init__(self, e):
        self.e = e
        self.tree = None
        self.paths = []
        self.imm = self.mmm = self.lang = None
        self.cls = {}


def gen_exprs(rng, n, wild=0.06):
    g = G.ExprGen(rng, wild=wild)
    seen, out = set(), []
    for e in load_corpus('exprs.jsonl'):
        if e not in seen:
            seen.add(e)
            out.append(e)
    tries = 0
    while len(out) < n and tries < 20 * n:
        tries += 1
        e = g.glob()
        if e not in seen and len(e) < 120:
            seen.add(e)
            out.append(e)
    return out


def stage_globs(exprs):
    cmds = ['glob ' + hx(e) for e in exprs]
    impl = W.run_impl(cmds)
    model = W.run_model(cmds)
    items = []
    for e, i, m in zip(exprs, impl, model):
        it = Item(e)
        it.impl, it.model = i, m
        it.ihead, it.if_ = W.fields(i)
        it.mhead, it.mf = W.fields(m)
        if it.ihead == 'ok' and it.if_.get('tree', '!') != '!':
            try:
                it.tree = G.read_tree(it.if_['tree'])
            except Exception:
                it.tree = None
        items.append(it)
    return items


def stage_match(items, rng, npaths=(14, 12)):
    built = [it for it in items if it.ihead == 'ok' and it.tree is not None]
    cmds, lcmds = [], []
    for it in built:
        it.paths = G.paths_for(it.tree, rng, *npaths)
        args = ' '.join(hx(p) for p in it.paths)
        cmds.append('mm %s %s' % (hx(it.e), args))
        lcmds.append('lang %s %s' % (hx(it.e), args))
    impl = W.run_impl(cmds)
    model = W.run_model(cmds)
    lang = W.run_model(lcmds)
    for it, i, m, l in zip(built, impl, model, lang):
        it.imm = i.split('|') if i not in ('panic', 'err', 'crashed', 'missing') else None
        it.mmm = m.split('|') if m not in ('panic', 'err', 'crashed', 'missing', 'model-out-of-fuel', 'model-timeout', 'model-stack-overflow') else None
        parts = l.split('\t')
        if len(parts) == 2 and parts[1] != 'skip':
            it.cls = dict(kv.split('=') for kv in parts[0].split())
            it.lang = parts[1].split('|')
        elif len(parts) == 2:
            it.cls = dict(kv.split('=') for kv in parts[0].split())
    return built


def has_big_bound(e):
    return any(int(d) >= 256 for d in re.findall(r'\d+', e))


def bit(r):
    return r[:1]


def tie_fields(res, items, names, what):
    """the named fields of the `glob` report must agree between implementation and model"""
    bad = []
    for it in items:
        if it.ihead == 'cerr' and it.mhead == 'ok' and has_big_bound(it.e):
            continue      # the size of the compiled program is not modelled (see C05)
        if it.ihead != it.mhead and not (it.ihead.split(' ')[0] == it.mhead.split(' ')[0] and 'head' not in names):
            res.tie_fail('%s: build outcome differs' % what, {'glob': it.e, 'impl': it.impl[:300], 'model': it.model[:300]})
            bad.append(it)
            continue
        if it.ihead != 'ok':
            continue
        for n in names:
            if n == 'head':
                continue
            if it.if_.get(n) != it.mf.get(n):
                res.tie_fail('%s: field %s differs' % (what, n),
                             {'glob': it.e, 'field': n, 'impl': it.if_.get(n), 'model': it.mf.get(n)})
                bad.append(it)
                break
    return bad


def note_shapes(res, items):
    for it in items:
        res.count('outcome:' + it.ihead.split(' ')[0])
        if it.tree is not None:
            n, d, ks = G.tree_stats(it.tree)
            res.count('nodes:%s' % ('1-4' if n <= 4 else '5-9' if n <= 9 else '10-19' if n <= 19 else '20+'))
            res.count('depth:%d' % min(d, 6))
            for k in ks:
                res.count('kind:' + k)


def known_line(res, kf, still_fails, detail):
    if still_fails:
        print('KNOWN-FINDING: property=%s class=%s %s' % (res.pid, kf['class'], detail), flush=True)
        res.known_hits[kf['class']] = res.known_hits.get(kf['class'], 0)
    else:
        res.notes.append('known finding %s no longer reproduces on its witness' % kf['class'])


# ---- C01 ----------------------------------------------------------------------------------------------------
def c01_known_class(it):
    if it.cls.get('rft') == '1':
        return 'rooted_first_tree'
    if it.cls.get('stable') == '0':
        return 'unstable_tree_position'
    if it.cls.get('revrange') == '1':
        return 'reversed_class_range'
    return None


def c01(res, rng, tier, replay=None):
    n = sizes(tier, 1200, 20000)
    res.rule = ('structured random glob expressions (ExprGen: literals incl. non-ASCII and case pairs, escapes, classes, '
                '? * $, alternations, repetitions with bounds, tree wildcards in every position, flags at gaps; '
                'corpus/exprs.jsonl first) x per-glob paths sampled from the token tree, one-edit mutants and fixed short paths; '
                'non-trivial = distinct (glob, path) pairs of globs that build; tie: token tree, regex text, is_match; '
                'oracle: is_match of the implementation vs Spec.spec_match (documented language)')
    if replay:
        c = replay['case']
        out = W.run_impl(['mm %s %s' % (hx(c['glob']), hx(c['path']))])
        spec = W.run_model(['lang %s %s' % (hx(c['glob']), hx(c['path']))])
        print('impl:', out[0], ' spec:', spec[0])
        return 0 if bit(out[0]) == spec[0].split('\t')[-1] else 1
    exprs = gen_exprs(rng, n)
    items = stage_globs(exprs)
    note_shapes(res, items)
    tie_bad = tie_fields(res, items, ['head', 'tree', 're'], 'C01 encoder')
    built = stage_match(items, rng)
    kfs = {k['class']: k for k in W.known_findings('C01')}
    for it in built:
        if it.imm is None:
            continue
        for p, r in zip(it.paths, it.imm):
            res.evaluations += 1
            res.nontrivial.add((it.e, p))
        res.count('matches', sum(1 for r in it.imm if bit(r) == '1'))
        res.count('rejects', sum(1 for r in it.imm if bit(r) == '0'))
        if it.mmm is not None:
            for p, a, b in zip(it.paths, it.imm, it.mmm):
                if bit(a) != bit(b):
                    res.tie_fail('C01 is_match differs from the model regex', {'glob': it.e, 'path': p, 'impl': a, 'model': b})
                    break
        if it.lang is None:
            res.count('spec-skipped')
            continue
        cls = c01_known_class(it)
        for p, a, s in zip(it.paths, it.imm, it.lang):
            if bit(a) != s:
                if cls and cls in kfs:
                    res.known_hits[cls] = res.known_hits.get(cls, 0) + 1
                else:
                    res.oracle_fail('is_match disagrees with the documented language',
                                    {'glob': it.e, 'path': p, 'impl_is_match': bit(a), 'spec': s, 'class': cls})
                break
        res.sample({'glob': it.e, 'paths': it.paths[:4], 'impl': [bit(r) for r in it.imm[:4]]})
    # the listed witnesses
    for cls, kf in kfs.items():
        w = kf['witness']
        a = W.run_impl(['mm %s %s' % (hx(w['glob']), hx(w['path']))])[0]
        s = W.run_model(['lang %s %s' % (hx(w['glob']), hx(w['path']))])[0].split('\t')[-1]
        known_line(res, kf, bit(a) != s, 'glob=%r path=%r is_match=%s documented=%s' % (w['glob'], w['path'], bit(a), s))


PROPS = {'C01': c01}
