# props_pattern.py -- tie and oracle of the properties about patterns (no file system):
# C01 C04 C05 C06 C07 C08 C09 C10 C11 C12 C17 C18 C19.
import json, os, random, re
import waxlib as W
import gen as G

hx = W.hx


def load_corpus(name):
    path = os.path.join(W.VERIF, 'corpus', name)
    out = []
    if os.path.exists(path):
        for line in open(path, encoding='utf-8'):
            line = line.rstrip('\n')
            if line.startswith('#'):
                continue
            out.append(json.loads(line) if line.startswith(('"', '[', '{')) else line)
    return out


def sizes(tier, quick, thorough):
    return thorough if tier == 'thorough' else quick


# ---- shared stages --------------------------------------------------------------------------------------
class Item:
    __slots__ = ('e', 'impl', 'model', 'ihead', 'if_', 'mhead', 'mf', 'tree', 'paths', 'imm', 'mmm', 'lang', 'cls')

    def __init__(self, e):
        self.e = e
        self.tree = None
        self.paths = []
        self.imm = self.mmm = self.lang = None
        self.cls = {}


def gen_exprs(rng, n, wild=0.06):
    g = G.ExprGen(rng, wild=wild)
    seen, out = set(), []
    for e in load_corpus('exprs.jsonl'):
        if e not in seen:
            seen.add(e)
            out.append(e)
    tries = 0
    while len(out) < n and tries < 20 * n:
        tries += 1
        e = g.glob()
        if e not in seen and len(e) < 120:
            seen.add(e)
            out.append(e)
    return out


def stage_globs(exprs):
    cmds = ['glob ' + hx(e) for e in exprs]
    impl = W.run_impl(cmds)
    model = W.run_model(cmds)
    items = []
    for e, i, m in zip(exprs, impl, model):
        it = Item(e)
        it.impl, it.model = i, m
        it.ihead, it.if_ = W.fields(i)
        it.mhead, it.mf = W.fields(m)
        if it.ihead == 'ok' and it.if_.get('tree', '!') != '!':
            try:
                it.tree = G.read_tree(it.if_['tree'])
            except Exception:
                it.tree = None
        items.append(it)
    return items


def stage_match(items, rng, npaths=(14, 12)):
    built = [it for it in items if it.ihead == 'ok' and it.tree is not None]
    cmds, lcmds = [], []
    for it in built:
        it.paths = G.paths_for(it.tree, rng, *npaths)
        args = ' '.join(hx(p) for p in it.paths)
        cmds.append('mm %s %s' % (hx(it.e), args))
        lcmds.append('lang %s %s' % (hx(it.e), args))
    impl = W.run_impl(cmds)
    model = W.run_model(cmds)
    lang = W.run_model(lcmds)
    for it, i, m, l in zip(built, impl, model, lang):
        it.imm = i.split('|') if i not in ('panic', 'err', 'crashed', 'missing') else None
        it.mmm = m.split('|') if m not in ('panic', 'err', 'crashed', 'missing', 'model-out-of-fuel', 'model-timeout', 'model-stack-overflow') else None
        parts = l.split('\t')
        if len(parts) == 2 and parts[1] != 'skip':
            it.cls = dict(kv.split('=') for kv in parts[0].split())
            it.lang = parts[1].split('|')
        elif len(parts) == 2:
            it.cls = dict(kv.split('=') for kv in parts[0].split())
    return built


def has_big_bound(e):
    return any(int(d) >= 256 for d in re.findall(r'\d+', e))


def bit(r):
    return r[:1]


def tie_fields(res, items, names, what):
    """the named fields of the `glob` report must agree between implementation and model"""
    bad = []
    for it in items:
        if it.ihead == 'cerr' and it.mhead == 'ok' and has_big_bound(it.e):
            continue      # the size of the compiled program is not modelled (see C05)
        if it.ihead != it.mhead and not (it.ihead.split(' ')[0] == it.mhead.split(' ')[0] and 'head' not in names):
            res.tie_fail('%s: build outcome differs' % what, {'glob': it.e, 'impl': it.impl[:300], 'model': it.model[:300]})
            bad.append(it)
            continue
        if it.ihead != 'ok':
            continue
        for n in names:
            if n == 'head':
                continue
            if it.if_.get(n) != it.mf.get(n):
                res.tie_fail('%s: field %s differs' % (what, n),
                             {'glob': it.e, 'field': n, 'impl': it.if_.get(n), 'model': it.mf.get(n)})
                bad.append(it)
                break
    return bad


def note_shapes(res, items):
    for it in items:
        res.count('outcome:' + it.ihead.split(' ')[0])
        if it.tree is not None:
            n, d, ks = G.tree_stats(it.tree)
            res.count('nodes:%s' % ('1-4' if n <= 4 else '5-9' if n <= 9 else '10-19' if n <= 19 else '20+'))
            res.count('depth:%d' % min(d, 6))
            for k in ks:
                res.count('kind:' + k)


def known_line(res, kf, still_fails, detail):
    if still_fails:
        print('KNOWN-FINDING: property=%s class=%s %s' % (res.pid, kf['class'], detail), flush=True)
        res.known_hits[kf['class']] = res.known_hits.get(kf['class'], 0)
    else:
        res.notes.append('known finding %s no longer reproduces on its witness' % kf['class'])


# ---- C01 ----------------------------------------------------------------------------------------------------
def c01_known_class(it):
    if it.cls.get('rft') == '1':
        return 'rooted_first_tree'
    if it.cls.get('stable') == '0':
        return 'unstable_tree_position'
    if it.cls.get('revrange') == '1':
        return 'reversed_class_range'
    return None


def c01(res, rng, tier, replay=None):
    n = sizes(tier, 1200, 20000)
    res.rule = ('structured random glob expressions (ExprGen: literals incl. non-ASCII and case pairs, escapes, classes, '
                '? * $, alternations, repetitions with bounds, tree wildcards in every position, flags at gaps; '
                'corpus/exprs.jsonl first) x per-glob paths sampled from the token tree, one-edit mutants and fixed short paths; '
                'non-trivial = distinct (glob, path) pairs of globs that build; tie: token tree, regex text, is_match; '
                'oracle: is_match of the implementation vs Spec.spec_match (documented language)')
    if replay:
        c = replay['case']
        out = W.run_impl(['mm %s %s' % (hx(c['glob']), hx(c['path']))])
        spec = W.run_model(['lang %s %s' % (hx(c['glob']), hx(c['path']))])
        print('impl:', out[0], ' spec:', spec[0])
        return 0 if bit(out[0]) == spec[0].split('\t')[-1] else 1
    exprs = gen_exprs(rng, n)
    items = stage_globs(exprs)
    note_shapes(res, items)
    tie_bad = tie_fields(res, items, ['head', 'tree', 're'], 'C01 encoder')
    built = stage_match(items, rng)
    kfs = {k['class']: k for k in W.known_findings('C01')}
    for it in built:
        if it.imm is None:
            continue
        for p, r in zip(it.paths, it.imm):
            res.evaluations += 1
            res.nontrivial.add((it.e, p))
        res.count('matches', sum(1 for r in it.imm if bit(r) == '1'))
        res.count('rejects', sum(1 for r in it.imm if bit(r) == '0'))
        if it.mmm is not None:
            for p, a, b in zip(it.paths, it.imm, it.mmm):
                if bit(a) != bit(b):
                    res.tie_fail('C01 is_match differs from the model regex', {'glob': it.e, 'path': p, 'impl': a, 'model': b})
                    break
        if it.lang is None:
            res.count('spec-skipped')
            continue
        cls = c01_known_class(it)
        for p, a, s in zip(it.paths, it.imm, it.lang):
            if bit(a) != s:
                if cls and cls in kfs:
                    res.known_hits[cls] = res.known_hits.get(cls, 0) + 1
                else:
                    res.oracle_fail('is_match disagrees with the documented language',
                                    {'glob': it.e, 'path': p, 'impl_is_match': bit(a), 'spec': s, 'class': cls})
                break
        res.sample({'glob': it.e, 'paths': it.paths[:4], 'impl': [bit(r) for r in it.imm[:4]]})
    # the listed witnesses
    for cls, kf in kfs.items():
        w = kf['witness']
        a = W.run_impl(['mm %s %s' % (hx(w['glob']), hx(w['path']))])[0]
        s = W.run_model(['lang %s %s' % (hx(w['glob']), hx(w['path']))])[0].split('\t')[-1]
        known_line(res, kf, bit(a) != s, 'glob=%r path=%r is_match=%s documented=%s' % (w['glob'], w['path'], bit(a), s))



# ---- shared helpers for the query properties --------------------------------------------------------------
def prepare(res, rng, n, wild=0.06, npaths=(14, 12)):
    exprs = gen_exprs(rng, n, wild)
    items = stage_globs(exprs)
    note_shapes(res, items)
    built = stage_match(items, rng, npaths)
    return items, built


def matched_paths(it):
    if it.imm is None:
        return []
    return [p for p, r in zip(it.paths, it.imm) if bit(r) == '1']


def parse_depth(d):
    """'I3' -> (3, 3); 'V2..-' -> (2, None); 'V-..4' -> (0, 4)"""
    if d.startswith('I'):
        return int(d[1:]), int(d[1:])
    lo, hi = d[1:].split('..')
    return (0 if lo == '-' else int(lo)), (None if hi == '-' else int(hi))


def tree_iter(t):
    yield t
    for c in t.get('ch', []):
        yield from tree_iter(c)


def replay_generic(replay):
    c = replay['case']
    cmds = []
    if 'glob' in c:
        cmds.append('glob ' + hx(c['glob']))
        if 'path' in c:
            cmds.append('mm %s %s' % (hx(c['glob']), hx(c['path'])))
    for cmd, out in zip(cmds, W.run_impl(cmds)):
        print('impl:', cmd.split(' ')[0], out[:600])
    for cmd, out in zip(cmds, W.run_model(cmds)):
        print('model:', cmd.split(' ')[0], out[:600])
    print('case:', json.dumps(c, ensure_ascii=False))
    return 1


# ---- C10 depth ---------------------------------------------------------------------------------------------------
def c10(res, rng, tier, replay=None):
    if replay:
        return replay_generic(replay)
    n = sizes(tier, 1500, 20000)
    res.rule = ('ExprGen globs (see C01) x sampled paths; non-trivial = distinct (glob, canonical matched path with >= 1 component '
                'that agrees with has_root); tie: depth() of implementation vs model (exact variance); oracle: component count of every '
                'such matched path lies within the depth variance the implementation reports')
    items, built = prepare(res, rng, n)
    tie_fields(res, items, ['depth'], 'C10 depth()')
    kfs = {k['class']: k for k in W.known_findings('C10')}
    for it in built:
        d = it.if_.get('depth', '!')
        if d == '!':
            continue
        lo, hi = parse_depth(d)
        root = it.if_.get('root')
        for p in matched_paths(it):
            if not G.canonical(p) or G.ncomp(p) < 1:
                continue
            if (root == 'A') != p.startswith('/'):
                continue
            res.evaluations += 1
            res.nontrivial.add((it.e, p))
            k = G.ncomp(p)
            if k < lo or (hi is not None and k > hi):
                cls = c10_class(it)
                if cls and cls in kfs:
                    res.known_hits[cls] = res.known_hits.get(cls, 0) + 1
                else:
                    res.oracle_fail('a matched canonical path has a component count outside the reported depth variance',
                                    {'glob': it.e, 'path': p, 'components': k, 'depth': d, 'class': cls})
                break
        res.sample({'glob': it.e, 'depth': d})
    for cls, kf in kfs.items():
        w = kf['witness']
        g = W.fields(W.run_impl(['glob ' + hx(w['glob'])])[0])[1]
        m = W.run_impl(['mm %s %s' % (hx(w['glob']), hx(w['path']))])[0]
        lo, hi = parse_depth(g.get('depth', 'I0'))
        k = G.ncomp(w['path'])
        known_line(res, kf, bit(m) == '1' and (k < lo or (hi is not None and k > hi)),
                   'glob=%r path=%r components=%d depth=%s' % (w['glob'], w['path'], k, g.get('depth')))


def c10_class(it):
    if it.cls.get('stable') == '0':
        return 'unstable_tree_position'
    if it.cls.get('rft') == '1':
        return 'rooted_first_tree'
    if it.cls.get('closedvar') == '1':
        return 'closed_variant_finalize'
    return None


# ---- C11 text -------------------------------------------------------------------------------------------------------
def has_sep_class(t):
    return any(n['k'] == 'C' and any((len(a) == 1 and a[0] == 47) or (len(a) == 2 and a[0] <= 47 <= a[1]) for a in n['archs'])
               for n in tree_iter(t))


def c11(res, rng, tier, replay=None):
    if replay:
        return replay_generic(replay)
    n = sizes(tier, 1500, 20000)
    res.rule = ('ExprGen globs biased to invariant shapes x sampled paths + the reported text itself; non-trivial = distinct (glob, path); '
                'tie: text() impl vs model; oracle: invariant text => every matched path equals it, and it matches unless a class lists `/`; '
                'two distinct matched paths => variant')
    exprs = gen_exprs(rng, n // 2)
    g = G.ExprGen(rng, wild=0.02, maxdepth=2)
    inv_lits = ['a', 'b', 'ab', '.', '..', 'é', '1', 'x.txt', 'ǅ', 'K', 'ß']
    while len(exprs) < n:
        parts = []
        for _ in range(rng.randint(1, 4)):
            x = rng.random()
            a = rng.choice(inv_lits) if x < 0.5 else '[%s]' % rng.choice('abé1') if x < 0.62 else \
                '{%s}' % rng.choice(inv_lits) if x < 0.72 else '<%s:%d>' % (rng.choice(inv_lits), rng.randint(1, 3)) if x < 0.82 else \
                '(?i)' + rng.choice(inv_lits + ['1', '.', '-']) if x < 0.92 else g.component(1)
            parts.append(a)
        exprs.append(rng.choice(['', '', '/']) + '/'.join(parts))
    items = stage_globs(exprs)
    note_shapes(res, items)
    built = stage_match(items, rng)
    tie_fields(res, items, ['text'], 'C11 text()')
    # add the reported text as a path
    extra = [it for it in built if it.if_.get('text', 'V').startswith('I')]
    outs = W.run_impl(['mm %s %s' % (hx(it.e), it.if_['text'][1:]) for it in extra])
    for it, o in zip(extra, outs):
        txt = W.unhx(it.if_['text'][1:])
        res.evaluations += 1
        res.nontrivial.add((it.e, txt))
        res.count('invariant')
        if bit(o) != '1' and not has_sep_class(it.tree):
            res.oracle_fail('the reported invariant text is not matched', {'glob': it.e, 'text': txt, 'impl': o})
        for p in matched_paths(it):
            if p != txt:
                res.oracle_fail('a path other than the reported invariant text is matched', {'glob': it.e, 'text': txt, 'path': p})
                break
        res.sample({'glob': it.e, 'text': txt})
    for it in built:
        res.evaluations += len(it.paths)
        for p in it.paths:
            res.nontrivial.add((it.e, p))


# ---- C12 root / semantic literals ------------------------------------------------------------------------------------
def expected_semantic(t):
    for n in tree_iter(t):
        if n['k'] != 'K':
            continue
        comp = []
        comps = []
        for c in n['ch']:
            if c['k'] in ('S', 'T'):
                comps.append(comp)
                comp = []
            else:
                comp.append(c)
        comps.append(comp)
        for comp in comps:
            if comp and all(c['k'] == 'L' for c in comp) and ''.join(c['text'] for c in comp) in ('.', '..'):
                return True
    return False


def starts_rooting(t):
    k = t['k']
    if k == 'S':
        return True
    if k == 'T':
        return t['root']
    if k == 'A':
        return any(starts_rooting(c) for c in t['ch'])
    if k in ('K', 'R'):
        return bool(t['ch']) and starts_rooting(t['ch'][0])
    return False


def nested_rooting(t):
    """an alternation branch or a repetition body begins with a *branch* token that can begin with
    a separator or a rooted tree wildcard (rooting is only checked on leaf terminals)"""
    for n in tree_iter(t):
        if n['k'] in ('A', 'R'):
            for b in n['ch']:
                first = b['ch'][0] if b['k'] == 'K' and b['ch'] else b
                if first['k'] in ('A', 'R') and starts_rooting(first):
                    return True
    return False


def c12(res, rng, tier, replay=None):
    if replay:
        return replay_generic(replay)
    n = sizes(tier, 1500, 20000)
    res.rule = ('ExprGen globs (many rooted, many with `.`/`..` components at every nesting depth) and any() combinators x sampled paths; '
                'non-trivial = distinct (pattern, path); tie: has_root(), has_semantic_literals() impl vs model; oracle: Always => every '
                'matched path starts with `/`; a glob is never Sometimes; a component spelled `.` or `..` anywhere => semantic literals')
    items, built = prepare(res, rng, n)
    tie_fields(res, items, ['root', 'sem'], 'C12 has_root()/has_semantic_literals()')
    kfs = {k['class']: k for k in W.known_findings('C12')}
    for it in built:
        root = it.if_.get('root')
        res.count('root:' + str(root))
        if root == 'S':
            if 'nested_rooting' in kfs and nested_rooting(it.tree):
                res.known_hits['nested_rooting'] = res.known_hits.get('nested_rooting', 0) + 1
            else:
                res.oracle_fail('a glob reports that it is sometimes rooted', {'glob': it.e})
        for p in it.paths:
            res.evaluations += 1
            res.nontrivial.add((it.e, p))
        if root == 'A':
            for p in matched_paths(it):
                if not p.startswith('/'):
                    res.oracle_fail('always rooted but a matched path does not begin with a separator', {'glob': it.e, 'path': p})
                    break
        if expected_semantic(it.tree):
            res.count('semantic')
            if it.if_.get('sem') != '1':
                res.oracle_fail('a component spelled `.` or `..` is not reported as a semantic literal', {'glob': it.e})
        res.sample({'glob': it.e, 'root': root, 'sem': it.if_.get('sem')})
    for cls, kf in kfs.items():
        g_ = W.fields(W.run_impl(['glob ' + hx(kf['witness']['glob'])])[0])[1]
        known_line(res, kf, g_.get('root') == 'S', 'glob=%r has_root=%s' % (kf['witness']['glob'], g_.get('root')))
    # combinators
    fams = []
    ok = [it for it in built]
    for _ in range(min(len(ok) // 2, sizes(tier, 300, 4000))):
        k = rng.choice([1, 2, 2, 3])
        fams.append(rng.sample(ok, k))
    cmds = ['any ' + ' '.join(hx(it.e) for it in f) for f in fams]
    io, mo = W.run_impl(cmds), W.run_model(cmds)
    mcmds, keep = [], []
    for f, a, b in zip(fams, io, mo):
        ha, fa = W.fields(a)
        hb, fb = W.fields(b)
        if ha != hb or (ha == 'ok' and fa.get('root') != fb.get('root')):
            res.tie_fail('C12 has_root() of a combinator differs', {'any': [it.e for it in f], 'impl': a[:200], 'model': b[:200]})
        if ha == 'ok' and fa.get('root') == 'A':
            ps = [p for it in f for p in it.paths[:10]]
            mcmds.append('anymm %d %s %s' % (len(f), ' '.join(hx(it.e) for it in f), ' '.join(hx(p) for p in ps)))
            keep.append((f, ps))
    for (f, ps), o in zip(keep, W.run_impl(mcmds)):
        if o in ('panic', 'err'):
            continue
        for p, r in zip(ps, o.split('|')):
            res.evaluations += 1
            if bit(r) == '1' and not p.startswith('/'):
                res.oracle_fail('combinator always rooted but a matched path does not begin with a separator',
                                {'any': [it.e for it in f], 'path': p})
                break


# ---- C09 exhaustiveness -----------------------------------------------------------------------------------------------
def descendants(p, rng):
    tails = ['x', 'x/y', 'a', 'b/a', 'é', '.git', 'x\ny']
    out = []
    for t in rng.sample(tails, 3):
        out.append(p + t if p in ('', '/') else p + '/' + t)
    return out


def c09(res, rng, tier, replay=None):
    if replay:
        return replay_generic(replay)
    n = sizes(tier, 1500, 20000)
    res.rule = ('ExprGen globs biased to end in tree wildcards / branches after tree wildcards, and any() of them; non-trivial = distinct '
                '(pattern, matched canonical path, descendant); tie: is_exhaustive() and the exhaustive / non-exhaustive partition of a negation '
                'impl vs model; oracle: Always => every canonical descendant of a matched canonical path is matched')
    exprs = gen_exprs(rng, n // 2)
    g = G.ExprGen(rng, wild=0.03, maxdepth=2)
    tails = ['/**', '**', '**/*', '**/{%s}', '**/<%s:1,2>', '/**/<%s:>', '{%s,**/%s}', '<*/>', '**/*/', '{a/**,%s/**}', '<%s/**:1,>',
             '**/%s/**', '{**/%s,b/**}', '<%s/:1,>**', '**/{%s,%s/**}', '{%s/**,**}']
    while len(exprs) < n:
        t = rng.choice(tails)
        t = t.replace('%s', '\0')
        while '\0' in t:
            t = t.replace('\0', rng.choice(['a', 'b', 'ab', g.component(1)]), 1)
        head = rng.choice(['', '', g.component(1) + '/', '/', g.glob(1, sub=True) + '/'])
        e = head + t
        exprs.append(e if not (head.endswith('/') and t.startswith('/')) else head + t[1:])
    items = stage_globs(exprs)
    note_shapes(res, items)
    built = stage_match(items, rng)
    tie_fields(res, items, ['exh'], 'C09 is_exhaustive()')
    kfs = {k['class']: k for k in W.known_findings('C09')}
    # negation partitions
    ncmds = ['not ' + hx(it.e) for it in built[:sizes(tier, 400, 5000)]]
    for c, a, b in zip(ncmds, W.run_impl(ncmds), W.run_model(ncmds)):
        if a != b:
            res.tie_fail('C09 partition of a negation into exhaustive / non-exhaustive programs differs', {'cmd': c, 'impl': a[:300], 'model': b[:300]})
    always = [it for it in built if it.if_.get('exh') == 'A']
    cmds, keep = [], []
    for it in always:
        ps = [p for p in matched_paths(it) if G.canonical(p)]
        ds = [(p, q) for p in ps[:8] for q in descendants(p, rng)]
        if ds:
            cmds.append('mm %s %s' % (hx(it.e), ' '.join(hx(q) for _, q in ds)))
            keep.append((it, ds))
    res.count('always', len(always))
    for (it, ds), o in zip(keep, W.run_impl(cmds)):
        if o in ('panic', 'err'):
            continue
        for (p, q), r in zip(ds, o.split('|')):
            res.evaluations += 1
            res.nontrivial.add((it.e, p, q))
            if bit(r) != '1':
                cls = c09_class(it, p)
                if cls and cls in kfs:
                    res.known_hits[cls] = res.known_hits.get(cls, 0) + 1
                else:
                    res.oracle_fail('always exhaustive but a descendant of a matched path is not matched',
                                    {'glob': it.e, 'path': p, 'descendant': q, 'class': cls})
                break
        res.sample({'glob': it.e, 'exh': 'A', 'checked': [q for _, q in ds[:3]]})
    for cls, kf in kfs.items():
        w = kf['witness']
        g_ = W.fields(W.run_impl(['glob ' + hx(w['glob'])])[0])[1]
        m = W.run_impl(['mm %s %s %s' % (hx(w['glob']), hx(w['path']), hx(w['descendant']))])[0].split('|')
        known_line(res, kf, g_.get('exh') == 'A' and len(m) == 2 and bit(m[0]) == '1' and bit(m[1]) == '0',
                   'glob=%r is_exhaustive=%s matches %r but not %r' % (w['glob'], g_.get('exh'), w['path'], w['descendant']))


def c09_class(it, p):
    if p in ('', '/') and (it.cls.get('endsep') == '1' or it.cls.get('fnull') == '1'):
        return 'trailing_boundary'
    if it.cls.get('optrep') == '1':
        return 'optional_repetition'
    return None


PROPS = {'C01': c01, 'C09': c09, 'C10': c10, 'C11': c11, 'C12': c12}
