#!/bin/bash
# batch_seeds.sh <suffix>  -- for every /tmp/seed-Cxx-<suffix> with a patch.diff: confirm it in its scratch worktree (in parallel),
# store it under /verif/seeded/Cxx-<suffix>, then run the check of its property with the change applied to /repo (one after the other)
sfx=$1
cd /verif
ready=()
for d in /tmp/seed-C??-$sfx; do
  s=$(basename $d); s=${s#seed-}; pid=${s%-*}
  [ -f $d/patch.diff ] && [ -f $d/demo.rs ] && [ -f $d/notes.txt ] || continue
  [ -f /verif/seeded/$s/meta.json ] && continue
  ready+=($s)
  (tools/confirm_seed.sh /tmp/wt-$s /tmp/seed-$s > /tmp/seed-$s/confirm.txt 2>&1 &)
done
[ ${#ready[@]} -eq 0 ] && { echo "nothing ready"; exit 0; }
sleep 5; while pgrep -f confirm_seed.sh >/dev/null; do sleep 3; done
for s in "${ready[@]}"; do
  pid=${s%-*}
  c=$(cat /tmp/seed-$s/confirm.txt | tr '\n' ' ')
  if echo "$c" | grep -q "pristine demo: test result: ok" && echo "$c" | grep -q "seeded demo: test result: FAILED" && echo "$c" | grep -q "468 passed; 0 failed"; then
    python3 - "$s" "$pid" "$c" <<'PY'
import json, os, shutil, sys
s, pid, conf = sys.argv[1:4]
sd = '/tmp/seed-%s' % s; dst = '/verif/seeded/%s' % s
os.makedirs(dst, exist_ok=True)
for f in ('patch.diff', 'demo.rs', 'notes.txt'):
    shutil.copy(os.path.join(sd, f), os.path.join(dst, f))
first = open(os.path.join(sd, 'notes.txt')).read().split('\n')[0]
meta = {'property': pid, 'breaks': pid, 'needs_to_manifest': first[:300],
        'origin': 'written by an independent sub-agent given only the property text and a scratch worktree of /repo (nothing from /verif); told which mechanisms earlier batches used',
        'confirmed': {'how': 'tools/confirm_seed.sh in the scratch worktree /tmp/wt-%s: demo on the pristine tree, git apply patch.diff, demo again, then cargo test --workspace --no-fail-fast --offline' % s, 'result': conf.strip()},
        'detected_by': []}
json.dump(meta, open(os.path.join(dst, 'meta.json'), 'w'), indent=1)
PY
    echo "confirmed $s"
  else
    echo "NOT CONFIRMED $s: $c" | cut -c1-300
  fi
done
for s in "${ready[@]}"; do
  pid=${s%-*}
  [ -f /verif/seeded/$s/meta.json ] || continue
  echo "== $s"; tools/seedtest.sh /verif/seeded/$s $pid 2>&1 | tail -3 | cut -c1-400
done
git -C /repo status --short | head -3
