# waxlib.py -- common machinery of the checks: building, running the implementation (Rust harness)
# and the model (OCaml extraction of the Coq development) on the same command streams, the proof
# obligations (coqc on coq/properties/Cxx.v, Print Assumptions, hygiene grep), known findings,
# evidence files and verdicts.  python3 standard library only.
import fcntl, hashlib, json, os, random, re, shutil, subprocess, sys, time

VERIF = os.path.dirname(os.path.dirname(os.path.abspath(__file__)))
REPO = '/repo'
CACHE = os.path.join(VERIF, '.cache')
TARGET = os.path.join(CACHE, 'target')
OCAML = os.path.join(CACHE, 'ocaml')
TABLES = os.path.join(CACHE, 'tables')
COQ = os.path.join(VERIF, 'coq')
IMPL_BIN = os.path.join(TARGET, 'release', 'waxprobe')
MODEL_BIN = os.path.join(OCAML, 'waxmodel')
GUARD = 'olson_sean_k_wax_verif'
NPROC = 16

ENV = dict(os.environ)
ENV.update({'CARGO_NET_OFFLINE': 'true', 'CARGO_TARGET_DIR': TARGET,
            'RUSTFLAGS': '--cfg ' + GUARD})


def log(*a):
    print(*a, file=sys.stderr, flush=True)


def hx(s):
    if isinstance(s, str):
        s = s.encode('utf-8')
    return 'x' + s.hex()


def unhx(s):
    assert s.startswith('x'), s
    return bytes.fromhex(s[1:]).decode('utf-8')


class BuildBroken(Exception):
    """The machinery itself could not be built (not a verdict about the code)."""


class ImplBuildFailed(Exception):
    """/repo no longer compiles with the hooks enabled."""


def sh(cmd, cwd=None, timeout=1800, env=None):
    p = subprocess.run(cmd, cwd=cwd, shell=isinstance(cmd, str), stdout=subprocess.PIPE,
                       stderr=subprocess.STDOUT, timeout=timeout, env=env or ENV)
    return p.returncode, p.stdout.decode('utf-8', 'replace')


def newest_mtime(paths):
    m = 0
    for p in paths:
        if os.path.isdir(p):
            for root, _, files in os.walk(p):
                for f in files:
                    if f.endswith(('.v', '.ml', '.rs', '.toml', '.sh', '.lock')):
                        m = max(m, os.path.getmtime(os.path.join(root, f)))
        elif os.path.exists(p):
            m = max(m, os.path.getmtime(p))
    return m


def build_all(clean=False):
    """Builds, under a lock, whatever is stale: the Coq development (full .vo build), the
    extraction and the OCaml driver, the Rust harness against /repo's *current* working tree, and
    the character tables dumped from the built harness."""
    os.makedirs(CACHE, exist_ok=True)
    t0 = time.time()
    with open(os.path.join(CACHE, 'build.lock'), 'w') as lock:
        fcntl.flock(lock, fcntl.LOCK_EX)
        # 1. Coq
        if clean:
            sh('make clean >/dev/null 2>&1; rm -f Makefile Makefile.conf .Makefile.d', cwd=COQ)
        rc, out = sh('coq_makefile -f _CoqProject -o Makefile 2>/dev/null && timeout 3000 make -j%d' % NPROC,
                     cwd=COQ, timeout=3100)
        if rc != 0:
            raise BuildBroken('coq build failed:\n' + out[-4000:])
        # 2. extraction + driver
        src_m = newest_mtime([os.path.join(COQ, 'theories'), os.path.join(COQ, 'extract'),
                              os.path.join(VERIF, 'ocaml')])
        if clean or not os.path.exists(MODEL_BIN) or os.path.getmtime(MODEL_BIN) < src_m:
            rc, out = sh(['bash', os.path.join(VERIF, 'ocaml', 'build.sh'), OCAML], timeout=900)
            if rc != 0 or not os.path.exists(MODEL_BIN):
                raise BuildBroken('ocaml build failed:\n' + out[-4000:])
        # 3. harness (always: cargo decides what is stale w.r.t. /repo's working tree)
        hdir = os.path.join(VERIF, 'harness')
        lockfile = os.path.join(hdir, 'Cargo.lock')
        if not os.path.exists(lockfile) and os.path.exists(os.path.join(REPO, 'Cargo.lock')):
            shutil.copy(os.path.join(REPO, 'Cargo.lock'), lockfile)
        rc, out = sh('cargo build --release --offline', cwd=hdir, timeout=1800)
        if rc != 0:
            raise ImplBuildFailed(out[-6000:])
        # 4. tables from the built code
        os.makedirs(TABLES, exist_ok=True)
        stamp = os.path.join(TABLES, 'stamp')
        bin_m = str(os.path.getmtime(IMPL_BIN))
        if clean or not os.path.exists(stamp) or open(stamp).read() != bin_m:
            outs = run_bin([IMPL_BIN], ['fold 0 1114112', 'casing 0 1114112', 'meta 0 1114112',
                                        'special 0 1114112'])
            open(os.path.join(TABLES, 'fold.tbl'), 'w').write(outs[0] + '\n')
            open(os.path.join(TABLES, 'casing.tbl'), 'w').write(outs[1] + '\n')
            open(os.path.join(TABLES, 'meta.tbl'), 'w').write(outs[2] + '\n')
            open(os.path.join(TABLES, 'special.tbl'), 'w').write(outs[3] + '\n')
            open(stamp, 'w').write(bin_m)
    return time.time() - t0


def run_bin(argv, cmds, timeout=1200, shards=None):
    """Runs a line-protocol binary on the commands, sharded over processes; one output per command."""
    if not cmds:
        return []
    n = shards or min(NPROC, max(1, len(cmds) // 40))
    chunks = [cmds[i::n] for i in range(n)]
    procs = []
    for ch in chunks:
        p = subprocess.Popen(argv, stdin=subprocess.PIPE, stdout=subprocess.PIPE, stderr=subprocess.DEVNULL)
        procs.append((p, ch))
    # feed and collect (inputs are small enough to write before reading thanks to threads of communicate)
    import threading
    results = [None] * n

    def work(i):
        p, ch = procs[i]
        try:
            out, _ = p.communicate(('\n'.join(ch) + '\n').encode('utf-8'), timeout=timeout)
            lines = out.decode('utf-8', 'replace').split('\n')
            if lines and lines[-1] == '':
                lines.pop()
        except subprocess.TimeoutExpired:
            p.kill()
            lines = []
        # a crashed process (abort, stack overflow) yields fewer lines: mark the rest
        while len(lines) < len(ch):
            lines.append('crashed' if len(lines) == 0 or p.returncode not in (0, None) else 'missing')
        results[i] = lines[:len(ch)]

    threads = [threading.Thread(target=work, args=(i,)) for i in range(n)]
    for t in threads:
        t.start()
    for t in threads:
        t.join()
    outs = [None] * len(cmds)
    for i in range(n):
        for j, line in enumerate(results[i]):
            outs[i + j * n] = line
    return outs


def run_impl(cmds, **kw):
    return run_bin([IMPL_BIN], cmds, **kw)


def run_model(cmds, **kw):
    return run_bin([MODEL_BIN, TABLES], cmds, **kw)


def fields(line):
    """'ok\\tk=v\\t...' -> (head, {k: v})"""
    parts = line.split('\t')
    d = {}
    for p in parts[1:]:
        if '=' in p:
            k, v = p.split('=', 1)
            d[k] = v
    return parts[0], d


# ---- proof obligations --------------------------------------------------------------------------
FORBIDDEN = re.compile(r'\b(Admitted|admit|Axiom|Axioms|Parameter|Parameters|Conjecture|Hypothesis|Variable'
                       r'|Unset\s+Guard|bypass_check|Admit\s+Obligations|type-in-type|impredicative-set)\b')
ALLOWED_AXIOMS = set()   # none: every property theorem must be closed under the global context


def strip_comments(text):
    out, depth, i = [], 0, 0
    while i < len(text):
        if text.startswith('(*', i):
            depth += 1
            i += 2
        elif text.startswith('*)', i) and depth > 0:
            depth -= 1
            i += 2
        else:
            if depth == 0:
                out.append(text[i])
            i += 1
    return ''.join(out)


def hygiene():
    """No Admitted/Axiom/... anywhere in the development (Variable/Hypothesis only inside sections)."""
    bad = []
    for sub in ('theories', 'proofs', 'properties', 'gen', 'extract'):
        d = os.path.join(COQ, sub)
        if not os.path.isdir(d):
            continue
        for f in sorted(os.listdir(d)):
            if not f.endswith('.v'):
                continue
            text = strip_comments(open(os.path.join(d, f)).read())
            depth = 0
            for n, line in enumerate(text.split('\n'), 1):
                if re.match(r'\s*Section\b', line):
                    depth += 1
                if re.match(r'\s*End\b', line) and depth > 0:
                    depth -= 1
                for m in FORBIDDEN.finditer(line):
                    w = m.group(1)
                    if w in ('Variable', 'Hypothesis') and depth > 0:
                        continue
                    bad.append('%s/%s:%d: %s' % (sub, f, n, w))
    return bad


def check_proofs(pid, recheck=False):
    """Recompiles coq/properties/<pid>.v (so that its Print Assumptions output is fresh) and returns
    (obligations, discharged, problems, theorem names)."""
    src = os.path.join(COQ, 'properties', pid + '.v')
    problems = []
    if not os.path.exists(src):
        return 0, 0, ['no property file for ' + pid], []
    text = strip_comments(open(src).read())
    names = re.findall(r'^\s*(?:Theorem|Lemma|Corollary)\s+(\w+)', text, re.M)
    bad = hygiene()
    if bad:
        problems.append('forbidden constructs: ' + '; '.join(bad[:10]))
    args = ['coqc', '-q', '-Q', 'theories', 'WaxModel', '-Q', 'gen', 'WaxGen', '-Q', 'proofs', 'WaxProofs',
            '-Q', 'properties', 'WaxProps', 'properties/%s.v' % pid]
    with open(os.path.join(CACHE, 'build.lock'), 'w') as lock:
        fcntl.flock(lock, fcntl.LOCK_EX)
        rc, out = sh(args, cwd=COQ, timeout=900)
    if rc != 0:
        m = re.search(r'File "[^"]*", line (\d+)', out)
        failing = None
        if m:
            # name the theorem whose proof no longer checks
            line = int(m.group(1))
            upto = '\n'.join(open(src).read().split('\n')[:line])
            found = re.findall(r'(?:Theorem|Lemma|Corollary)\s+(\w+)', upto)
            failing = found[-1] if found else None
        problems.append('coqc failed on properties/%s.v%s: %s' % (
            pid, (' (theorem %s)' % failing) if failing else '', out.strip()[-1500:]))
        return len(names), 0, problems, names
    # Print Assumptions output: either "Closed under the global context" or "Axioms:" + list
    closed = out.count('Closed under the global context')
    axioms = re.findall(r'^Axioms:\n((?:.+\n?)+?)(?=^\S|\Z)', out, re.M)
    for block in axioms:
        for l in block.split('\n'):
            m = re.match(r'^(\S+)\s*:', l)
            if m and m.group(1) not in ALLOWED_AXIOMS:
                problems.append('axiom used: ' + m.group(1))
    if closed + len(axioms) < len(names):
        problems.append('Print Assumptions missing for some theorems (%d of %d)' % (closed + len(axioms), len(names)))
    if recheck and not problems:
        # thorough tier: the independent checker re-checks the compiled property file and everything it depends on
        with open(os.path.join(CACHE, 'build.lock'), 'w') as lock:
            fcntl.flock(lock, fcntl.LOCK_EX)
            rc, out = sh(['coqchk', '-silent', '-o', '-Q', 'theories', 'WaxModel', '-Q', 'proofs', 'WaxProofs',
                          '-Q', 'properties', 'WaxProps', 'WaxProps.' + pid], cwd=COQ, timeout=1800)
        if rc != 0 or '* Axioms: <none>' not in out:
            problems.append('coqchk does not accept properties/%s.vo: %s' % (pid, out.strip()[-800:]))
    return len(names), (len(names) if not problems else 0), problems, names


# ---- known findings -------------------------------------------------------------------------------
def known_findings(pid):
    """finding lines of KNOWN_FINDINGS.txt for the property: list of dicts(class, witness, what)."""
    out = []
    path = os.path.join(VERIF, 'KNOWN_FINDINGS.txt')
    if not os.path.exists(path):
        return out
    for line in open(path):
        line = line.strip()
        if not line.startswith('finding:'):
            continue
        m = re.match(r'finding:\s+property=(\S+)\s+class=(\S+)\s+witness=(\{.*?\})\s+what=(.*)$', line)
        if m and m.group(1) == pid:
            out.append({'class': m.group(2), 'witness': json.loads(m.group(3)), 'what': m.group(4)})
    return out


# ---- evidence and verdict ----------------------------------------------------------------------------
TRUSTED_BASE = [
    'Coq 8.16.1 kernel (coqc); vm_compute used for witnesses and finite tables; native_compute not used',
    'Print Assumptions of every property theorem: Closed under the global context (no axioms)',
    'hand-written Gallina model of the Rust code (coq/theories); the Rust code itself is modelled, not verified',
    'correspondence check: Coq extraction to OCaml (ExtrOcamlBasic only: Extract Inductive bool/option/unit/list/prod/sumbool/sumor, '
    'Extract Inlined Constant andb/orb; N, positive, nat stay inductive), ocamlfind ocamlopt, ocaml/driver.ml, '
    'harness/src/*.rs (waxprobe), tools/*.py',
    'hooks in /repo under cfg olson_sean_k_wax_verif (src/verif.rs, walk hooks): read-only rendering of token trees and compiled patterns',
    'regex crate (matching engine) and walkdir/std::fs/std::path: modelled (language semantics; traversal order), differential-tested, not verified',
    'case folding orbits and has_casing: tables dumped from the linked regex-syntax / std on every run (all scalar values)',
]


class Result:
    def __init__(self, pid, tier, seed):
        self.pid, self.tier, self.seed = pid, tier, seed
        self.t0 = time.time()
        self.evaluations = 0
        self.nontrivial = set()
        self.samples = []
        self.tie_failures = []       # (what, case dict)
        self.oracle_failures = []    # (what, case dict)
        self.known_hits = {}         # class -> count
        self.proof_problems = []
        self.obligations = 0
        self.discharged = 0
        self.theorems = []
        self.hist = {}
        self.notes = []
        self.rule = ''
        d = os.path.join(VERIF, 'evidence', 'replays')
        if os.path.isdir(d):
            for f in os.listdir(d):
                if f.startswith(pid + '-'):
                    os.remove(os.path.join(d, f))

    def violations_found(self):
        return len(self.tie_failures) + len(self.oracle_failures)

    def count(self, key, n=1):
        self.hist[key] = self.hist.get(key, 0) + n

    def sample(self, s):
        if len(self.samples) < 12:
            self.samples.append(s)

    def tie_fail(self, what, case):
        if len(self.tie_failures) < 200:
            self.tie_failures.append((what, case))

    def oracle_fail(self, what, case):
        if len(self.oracle_failures) < 200:
            self.oracle_failures.append((what, case))


def write_replay(pid, kind, what, case, seed):
    d = os.path.join(VERIF, 'evidence', 'replays')
    os.makedirs(d, exist_ok=True)
    body = {'property': pid, 'kind': kind, 'what': what, 'case': case, 'seed': seed}
    h = hashlib.sha1(json.dumps(body, sort_keys=True).encode()).hexdigest()[:12]
    path = os.path.join(d, '%s-%s.json' % (pid, h))
    with open(path, 'w') as f:
        json.dump(body, f, indent=1, ensure_ascii=False)
    return path


def finish(res, level_text=''):
    """Writes the evidence file, prints KNOWN-FINDING / VIOLATION lines, returns the exit code."""
    pid = res.pid
    violations = 0
    lines = []
    if res.oracle_failures:
        what, case = res.oracle_failures[0]
        path = write_replay(pid, 'input', what, case, res.seed)
        lines.append('VIOLATION property=%s replay=%s' % (pid, path))
        violations = len(res.oracle_failures)
    elif res.tie_failures or res.proof_problems:
        if res.tie_failures:
            what, case = res.tie_failures[0]
            kind = 'tie'
        else:
            what, case = res.proof_problems[0], {'theorems': res.theorems}
            kind = 'theorem'
        path = write_replay(pid, kind, what, case, res.seed)
        lines.append('VIOLATION property=%s replay=%s no-failing-input-found' % (pid, path))
        violations = max(1, len(res.tie_failures))
    ev = {
        'property_id': pid,
        'tier': res.tier,
        'seed': res.seed,
        'level': 'proof',
        'coverage': {
            'obligations': res.obligations,
            'discharged': res.discharged,
            'checker_cmd': 'cd /verif/coq && coq_makefile -f _CoqProject -o Makefile && make -j16 && '
                           'coqc -Q theories WaxModel -Q proofs WaxProofs -Q properties WaxProps properties/%s.v '
                           '(Print Assumptions under every theorem; hygiene grep)' % pid,
            'trusted_base': TRUSTED_BASE,
            'theorems': res.theorems,
            'evaluations': res.evaluations,
            'distinct_nontrivial': len(res.nontrivial),
            'rule': res.rule,
            'samples': res.samples or ['(none)'],
            'histogram': res.hist,
            'tie_failures': len(res.tie_failures),
            'oracle_failures': len(res.oracle_failures),
            'known_finding_hits': res.known_hits,
            'proof_problems': res.proof_problems,
            'notes': res.notes,
        },
        'assumptions': TRUSTED_BASE,
        'wall_s': round(time.time() - res.t0, 2),
        'violations': violations,
    }
    os.makedirs(os.path.join(VERIF, 'evidence'), exist_ok=True)
    with open(os.path.join(VERIF, 'evidence', pid + '.json'), 'w') as f:
        json.dump(ev, f, indent=1, ensure_ascii=False)
    for l in lines:
        print(l, flush=True)
    return 1 if lines else 0


def check_orbit_nosep(res, pid):
    """the table hypothesis `orbit_nosep` of the Coq theorems, over all code points: case folding never relates a separator"""
    fold = open(os.path.join(TABLES, 'fold.tbl')).read().strip()
    res.evaluations += 1
    for item in [x for x in fold.split(';') if x]:
        c, orbit = item.split(':')
        if c == '47' or '47' in orbit.split(','):
            res.tie_fail('%s table hypothesis: the case folding table relates a separator' % pid, {'entry': item})
