#!/bin/bash
# confirm_seed.sh <worktree> <seeddir>  -- confirms a seeded change in a scratch worktree of /repo (never in /repo):
#   the demonstration passes on the pristine tree, fails with the change; the whole suite passes with the change.
wt=$1; sd=$2
export CARGO_NET_OFFLINE=true CARGO_TARGET_DIR=$wt/target
cd "$wt" || exit 2
git checkout -q -- . ; rm -f tests/demo.rs
made=0; [ -d tests ] || { mkdir tests; made=1; }
cp "$sd/demo.rs" tests/demo.rs
p=$(cargo test --test demo --offline 2>&1 | grep "^test result" | head -1)
git apply "$sd/patch.diff" || { echo "patch does not apply"; git checkout -q -- .; rm -f tests/demo.rs; exit 3; }
s=$(cargo test --test demo --offline 2>&1 | grep "^test result" | head -1)
rm -f tests/demo.rs
u=$(cargo test --workspace --no-fail-fast --offline 2>&1 | grep "^test result" | awk '{p+=$4; f+=$6} END {print p" passed, "f" failed (all targets)"}')
u1=$(cargo test --workspace --no-fail-fast --offline 2>&1 | grep "^test result" | sort -t' ' -k4 -n -r | head -1)
git checkout -q -- .; [ "$made" = 1 ] && rmdir tests 2>/dev/null
echo "pristine demo: $p | seeded demo: $s | suite with change: $u1 | totals: $u"
