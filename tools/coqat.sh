#!/bin/bash
# coqat.sh file.v N  -- show the proof state after line N of the file
f=$1; n=$2
head -n $n "$f" > /tmp/coqat_$$.v
echo "Show." >> /tmp/coqat_$$.v
cd /verif/coq && coqtop -Q theories WaxModel -Q proofs WaxProofs -Q properties WaxProps -batch -l /tmp/coqat_$$.v 2>&1 | tail -${3:-40}
rm -f /tmp/coqat_$$.v
