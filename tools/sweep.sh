#!/bin/bash
# sweep.sh <first seed> <last seed> [pids...]  -- runs the quick checks over a range of seeds on the unchanged tree and
# prints every VIOLATION (there must be none).  Builds first (usable from a `vp run` snapshot).
cd "$(dirname "$0")/.."
a=$1; b=$2; shift 2
pids=${@:-C01 C02 C03 C04 C05 C06 C07 C08 C09 C10 C11 C12 C13 C14 C15 C16 C17 C18 C19 C20}
./setup.sh >/dev/null 2>&1 || { echo "setup failed"; exit 2; }
for s in $(seq $a $b); do
  for p in $pids; do
    out=$(./check $p --seed $s 2>&1 | grep -E "VIOLATION|Traceback|Error" | head -3)
    if [ -n "$out" ]; then echo "seed=$s $p: $out"; f=$(echo "$out" | sed -n 's/.*replay=\([^ ]*\).*/\1/p' | head -1); [ -n "$f" ] && head -c 1500 "$f"; echo; fi
  done
  echo "seed $s done"
done
echo SWEEP-COMPLETE
