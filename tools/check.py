#!/usr/bin/env python3
# check.py -- entry point of every check:  check.py Cxx [--tier quick|thorough] [--replay file]
#
# Verdict algorithm (DESIGN section 2.5):
#   1. build whatever is stale (Coq development, extraction, harness against /repo's working tree);
#   2. proof obligations: coqc coq/properties/Cxx.v, Print Assumptions closed, hygiene grep;
#   3. correspondence (tie): model and implementation on the same generated inputs;
#   4. direct oracle: the property evaluated on the implementation's outputs with the spec as oracle;
#   5. failing input outside the known classes => VIOLATION with that input as replay;
#      broken tie / proof and no failing input   => VIOLATION ... no-failing-input-found.
import argparse, json, os, random, sys, time

sys.path.insert(0, os.path.dirname(os.path.abspath(__file__)))
import waxlib as W
import gen as G
import props_pattern as PP
try:
    import props_walk as PW
except ImportError:
    PW = None


def main():
    ap = argparse.ArgumentParser()
    ap.add_argument('pid')
    ap.add_argument('--tier', default=os.environ.get('VERIF_TIER', 'quick'))
    ap.add_argument('--replay')
    ap.add_argument('--seed', type=int, default=None)
    a = ap.parse_args()
    seed = a.seed if a.seed is not None else int(os.environ.get('VERIF_SEED', '0') or 0)
    tier = 'thorough' if a.tier == 'thorough' else 'quick'
    pid = a.pid
    res = W.Result(pid, tier, seed)
    try:
        bt = W.build_all(clean=False)
        res.notes.append('build %.1fs' % bt)
    except W.ImplBuildFailed as e:
        # /repo does not compile with the hooks on: the tie cannot be established
        res.tie_fail('the implementation no longer builds with --cfg %s' % W.GUARD, {'cargo': str(e)[-2000:]})
        res.evaluations = 1
        return W.finish(res)
    except W.BuildBroken as e:
        W.log('check machinery is broken: %s' % e)
        return 2
    table = dict(PP.PROPS)
    if PW:
        table.update(PW.PROPS)
    if pid not in table:
        W.log('unknown property ' + pid)
        return 2
    if a.replay:
        return table[pid](res, random.Random(seed), tier, replay=json.load(open(a.replay)))
    # proofs
    ob, di, problems, names = W.check_proofs(pid, recheck=(tier == 'thorough'))
    if tier == 'thorough':
        res.notes.append('coqchk -o re-check of the property file: %s' % ('accepted, Axioms: <none>' if not problems else 'see problems'))
    res.obligations, res.discharged, res.proof_problems, res.theorems = ob, di, problems, names
    # tie + oracle; the thorough tier repeats the exploration with fresh generator seeds (VERIF_ROUNDS, default 10)
    table[pid](res, random.Random(seed), tier)
    if tier == 'thorough':
        rounds = int(os.environ.get('VERIF_ROUNDS', '10') or 10)
        real = sys.stdout

        class _Quiet:
            # the known findings were reported by the first round
            def write(self, text):
                for line in text.splitlines(True):
                    if not line.startswith('KNOWN-FINDING'):
                        real.write(line)

            def flush(self):
                real.flush()
        sys.stdout = _Quiet()
        try:
            for r in range(1, rounds):
                if res.violations_found() >= 3:
                    break
                table[pid](res, random.Random(seed * 1000003 + r), tier)
        finally:
            sys.stdout = real
        res.notes.append('thorough: %d rounds' % rounds)
    return W.finish(res)


if __name__ == '__main__':
    sys.exit(main())
