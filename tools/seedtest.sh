#!/bin/bash
# seedtest.sh <dir with patch.diff> <pid>...  -- applies a seeded change to /repo, runs the quick checks, reverts.
d=$1; shift
cd /repo && git apply "$d/patch.diff" || { echo "patch does not apply"; exit 2; }
trap 'cd /repo && git checkout -- . && git status --short | head -3' EXIT
cd /verif
for p in "$@"; do
  out=$(./check $p --tier quick 2>/dev/null | grep -E "VIOLATION" | head -2)
  echo "$p: ${out:-quiet}"
  if [ -n "$out" ]; then f=$(echo "$out" | head -1 | sed 's/.*replay=\([^ ]*\).*/\1/'); python3 -c "
import json,sys
r=json.load(open('$f')); print('   ', r['kind'], '|', r['what'][:100], '|', json.dumps(r['case'],ensure_ascii=False)[:260])"; fi
done
