# props_walk.py -- tie and oracle of the properties about directory walks: C02 C03 C13 C14 C15 C16 C20.
# Trees are created on disk under /verif/.cache/fs/<pid>/ (removed afterwards); the implementation walks
# them for real (as uid 65534 so that unreadable directories are real faults); the model runs on the
# resolved view of the tree that this module reads back independently with os.scandir.
import itertools, json, os, random, shutil, stat, subprocess
import waxlib as W
import gen as G

hx = W.hx
FS = os.path.join(W.CACHE, 'fs')
NAMES = ['a', 'b', 'c', 'x.txt', 'y.md', '.git', 'src', 'lib.rs', 'A', 'é', '[a]', '{a}', '*.x', 'z', 'q', '.hidden', 'secret', 'doc', 'a.b', 'ab', 'B']


def sizes(tier, quick, thorough):
    return thorough if tier == 'thorough' else quick


# ---- trees on disk ------------------------------------------------------------------------------------------------
def gen_tree(rng, depth=0, maxdepth=4, budget=None, faults=False):
    """nested dict: name -> ('d', children) | ('f',) | ('l', target) | ('u', children)"""
    if budget is None:
        budget = [rng.randint(6, 28)]
    kids = {}
    n = rng.randint(0 if depth else 2, 5)
    names = rng.sample(NAMES, min(n, len(NAMES)))
    for nm in names:
        if budget[0] <= 0:
            break
        budget[0] -= 1
        x = rng.random()
        if depth < maxdepth and x < 0.42:
            sub = gen_tree(rng, depth + 1, maxdepth, budget, faults)
            kids[nm] = ('u', sub) if faults and faults != 'links' and rng.random() < 0.2 else ('d', sub)
        elif faults and x < 0.55:
            kids[nm] = ('l', rng.choice(['DANGLING', 'UP1', 'UP2', 'FILE', 'DIR']))
        else:
            kids[nm] = ('f',)
    return kids


def materialize(root, tree, top=None):
    top = top or root
    os.makedirs(root, exist_ok=True)
    later = []
    for nm, node in tree.items():
        p = os.path.join(root, nm)
        if node[0] == 'f':
            open(p, 'w').close()
        elif node[0] in ('d', 'u'):
            later += materialize(p, node[1], top)
            if node[0] == 'u':
                later.append(p)
        elif node[0] == 'l':
            kind = node[1]
            if kind == 'DANGLING':
                os.symlink('nowhere-' + nm, p)
            elif kind == 'UP1':
                os.symlink('.', p)
            elif kind == 'UP2':
                os.symlink('..', p) if root != top else os.symlink('.', p)
            elif kind == 'FILE':
                target = os.path.join(top, 'linked-file')
                if not os.path.lexists(target):
                    open(target, 'w').close()
                os.symlink(os.path.relpath(target, root), p)
            else:
                target = os.path.join(top, 'linked-dir')
                if not os.path.lexists(target):
                    os.makedirs(os.path.join(target, 'in'))
                    open(os.path.join(target, 'in', 'f.txt'), 'w').close()
                os.symlink(os.path.relpath(target, root), p)
    return later


def lock_dirs(paths):
    for p in paths:
        os.chmod(p, 0)


def unlock_all(root):
    for dp, dns, fns in os.walk(root):
        for d in dns:
            q = os.path.join(dp, d)
            if not os.path.islink(q):
                try:
                    os.chmod(q, 0o755)
                except OSError:
                    pass


def resolved(path, follow, unreadable, ancestors=()):
    """the resolved view of a directory entry under the link policy, read back from the disk in readdir order:
    ('F', kind) | ('E',) | ('U',) | ('D', [(name, node)...])"""
    try:
        st = os.lstat(path)
    except OSError:
        return ('E',)
    if stat.S_ISLNK(st.st_mode):
        if not follow and ancestors:
            return ('F', 'l')        # (the directory given to a walk is opened also when it is a link: only links below it are leaves)
        try:
            st = os.stat(path)
        except OSError:
            return ('E',)
        if not stat.S_ISDIR(st.st_mode):
            return ('F', 'f')
        if (st.st_dev, st.st_ino) in ancestors:
            return ('E',)
    if not stat.S_ISDIR(st.st_mode):
        return ('F', 'f')
    if os.path.realpath(path) in unreadable or path in unreadable:
        return ('U',)
    kids = []
    with os.scandir(path) as it:
        names = [e.name for e in it]
    for nm in names:
        kids.append((nm, resolved(os.path.join(path, nm), follow, unreadable, ancestors + ((st.st_dev, st.st_ino),))))
    return ('D', kids)


def graft(node, rel, sub):
    """the tree with the node at the relative path replaced"""
    comps = [c for c in rel.split('/') if c]
    if not comps:
        return sub
    if node[0] != 'D':
        return node
    return ('D', [(n, graft(k, '/'.join(comps[1:]), sub) if n == comps[0] else k) for n, k in node[1]])


def tree_text(node):
    if node[0] == 'F':
        return 'F'
    if node[0] in ('E', 'U'):
        return node[0]
    return 'D[' + ','.join('%s=%s' % (hx(n), tree_text(k)) for n, k in node[1]) + ']'


def preorder(node, prefix=''):
    """(relative path, node) of every entry of the resolved view, pre-order; '' is the root"""
    yield prefix, node
    if node[0] == 'D':
        for n, k in node[1]:
            yield from preorder(k, n if prefix == '' else prefix + '/' + n)


def subtree(node, rel):
    for c in [c for c in rel.split('/') if c]:
        if node[0] != 'D':
            return ('E',)
        for n, k in node[1]:
            if n == c:
                node = k
                break
        else:
            return ('E',)
    return node


# ---- running ----------------------------------------------------------------------------------------------------------
_SETPRIV = None


def impl_argv():
    """the implementation runs as uid 65534 when that works here (so that mode-000 directories are real faults): setpriv must
    exist, and the unprivileged user must be able to execute the probe and to reach the sandbox directory"""
    global _SETPRIV
    if _SETPRIV is None:
        _SETPRIV = False
        try:
            os.makedirs(FS, exist_ok=True)
            probe = subprocess.run(['setpriv', '--reuid=65534', '--regid=65534', '--clear-groups', W.IMPL_BIN],
                                   input=('walk %s P F - - F\n' % hx(FS)).encode(), stdout=subprocess.PIPE, stderr=subprocess.DEVNULL, timeout=60)
            out = probe.stdout.decode('utf-8', 'replace')
            _SETPRIV = probe.returncode == 0 and out.startswith('ok\tyield=e|')
        except (OSError, subprocess.SubprocessError):
            _SETPRIV = False
    if _SETPRIV:
        return ['setpriv', '--reuid=65534', '--regid=65534', '--clear-groups', W.IMPL_BIN]
    return [W.IMPL_BIN]


def can_fault():
    impl_argv()
    return bool(_SETPRIV)


def rel_to(base, path):
    if len(path) > 1:
        path = path.rstrip('/')
    if len(base) > 1:
        base = base.rstrip('/')
    if base == '':
        return path
    if path == base:
        return ''
    if path.startswith(base + '/'):
        return path[len(base) + 1:]
    return '!' + path


def parse_impl(line, base):
    h, f = W.fields(line)
    if h != 'ok':
        return {'head': h}
    out = {'head': 'ok', 'yield': [], 'obs': [], 'anchor': f.get('anchor')}
    for it in [x for x in f.get('yield', '').split(';') if x]:
        p = it.split('|')
        if p[0] == 'e':
            out['yield'].append({'k': 'e', 'path': W.unhx(p[1]), 'rel_base': rel_to(base, W.unhx(p[1])), 'depth': int(p[2]), 'root': W.unhx(p[3]),
                                 'rel': W.unhx(p[4]), 'kind': p[5], 'matched': None if p[6] == '-' else W.unhx(p[6]),
                                 'cand': None if p[7] == '-' else W.unhx(p[7])})
        else:
            out['yield'].append({'k': 'x', 'path': None if p[1] == '-' else W.unhx(p[1]),
                                 'rel_base': None if p[1] == '-' else rel_to(base, W.unhx(p[1])), 'depth': int(p[2])})
    k = 0
    while 'obs%d' % k in f:
        obs = []
        for it in [x for x in f['obs%d' % k].split(';') if x]:
            p = it.split('|')
            obs.append({'rel': W.unhx(p[0]), 'depth': int(p[1]), 'kind': p[2], 'rel_base': rel_to(base, W.unhx(p[3]))})
        out['obs'].append(obs)
        k += 1
    return out


def parse_model(line):
    h, f = W.fields(line)
    if h != 'ok':
        return {'head': h}
    out = {'head': 'ok', 'yield': [], 'obs': [], 'pivot': int(f.get('pivot', '0')), 'feed': []}
    for it in [x for x in f.get('yield', '').split(';') if x]:
        p = it.split(':')
        out['yield'].append((p[0], W.unhx(p[1]), int(p[2])))
    k = 0
    while 'obs%d' % k in f:
        out['obs'].append([(W.unhx(x.split(':')[0]), x.split(':')[1]) for x in f['obs%d' % k].split(';') if x])
        k += 1
    out['feed'] = [(W.unhx(x.split(':')[0]), x.split(':')[1]) for x in f.get('feed', '').split(';') if x]
    return out


class Case:
    def __init__(self, base, tree, mode, link='F', mind='-', maxd='-', layers=()):
        self.base, self.tree, self.mode, self.link, self.mind, self.maxd, self.layers = base, tree, mode, link, mind, maxd, list(layers)

    cwd = None
    swap_depths = False      # the implementation is given (max, min): DepthMinMax::from_depths_or_max takes its depths in either order

    def impl_cmd(self):
        head = 'walk' if self.cwd is None else 'walkcd ' + hx(self.cwd)
        mind, maxd = (self.maxd, self.mind) if (self.swap_depths and self.mind != '-' and self.maxd != '-') else (self.mind, self.maxd)
        return '%s %s %s %s %s %s %s' % (head, hx(self.base), self.mode, self.link, mind, maxd, ' '.join(self.layers))

    def model_cmd(self):
        return 'walk %s %s %s %s %s' % (tree_text(self.tree), self.mode, self.mind, self.maxd, ' '.join(self.layers))

    def describe(self):
        return {'base': self.base, 'mode': ('glob ' + W.unhx(self.mode[1:])) if self.mode.startswith('G') else 'path', 'link': self.link,
                'min': self.mind, 'max': self.maxd, 'depths_given_as': '(max, min)' if self.swap_depths else '(min, max)', 'layers': [describe_layer(l) for l in self.layers], 'tree': tree_text(self.tree)[:600]}


def describe_layer(l):
    if l.startswith('N'):
        return 'not(%s)' % ', '.join(repr(W.unhx(x)) for x in l[1:].split(','))
    return 'filter_entry{%s}' % ', '.join('%r:%s' % (W.unhx(x.split(':')[0]), x.split(':')[1]) for x in l[1:].split(',') if x)


def run_cases(cases):
    io = W.run_bin(impl_argv(), [c.impl_cmd() for c in cases], shards=min(8, max(1, len(cases) // 10)))
    mo = W.run_model([c.model_cmd() for c in cases])
    return [(c, parse_impl(a, c.base), parse_model(b), a, b) for c, a, b in zip(cases, io, mo)]


def tie_case(res, c, pi, pm, a, b, what):
    """implementation and model must agree on the item sequence and on what every recording layer observed"""
    if pi['head'] != 'ok' or pm['head'] != 'ok':
        if pi['head'].split(' ')[0] != pm['head'].split(' ')[0]:
            res.tie_fail(what + ': outcome differs', {'case': c.describe(), 'impl': a[:300], 'model': b[:300]})
            return False
        return True
    iy = [(y['k'], y['rel_base'], y['depth'] if y['k'] == 'x' else (1 if y['kind'] == 'd' else 0)) for y in pi['yield']]
    my = [(k, p, d) for (k, p, d) in pm['yield']]
    absbase = c.base if (isinstance(c.base, str) and c.base.startswith('/')) else os.path.join(getattr(c, 'cwd', None) or '', c.base or '')
    if absbase.startswith('/') and os.path.islink(absbase.rstrip('/')):
        # the directory given to the walk is a link: it is opened, but its own entry reports the file type of the link
        iy = [(k, p, (None if (k == 'e' and p == '') else d)) for (k, p, d) in iy]
        my = [(k, p, (None if (k == 'e' and p == '') else d)) for (k, p, d) in my]
    if iy != my:
        res.tie_fail(what + ': yielded items differ', {'case': c.describe(), 'impl': iy[:40], 'model': my[:40]})
        return False
    for k, (io_, mo_) in enumerate(zip(pi['obs'], pm['obs'])):
        if [o['rel_base'] for o in io_] != [p for (p, _) in mo_]:
            res.tie_fail(what + ': the entries observed by recording layer %d differ' % k,
                         {'case': c.describe(), 'impl': [o['rel_base'] for o in io_][:40], 'model': mo_[:40]})
            return False
    return True


class Sandbox:
    """trees on disk for one check run"""

    def __init__(self, pid):
        self.root = os.path.join(FS, '%s-%d' % (pid, os.getpid()))
        shutil.rmtree(self.root, ignore_errors=True)
        os.makedirs(self.root)
        os.chmod(W.CACHE, 0o755)
        os.chmod(FS, 0o755)
        self.n = 0

    def new_tree(self, rng, faults=False, maxdepth=4, link_base=False):
        self.n += 1
        base = os.path.join(self.root, 't%d' % self.n, 'base')
        tree = gen_tree(rng, faults=faults, maxdepth=maxdepth)
        if link_base and not faults:
            # the directory given to the walk is a symbolic link to the real directory
            real = os.path.join(self.root, 't%d' % self.n, 'real')
            locked = materialize(real, tree)
            os.symlink('real', base)
            return base, set(locked)
        locked = materialize(base, tree)
        locked = locked if (faults and can_fault()) else []
        lock_dirs(locked)
        return base, set(locked)

    def close(self):
        unlock_all(self.root)
        shutil.rmtree(self.root, ignore_errors=True)


def rel_names(node):
    return [p for p, _ in preorder(node)]


def table_layer(rng, node, p_tree=0.5, k=2, prefer=()):
    """a filter_entry layer with verdicts for a few random entries (keyed by base-relative path); `prefer`: paths (links, directories a
    glob prunes) one of which is picked first, half of the time"""
    rels = [p for p in rel_names(node) if p != '']
    if not rels:
        return 'F'
    picks = rng.sample(rels, min(k, len(rels)))
    prefer = [p for p in prefer if p in rels]
    if prefer and rng.random() < 0.5:
        picks = [rng.choice(prefer)] + [p for p in picks if p not in prefer][:max(0, k - 1)]
        return 'F' + ','.join('%s:%s' % (hx(p), 'T' if (i == 0 or rng.random() < p_tree) else 'F') for i, p in enumerate(picks))
    return 'F' + ','.join('%s:%s' % (hx(p), 'T' if rng.random() < p_tree else 'F') for p in picks)


def link_rels(base):
    """base-relative paths of the symbolic links in a tree on disk"""
    out = []
    for dp, dns, fns in os.walk(base):
        for nm in dns + fns:
            q = os.path.join(dp, nm)
            if os.path.islink(q):
                out.append(os.path.relpath(q, base))
    return out


def dir_rels(node):
    return [p for p, n in preorder(node) if p != '' and n[0] == 'D']


_META = '?*$:<>()[]{},'


def lit(s_):
    return ''.join('\\' + ch if ch in _META else ch for ch in s_)


def glob_from_tree(rng, node, tree_wildcards=True):
    """a glob derived from an entry of the tree, so that it matches something and has literal / wildcard components a walk can
    prune on: each component of the entry's path becomes a literal, `*`, a prefix and `*`, a `?`, an alternation or a class; a run of
    components may be replaced by a tree wildcard"""
    rels = [p for p, _ in preorder(node) if p != '' and '\\' not in p]
    if not rels:
        return '*'
    comps = rng.choice(rels).split('/')
    pieces = []
    for c in comps:
        x = rng.random()
        if x < 0.35 or not c:
            pieces.append(lit(c))
        elif x < 0.5:
            pieces.append('*')
        elif x < 0.7:
            pieces.append(lit(c[0]) + '*')
        elif x < 0.8:
            i = rng.randrange(len(c))
            pieces.append(lit(c[:i]) + '?' + lit(c[i + 1:]))
        elif x < 0.9:
            pieces.append('{' + lit(c) + ',zz}')
        elif c[0] not in '[]-\\!/' + _META:
            pieces.append('[' + c[0] + ']' + lit(c[1:]))
        else:
            pieces.append(lit(c))
    # branches that contain a separator: two components in one alternation branch / a component and its separator in a repetition
    joined = []
    i = 0
    while i < len(pieces):
        x = rng.random()
        if i + 1 < len(pieces) and x < 0.15:
            joined.append('{' + pieces[i] + '/' + pieces[i + 1] + ',zz}')
            i += 2
        elif i + 1 < len(pieces) and x < 0.25 and '*' not in pieces[i]:
            joined.append('<' + pieces[i] + '/:1,2>' + pieces[i + 1])
            i += 2
        else:
            joined.append(pieces[i])
            i += 1
    pieces = joined
    if tree_wildcards and rng.random() < 0.5:
        i = rng.randint(0, len(pieces))
        j = rng.randint(i, len(pieces))
        pieces[i:j] = ['**']
    e = '/'.join(pieces)
    return e.replace('**/**', '**')


NOT_PATTERNS = ['<[a-z]:1,>', '<[a-z0-9.]:>', '{<[a-c]:1,>,*.md}', '<?:1,>', '<*/:1,>b', '{<a:1,>,<b:2,>}', '**/{.*,s*}', '**/{a*,d*}', '**/<s*:1>', '**/.git/**', '**/*.md', 'src/**', '**/a', '*.txt', '**/secret/**', 'z/**', '**/{a,b}/**', '**/.*', 'doc/**', '**/x.txt', '{a,b}/**',
                '**/[a]', 'a/**', '', '**/q/**', '**/A', '*', '**/b', 'c/**']
GLOBS = ['*.*', '?', '[!q]*', '*/?', '*/*.*', '{a,b,c,A,B,x.txt}', '*/{a,b,c,x.txt,y.md}', '?/*.*', '**', '**/*.txt', '*', '*/*', 'a/**', 'src/**/*.rs', '**/a/**', '{a,b}/**', '**/*.{txt,md}', 'a/*', '**/.git', 'a/b/**', '*/x.txt', '**/[a-c]',
         'doc/*.md', '**/?', 'z/q/*', '(?i)a/**', '**/src/**', '[ab]/**', '**/x.txt', 'a/**/*.txt', 'secret/*', '<[a-c]/:1,2>*', '**/é', '', 'a', 'c/**/b']


def glob_mode(e):
    return 'G' + hx(e)


def replay_walk(replay):
    print(json.dumps(replay['case'], ensure_ascii=False, indent=1)[:3000])
    return 1


# ---- C13 ---------------------------------------------------------------------------------------------------------------------
def expected_feed(node, verdicts_by_layer):
    """pruned pre-order, independent of the model: entries that have no proper ancestor directory with a Tree verdict in any
    table (tables are keyed by base-relative path)"""
    out = []

    def go(prefix, n):
        out.append(prefix)
        if n[0] == 'D':
            if any(t.get(prefix) == 'T' for t in verdicts_by_layer):
                return
            for nm, k in n[1]:
                go(nm if prefix == '' else prefix + '/' + nm, k)
    go('', node)
    return out


def layer_table(l):
    return {W.unhx(x.split(':')[0]): x.split(':')[1] for x in l[1:].split(',') if x}


def c13(res, rng, tier, replay=None):
    if replay:
        return replay_walk(replay)
    ntrees = sizes(tier, 60, 1200)
    res.rule = ('random directory trees (<= 28 entries, depth <= 4, pattern-like / hidden / non-ASCII names) x stacks of 1-5 combinators (filter_entry '
                'with table verdicts File/Tree on files and directories in first / last / only child position, not(pattern), glob walks) with a recording '
                'pass-through filter_entry after every layer; non-trivial = distinct (tree, stack); tie: yielded items and every recorded feed impl vs model '
                'machine; oracle (model-free): the last recorder sees exactly the pruned pre-order of the tree computed from the verdict tables alone')
    sb = Sandbox('C13')
    try:
        cases, meta = [], []
        for _ in range(ntrees):
            base, locked = sb.new_tree(rng, faults=('links' if rng.random() < 0.5 else False))
            node = resolved(base, False, locked)
            links = link_rels(base)
            for _ in range(sizes(tier, 5, 8)):
                nl = rng.randint(1, 3)
                layers, tables, pure = [], [], True
                for _ in range(nl):
                    x = rng.random()
                    if x < 0.6:
                        l = table_layer(rng, node, 0.6, rng.randint(1, 3), prefer=links)
                        tables.append(layer_table(l))
                        layers.append(l)
                    else:
                        k = rng.choice([1, 1, 2, 3])
                        layers.append('N' + ','.join(hx(q) for q in rng.sample(NOT_PATTERNS, k)))
                        pure = False
                    layers.append('F')
                mode = 'P'
                if rng.random() < 0.3:
                    e = glob_from_tree(rng, node) if rng.random() < 0.5 else rng.choice(GLOBS)
                    if safe_glob(e) and not prefix_through_link(base, e):
                        mode = glob_mode(e)
                        pure = False
                c = Case(base, node, mode, 'F', '-', '-', layers[:6])
                cases.append(c)
                meta.append((node, tables, pure))
        for (c, pi, pm, a, b), (node, tables, pure) in zip(run_cases(cases), meta):
            res.evaluations += 1
            res.nontrivial.add((c.base, c.mode, tuple(c.layers)))
            res.count('layers:%d' % len(c.layers))
            tie_case(res, c, pi, pm, a, b, 'C13')
            if pure and pi['head'] == 'ok' and pi['obs']:
                exp = expected_feed(node, tables)
                got = [o['rel_base'] for o in pi['obs'][-1]]
                if got != exp:
                    missing = [p for p in exp if p not in got]
                    extra = [p for p in got if p not in exp]
                    res.oracle_fail('the feed after the stack is not the pruned pre-order of the tree',
                                    {'case': c.describe(), 'missing (lost entries)': missing[:10], 'extra (read beneath a discarded tree)': extra[:10]})
            if len(res.samples) < 6:
                res.sample(c.describe())
        # model-free oracle for negations: [not(patterns), recorder] over a path walk: nothing beneath a directory that an
        # always-exhaustive pattern matches may be fed downstream (exhaustiveness and matching asked of the implementation)
        ncases, nmeta = [], []
        overlapping = [('z/**', '*'), ('**/.git/**', '**/.*'), ('a/**', '**/a'), ('src/**', '*'), ('{a,b}/**', '**/b'), ('doc/**', '*'),
                       ('**/secret/**', '**/secret'), ('c/**', '?'), ('**/q/**', '**/q')]
        for _ in range(sizes(tier, 150, 1500)):
            base, locked = sb.new_tree(rng)
            node = resolved(base, False, locked)
            pats = rng.sample(NOT_PATTERNS, rng.choice([1, 2, 3]))
            if rng.random() < 0.5:
                pair = list(rng.choice(overlapping))
                rng.shuffle(pair)
                pats = pair + ([rng.choice(NOT_PATTERNS)] if rng.random() < 0.3 else [])
            ncases.append(Case(base, node, 'P', 'F', '-', '-', ['N' + ','.join(hx(q) for q in pats), 'F']))
            nmeta.append((node, pats))
        nres = run_cases(ncases)
        exh = {}
        allp = sorted(set(q for _, pats in nmeta for q in pats))
        for q, o in zip(allp, W.run_impl(['glob ' + hx(q) for q in allp])):
            exh[q] = W.fields(o)[1].get('exh') == 'A'
        pairs = [(q, [p for p, _ in preorder(node)]) for node, pats in nmeta for q in pats]
        bits = iter(match_bits(pairs))
        for (c, pi, pm, a, b), (node, pats) in zip(nres, nmeta):
            res.evaluations += 1
            res.nontrivial.add((c.base, tuple(pats)))
            tie_case(res, c, pi, pm, a, b, 'C13')
            ms = {q: next(bits) for q in pats}
            if pi['head'] != 'ok' or any(m is None for m in ms.values()):
                continue
            rels = [p for p, _ in preorder(node)]
            kinds = {p: n[0] for p, n in preorder(node)}
            dead = [p for j, p in enumerate(rels) if kinds[p] == 'D' and any(exh[q] and ms[q][j] for q in pats)]
            got = [o['rel_base'] for o in pi['obs'][-1]] if pi['obs'] else []
            for g_ in got:
                anc = [d for d in dead if g_ != d and (g_.startswith(d + '/') or d == '')]
                if anc:
                    res.oracle_fail('an entry beneath a directory that an exhaustive negation matches was read and fed downstream',
                                    {'case': c.describe(), 'entry': g_, 'discarded directory': anc[0]})
                    break
            lost = [p for p in rels if p not in got and not any(p != d and (p.startswith(d + '/') or d == '') for d in dead)]
            if lost:
                res.oracle_fail('an entry that is not beneath a discarded directory was skipped', {'case': c.describe(), 'lost': lost[:10]})
    finally:
        sb.close()


# ---- C16 ----------------------------------------------------------------------------------------------------------------------
def c16(res, rng, tier, replay=None):
    if replay:
        return replay_walk(replay)
    ntrees = sizes(tier, 40, 600)
    res.rule = ('random trees x stacks of 2-3 not / filter_entry layers over path walks and prefix-free glob walks, every permutation of every stack; '
                'non-trivial = distinct (tree, stack, permutation); tie: each permutation impl vs model; oracle: all permutations yield the same entries; '
                'yields = entries that every layer alone keeps; each recording layer observes every entry not beneath a discarded tree exactly once')
    sb = Sandbox('C16')
    try:
        cases, groups = [], []
        for _ in range(ntrees):
            base, locked = sb.new_tree(rng)
            node = resolved(base, False, locked)
            for _ in range(3):
                nl = rng.randint(2, 3)
                layers = []
                dirs_ = dir_rels(node)
                for _ in range(nl):
                    layers.append(table_layer(rng, node, 0.5, rng.randint(1, 3), prefer=dirs_) if rng.random() < 0.55 else 'N' + hx(rng.choice(NOT_PATTERNS)))
                mode = 'P'
                if dirs_ and rng.random() < 0.3:
                    # directed: a selective glob (it prunes directories itself) under filters that discard some of the same directories
                    e = glob_from_tree(rng, node, tree_wildcards=False)
                    if safe_glob(e) and _PREFIX.get(e, '') == '':
                        mode = glob_mode(e)
                        layers = ['F' + ','.join('%s:T' % hx(d_) for d_ in rng.sample(dirs_, min(len(dirs_), rng.randint(1, 4)))) for _ in range(nl)]
                elif rng.random() < 0.4:
                    # prefix-free glob walks: the first component is a pattern, so the walk starts at the base and the glob itself prunes
                    e = rng.choice(['**', '**/*.txt', '*/**', '**/a/**', '{a,b,src}/**'])
                    if rng.random() < 0.6:
                        e = glob_from_tree(rng, node)
                    if safe_glob(e) and _PREFIX.get(e, '') == '':
                        mode = glob_mode(e)
                start = len(cases)
                perms = list(itertools.permutations(layers))
                singles = [[l] for l in layers]
                for perm in perms:
                    cases.append(Case(base, node, mode, 'F', '-', '-', list(perm) + ['F']))
                for s in singles:
                    cases.append(Case(base, node, mode, 'F', '-', '-', s))
                cases.append(Case(base, node, mode, 'F', '-', '-', []))
                groups.append((start, len(perms), len(singles)))
        results = run_cases(cases)
        for (start, nperm, nsing) in groups:
            ys = []
            for (c, pi, pm, a, b) in results[start:start + nperm]:
                res.evaluations += 1
                res.nontrivial.add((c.base, c.mode, tuple(c.layers)))
                tie_case(res, c, pi, pm, a, b, 'C16')
                if pi['head'] == 'ok':
                    ys.append([y['rel_base'] for y in pi['yield'] if y['k'] == 'e'])
                    seen = [o['rel_base'] for o in pi['obs'][-1]] if pi['obs'] else []
                    if len(seen) != len(set(seen)):
                        res.oracle_fail('a layer observed an entry more than once', {'case': c.describe()})
            for (c, pi, pm, a, b) in results[start:start + nperm]:
                if pi['head'] == 'ok' and c.mode == 'P' and all(l.startswith('F') for l in c.layers) and pi['obs']:
                    exp = expected_feed(c.tree, [layer_table(l) for l in c.layers])
                    got = [o['rel_base'] for o in pi['obs'][-1]]
                    if got != exp:
                        res.oracle_fail('a filter does not observe exactly the entries that are not beneath a discarded tree',
                                        {'case': c.describe(), 'missing': [p for p in exp if p not in got][:10], 'extra': [p for p in got if p not in exp][:10]})
                        break
            if ys and any(sorted(y) != sorted(ys[0]) for y in ys):
                c0 = results[start][0]
                res.oracle_fail('stacking the same combinators in a different order yields different entries',
                                {'case': c0.describe(), 'yields': [y[:30] for y in ys[:4]]})
            sing = results[start + nperm:start + nperm + nsing]
            plain = results[start + nperm + nsing]
            if ys and plain[1]['head'] == 'ok' and all(s[1]['head'] == 'ok' for s in sing):
                keep = None
                for s in sing:
                    k = set(y['rel_base'] for y in s[1]['yield'] if y['k'] == 'e')
                    keep = k if keep is None else keep & k
                if keep is not None and set(ys[0]) != keep:
                    res.oracle_fail('the stack does not yield exactly the entries that every one of its layers keeps',
                                    {'case': results[start][0].describe(), 'stack': sorted(ys[0])[:30], 'intersection': sorted(keep)[:30]})
            # model-free: over any walk (path or glob), table layers keep exactly the entries of the plain walk that have no verdict
            # themselves and no ancestor with a tree verdict
            c0 = results[start][0]
            if ys and plain[1]['head'] == 'ok' and all(l.startswith('F') for l in c0.layers):
                tables = [layer_table(l) for l in c0.layers if l != 'F']
                base_y = [y['rel_base'] for y in plain[1]['yield'] if y['k'] == 'e']

                def gone(p_):
                    parts = p_.split('/') if p_ else []
                    anc = ['/'.join(parts[:i]) for i in range(1, len(parts))]
                    return any(t.get(p_) in ('T', 'F') or any(t.get(a_) == 'T' for a_ in anc) for t in tables)
                exp = sorted(p_ for p_ in base_y if not gone(p_))
                if sorted(ys[0]) != exp:
                    res.oracle_fail('filter_entry layers over a walk do not keep exactly the entries without a verdict and outside discarded trees',
                                    {'case': c0.describe(), 'missing': [p_ for p_ in exp if p_ not in ys[0]][:10], 'extra': [p_ for p_ in ys[0] if p_ not in exp][:10]})
            if len(res.samples) < 5:
                res.sample(results[start][0].describe())
    finally:
        sb.close()


# ---- C02 / C14 / C15 --------------------------------------------------------------------------------------------------------------
def match_bits(pairs):
    """[(glob, [paths])] -> [[bool]] through the implementation's is_match"""
    cmds = ['mm %s %s' % (hx(g), ' '.join(hx(p) for p in ps)) for g, ps in pairs]
    out = []
    for (g, ps), o in zip(pairs, W.run_impl(cmds)):
        if o in ('err', 'panic', 'crashed', 'missing'):
            out.append(None)
        else:
            out.append([r[:1] == '1' for r in o.split('|')])
    return out


def rooted_or_dotted(e):
    return e.startswith('/') or e.startswith('..') or '/../' in e or e.startswith('./') or '/./' in e


_SAFE = {}
_PREFIX = {}


def prefix_through_link(base, e):
    """the literal prefix of the glob leads through a symbolic link of the tree (the walk then starts at the link's target:
    the resolved view read from the base does not describe that walk)"""
    p = base
    for c in [c for c in _PREFIX.get(e, '').split('/') if c]:
        p = os.path.join(p, c)
        if os.path.islink(p):
            return True
    return False


def safe_glob(e):
    """only walk globs that stay beneath the directory given: not rooted (also not through a repetition or a class that lists
    a separator) and without `.` / `..` prefix components (rooted_walk / dot_prefix_walk are recorded separately)"""
    if e not in _SAFE:
        if rooted_or_dotted(e):
            _SAFE[e] = False
        else:
            g, p = W.run_impl(['glob ' + hx(e), 'part ' + hx(e)])
            h, f = W.fields(g)
            hp, fp = W.fields(p)
            ok = h == 'ok' and f.get('root') == 'N' and hp == 'ok'
            if ok:
                prefix = W.unhx(fp.get('prefix', 'x'))
                _PREFIX[e] = prefix
                # a class that lists the separator contributes `/` to the invariant prefix (the known class separator_class of C08):
                # such prefixes have empty components; they are not walked
                ok = not prefix.startswith('/') and '//' not in prefix and not any(c in ('.', '..') for c in prefix.split('/'))
            _SAFE[e] = ok
    return _SAFE[e]


def glob_cases(sb, rng, ntrees, per_tree, behaviours=False, faults=False):
    cases, nodes = [], []
    g = G.ExprGen(rng, wild=0.0, maxdepth=2)
    for _ in range(ntrees):
        base, locked = sb.new_tree(rng, faults=faults, link_base=(not faults and rng.random() < 0.2))
        dirs = []
        if behaviours:
            for dp, dns, fns in os.walk(base):
                for d in dns:
                    q = os.path.join(dp, d)
                    if not os.path.islink(q):
                        dirs.append(os.path.relpath(q, base))
        for _ in range(per_tree):
            e = rng.choice(GLOBS) if rng.random() < 0.7 else g.glob()
            if rng.random() < 0.4:
                e = glob_from_tree(rng, resolved(base, False, locked))
            elif dirs and rng.random() < 0.4:
                # a literal prefix that exists in this tree (escaped), followed by a variant tail
                d = rng.choice(dirs)
                e = ''.join('\\' + ch if ch in '?*$:<>()[]{},' else ch for ch in d) + rng.choice(['/**', '/*', '/**/*', '/*/*'])
            if not safe_glob(e) or prefix_through_link(base, e):
                continue
            link = 'T' if (behaviours and rng.random() < 0.5) else 'F'
            mind = maxd = '-'
            if behaviours:
                x = rng.random()
                if x < 0.7:
                    lo, hi = sorted([rng.randint(0, 4), rng.randint(0, 4)])
                    mind, maxd = (str(lo) if lo > 0 and rng.random() < 0.8 else '-'), (str(hi) if rng.random() < 0.8 else '-')
                elif x < 0.85:
                    # a minimum only, no greater than the number of prefix components: the prefix directory itself stays inside
                    npre = len([c_ for c_ in _PREFIX.get(e, '').split('/') if c_])
                    if npre:
                        mind = str(rng.randint(1, npre))
            node = resolved(base, link == 'T', locked)
            pre = _PREFIX.get(e, '').strip('/')
            if pre and link == 'T' and os.path.isdir(os.path.join(base, pre)):
                # loop detection only knows the ancestors inside the walk, which starts at the prefix directory
                node = graft(node, pre, resolved(os.path.join(base, pre), True, locked))
            cases.append(Case(base, node, glob_mode(e), link, mind, maxd, []))
            nodes.append((node, e))
    return cases, nodes


def c02(res, rng, tier, replay=None):
    if replay:
        return replay_walk(replay)
    ntrees = sizes(tier, 60, 1500)
    res.rule = ('random trees x globs (unrooted, with literal / invariant prefixes, tree wildcards, classes, alternations; ExprGen + a fixed pool); '
                'non-trivial = distinct (tree, glob); tie: yielded sequence impl vs model machine with the model component programs; oracle: independent '
                'read-back of the tree (os.scandir) filtered with is_match on the base-relative path, compared with the walk as sets, each once')
    W.check_orbit_nosep(res, 'C02')
    sb = Sandbox('C02')
    try:
        cases, nodes = glob_cases(sb, rng, ntrees // 2, 6)
        cases2, nodes2 = glob_cases(sb, rng, ntrees - ntrees // 2, 6, faults=True)      # trees with links (read as files)
        cases, nodes = cases + cases2, nodes + nodes2
        results = run_cases(cases)
        pairs = []
        for (c, pi, pm, a, b), (node, e) in zip(results, nodes):
            pairs.append((e, [p for p, _ in preorder(node)]))
        bits = match_bits(pairs)
        # the objects of the C02 theorems are the code's objects: token tree, complete program and component programs of every walked glob
        import props_pattern as PP
        items = PP.stage_globs(sorted(set(e for _, e in nodes)))
        PP.tie_fields(res, items, ['tree', 're', 'comps', 'empty'], 'C02 programs')
        res.count('globs whose programs were compared', len(items))
        kfs = {k['class']: k for k in W.known_findings('C02')}
        for (c, pi, pm, a, b), (node, e), bs in zip(results, nodes, bits):
            res.evaluations += 1
            res.nontrivial.add((c.base, e))
            tie_case(res, c, pi, pm, a, b, 'C02')
            if pi['head'] != 'ok' or bs is None:
                continue
            exp = sorted(p for (p, n_), m in zip(preorder(node), bs) if m and n_[0] != 'E')
            got = [y['rel_base'] for y in pi['yield'] if y['k'] == 'e']
            res.count('yields', len(got))
            if '' in exp and '' not in got:
                exp.remove('')       # the base is yielded *only if* the glob matches the empty path, not whenever it does
            if sorted(got) != exp:
                res.oracle_fail('the walk does not yield exactly the entries whose relative path matches',
                                {'case': c.describe(), 'missing': [p for p in exp if p not in got][:10], 'extra': [p for p in got if p not in exp][:10]})
            if len(res.samples) < 6:
                res.sample({'glob': e, 'yields': got[:6]})
        for cls, kf in kfs.items():
            W_ = kf['witness']
            print('KNOWN-FINDING: property=C02 class=%s %s' % (cls, kf['what'][:160]), flush=True)
    finally:
        sb.close()


def join_path(root, rel):
    if rel == '':
        return root if root != '' else ''
    if root == '':
        return rel
    return root.rstrip('/') + '/' + rel if root != '/' else '/' + rel


def c14(res, rng, tier, replay=None):
    if replay:
        return replay_walk(replay)
    ntrees = sizes(tier, 60, 1500)
    res.rule = ('random trees x globs with and without prefix x bases (absolute) x depth / link behaviours; non-trivial = distinct (tree, glob, behaviour); '
                'tie: the item sequence impl vs model; oracle on every yielded entry: join(root segment, relative segment) = path, depth = components of the '
                'relative segment, matched text = candidate path = relative segment, the glob matches it, root segment = the directory given to the walk')
    sb = Sandbox('C14')
    try:
        cases, nodes = glob_cases(sb, rng, ntrees, 6, behaviours=True)
        for c in cases:
            # relative base directories: the empty path, `.`, a relative name, with `./` and a trailing separator
            x = rng.random()
            absolute = c.base
            if x < 0.12 and _PREFIX.get(W.unhx(c.mode[1:]), '').strip('/'):
                c.cwd, c.base = absolute, ''       # the empty path only names a directory once a prefix is joined to it
            elif x < 0.24:
                c.cwd, c.base = absolute, '.'
            elif x < 0.34:
                c.cwd, c.base = os.path.dirname(absolute), 'base'
            elif x < 0.44:
                c.cwd, c.base = os.path.dirname(absolute), './base/'
        results = run_cases(cases)
        pairs = []
        for (c, pi, pm, a, b), (node, e) in zip(results, nodes):
            pairs.append((e, [y['rel'] for y in pi.get('yield', []) if y['k'] == 'e'] or ['']))
        bits = match_bits(pairs)
        for (c, pi, pm, a, b), (node, e), bs in zip(results, nodes, bits):
            tie_case(res, c, pi, pm, a, b, 'C14')
            if pi['head'] != 'ok':
                continue
            ents = [y for y in pi['yield'] if y['k'] == 'e']
            for y, m in zip(ents, bs or []):
                res.evaluations += 1
                res.nontrivial.add((c.base, e, y['path']))
                bad = None
                if join_path(y['root'], y['rel']) != y['path']:
                    bad = 'root segment joined with relative segment is not the path'
                elif y['depth'] != len([x for x in y['rel'].split('/') if x]):
                    bad = 'depth is not the number of components of the relative segment'
                elif y['matched'] != y['rel'] or y['cand'] != y['rel']:
                    bad = 'matched text / candidate path is not the relative segment'
                elif not m:
                    bad = 'the glob does not match the relative segment'
                elif (y['root'].rstrip('/') if len(y['root']) > 1 else y['root']) != (c.base.rstrip('/') if len(c.base) > 1 else c.base):
                    bad = 'the root segment is not the directory given to the walk'
                if bad:
                    res.oracle_fail(bad, {'case': c.describe(), 'entry': y})
                    break
            if len(res.samples) < 6 and ents:
                res.sample({'glob': e, 'entry': ents[0]})
    finally:
        sb.close()


def c15(res, rng, tier, replay=None):
    if replay:
        return replay_walk(replay)
    ntrees = sizes(tier, 60, 1500)
    res.rule = ('random trees with symbolic links (to files, to directories, dangling, re-entrant) x globs with prefixes of length 0-3 x (min, max) <= 4 x both '
                'link behaviours; non-trivial = distinct (tree, glob, min, max, link); tie: item sequence impl vs model (resolved view read back independently); '
                'oracle: yields = matching entries of the resolved view whose depth from the directory given lies in [min, max]; one error per re-entrant / '
                'dangling link when targets are read; termination (the run returns)')
    sb = Sandbox('C15')
    try:
        cases, nodes = glob_cases(sb, rng, ntrees, 6, behaviours=True, faults=True)
        for c in cases:
            # "the depths need not be ordered": a third of the windows are given to the implementation as (max, min)
            if c.mind != '-' and c.maxd != '-' and c.mind != c.maxd and rng.random() < 0.35:
                c.swap_depths = True
        results = run_cases(cases)
        pairs = [(e, [p for p, _ in preorder(node)]) for (node, e) in nodes]
        bits = match_bits(pairs)
        kfs = {k['class']: k for k in W.known_findings('C15')}
        for (c, pi, pm, a, b), (node, e), bs in zip(results, nodes, bits):
            res.evaluations += 1
            res.nontrivial.add((c.base, e, c.mind, c.maxd, c.link))
            tie_case(res, c, pi, pm, a, b, 'C15')
            if pi['head'] != 'ok' or bs is None or pm.get('head') != 'ok':
                continue
            lo = 0 if c.mind == '-' else int(c.mind)
            hi = None if c.maxd == '-' else int(c.maxd)
            if hi is not None and lo > hi:
                lo, hi = hi, lo
            exp = sorted(p for (p, n), m in zip(preorder(node), bs)
                         if m and n[0] != 'E' and lo <= len([x for x in p.split('/') if x]) and (hi is None or len([x for x in p.split('/') if x]) <= hi))
            got = sorted(y['rel_base'] for y in pi['yield'] if y['k'] == 'e')
            if '' in exp and '' not in got:
                exp.remove('')       # the base is yielded only if the glob matches the empty path, not whenever it does
            res.count('link:' + c.link)
            res.count('window:%s..%s' % (c.mind, c.maxd))
            if got != exp:
                # the known class is narrow: below the prefix the saturated window still yields the prefix directory itself -- and nothing else
                ncomp = lambda q: len([x for x in q.split('/') if x])
                cls = 'max_below_prefix' if (hi is not None and hi < pm['pivot'] and not [q for q in exp if q not in got]
                                             and all(ncomp(q) == pm['pivot'] for q in got if q not in exp)) else None
                if cls and cls in kfs:
                    res.known_hits[cls] = res.known_hits.get(cls, 0) + 1
                else:
                    res.oracle_fail('the walk does not yield exactly the matching entries inside the depth window',
                                    {'case': c.describe(), 'missing': [p for p in exp if p not in got][:10], 'extra': [p for p in got if p not in exp][:10], 'class': cls})
            if len(res.samples) < 6:
                res.sample({'glob': e, 'link': c.link, 'min': c.mind, 'max': c.maxd, 'yields': got[:5]})
        for cls, kf in kfs.items():
            print('KNOWN-FINDING: property=C15 class=%s %s' % (cls, kf['what'][:160]), flush=True)
    finally:
        sb.close()


# ---- C03 ------------------------------------------------------------------------------------------------------------------------------
def mixed_negations(rng, node):
    """patterns `D/{X/**,*/N}` (and spellings of it) from names of the tree: D a directory, X a child directory of D, N the name of an
    entry two levels below D"""
    out = []
    ents = dict(preorder(node))
    dirs_ = [p for p, n in ents.items() if p != '' and n[0] == 'D' and '\\' not in p]
    rng.shuffle(dirs_)
    for d in dirs_:
        kids = [nm for nm, k in ents[d][1]]
        sub = [nm for nm, k in ents[d][1] if k[0] == 'D']
        grand = [nm2 for nm, k in ents[d][1] if k[0] == 'D' for nm2, _ in k[1]]
        if not sub or not grand:
            continue
        x, n_ = rng.choice(sub), rng.choice(grand)
        dl, xl, nl_ = '/'.join(lit(c_) for c_ in d.split('/')), lit(x), lit(n_)
        out.append(rng.choice(['%s/{%s/**,*/%s}' % (dl, xl, nl_), '%s{/%s/**,/**/%s}' % (dl, xl, nl_), '<%s/{%s/**,*/%s}:1,2>' % (dl, xl, nl_),
                               '%s/{*/%s,%s/**}' % (dl, nl_, xl), '%s/{%s/**,%s/%s}' % (dl, xl, lit(rng.choice(sub)), nl_)]))
    return out


def c03(res, rng, tier, replay=None):
    if replay:
        return replay_walk(replay)
    ntrees = sizes(tier, 60, 1500)
    res.rule = ('random trees x underlying walks (path walks, glob walks) x negation patterns (fixed pool incl. the empty pattern, alternations after tree '
                'wildcards, any() of several, ExprGen patterns); non-trivial = distinct (tree, walk, pattern); tie: item sequences impl vs model (partition into '
                'exhaustive / non-exhaustive programs from the model); oracle: walk.not(p) yields exactly the entries of the underlying walk whose '
                'root-relative path p does not match (filtered entry by entry with is_match)')
    sb = Sandbox('C03')
    g = G.ExprGen(rng, wild=0.0, maxdepth=2)
    try:
        cases, meta = [], []
        for _ in range(ntrees):
            base, locked = sb.new_tree(rng)
            node = resolved(base, False, locked)
            for _ in range(6):
                pats = [rng.choice(NOT_PATTERNS) if rng.random() < 0.7 else g.glob()]
                if rng.random() < 0.25:
                    pats.append(rng.choice(NOT_PATTERNS))
                pats = [p for p in pats if not rooted_or_dotted(p)] or ['**/a']
                mode = 'P' if rng.random() < 0.6 else glob_mode(rng.choice(['**', '**/*.txt', 'a/**', '*/**', 'src/**', '**/a/**', 'a/**/*.txt',
                                                                            '{a,b,src}/**', '[a-c]/**', '?/**/*', '{a,b,c,src,doc}/*/**', '[!.]*/**']))
                cases.append(Case(base, node, mode, 'F', '-', '-', ['N' + ','.join(hx(p) for p in pats)]))
                cases.append(Case(base, node, mode, 'F', '-', '-', []))
                meta.append(pats)
            # tree-aware negations of mixed exhaustiveness below a literal directory: one branch is exhaustive (`X/**`), another is not
            # (`*/N`): the pattern as a whole is only sometimes exhaustive and must not discard whole trees
            for pat in mixed_negations(rng, node)[:2]:
                if rooted_or_dotted(pat):
                    continue
                cases.append(Case(base, node, 'P', 'F', '-', '-', ['N' + hx(pat)]))
                cases.append(Case(base, node, 'P', 'F', '-', '-', []))
                meta.append([pat])
            # tree-aware: the underlying glob walk prunes one top-level directory by its component program and the
            # negation matches that same directory exhaustively
            tops = [n for n, k in node[1] if k[0] == 'D' and not any(ch in n for ch in '?*$:<>()[]{},')] if node[0] == 'D' else []
            if len(tops) >= 2:
                d1, d2 = rng.sample(tops, 2)
                mode = glob_mode('{%s,zzz}/**' % d1)
                pats = [d2 + '/**']
                cases.append(Case(base, node, mode, 'F', '-', '-', ['N' + hx(pats[0])]))
                cases.append(Case(base, node, mode, 'F', '-', '-', []))
                meta.append(pats)
        results = run_cases(cases)
        kfs = {k['class']: k for k in W.known_findings('C03')}
        jobs = []
        for i, pats in enumerate(meta):
            (c, pi, pm, a, b) = results[2 * i]
            (c0, pi0, pm0, a0, b0) = results[2 * i + 1]
            res.evaluations += 1
            res.nontrivial.add((c.base, c.mode, tuple(pats)))
            tie_case(res, c, pi, pm, a, b, 'C03')
            if pi['head'] != 'ok' or pi0['head'] != 'ok':
                continue
            under = [y for y in pi0['yield'] if y['k'] == 'e']
            jobs.append((c, pats, under, [y['rel_base'] for y in pi['yield'] if y['k'] == 'e'], pm))
        pairs = []
        for c, pats, under, got, pm in jobs:
            for p in pats:
                pairs.append((p, [y['rel'] for y in under] or ['']))
        bits = iter(match_bits(pairs))
        for c, pats, under, got, pm in jobs:
            ms = [next(bits) for _ in pats]
            if any(m is None for m in ms):
                continue
            exp = [y['rel_base'] for j, y in enumerate(under) if not any(m[j] for m in ms)] if under else []
            if sorted(got) != sorted(exp):
                cls = None
                flags = ' '.join(W.run_model(['lang ' + hx(p) + ' ' + hx('') for p in pats]))
                if c.mode.startswith('G') and pm.get('pivot', 0) > 0:
                    cls = 'residue_loses_prefix'
                elif 'optrep=1' in flags:
                    cls = 'optional_repetition'
                elif 'endsep=1' in flags or 'fnull=1' in flags:
                    cls = 'trailing_boundary'
                if cls and cls in kfs:
                    res.known_hits[cls] = res.known_hits.get(cls, 0) + 1
                else:
                    res.oracle_fail('not(p) does not yield exactly the entries whose root-relative path p does not match',
                                    {'case': c.describe(), 'lost': [p for p in exp if p not in got][:10], 'kept although matched': [p for p in got if p not in exp][:10], 'class': cls})
            if len(res.samples) < 6:
                res.sample({'walk': c.describe()['mode'], 'not': pats, 'yields': got[:5]})
        for cls, kf in kfs.items():
            print('KNOWN-FINDING: property=C03 class=%s %s' % (cls, kf['what'][:160]), flush=True)
    finally:
        sb.close()


# ---- C20 --------------------------------------------------------------------------------------------------------------------------------
def c20(res, rng, tier, replay=None):
    if replay:
        return replay_walk(replay)
    ntrees = sizes(tier, 60, 1200)
    res.rule = ('random trees with unreadable directories (mode 000, the implementation runs as uid 65534 so the faults are real), dangling and re-entrant links '
                '(none / one / several; first, middle, last child) x both link behaviours x stacks of 0-2 not / filter_entry layers; non-trivial = distinct '
                '(tree, behaviour, stack); tie: the item sequence (entries and errors, in place) impl vs model; oracle: one error item per fault naming the path, '
                'the entries are those of the resolved view with every fault replaced by nothing')
    sb = Sandbox('C20')
    try:
        cases, meta, root_cases = [], [], []
        if not can_fault():
            res.notes.append('setpriv is not usable: unreadable directories cannot be produced, only link faults are exercised')
        for _ in range(ntrees):
            base, locked = sb.new_tree(rng, faults=True)
            # faults next to one another and right after a directory entry, whatever the order the directory is read in: a directory
            # of dangling links only, and a dangling link beside an empty directory
            if rng.random() < 0.6:
                try:
                    dl = os.path.join(base, rng.choice(['zl', 'a-links', 'M']))
                    os.makedirs(dl)
                    for k_ in range(rng.randint(2, 3)):
                        os.symlink('nowhere-%d' % k_, os.path.join(dl, 'l%d' % k_))
                    dm = os.path.join(base, rng.choice(['zm', 'b-mix']))
                    os.makedirs(os.path.join(dm, 'e'))
                    os.symlink('nowhere', os.path.join(dm, rng.choice(['d', 'f'])))
                except OSError:
                    pass
            for link in ('F', 'T'):
                node = resolved(base, link == 'T', locked)
                layers = []
                for _ in range(rng.randint(0, 2)):
                    layers.append(table_layer(rng, node, 0.4, 2) if rng.random() < 0.5 else 'N' + hx(rng.choice(NOT_PATTERNS)))
                cases.append(Case(base, node, 'P', link, '-', '-', layers))
                cases.append(Case(base, node, 'P', link, '-', '-', []))
                # a minimum depth hides entries, never faults: the same walk with entries above a minimum depth only
                cases.append(Case(base, node, rng.choice(['P', 'P', glob_mode('**'), glob_mode('**/*.txt')]), link, str(rng.randint(1, 4)), '-', []))
                meta.append(node)
                # the fault is the root of the traversal: the invariant prefix of a glob names it (or names nothing at all)
                fl = [p_ for p_, n_ in preorder(node) if n_[0] in ('E', 'U') and p_ and '\\' not in p_]
                for fp in rng.sample(fl, min(2, len(fl))) + ['gone-%d' % rng.randint(0, 9)]:
                    e_ = '/'.join(lit(c_) for c_ in fp.split('/')) + rng.choice(['/**', '/*.txt', '/**/*.txt'])
                    if safe_glob(e_) and not prefix_through_link(base, e_):
                        root_cases.append((Case(base, node, glob_mode(e_), link, '-', '-', rng.choice([[], ['N' + hx('**/zz')], ['F']])), fp))
        for (c_, pi_, pm_, a_, b_), (_, fp) in zip(run_cases([rc[0] for rc in root_cases]), root_cases):
            res.evaluations += 1
            res.nontrivial.add((c_.base, c_.mode, c_.link))
            tie_case(res, c_, pi_, pm_, a_, b_, 'C20')
            if pi_['head'] == 'ok' and pm_.get('head') == 'ok':
                errs_ = [y['rel_base'] for y in pi_['yield'] if y['k'] == 'x']
                merrs = [p_ for (k_, p_, d_) in pm_['yield'] if k_ == 'x']
                if len(errs_) != len(merrs):
                    res.oracle_fail('a fault at the root of the traversal is not reported as exactly one error item',
                                    {'case': c_.describe(), 'prefix': fp, 'errors': errs_[:5], 'expected': merrs[:5]})
        results = run_cases(cases)
        for i, node in enumerate(meta):
            (c, pi, pm, a, b) = results[3 * i]
            (c0, pi0, pm0, a0, b0) = results[3 * i + 1]
            (c1, pi1, pm1, a1, b1) = results[3 * i + 2]
            tie_case(res, c1, pi1, pm1, a1, b1, 'C20')
            if pi1['head'] == 'ok':
                faults1 = [p for p, n in preorder(node) if n[0] in ('E', 'U')]
                errs1 = [y['rel_base'] for y in pi1['yield'] if y['k'] == 'x']
                if sorted(errs1) != sorted(faults1):
                    res.oracle_fail('with a minimum depth the error items are not exactly one per fault',
                                    {'case': c1.describe(), 'faults': faults1[:10], 'errors': errs1[:10]})
            res.evaluations += 3
            res.nontrivial.add((c.base, c.link, tuple(c.layers)))
            tie_case(res, c, pi, pm, a, b, 'C20')
            tie_case(res, c0, pi0, pm0, a0, b0, 'C20')
            if pi0['head'] != 'ok':
                continue
            faults = [p for p, n in preorder(node) if n[0] in ('E', 'U')]
            res.count('faults:%d' % min(len(faults), 4))
            errs = [y['rel_base'] for y in pi0['yield'] if y['k'] == 'x']
            if sorted(errs) != sorted(faults):
                res.oracle_fail('the error items are not exactly one per fault, naming the offending path',
                                {'case': c0.describe(), 'faults': faults[:10], 'errors': errs[:10]})
            ents = [y['rel_base'] for y in pi0['yield'] if y['k'] == 'e']
            exp = [p for p, n in preorder(node) if n[0] != 'E']
            if ents != exp:
                res.oracle_fail('the entries are not those of a fault-free walk of the readable part',
                                {'case': c0.describe(), 'missing': [p for p in exp if p not in ents][:10], 'extra': [p for p in ents if p not in exp][:10]})
            if pi['head'] == 'ok':
                # filters pass errors through unchanged and in place: the errors of the filtered walk are those whose directory was not discarded
                errs2 = [y['rel_base'] for y in pi['yield'] if y['k'] == 'x']
                if any(e not in errs for e in errs2):
                    res.oracle_fail('a filter produced or altered an error item', {'case': c.describe(), 'errors': errs2[:10]})
            if len(res.samples) < 6:
                res.sample({'case': c0.describe(), 'errors': errs[:4]})
    finally:
        sb.close()


PROPS = {'C02': c02, 'C03': c03, 'C13': c13, 'C14': c14, 'C15': c15, 'C16': c16, 'C20': c20}
