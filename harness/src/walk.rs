// Walk commands (filled in below).
pub fn cmd_walk(_args: &[&str]) -> String {
    "unimplemented".into()
}

pub fn cmd_tree(_args: &[&str]) -> String {
    "unimplemented".into()
}
