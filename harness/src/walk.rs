// Walk commands of waxprobe: real walks over on-disk trees through the public API, with every
// combinator layer observed.
//
//   walk <base> <mode> <link> <min> <max> <layer>...
//     base   hex path of the directory given to the walk
//     mode   `P` (Path::walk) or `G<hex glob>` (Glob::walk)
//     link   `F` (LinkBehavior::ReadFile) or `T` (ReadTarget)
//     min, max   depth bounds or `-`
//     layer  `N<hex>[,<hex>...]`  not(expression) / not(any([...]))
//            `F[<hex relative path>:<T|F>,...]`  filter_entry with a verdict table keyed by the relative
//            path the entry presents to the filter; every F layer records what it observes
//
// Output: `ok\tyield=<items>\tobs0=<...>\tobs1=<...>` (one obs per F layer, in stack order).
use std::cell::RefCell;
use std::collections::HashMap;
use std::path::{Path, PathBuf};
use std::rc::Rc;

use wax::walk::{
    DepthBehavior, DepthMax, DepthMin, DepthMinMax, Entry, EntryResidue, FileIterator, GlobEntry,
    LinkBehavior, PathExt, TreeEntry, WalkBehavior,
};
use wax::Glob;

use crate::{hex, unhex};

fn path_hex(path: &Path) -> String {
    hex(&path.to_string_lossy())
}

fn kind(entry: &dyn Entry) -> &'static str {
    let file_type = entry.file_type();
    if file_type.is_dir() {
        "d"
    }
    else if file_type.is_symlink() {
        "l"
    }
    else {
        "f"
    }
}

pub trait Describe: Entry {
    fn matched_text(&self) -> Option<(String, String)>;
}

impl Describe for TreeEntry {
    fn matched_text(&self) -> Option<(String, String)> {
        None
    }
}

impl Describe for GlobEntry {
    fn matched_text(&self) -> Option<(String, String)> {
        Some((
            self.matched().complete().to_string(),
            self.to_candidate_path().as_ref().to_string(),
        ))
    }
}

#[derive(Clone)]
enum Layer {
    Not(Vec<String>),
    Filter(HashMap<String, EntryResidue>),
}

type Observations = Rc<RefCell<Vec<Vec<String>>>>;

fn collect<I>(walk: I) -> String
where
    I: FileIterator,
    I::Entry: Describe,
{
    let mut items = vec![];
    for item in walk {
        match item {
            Ok(entry) => {
                let (root, relative) = entry.root_relative_paths();
                let (matched, candidate) = match entry.matched_text() {
                    Some((matched, candidate)) => (hex(&matched), hex(&candidate)),
                    None => ("-".to_string(), "-".to_string()),
                };
                items.push(format!(
                    "e|{}|{}|{}|{}|{}|{}|{}",
                    path_hex(entry.path()),
                    entry.depth(),
                    path_hex(root),
                    path_hex(relative),
                    kind(&entry),
                    matched,
                    candidate,
                ));
            },
            Err(error) => {
                items.push(format!(
                    "x|{}|{}",
                    error.path().map_or_else(|| "-".to_string(), path_hex),
                    error.depth(),
                ));
            },
        }
    }
    items.join(";")
}

macro_rules! drive {
    ($name:ident, $next:ident) => {
        fn $name<I>(walk: I, layers: &[Layer], observations: &Observations) -> Result<String, String>
        where
            I: 'static + FileIterator,
            I::Entry: 'static + Describe,
            I::Residue: 'static,
        {
            match layers.split_first() {
                None => Ok(collect(walk)),
                Some((Layer::Not(expressions), rest)) => {
                    if expressions.len() == 1 {
                        let walk = walk
                            .not(expressions[0].as_str())
                            .map_err(|error| format!("err {}", error))?;
                        $next(walk, rest, observations)
                    }
                    else {
                        let any = wax::any(expressions.iter().map(|expression| expression.as_str()))
                            .map_err(|error| format!("err {}", error))?;
                        let walk = walk.not(any).map_err(|error| format!("err {}", error))?;
                        $next(walk, rest, observations)
                    }
                },
                Some((Layer::Filter(table), rest)) => {
                    let index = {
                        let mut observations = observations.borrow_mut();
                        observations.push(vec![]);
                        observations.len() - 1
                    };
                    let table = table.clone();
                    let observations_ = observations.clone();
                    let walk = walk.filter_entry(move |entry: &dyn Entry| {
                        let (_, relative) = entry.root_relative_paths();
                        let relative = relative.to_string_lossy().to_string();
                        observations_.borrow_mut()[index].push(format!(
                            "{}|{}|{}|{}",
                            hex(&relative),
                            entry.depth(),
                            kind(entry),
                            path_hex(entry.path()),
                        ));
                        table.get(&relative).copied()
                    });
                    $next(walk, rest, observations)
                },
            }
        }
    };
}

fn drive0<I>(walk: I, layers: &[Layer], _: &Observations) -> Result<String, String>
where
    I: 'static + FileIterator,
    I::Entry: 'static + Describe,
    I::Residue: 'static,
{
    if layers.is_empty() {
        Ok(collect(walk))
    }
    else {
        Err("too-many-layers".into())
    }
}

drive!(drive1, drive0);
drive!(drive2, drive1);
drive!(drive3, drive2);
drive!(drive4, drive3);
drive!(drive5, drive4);
drive!(drive6, drive5);

fn behavior(link: &str, min: &str, max: &str) -> WalkBehavior {
    let link = match link {
        "T" => LinkBehavior::ReadTarget,
        _ => LinkBehavior::ReadFile,
    };
    let min: Option<usize> = min.parse().ok();
    let max: Option<usize> = max.parse().ok();
    let depth: DepthBehavior = match (min, max) {
        (Some(min), Some(max)) => DepthMinMax::from_depths_or_max(min, max),
        (Some(min), None) => DepthMin::from_min_or_unbounded(min),
        (None, Some(max)) => DepthMax(max).into(),
        (None, None) => DepthBehavior::Unbounded,
    };
    WalkBehavior { depth, link }
}

fn parse_layer(text: &str) -> Layer {
    let (head, body) = text.split_at(1);
    match head {
        "N" => Layer::Not(body.split(',').map(unhex).collect()),
        _ => Layer::Filter(
            body.split(',')
                .filter(|item| !item.is_empty())
                .map(|item| {
                    let (path, verdict) = item.split_once(':').expect("bad filter table");
                    (
                        unhex(path),
                        if verdict == "T" {
                            EntryResidue::Tree
                        }
                        else {
                            EntryResidue::File
                        },
                    )
                })
                .collect(),
        ),
    }
}

pub fn cmd_walk(args: &[&str]) -> String {
    let base = PathBuf::from(unhex(args[0]));
    let mode = args[1];
    let behavior = behavior(args[2], args[3], args[4]);
    let layers: Vec<Layer> = args[5..].iter().map(|layer| parse_layer(layer)).collect();
    let observations: Observations = Rc::new(RefCell::new(vec![]));
    let result = if let Some(expression) = mode.strip_prefix('G') {
        let expression = unhex(expression);
        match Glob::new(&expression) {
            Ok(glob) => {
                let anchor = glob.verif_anchor(base.clone());
                if !anchor.0.starts_with(&base) {
                    // Never leave the sandbox directory (rooted globs replace the directory given).
                    return format!("refused\tanchor={}|{}", path_hex(&anchor.0), anchor.1);
                }
                drive6(glob.walk_with_behavior(base, behavior), &layers, &observations).map(
                    |items| format!("{}\tanchor={}|{}", items, path_hex(&anchor.0), anchor.1),
                )
            },
            Err(error) => Err(format!("err {}", error)),
        }
    }
    else {
        drive6(base.walk_with_behavior(behavior), &layers, &observations)
    };
    match result {
        Ok(items) => {
            let mut output = format!("ok\tyield={}", items);
            for (index, observed) in observations.borrow().iter().enumerate() {
                output.push_str(&format!("\tobs{}={}", index, observed.join(";")));
            }
            output
        },
        Err(error) => error,
    }
}

// `walkcd <cwd> <walk arguments>`: change the working directory first (walks from relative base directories).
pub fn cmd_walkcd(args: &[&str]) -> String {
    if std::env::set_current_dir(unhex(args[0])).is_err() {
        return "bad-cwd".into();
    }
    cmd_walk(&args[1..])
}

pub fn cmd_tree(_args: &[&str]) -> String {
    "unimplemented".into()
}
