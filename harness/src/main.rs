// waxprobe: runs the implementation (the `wax` crate built from /repo's working tree with
// `--cfg olson_sean_k_wax_verif`) on a stream of commands, one per line on stdin, and prints
// exactly one line of canonical output per command on stdout.  The OCaml driver of the Coq model
// implements the same protocol; the orchestrator diffs the two outputs.
//
// Strings are hex-encoded UTF-8 prefixed with `x` (the empty string is `x`).

use std::fmt::Write as _;
use std::io::{self, BufRead, Write};
use std::panic::{self, AssertUnwindSafe};

use wax::query::{Bounded, DepthVariance, TextVariance, Unbounded, When};
use wax::{Any, BuildError, CandidatePath, Glob, Program};

mod walk;

pub fn unhex(text: &str) -> String {
    let text = text.strip_prefix('x').expect("hex string without prefix");
    let bytes: Vec<u8> = (0..text.len() / 2)
        .map(|i| u8::from_str_radix(&text[2 * i..2 * i + 2], 16).expect("bad hex"))
        .collect();
    String::from_utf8(bytes).expect("hex string is not UTF-8")
}

pub fn hex(text: &str) -> String {
    let mut output = String::from("x");
    for byte in text.as_bytes() {
        write!(output, "{:02x}", byte).unwrap();
    }
    output
}

fn when(when: When) -> &'static str {
    match when {
        When::Always => "A",
        When::Sometimes => "S",
        When::Never => "N",
    }
}

fn guarded<T>(f: impl FnOnce() -> T) -> Option<T> {
    panic::catch_unwind(AssertUnwindSafe(f)).ok()
}

fn depth_text(depth: DepthVariance) -> String {
    match depth {
        DepthVariance::Invariant(n) => format!("I{}", n),
        DepthVariance::Variant(Unbounded) => "V-..-".into(),
        DepthVariance::Variant(Bounded(range)) => {
            let bound = |bound| match bound {
                Bounded(n) => format!("{}", n),
                Unbounded => "-".into(),
            };
            format!("V{}..{}", bound(range.lower()), bound(range.upper()))
        },
    }
}

fn text_text(text: TextVariance<'_>) -> String {
    match text {
        TextVariance::Invariant(text) => format!("I{}", hex(text.as_ref())),
        TextVariance::Variant(_) => "V".into(),
    }
}

fn rule_kind(message: &str) -> &'static str {
    let kinds = [
        ("uncertain or overlapping roots in branch", "RootedSubGlob"),
        ("singular tree wildcard `**` in branch", "SingularTree"),
        ("singular zero-or-more wildcard `*` or `$` in branch", "SingularZeroOrMore"),
        ("adjacent component boundaries `/` or `**`", "AdjacentBoundary"),
        ("adjacent zero-or-more wildcards `*` or `$`", "AdjacentZeroOrMore"),
        ("oversized invariant expression", "OversizedInvariant"),
        ("incompatible repetition bounds", "IncompatibleBounds"),
    ];
    for (text, kind) in kinds {
        if message.ends_with(text) {
            return kind;
        }
    }
    "Unknown"
}

fn error_text(error: &BuildError) -> String {
    let message = format!("{}", error);
    let spans: Vec<String> = error
        .locations()
        .map(|location| {
            let (start, n) = location.span();
            format!("{},{}", start, n)
        })
        .collect();
    if message.starts_with("failed to parse glob expression") {
        format!("perr {}", spans.join(";"))
    }
    else if message.starts_with("malformed glob expression") {
        format!("rerr {} {}", rule_kind(&message), spans.join(";"))
    }
    else if message.starts_with("failed to compile glob") {
        "cerr".into()
    }
    else {
        format!("unknown-error {}", message)
    }
}

fn captures_text(glob: &Glob<'_>) -> String {
    glob.captures()
        .map(|capture| {
            let (start, n) = capture.span();
            format!("{}:{},{}", capture.index(), start, n)
        })
        .collect::<Vec<_>>()
        .join(";")
}

fn field<T>(name: &str, value: Option<T>) -> String
where
    T: AsRef<str>,
{
    match value {
        Some(value) => format!("\t{}={}", name, value.as_ref()),
        None => format!("\t{}=!", name),
    }
}

fn program_fields<'t>(program: &impl Program<'t>) -> String {
    let mut output = String::new();
    output.push_str(&field("depth", guarded(|| depth_text(program.depth()))));
    output.push_str(&field("text", guarded(|| text_text(program.text()))));
    output.push_str(&field("root", guarded(|| when(program.has_root()))));
    output.push_str(&field("exh", guarded(|| when(program.is_exhaustive()))));
    output
}

fn glob_report(glob: &Glob<'_>) -> String {
    let mut output = String::from("ok");
    output.push_str(&field("tree", guarded(|| glob.verif_tree())));
    output.push_str(&field("re", guarded(|| hex(glob.verif_pattern()))));
    output.push_str(&program_fields(glob));
    output.push_str(&field("caps", guarded(|| captures_text(glob))));
    output.push_str(&field(
        "sem",
        guarded(|| u8::from(glob.has_semantic_literals()).to_string()),
    ));
    output.push_str(&field("empty", guarded(|| u8::from(glob.is_empty()).to_string())));
    output.push_str(&field(
        "comps",
        guarded(|| {
            glob.verif_component_patterns()
                .iter()
                .map(|pattern| hex(pattern))
                .collect::<Vec<_>>()
                .join(";")
        }),
    ));
    output
}

fn cmd_glob(args: &[&str]) -> String {
    let expression = unhex(args[0]);
    match guarded(|| Glob::new(&expression).map(|glob| glob_report(&glob))) {
        None => "panic".into(),
        Some(Ok(report)) => report,
        Some(Err(error)) => error_text(&error),
    }
}

// The parse tree of an expression, before any rule is checked.
fn cmd_parse(args: &[&str]) -> String {
    let expression = unhex(args[0]);
    match guarded(|| wax::verif::parse_tree(&expression)) {
        None => "panic".into(),
        Some(Some(tree)) => format!("ok\ttree={}", tree),
        Some(None) => "perr".into(),
    }
}

fn spans_text<'p>(
    n: usize,
    get: impl Fn(usize) -> Option<&'p str>,
    owned: impl Fn(usize) -> Option<String>,
) -> String {
    let base = get(0).expect("no complete match").as_ptr() as usize;
    let mut spans = vec![];
    let mut consistent = true;
    for index in 0..=(n + 1) {
        let capture = get(index);
        if capture.map(String::from) != owned(index) {
            consistent = false;
        }
        spans.push(match capture {
            Some(text) => {
                let start = text.as_ptr() as usize - base;
                format!("{},{}", start, start + text.len())
            },
            None => "-".into(),
        });
    }
    format!(
        "1 {}{}",
        spans.join(";"),
        if consistent { "" } else { " OWNED-MISMATCH" }
    )
}

fn match_text<'t>(program: &impl Program<'t>, n: usize, path: &str) -> String {
    let candidate = CandidatePath::from(path);
    let is_match = program.is_match(candidate.clone());
    match program.matched(&candidate) {
        None => {
            if is_match {
                "MATCHED-MISMATCH".into()
            }
            else {
                "0".into()
            }
        },
        Some(matched) => {
            if !is_match {
                return "MATCHED-MISMATCH".into();
            }
            if matched.complete() != path
                || matched.to_candidate_path().as_ref() != matched.complete()
            {
                return "COMPLETE-MISMATCH".into();
            }
            let owned = matched.to_owned();
            let into_owned = program.matched(&candidate).unwrap().into_owned();
            spans_text(
                n,
                |index| matched.get(index),
                |index| {
                    let a = owned.get(index).map(String::from);
                    let b = into_owned.get(index).map(String::from);
                    if a == b {
                        a
                    }
                    else {
                        Some("<<owned variants differ>>".into())
                    }
                },
            )
        },
    }
}

fn cmd_match(args: &[&str]) -> String {
    let expression = unhex(args[0]);
    let path = unhex(args[1]);
    match guarded(|| {
        Glob::new(&expression).map(|glob| match_text(&glob, glob.captures().count(), &path))
    }) {
        None => "panic".into(),
        Some(Ok(report)) => report,
        Some(Err(_)) => "err".into(),
    }
}

fn build_any(expressions: &[String]) -> Result<Any<'_>, BuildError> {
    wax::any(expressions.iter().map(|expression| expression.as_str()))
}

fn cmd_any(args: &[&str]) -> String {
    let expressions: Vec<String> = args.iter().map(|arg| unhex(arg)).collect();
    match guarded(|| {
        build_any(&expressions).map(|any| {
            let mut output = String::from("ok");
            output.push_str(&field("tree", guarded(|| any.verif_tree())));
            output.push_str(&field("re", guarded(|| hex(any.verif_pattern()))));
            output.push_str(&program_fields(&any));
            output
        })
    }) {
        None => "panic".into(),
        Some(Ok(report)) => report,
        Some(Err(error)) => error_text(&error),
    }
}

// A combinator of combinators, each built from a (possibly empty) group of expressions: `anyn <path> g1a g1b - g2a - - g3a`.
fn cmd_anyn(args: &[&str]) -> String {
    let path = unhex(args[0]);
    let mut groups: Vec<Vec<String>> = vec![vec![]];
    for arg in &args[1..] {
        if *arg == "-" {
            groups.push(vec![]);
        }
        else {
            groups.last_mut().unwrap().push(unhex(arg));
        }
    }
    match guarded(|| {
        let mut inner = vec![];
        for group in groups.iter() {
            inner.push(build_any(group)?);
        }
        wax::any(inner).map(|any| {
            let mut output = format!("ok\tm={}", u8::from(any.is_match(path.as_str())));
            output.push_str(&field("tree", guarded(|| any.verif_tree())));
            output.push_str(&program_fields(&any));
            output
        })
    }) {
        None => "panic".into(),
        Some(Ok(report)) => report,
        Some(Err(_)) => "err".into(),
    }
}

// `any` of compiled globs and of nested combinators must agree with `any` of text.
fn cmd_anymatch(args: &[&str]) -> String {
    let path = unhex(args[0]);
    let expressions: Vec<String> = args[1..].iter().map(|arg| unhex(arg)).collect();
    match guarded(|| {
        build_any(&expressions).map(|any| {
            let text = match_text(&any, 1, &path);
            // The same combinator from compiled globs.
            let compiled = wax::any(
                expressions
                    .iter()
                    .map(|expression| Glob::new(expression).unwrap()),
            )
            .unwrap();
            // The same combinator nested in a combinator.
            let nested = wax::any([build_any(&expressions).unwrap()]).unwrap();
            let nested_any = wax::any([wax::any([build_any(&expressions)]).unwrap()]).unwrap();
            if compiled.is_match(path.as_str()) != any.is_match(path.as_str())
                || nested.is_match(path.as_str()) != any.is_match(path.as_str())
                || nested_any.is_match(path.as_str()) != any.is_match(path.as_str())
            {
                format!("{} ANY-ROUTES-DIFFER", text)
            }
            else {
                text
            }
        })
    }) {
        None => "panic".into(),
        Some(Ok(report)) => report,
        Some(Err(_)) => "err".into(),
    }
}


// Several paths against one glob: results joined by `|`.
fn cmd_mm(args: &[&str]) -> String {
    let expression = unhex(args[0]);
    match guarded(|| {
        Glob::new(&expression).map(|glob| {
            let n = glob.captures().count();
            args[1..]
                .iter()
                .map(|path| match_text(&glob, n, &unhex(path)))
                .collect::<Vec<_>>()
                .join("|")
        })
    }) {
        None => "panic".into(),
        Some(Ok(report)) => report,
        Some(Err(_)) => "err".into(),
    }
}

// `anymm <k> <e1>..<ek> <p1>..`: several paths against a combinator (built three ways).
fn cmd_anymm(args: &[&str]) -> String {
    let k: usize = args[0].parse().unwrap();
    let expressions: Vec<String> = args[1..1 + k].iter().map(|arg| unhex(arg)).collect();
    let paths: Vec<String> = args[1 + k..].iter().map(|arg| unhex(arg)).collect();
    match guarded(|| {
        build_any(&expressions).map(|any| {
            let compiled = wax::any(
                expressions
                    .iter()
                    .map(|expression| Glob::new(expression).unwrap()),
            )
            .unwrap();
            let nested = wax::any([build_any(&expressions).unwrap()]).unwrap();
            let nested_any = wax::any([wax::any([build_any(&expressions)]).unwrap()]).unwrap();
            paths
                .iter()
                .map(|path| {
                    let text = match_text(&any, 1, path);
                    let is_match = any.is_match(path.as_str());
                    if compiled.is_match(path.as_str()) != is_match
                        || nested.is_match(path.as_str()) != is_match
                        || nested_any.is_match(path.as_str()) != is_match
                    {
                        format!("{} ANY-ROUTES-DIFFER", text)
                    }
                    else {
                        text
                    }
                })
                .collect::<Vec<_>>()
                .join("|")
        })
    }) {
        None => "panic".into(),
        Some(Ok(report)) => report,
        Some(Err(_)) => "err".into(),
    }
}

// Every conversion route of a glob must give the same observables (C19).
fn cmd_routes(args: &[&str]) -> String {
    use std::str::FromStr;

    let expression = unhex(args[0]);
    let paths: Vec<String> = args[1..].iter().map(|arg| unhex(arg)).collect();
    let observe = |glob: &Glob<'_>| -> String {
        let n = glob.captures().count();
        let mut output = glob_report(glob);
        for path in paths.iter() {
            output.push('|');
            output.push_str(&match_text(glob, n, path));
        }
        output
    };
    match guarded(|| {
        let glob = match Glob::new(&expression) {
            Ok(glob) => glob,
            Err(_) => return "err".to_string(),
        };
        let base = observe(&glob);
        let displayed = glob.to_string();
        let mut routes: Vec<(&str, String)> = vec![];
        routes.push((
            "display",
            Glob::new(&displayed).map_or_else(|_| "err".into(), |glob| observe(&glob)),
        ));
        routes.push(("clone", observe(&glob.clone())));
        routes.push(("into_owned", observe(&glob.clone().into_owned())));
        routes.push((
            "from_str",
            Glob::from_str(&expression).map_or_else(|_| "err".into(), |glob| observe(&glob)),
        ));
        routes.push((
            "try_from",
            Glob::try_from(expression.as_str()).map_or_else(|_| "err".into(), |glob| observe(&glob)),
        ));
        routes.push((
            "owned_clone",
            observe(&glob.clone().into_owned().clone()),
        ));
        let mut differing = vec![];
        if displayed != expression {
            differing.push("display-text");
        }
        for (name, observed) in routes.iter() {
            if *observed != base {
                differing.push(*name);
            }
        }
        // Partitioning a borrowed, an owned and a re-parsed glob: prefix, displayed postfix and every observable of the postfix.
        let part_observe = |glob: Glob<'_>| -> String {
            let (prefix, postfix) = glob.partition();
            let mut output = hex(&prefix.to_string_lossy());
            match postfix {
                None => output.push_str("|-"),
                Some(postfix) => {
                    output.push('|');
                    output.push_str(&hex(&postfix.to_string()));
                    output.push('|');
                    output.push_str(&observe(&postfix));
                },
            }
            output
        };
        let part_borrowed = part_observe(glob.clone());
        if part_observe(glob.clone().into_owned()) != part_borrowed {
            differing.push("partition-owned");
        }
        if let Ok(parsed) = Glob::from_str(&expression) {
            if part_observe(parsed) != part_borrowed {
                differing.push("partition-from_str");
            }
        }
        // Combinator routes: text, compiled, owned, nested.
        let any_observe = |any: &Any<'_>| -> String {
            let mut output = String::new();
            output.push_str(&field("tree", guarded(|| any.verif_tree())));
            output.push_str(&field("re", guarded(|| hex(any.verif_pattern()))));
            output.push_str(&program_fields(any));
            for path in paths.iter() {
                output.push('|');
                output.push_str(&match_text(any, 1, path));
            }
            output
        };
        let any_text = wax::any([expression.as_str()]).map(|any| any_observe(&any));
        let any_compiled = wax::any([glob.clone()]).map(|any| any_observe(&any));
        let any_owned = wax::any([glob.clone().into_owned()]).map(|any| any_observe(&any));
        match (any_text, any_compiled, any_owned) {
            (Ok(a), Ok(b), Ok(c)) => {
                if a != b {
                    differing.push("any-compiled");
                }
                if a != c {
                    differing.push("any-owned");
                }
            },
            _ => differing.push("any-build"),
        }
        if differing.is_empty() {
            format!("same {}", routes.len() + 5)
        }
        else {
            format!("differ {}", differing.join(","))
        }
    }) {
        None => "panic".into(),
        Some(report) => report,
    }
}

fn cmd_not(args: &[&str]) -> String {
    use wax::walk::{FileIterator, PathExt};

    let expressions: Vec<String> = args.iter().map(|arg| unhex(arg)).collect();
    let option = |pattern: Option<String>| pattern.map_or_else(|| "-".to_string(), |p| hex(&p));
    match guarded(|| {
        let walk = std::path::Path::new(".").walk();
        if expressions.len() == 1 {
            walk.not(expressions[0].as_str()).map(|not| not.verif_patterns())
        }
        else {
            walk.not(build_any(&expressions))
                .map(|not| not.verif_patterns())
        }
    }) {
        None => "panic".into(),
        Some(Ok((exhaustive, nonexhaustive))) => format!(
            "ok\texh={}\tnonexh={}",
            option(exhaustive),
            option(nonexhaustive)
        ),
        Some(Err(_)) => "err".into(),
    }
}

fn cmd_part(args: &[&str]) -> String {
    let expression = unhex(args[0]);
    match guarded(|| {
        Glob::new(&expression).map(|glob| {
            let (prefix, postfix) = glob.partition();
            let mut output = format!("ok\tprefix={}", hex(prefix.to_str().unwrap()));
            match postfix {
                None => output.push_str("\tpost=-"),
                Some(postfix) => {
                    output.push_str(&format!("\tpost={}", hex(&postfix.to_string())));
                    output.push_str(&field("ptree", guarded(|| postfix.verif_tree())));
                    output.push_str(&field("pre", guarded(|| hex(postfix.verif_pattern()))));
                    output.push_str(&field("proot", guarded(|| when(postfix.has_root()))));
                    output.push_str(&field("pcaps", guarded(|| captures_text(&postfix))));
                    let repartition = guarded(|| {
                        let (prefix, postfix) = postfix.partition();
                        format!(
                            "{}|{}",
                            hex(prefix.to_str().unwrap()),
                            postfix.map_or_else(|| "-".to_string(), |p| hex(&p.to_string()))
                        )
                    });
                    output.push_str(&field("repart", repartition));
                },
            }
            // The same partition of the owned glob (its own expression text, its own token tree).
            let owned = guarded(|| {
                let (prefix, postfix) = Glob::new(&expression).unwrap().into_owned().partition();
                let mut output = format!("\toprefix={}", hex(prefix.to_str().unwrap()));
                match postfix {
                    None => output.push_str("\topost=-"),
                    Some(postfix) => {
                        output.push_str(&format!("\topost={}", hex(&postfix.to_string())));
                        output.push_str(&field("optree", guarded(|| postfix.verif_tree())));
                        output.push_str(&field("opre", guarded(|| hex(postfix.verif_pattern()))));
                        output.push_str(&field("opcaps", guarded(|| captures_text(&postfix))));
                    },
                }
                output
            });
            output.push_str(&owned.unwrap_or_else(|| "\toprefix=!".to_string()));
            output
        })
    }) {
        None => "panic".into(),
        Some(Ok(report)) => report,
        Some(Err(_)) => "err".into(),
    }
}

fn cmd_esc(args: &[&str]) -> String {
    hex(wax::escape(&unhex(args[0])).as_ref())
}

fn char_range(args: &[&str]) -> impl Iterator<Item = char> {
    let lo: u32 = args[0].parse().unwrap();
    let hi: u32 = args[1].parse().unwrap();
    (lo..hi).filter_map(char::from_u32)
}

fn list(codes: impl Iterator<Item = char>) -> String {
    codes
        .map(|x| u32::from(x).to_string())
        .collect::<Vec<_>>()
        .join(",")
}

fn cmd_meta(args: &[&str]) -> String {
    format!(
        "meta={}\tctx={}",
        list(char_range(args).filter(|x| wax::is_meta_character(*x))),
        list(char_range(args).filter(|x| wax::is_contextual_meta_character(*x))),
    )
}

// Characters that the parser does not read as themselves: a one character expression that does not
// build into a glob with exactly that one character literal.
fn cmd_special(args: &[&str]) -> String {
    list(char_range(args).filter(|x| {
        let expression = x.to_string();
        let expected = format!(
            "(K ((L 0 {} 0 {})) 0 {})",
            hex(&expression),
            expression.len(),
            expression.len()
        );
        guarded(|| wax::verif::parse_tree(&expression))
            .flatten()
            .map_or(true, |tree| tree != expected)
    }))
}

fn cmd_casing(args: &[&str]) -> String {
    list(char_range(args).filter(|x| wax::verif::has_casing(*x)))
}

// Unicode simple case folding orbits as implemented by the regex crate (regex-syntax).
fn cmd_fold(args: &[&str]) -> String {
    use regex_syntax::hir::{ClassUnicode, ClassUnicodeRange};

    let mut output = vec![];
    for x in char_range(args) {
        let mut class = ClassUnicode::new([ClassUnicodeRange::new(x, x)]);
        class.case_fold_simple();
        let orbit: Vec<char> = class
            .iter()
            .flat_map(|range| (u32::from(range.start())..=u32::from(range.end())))
            .filter_map(char::from_u32)
            .filter(|y| *y != x)
            .collect();
        if !orbit.is_empty() {
            output.push(format!("{}:{}", u32::from(x), list(orbit.into_iter())));
        }
    }
    output.join(";")
}

fn dispatch(line: &str) -> String {
    let mut parts = line.split(' ');
    let command = parts.next().unwrap_or("");
    let args: Vec<&str> = parts.collect();
    match command {
        "glob" => cmd_glob(&args),
        "parse" => cmd_parse(&args),
        "match" => cmd_match(&args),
        "any" => cmd_any(&args),
        "anymatch" => cmd_anymatch(&args),
        "mm" => cmd_mm(&args),
        "anymm" => cmd_anymm(&args),
        "anyn" => cmd_anyn(&args),
        "routes" => cmd_routes(&args),
        "not" => cmd_not(&args),
        "part" => cmd_part(&args),
        "esc" => cmd_esc(&args),
        "meta" => cmd_meta(&args),
        "special" => cmd_special(&args),
        "casing" => cmd_casing(&args),
        "fold" => cmd_fold(&args),
        "walk" => walk::cmd_walk(&args),
        "walkcd" => walk::cmd_walkcd(&args),
        "tree" => walk::cmd_tree(&args),
        _ => format!("unknown-command {}", command),
    }
}

fn main() {
    panic::set_hook(Box::new(|_| {}));
    let stdin = io::stdin();
    let stdout = io::stdout();
    let mut output = io::BufWriter::new(stdout.lock());
    for line in stdin.lock().lines() {
        let line = line.expect("failed to read command");
        let line = line.trim_end();
        if line.is_empty() {
            writeln!(output).unwrap();
            continue;
        }
        let result = guarded(|| dispatch(line)).unwrap_or_else(|| "panic".into());
        writeln!(output, "{}", result).unwrap();
    }
    output.flush().unwrap();
}
