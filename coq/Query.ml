open Base
open BinNat
open BinNums
open Datatypes
open Encode
open Fold
open List
open Nat
open Regex
open Token
open Variance

(** val number_from : coq_N -> tok list -> (coq_N * span) list **)

let rec number_from n = function
| [] -> []
| t :: l' -> (n, (tspan t)) :: (number_from (N.add n (Npos Coq_xH)) l')

(** val captures : tok -> (coq_N * span) list **)

let captures t =
  number_from (Npos Coq_xH) (filter is_capturing (concatenation t))

(** val take_nonboundary : tok list -> tok list * tok list **)

let rec take_nonboundary ts = match ts with
| [] -> ([], [])
| t :: r ->
  if is_boundary t
  then ([], ts)
  else let (a, b) = take_nonboundary r in ((t :: a), b)

(** val components_f : nat -> tok list -> tok list list **)

let rec components_f fuel ts =
  match fuel with
  | O -> []
  | S f ->
    (match ts with
     | [] -> []
     | t :: r ->
       if is_sep t
       then components_f f r
       else if is_tree t
            then (t :: []) :: (components_f f r)
            else let (a, b) = take_nonboundary r in
                 (t :: a) :: (components_f f b))

(** val components : tok list -> tok list list **)

let components ts =
  components_f (S (length ts)) ts

(** val component_literal : tok list -> str option **)

let component_literal c = match c with
| [] -> None
| _ :: _ ->
  if forallb is_literal c
  then Some
         (flat_map (fun t ->
           match t with
           | TLeaf (_, l) -> (match l with
                              | LLit (_, s) -> s
                              | _ -> [])
           | _ -> []) c)
  else None

(** val coq_DOT : char **)

let coq_DOT =
  Npos (Coq_xO (Coq_xI (Coq_xI (Coq_xI (Coq_xO Coq_xH)))))

(** val is_semantic : str -> bool **)

let is_semantic s =
  (||) (str_eqb s (coq_DOT :: [])) (str_eqb s (coq_DOT :: (coq_DOT :: [])))

(** val semantic_loop : nat -> tok list list -> bool **)

let rec semantic_loop fuel queue =
  match fuel with
  | O -> false
  | S f ->
    (match queue with
     | [] -> false
     | c :: rest ->
       (match component_literal c with
        | Some s -> (||) (is_semantic s) (semantic_loop f rest)
        | None ->
          semantic_loop f
            (app rest
              (flat_map (fun t ->
                if is_branch t then components (children t) else []) c))))

(** val has_semantic_literals : tok -> bool **)

let has_semantic_literals t =
  semantic_loop (S (mul (S (S O)) (tsize t))) (components (concatenation t))

(** val enc_component : tok list -> re **)

let enc_component c =
  seq_edges (map (enc_tok true) c) true true

(** val take_until_boundary : tok list list -> tok list list **)

let rec take_until_boundary = function
| [] -> []
| c :: r ->
  if existsb has_boundary c then [] else c :: (take_until_boundary r)

(** val component_programs : tok -> re list **)

let component_programs t =
  if tok_is_empty t
  then []
  else map enc_component (take_until_boundary (components (concatenation t)))

(** val is_inv : ('a1, 'a2) var -> bool **)

let is_inv = function
| Inv _ -> true
| Var _ -> false

(** val prefix_loop :
    (char -> bool) -> coq_N -> tok list -> (coq_N * str) option ->
    (coq_N * str) option -> (coq_N * str) option res **)

let rec prefix_loop has_casing n ts head checkpoint =
  match ts with
  | [] -> Ok head
  | t :: r ->
    rbind (text_variance has_casing t) (fun v ->
      match v with
      | Inv txt ->
        let s = match head with
                | Some p -> let (_, s) = p in s
                | None -> [] in
        let head' = Some (n, (app s (text_to_string txt))) in
        prefix_loop has_casing (N.add n (Npos Coq_xH)) r head'
          (if is_boundary t then head' else checkpoint)
      | Var _ -> Ok (if is_boundary t then head else checkpoint))

(** val invariant_text_prefix : (char -> bool) -> tok -> (coq_N * str) res **)

let invariant_text_prefix has_casing t =
  let ts = concatenation t in
  rbind
    (match ts with
     | [] -> Ok false
     | t0 :: _ ->
       (match has_root t0 with
        | Always ->
          rbind (text_variance has_casing t0) (fun v -> Ok (negb (is_inv v)))
        | _ -> Ok false)) (fun rooted_variant ->
    if rooted_variant
    then Ok (N0, (coq_SEP :: []))
    else rbind (prefix_loop has_casing N0 ts None None) (fun r -> Ok
           (match r with
            | Some p -> let (i, s) = p in ((N.add i (Npos Coq_xH)), s)
            | None -> (N0, []))))

(** val rep_roundtrip :
    coq_N -> coq_N option -> (coq_N * coq_N option) res **)

let rep_roundtrip lo hi =
  let r = rep_range lo hi in
  rbind (nr_upper r) (fun u -> Ok ((lower_usize (nr_lower r)),
    (upper_usize u)))

(** val fold_map : (span -> span) -> tok -> tok res **)

let rec fold_map f = function
| TLeaf (sp, l) -> Ok (TLeaf ((f sp), l))
| TAlt (sp, bs) ->
  rbind (rmapM (fold_map f) bs) (fun bs' -> Ok (TAlt ((f sp), bs')))
| TCat (sp, ts) ->
  rbind (rmapM (fold_map f) ts) (fun ts' -> Ok (TCat ((f sp), ts')))
| TRep (sp, b, lo, hi) ->
  rbind (fold_map f b) (fun b' ->
    rbind (rep_roundtrip lo hi) (fun lh -> Ok (TRep ((f sp), b', (fst lh),
      (snd lh)))))

(** val drop_bytes : str -> coq_N -> str option **)

let rec drop_bytes s n =
  match s with
  | [] -> Some []
  | c :: r ->
    if N.eqb n N0
    then Some s
    else if N.leb (utf8_len c) n
         then drop_bytes r (N.sub n (utf8_len c))
         else None

(** val unroot : tok -> tok * coq_N **)

let unroot t = match t with
| TLeaf (sp, l) ->
  let (s, n) = sp in
  (match l with
   | LTree root ->
     if root
     then ((TLeaf (((N.add s (Npos Coq_xH)), (N.sub n (Npos Coq_xH))), (LTree
            false))), (Npos Coq_xH))
     else (t, N0)
   | _ -> (t, N0))
| _ -> (t, N0)

(** val sum_spans : tok list -> coq_N **)

let rec sum_spans = function
| [] -> N0
| t :: r -> N.add (snd (tspan t)) (sum_spans r)

type partition_result =
| PartNone of str
| PartSome of str * tok * str

(** val partition : (char -> bool) -> str -> tok -> partition_result res **)

let partition has_casing e t =
  rbind (invariant_text_prefix has_casing t) (fun np ->
    let (n, text) = np in
    let popped_rest =
      match t with
      | TLeaf (_, _) ->
        if N.eqb n N0 then (([], (Some t)), N0) else (((t :: []), None), N0)
      | TCat (sp, ts) ->
        if N.leb (N.of_nat (length ts)) n
        then (((t :: []), None), N0)
        else let popped = firstn (N.to_nat n) ts in
             (match skipn (N.to_nat n) ts with
              | [] -> ((popped, None), N0)
              | first :: rest ->
                let (first', u) = unroot first in
                ((popped, (Some (TCat (sp, (first' :: rest))))), u))
      | _ ->
        if N.eqb n N0 then (([], (Some t)), N0) else (((t :: []), None), N0)
    in
    let (p, unrooted) = popped_rest in
    let (popped, rest) = p in
    let offset = N.add (sum_spans popped) unrooted in
    (match rest with
     | Some post ->
       rbind (fold_map (fun sp -> ((N.sub (fst sp) offset), (snd sp))) post)
         (fun post' ->
         match drop_bytes e offset with
         | Some e' -> Ok (PartSome (text, post', e'))
         | None -> Panic PanicOther)
     | None -> Ok (PartNone text)))

(** val any_tree : tok list -> tok res **)

let any_tree ts =
  rbind (rmapM (fold_map (fun _ -> (N0, N0))) ts) (fun ts' -> Ok (TAlt ((N0,
    N0), ts')))

(** val into_non_trivial : tok -> tok **)

let rec into_non_trivial t = match t with
| TLeaf (_, _) -> t
| TAlt (_, bs) ->
  (match bs with
   | [] -> t
   | b :: l -> (match l with
                | [] -> into_non_trivial b
                | _ :: _ -> t))
| TCat (_, ts) ->
  (match ts with
   | [] -> t
   | b :: l -> (match l with
                | [] -> into_non_trivial b
                | _ :: _ -> t))
| TRep (_, b, lo, hi) ->
  (match rep_range lo hi with
   | Inv t0 ->
     (match t0 with
      | N0 -> t
      | Npos p -> (match p with
                   | Coq_xH -> into_non_trivial b
                   | _ -> t))
   | Var _ -> t)

(** val alternatives_loop : nat -> tok list -> tok list **)

let rec alternatives_loop fuel queue =
  match fuel with
  | O -> []
  | S f ->
    (match queue with
     | [] -> []
     | t :: rest ->
       (match t with
        | TAlt (_, bs) ->
          let bs' = map into_non_trivial bs in
          app (filter (fun b -> negb (is_disjunctive b)) bs')
            (alternatives_loop f (app rest (filter is_disjunctive bs')))
        | _ -> t :: (alternatives_loop f rest)))

(** val into_alternatives : tok -> tok list **)

let into_alternatives t =
  alternatives_loop (S (tsize t)) ((into_non_trivial t) :: [])

(** val not_partition : tok -> (tok option * tok option) res **)

let not_partition t =
  let alts = into_alternatives t in
  rbind
    (rmapM (fun a ->
      rbind (is_exhaustive a) (fun w -> Ok
        (match w with
         | Always -> true
         | _ -> false))) alts) (fun flags ->
    let tagged = combine alts flags in
    let ex = map fst (filter snd tagged) in
    let nx = map fst (filter (fun p -> negb (snd p)) tagged) in
    rbind
      (match ex with
       | [] -> Ok None
       | _ :: _ -> rmap (fun x -> Some x) (any_tree ex)) (fun ext ->
      rbind
        (match nx with
         | [] -> Ok None
         | _ :: _ -> rmap (fun x -> Some x) (any_tree nx)) (fun nxt -> Ok
        (ext, nxt))))

(** val coq_GLOB_META : str **)

let coq_GLOB_META =
  (Npos (Coq_xI (Coq_xI (Coq_xI (Coq_xI (Coq_xI Coq_xH)))))) :: ((Npos
    (Coq_xO (Coq_xI (Coq_xO (Coq_xI (Coq_xO Coq_xH)))))) :: ((Npos (Coq_xO
    (Coq_xO (Coq_xI (Coq_xO (Coq_xO Coq_xH)))))) :: ((Npos (Coq_xO (Coq_xI
    (Coq_xO (Coq_xI (Coq_xI Coq_xH)))))) :: ((Npos (Coq_xO (Coq_xO (Coq_xI
    (Coq_xI (Coq_xI Coq_xH)))))) :: ((Npos (Coq_xO (Coq_xI (Coq_xI (Coq_xI
    (Coq_xI Coq_xH)))))) :: ((Npos (Coq_xO (Coq_xO (Coq_xO (Coq_xI (Coq_xO
    Coq_xH)))))) :: ((Npos (Coq_xI (Coq_xO (Coq_xO (Coq_xI (Coq_xO
    Coq_xH)))))) :: ((Npos (Coq_xI (Coq_xI (Coq_xO (Coq_xI (Coq_xI (Coq_xO
    Coq_xH))))))) :: ((Npos (Coq_xI (Coq_xO (Coq_xI (Coq_xI (Coq_xI (Coq_xO
    Coq_xH))))))) :: ((Npos (Coq_xI (Coq_xI (Coq_xO (Coq_xI (Coq_xI (Coq_xI
    Coq_xH))))))) :: ((Npos (Coq_xI (Coq_xO (Coq_xI (Coq_xI (Coq_xI (Coq_xI
    Coq_xH))))))) :: ((Npos (Coq_xO (Coq_xO (Coq_xI (Coq_xI (Coq_xO
    Coq_xH)))))) :: []))))))))))))

(** val is_meta_character : char -> bool **)

let is_meta_character c =
  mem c coq_GLOB_META

(** val is_contextual_meta_character : char -> bool **)

let is_contextual_meta_character c =
  N.eqb c (Npos (Coq_xI (Coq_xO (Coq_xI (Coq_xI (Coq_xO Coq_xH))))))

(** val escape : str -> str **)

let rec escape = function
| [] -> []
| c :: r ->
  if is_meta_character c
  then coq_BSLASH :: (c :: (escape r))
  else c :: (escape r)
