open Base
open BinNat
open BinNums
open Datatypes
open Fold
open List
open Token
open Variance

type rule_kind =
| RootedSubGlob
| SingularTree
| SingularZeroOrMore
| AdjacentBoundary
| AdjacentZeroOrMore
| OversizedInvariant
| IncompatibleBounds

(** val coq_MAX_INVARIANT_SIZE : coq_N **)

let coq_MAX_INVARIANT_SIZE =
  Npos (Coq_xO (Coq_xO (Coq_xO (Coq_xO (Coq_xO (Coq_xO (Coq_xO (Coq_xO
    (Coq_xO (Coq_xO (Coq_xO (Coq_xO (Coq_xO (Coq_xO (Coq_xO (Coq_xO
    Coq_xH))))))))))))))))

(** val span_union : span -> span -> span **)

let span_union a b =
  let start = N.min (fst a) (fst b) in
  let end_ = N.max (N.add (fst a) (snd a)) (N.add (fst b) (snd b)) in
  (start, (N.sub end_ start))

(** val first_some_l : ('a1 -> 'a2 option) -> 'a1 list -> 'a2 option **)

let rec first_some_l f = function
| [] -> None
| a :: l' -> (match f a with
              | Some b -> Some b
              | None -> first_some_l f l')

(** val adjacent_boundary : tok list -> span option **)

let rec adjacent_boundary = function
| [] -> None
| a :: rest ->
  (match rest with
   | [] -> None
   | b :: _ ->
     if (&&) (is_boundary a) (is_boundary b)
     then Some (span_union (tspan a) (tspan b))
     else adjacent_boundary rest)

(** val rule_boundary : tok -> (rule_kind * span) option **)

let rule_boundary t =
  match first_some_l (fun x ->
          match x with
          | TLeaf (_, _) -> None
          | TAlt (_, _) -> None
          | TCat (_, ts) -> adjacent_boundary ts
          | TRep (_, _, _, _) -> None) (bfs t) with
  | Some sp -> Some (AdjacentBoundary, sp)
  | None -> None

(** val bad_bounds : tok -> bool **)

let bad_bounds = function
| TRep (_, _, lo, hi0) ->
  (match hi0 with
   | Some hi -> (||) (N.ltb hi lo) ((&&) (N.eqb lo N0) (N.eqb hi N0))
   | None -> false)
| _ -> false

(** val rule_bounds : tok -> (rule_kind * span) option **)

let rule_bounds t =
  match find bad_bounds (bfs t) with
  | Some x -> Some (IncompatibleBounds, (tspan x))
  | None -> None

(** val starts_with : (tok -> bool) -> tok -> bool **)

let rec starts_with p t =
  (||) (p t)
    (match t with
     | TLeaf (_, _) -> false
     | TAlt (_, bs) -> existsb (starts_with p) bs
     | TCat (_, ts) ->
       (match ts with
        | [] -> false
        | t0 :: _ -> starts_with p t0)
     | TRep (_, b, _, _) -> starts_with p b)

(** val ends_with : (tok -> bool) -> tok -> bool **)

let rec ends_with p t =
  (||) (p t)
    (match t with
     | TLeaf (_, _) -> false
     | TAlt (_, bs) -> existsb (ends_with p) bs
     | TCat (_, ts) ->
       let rec last_ends = function
       | [] -> false
       | x :: l' ->
         (match l' with
          | [] -> ends_with p x
          | _ :: _ -> last_ends l')
       in last_ends ts
     | TRep (_, b, _, _) -> ends_with p b)

(** val opt_any : (tok -> bool) -> tok option -> bool **)

let opt_any f = function
| Some t -> f t
| None -> false

(** val has_starting_boundary : tok option -> bool **)

let has_starting_boundary =
  opt_any (starts_with is_boundary)

(** val has_ending_boundary : tok option -> bool **)

let has_ending_boundary =
  opt_any (ends_with is_boundary)

(** val has_starting_zom : tok option -> bool **)

let has_starting_zom =
  opt_any (starts_with is_zom)

(** val has_ending_zom : tok option -> bool **)

let has_ending_zom =
  opt_any (ends_with is_zom)

type outer = { o_left : tok option; o_right : tok option }

(** val outer_default : outer **)

let outer_default =
  { o_left = None; o_right = None }

(** val opt_or : 'a1 option -> 'a1 option -> 'a1 option **)

let opt_or a b =
  match a with
  | Some _ -> a
  | None -> b

(** val outer_or : outer -> tok option -> tok option -> outer **)

let outer_or o l r =
  { o_left = (opt_or l o.o_left); o_right = (opt_or r o.o_right) }

type terminals =
| TermOnly of tok
| TermStartEnd of tok * tok

(** val terminals_of : tok list -> terminals option **)

let terminals_of = function
| [] -> None
| s :: rest ->
  (match rest with
   | [] -> Some (TermOnly s)
   | _ :: _ ->
     (match last_opt rest with
      | Some e -> Some (TermStartEnd (s, e))
      | None -> None))

(** val is_rooted_tree : tok -> bool **)

let is_rooted_tree = function
| TLeaf (_, l) -> (match l with
                   | LTree root -> root
                   | _ -> false)
| _ -> false

(** val isSome : 'a1 option -> bool **)

let isSome = function
| Some _ -> true
| None -> false

(** val check_branch : terminals -> outer -> rule_kind option **)

let check_branch tm o =
  let l = o.o_left in
  let r = o.o_right in
  (match tm with
   | TermOnly t ->
     if (&&) (is_sep t) (has_ending_boundary l)
     then Some AdjacentBoundary
     else if (&&) (is_sep t) (has_starting_boundary r)
          then Some AdjacentBoundary
          else if is_tree t
               then Some SingularTree
               else if (&&) (is_zom t) (has_ending_zom l)
                    then Some AdjacentZeroOrMore
                    else if (&&) (is_zom t) (has_starting_zom r)
                         then Some AdjacentZeroOrMore
                         else None
   | TermStartEnd (s, e) ->
     if (&&) (is_sep s) (has_ending_boundary l)
     then Some AdjacentBoundary
     else if (&&) (is_sep e) (has_starting_boundary r)
          then Some AdjacentBoundary
          else if (&&) (is_tree s) (has_ending_boundary l)
               then Some AdjacentBoundary
               else if (&&) (is_tree e) (has_starting_boundary r)
                    then Some AdjacentBoundary
                    else if (&&) (is_zom s) (has_ending_zom l)
                         then Some AdjacentZeroOrMore
                         else if (&&) (is_zom e) (has_starting_zom r)
                              then Some AdjacentZeroOrMore
                              else None)

(** val check_alternation : terminals -> outer -> rule_kind option **)

let check_alternation tm o =
  let first = match tm with
              | TermOnly t -> t
              | TermStartEnd (s, _) -> s in
  if (&&) ((||) (is_sep first) (is_rooted_tree first))
       (negb (isSome o.o_left))
  then Some RootedSubGlob
  else None

(** val check_repetition :
    terminals -> outer -> coq_N -> coq_N option -> rule_kind option **)

let check_repetition tm o lo hi =
  let first = match tm with
              | TermOnly t -> t
              | TermStartEnd (s, _) -> s in
  let lower_unbounded =
    match nr_lower (rep_range lo hi) with
    | NBUnb -> true
    | _ -> false
  in
  if (&&)
       ((&&) ((||) (is_sep first) (is_rooted_tree first))
         (negb (isSome o.o_left))) lower_unbounded
  then Some RootedSubGlob
  else (match tm with
        | TermOnly t ->
          if is_sep t
          then Some AdjacentBoundary
          else if is_zom t then Some SingularZeroOrMore else None
        | TermStartEnd (s, e) ->
          if (&&) (is_boundary s) (is_boundary e)
          then Some AdjacentBoundary
          else None)

(** val adjacent_aux :
    tok option -> tok list -> ((tok option * tok) * tok option) list **)

let rec adjacent_aux left = function
| [] -> []
| t :: rest ->
  ((left, t),
    (match rest with
     | [] -> None
     | r :: _ -> Some r)) :: (adjacent_aux (Some t) rest)

(** val adjacent : tok list -> ((tok option * tok) * tok option) list **)

let adjacent ts =
  adjacent_aux None ts

(** val opt_first : 'a1 option -> 'a1 option -> 'a1 option **)

let opt_first a b =
  match a with
  | Some _ -> a
  | None -> b

(** val branch_item :
    (outer * tok) -> (rule_kind * span) option * (outer * tok) list **)

let branch_item = function
| (parent, token) ->
  fold_left (fun acc x ->
    let (err, q) = acc in
    let (p, r) = x in
    let (l, t) = p in
    (match t with
     | TAlt (sp, bs) ->
       let o = outer_or parent l r in
       let e =
         first_some_l (fun b ->
           match terminals_of (concatenation b) with
           | Some tm -> opt_first (check_branch tm o) (check_alternation tm o)
           | None -> None) bs
       in
       ((opt_first err (option_map (fun k -> (k, sp)) e)),
       (app q (map (fun b -> (o, b)) bs)))
     | TRep (sp, b, lo, hi) ->
       let o = outer_or parent l r in
       let e =
         match terminals_of (concatenation b) with
         | Some tm ->
           opt_first (check_branch tm o) (check_repetition tm o lo hi)
         | None -> None
       in
       ((opt_first err (option_map (fun k -> (k, sp)) e)),
       (app q ((o, b) :: [])))
     | _ -> acc)) (adjacent (concatenation token)) (None, [])

(** val branch_loop :
    nat -> (outer * tok) list -> (rule_kind * span) option **)

let rec branch_loop fuel queue =
  match fuel with
  | O -> None
  | S f ->
    (match queue with
     | [] -> None
     | item :: rest ->
       let (err, more) = branch_item item in
       (match err with
        | Some e -> Some e
        | None -> branch_loop f (app rest more)))

(** val rule_branch : tok -> (rule_kind * span) option **)

let rule_branch t =
  branch_loop (S (tsize t)) ((outer_default, t) :: [])

(** val rule_size_list : tok list -> (rule_kind * span) option res **)

let rec rule_size_list = function
| [] -> Ok None
| x :: l' ->
  rbind (size_variance x) (fun v ->
    match v with
    | Inv n ->
      if N.leb coq_MAX_INVARIANT_SIZE n
      then Ok (Some (OversizedInvariant, (tspan x)))
      else rule_size_list l'
    | Var _ -> rule_size_list l')

(** val rule_size : tok -> (rule_kind * span) option res **)

let rule_size t =
  rule_size_list (bfs t)

(** val check : tok -> (rule_kind * span) option res **)

let check t =
  match rule_boundary t with
  | Some e -> Ok (Some e)
  | None ->
    (match rule_bounds t with
     | Some e -> Ok (Some e)
     | None ->
       (match rule_branch t with
        | Some e -> Ok (Some e)
        | None -> rule_size t))
