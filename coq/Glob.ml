open Base
open BinNat
open BinNums
open Encode
open Parse
open Regex
open Rule
open Token

(** val coq_REGEX_NEST_LIMIT : coq_N **)

let coq_REGEX_NEST_LIMIT =
  Npos (Coq_xO (Coq_xI (Coq_xO (Coq_xI (Coq_xI (Coq_xI (Coq_xI Coq_xH)))))))

type build_result =
| BuildOk of tok * re
| BuildParseErr of span list
| BuildRuleErr of rule_kind * span
| BuildPanic of panic_site
| BuildFuel

(** val compile_ok : re -> bool **)

let compile_ok r =
  (&&) (rep_in_limits r) (N.leb (re_nest r) coq_REGEX_NEST_LIMIT)

(** val build : str -> build_result **)

let build e =
  match parse e with
  | ParseOk t ->
    (match check t with
     | Ok a ->
       (match a with
        | Some p -> let (k, sp) = p in BuildRuleErr (k, sp)
        | None ->
          let r = encode t in
          if compile_ok r then BuildOk (t, r) else BuildPanic PanicCompile)
     | Panic s -> BuildPanic s)
  | ParseErr locs -> BuildParseErr locs
  | ParseFuel -> BuildFuel
