open BinNat
open BinNums
open List
open Regex
open Token

(** val coq_REGEX_REP_MAX : coq_N **)

let coq_REGEX_REP_MAX =
  Npos (Coq_xI (Coq_xI (Coq_xI (Coq_xI (Coq_xI (Coq_xI (Coq_xI (Coq_xI
    (Coq_xI (Coq_xI (Coq_xI (Coq_xI (Coq_xI (Coq_xI (Coq_xI (Coq_xI (Coq_xI
    (Coq_xI (Coq_xI (Coq_xI (Coq_xI (Coq_xI (Coq_xI (Coq_xI (Coq_xI (Coq_xI
    (Coq_xI (Coq_xI (Coq_xI (Coq_xI (Coq_xI
    Coq_xH)))))))))))))))))))))))))))))))

(** val grp : bool -> re -> re **)

let grp cap r =
  RGroup (cap, r)

(** val enc_tree_mid : bool -> re **)

let enc_tree_mid cap =
  RGroup (false, (RAlt (RSep, (RCat (RSep,
    (grp cap (RCat (RDotStar, RSep))))))))

(** val enc_tree : bool -> bool -> bool -> bool -> re **)

let enc_tree cap starting ending root =
  if starting
  then if ending
       then if root then grp cap (RCat (RSep, RDotStar)) else grp cap RDotStar
       else if root
            then grp cap (RCat (RSep, (RCat (RDotStar, (ROpt RSep)))))
            else RGroup (false, (RAlt ((ROpt RSep),
                   (grp cap (RCat (RDotStar, RSep))))))
  else if ending
       then RGroup (false, (RAlt ((ROpt RSep), (RCat (RSep,
              (grp cap RDotStar))))))
       else enc_tree_mid cap

(** val enc_class : bool -> arch list -> re **)

let enc_class neg a =
  if forallb arch_valid a then RClass (neg, a) else RNever

(** val enc_leaf : bool -> bool -> bool -> leaf -> re **)

let enc_leaf cap starting ending = function
| LLit (ci, s) -> RLit (ci, s)
| LSep -> RSep
| LClass (neg, a) -> grp cap (enc_class neg a)
| LOne -> grp cap RNsep
| LZom lazy0 -> grp cap (RStar (lazy0, RNsep))
| LTree root -> enc_tree cap starting ending root

(** val ralt_list : re list -> re **)

let rec ralt_list = function
| [] -> REmpty
| r :: l' -> (match l' with
              | [] -> r
              | _ :: _ -> RAlt (r, (ralt_list l')))

(** val norm_bounds : coq_N -> coq_N option -> coq_N * coq_N option **)

let norm_bounds lo = function
| Some h -> if N.ltb h lo then (h, (Some lo)) else (lo, (Some h))
| None -> (lo, None)

(** val seq_edges_aux :
    bool -> (bool -> bool -> re) list -> bool -> bool -> re **)

let rec seq_edges_aux first fs s e =
  match fs with
  | [] -> REmpty
  | f :: fs' ->
    (match fs' with
     | [] -> f ((&&) s first) e
     | _ :: _ ->
       RCat ((f ((&&) s first) false), (seq_edges_aux false fs' s e)))

(** val seq_edges : (bool -> bool -> re) list -> bool -> bool -> re **)

let seq_edges fs =
  seq_edges_aux true fs

(** val enc_tok : bool -> tok -> bool -> bool -> re **)

let rec enc_tok cap = function
| TLeaf (_, l) -> (fun s e -> enc_leaf cap s e l)
| TAlt (_, bs) ->
  (fun s e ->
    grp cap
      (ralt_list (map (fun b -> RGroup (false, (enc_tok false b s e))) bs)))
| TCat (_, ts) -> seq_edges (map (enc_tok cap) ts)
| TRep (_, b, lo, hi) ->
  (fun s e ->
    let (lo', hi') = norm_bounds lo hi in
    grp cap (RRep ((RGroup (false, (enc_tok false b s e))), lo', hi')))

(** val encode : tok -> re **)

let encode t =
  enc_tok true t true true

(** val rep_in_limits : re -> bool **)

let rec rep_in_limits = function
| RCat (a, b) -> (&&) (rep_in_limits a) (rep_in_limits b)
| RAlt (a, b) -> (&&) (rep_in_limits a) (rep_in_limits b)
| ROpt a -> rep_in_limits a
| RStar (_, a) -> rep_in_limits a
| RRep (a, lo, hi) ->
  (&&) ((&&) (rep_in_limits a) (N.leb lo coq_REGEX_REP_MAX))
    (match hi with
     | Some h -> N.leb h coq_REGEX_REP_MAX
     | None -> true)
| RGroup (_, a) -> rep_in_limits a
| _ -> true

(** val re_nest : re -> coq_N **)

let rec re_nest = function
| RCat (a, b) -> N.max (re_nest a) (re_nest b)
| RAlt (a, b) -> N.max (re_nest a) (re_nest b)
| ROpt a -> N.add (Npos Coq_xH) (re_nest a)
| RStar (_, a) -> N.add (Npos Coq_xH) (re_nest a)
| RRep (a, _, _) -> N.add (Npos Coq_xH) (re_nest a)
| RGroup (_, a) -> N.add (Npos Coq_xH) (re_nest a)
| _ -> N0
