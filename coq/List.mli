open Datatypes

val rev : 'a1 list -> 'a1 list

val map : ('a1 -> 'a2) -> 'a1 list -> 'a2 list

val flat_map : ('a1 -> 'a2 list) -> 'a1 list -> 'a2 list

val fold_left : ('a1 -> 'a2 -> 'a1) -> 'a2 list -> 'a1 -> 'a1

val fold_right : ('a2 -> 'a1 -> 'a1) -> 'a1 -> 'a2 list -> 'a1

val existsb : ('a1 -> bool) -> 'a1 list -> bool

val forallb : ('a1 -> bool) -> 'a1 list -> bool

val filter : ('a1 -> bool) -> 'a1 list -> 'a1 list

val find : ('a1 -> bool) -> 'a1 list -> 'a1 option

val combine : 'a1 list -> 'a2 list -> ('a1 * 'a2) list

val list_prod : 'a1 list -> 'a2 list -> ('a1 * 'a2) list

val firstn : nat -> 'a1 list -> 'a1 list

val skipn : nat -> 'a1 list -> 'a1 list
