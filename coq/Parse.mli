open Base
open BinNat
open BinNums
open Datatypes
open List
open Nat
open Token

val coq_LIT_SPECIAL : str

val coq_LIT_ESCAPABLE : str

val coq_CLASS_SPECIAL : str

val coq_CLASS_ESCAPABLE : str

val c_rparen : coq_N

val c_star : coq_N

val c_dollar : coq_N

val c_rbrace : coq_N

val c_comma : coq_N

val c_gt : coq_N

val c_colon : coq_N

type input = { i_s : str; i_pos : coq_N; i_ci : bool; i_sub : coq_N }

val adv : input -> str -> str -> input

val adv1 : input -> char -> str -> input

val set_ci : input -> bool -> input

val set_sub : input -> input

val tag1 : char -> input -> input option

val flag_toggles : nat -> input -> bool -> input option

val flag_group : input -> input option

val flags_with_state_f : nat -> input -> input

val flags_with_state : input -> input

val flags_without_state : input -> input

val lit_chars : str -> (str * str) option

val consumed_of : str -> str -> str

val p_literal : input -> (leaf * input) option

val class_char : str -> (char * str) option

val class_arch : str -> (arch * str) option

val class_archs : nat -> str -> arch list * str

val p_class : input -> (leaf * input) option

type terminator =
| TermTop
| TermAlt
| TermRep

val term_ok : terminator -> input -> bool

val zom_lookahead : input -> bool

val p_wildcard : terminator -> input -> (leaf * input) option

val is_digit : char -> bool

val digits : str -> str * str

val parse_usize : str -> coq_N option

val p_bounds : input -> (coq_N * coq_N option) * input

type 'a pres =
| POk of 'a
| PErr
| PFuel

val mk_span : input -> input -> span

val leaf_tok : input -> (leaf * input) option -> (tok * input) option

val p_tokens : nat -> terminator -> input -> (tok list * input) pres

val p_token : nat -> terminator -> input -> (tok * input) pres

val p_branches : nat -> input -> (tok list * input) pres

val p_glob : nat -> terminator -> input -> (tok * input) pres

val parse_fuel : str -> nat

val init_input : str -> input

val err_span : coq_N -> str -> span

type parse_result =
| ParseOk of tok
| ParseErr of span list
| ParseFuel

val parse : str -> parse_result
