open Base
open BinNat
open BinNums
open Datatypes
open List
open Nat
open Token
open Variance

(** val rep_range : coq_N -> coq_N option -> nrange **)

let rep_range =
  from_closed_open

(** val opt_list : 'a1 option -> 'a1 list **)

let opt_list = function
| Some a -> a :: []
| None -> []

(** val depth_leaf : leaf -> bterm **)

let depth_leaf = function
| LSep -> bterm_one
| LTree _ -> bterm_unbounded
| _ -> bterm_zero

(** val rdisj : bterm -> bterm -> bterm res **)

let rdisj a b =
  Ok (bterm_disj a b)

(** val depth_fold : tok -> bterm option res **)

let rec depth_fold = function
| TLeaf (_, l) -> Ok (Some (depth_leaf l))
| TAlt (_, bs) ->
  rbind (rmapM depth_fold bs) (fun terms ->
    rreduce rdisj (flat_map opt_list terms))
| TCat (_, ts) ->
  rbind (rmapM depth_fold ts) (fun terms ->
    rreduce bterm_conj (flat_map opt_list terms))
| TRep (_, b, lo, hi) ->
  rbind (depth_fold b) (fun term ->
    rbind (rreduce bterm_conj (opt_list term)) (fun r ->
      match r with
      | Some x ->
        rbind (bterm_product x (rep_range lo hi)) (fun y -> Ok (Some y))
      | None -> Ok None))

(** val depth_variance : tok -> nvar res **)

let depth_variance t =
  rbind (depth_fold t) (fun r ->
    bterm_finalize (match r with
                    | Some x -> x
                    | None -> bterm_zero))

(** val size_leaf : leaf -> nvar **)

let size_leaf = function
| LLit (_, s) -> Inv (blen s)
| LSep -> Inv (Npos Coq_xH)
| LClass (_, a) ->
  (match a with
   | [] -> Inv N0
   | _ :: _ -> Inv (Npos (Coq_xO (Coq_xO Coq_xH))))
| LOne -> Inv (Npos (Coq_xO (Coq_xO Coq_xH)))
| _ -> Var Unbounded

(** val size_fold : tok -> nvar option res **)

let rec size_fold = function
| TLeaf (_, l) -> Ok (Some (size_leaf l))
| TAlt (_, bs) ->
  rbind (rmapM size_fold bs) (fun terms ->
    rreduce nvar_disj (flat_map opt_list terms))
| TCat (_, ts) ->
  rbind (rmapM size_fold ts) (fun terms ->
    rreduce nvar_conj (flat_map opt_list terms))
| TRep (_, b, lo, hi) ->
  rbind (size_fold b) (fun term ->
    match term with
    | Some x ->
      rbind (nvar_product x (rep_range lo hi)) (fun y -> Ok (Some y))
    | None -> Ok None)

(** val size_variance : tok -> nvar res **)

let size_variance t =
  rbind (size_fold t) (fun r -> Ok
    (match r with
     | Some x -> x
     | None -> Inv N0))

(** val arch_text : arch -> tvar **)

let arch_text = function
| AChar c -> Inv ((FNominal (c :: [])) :: [])
| ARange (x, y) ->
  if N.eqb x y then Inv ((FNominal (x :: [])) :: []) else Var (Bounded ())

(** val text_leaf : (char -> bool) -> leaf -> tvar **)

let text_leaf has_casing = function
| LLit (ci, s) ->
  if (&&) ci (existsb has_casing s)
  then Var (Bounded ())
  else Inv ((FNominal s) :: [])
| LSep -> Inv ((FStructural (coq_SEP :: [])) :: [])
| LClass (neg, a) ->
  if neg
  then Var (Bounded ())
  else (match reduce_pure tvar_disj (map arch_text a) with
        | Some v -> v
        | None -> Inv [])
| _ -> Var Unbounded

(** val text_fold : (char -> bool) -> tok -> tvar option res **)

let rec text_fold has_casing = function
| TLeaf (_, l) -> Ok (Some (text_leaf has_casing l))
| TAlt (_, bs) ->
  rbind (rmapM (text_fold has_casing) bs) (fun terms -> Ok
    (reduce_pure tvar_disj (flat_map opt_list terms)))
| TCat (_, ts) ->
  rbind (rmapM (text_fold has_casing) ts) (fun terms -> Ok
    (reduce_pure tvar_conj (flat_map opt_list terms)))
| TRep (_, b, lo, hi) ->
  rbind (text_fold has_casing b) (fun term ->
    match term with
    | Some x ->
      rbind (tvar_product x (rep_range lo hi)) (fun y -> Ok (Some y))
    | None -> Ok None)

(** val text_variance : (char -> bool) -> tok -> tvar res **)

let text_variance has_casing t =
  rbind (text_fold has_casing t) (fun r -> Ok
    (match r with
     | Some x -> x
     | None -> Inv []))

(** val has_root_fold : tok -> coq_when option **)

let rec has_root_fold = function
| TLeaf (_, l) -> Some (when_of_bool (leaf_is_rooting l))
| TAlt (_, bs) ->
  reduce_pure when_certainty
    (flat_map (fun b -> opt_list (has_root_fold b)) bs)
| TCat (_, ts) ->
  (match ts with
   | [] -> None
   | t0 :: _ -> reduce_pure when_or (opt_list (has_root_fold t0)))
| TRep (_, b, lo, hi) ->
  (match has_root_fold b with
   | Some w ->
     (match nr_lower (rep_range lo hi) with
      | NBUnb -> Some (when_and w Sometimes)
      | _ -> Some w)
   | None -> None)

(** val has_root : tok -> coq_when **)

let has_root t =
  match has_root_fold t with
  | Some w -> w
  | None -> Never

(** val exh_takes : tok -> bool **)

let exh_takes = function
| TLeaf (_, l) ->
  (match l with
   | LLit (_, _) -> false
   | LClass (_, _) -> false
   | LOne -> false
   | _ -> true)
| _ -> true

(** val take_while : ('a1 -> bool) -> 'a1 list -> 'a1 list **)

let rec take_while p = function
| [] -> []
| a :: l' -> if p a then a :: (take_while p l') else []

(** val exh_maybe : bterm option -> bool **)

let exh_maybe = function
| Some t -> (match bterm_is_exhaustive t with
             | Never -> false
             | _ -> true)
| None -> false

(** val exh_rep_finalizes : bterm -> bool **)

let exh_rep_finalizes = function
| BConj s ->
  let (_, n0) = s in
  (match n0 with
   | Inv n -> (||) (N.eqb n N0) (N.eqb n (Npos Coq_xH))
   | Var _ -> true)
| BDisj _ -> true

(** val exh_fold : tok -> bterm option res **)

let rec exh_fold = function
| TLeaf (_, l) -> Ok (Some (depth_leaf l))
| TAlt (_, bs) ->
  let enq =
    take_while (fun p -> exh_takes (fst p))
      (rev (combine bs (map exh_fold bs)))
  in
  rbind (rmapM snd enq) (fun terms0 ->
    let terms = flat_map opt_list terms0 in
    rbind (rreduce rdisj terms) (fun sum ->
      if eqb (length bs) (length terms)
      then Ok sum
      else if exh_maybe sum then Ok sum else Ok (Some bterm_zero)))
| TCat (_, ts) ->
  let enq =
    take_while (fun p -> exh_takes (fst p))
      (rev (combine ts (map exh_fold ts)))
  in
  rbind (rmapM snd enq) (fun terms0 ->
    let terms = flat_map opt_list terms0 in
    rbind (rreduce bterm_conj terms) (fun sum ->
      if eqb (length ts) (length terms)
      then Ok sum
      else if exh_maybe sum then Ok sum else Ok (Some bterm_zero)))
| TRep (_, b, lo, hi) ->
  let enq = take_while (fun p -> exh_takes (fst p)) ((b, (exh_fold b)) :: [])
  in
  rbind (rmapM snd enq) (fun terms0 ->
    let terms = flat_map opt_list terms0 in
    rbind (rreduce bterm_conj terms) (fun sum ->
      let folded =
        if eqb (S O) (length terms)
        then sum
        else if exh_maybe sum then sum else Some bterm_zero
      in
      (match folded with
       | Some x ->
         if exh_rep_finalizes x
         then rbind (bterm_product x (rep_range lo hi)) (fun y -> Ok (Some y))
         else Ok (Some x)
       | None -> Ok None)))

(** val is_exhaustive : tok -> coq_when res **)

let is_exhaustive t =
  rbind (exh_fold t) (fun r -> Ok
    (match r with
     | Some x -> bterm_is_exhaustive x
     | None -> Never))
