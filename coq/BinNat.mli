open BinNums
open BinPos
open Datatypes

module N :
 sig
  val succ_double : coq_N -> coq_N

  val double : coq_N -> coq_N

  val pred : coq_N -> coq_N

  val add : coq_N -> coq_N -> coq_N

  val sub : coq_N -> coq_N -> coq_N

  val mul : coq_N -> coq_N -> coq_N

  val compare : coq_N -> coq_N -> comparison

  val eqb : coq_N -> coq_N -> bool

  val leb : coq_N -> coq_N -> bool

  val ltb : coq_N -> coq_N -> bool

  val min : coq_N -> coq_N -> coq_N

  val max : coq_N -> coq_N -> coq_N

  val log2 : coq_N -> coq_N

  val pos_div_eucl : positive -> coq_N -> coq_N * coq_N

  val div_eucl : coq_N -> coq_N -> coq_N * coq_N

  val div : coq_N -> coq_N -> coq_N

  val modulo : coq_N -> coq_N -> coq_N

  val to_nat : coq_N -> nat

  val of_nat : nat -> coq_N
 end
