(* Regex.v -- the fragment of the `regex` crate's syntax that src/encode.rs emits: AST, exact text,
   language semantics (inductive), and an executable matcher (backtracking, leftmost-first, with
   capture groups).  The case-folding relation of `(?i)` literals is a parameter [orbit]
   (Unicode simple case folding as implemented by regex-syntax; instantiated from a table dumped
   from the linked crate). *)
From WaxModel Require Import Base Token.

Inductive re :=
| RLit (ci : bool) (s : str)      (* (?i)text or (?-i)text, text escaped *)
| RSep                             (* [/] *)
| RNsep                            (* [^/] *)
| RClass (neg : bool) (a : list arch)  (* (?-i:[a&&[^/]]) or (?-i:[^a/]) *)
| RNever                           (* [a&&b] *)
| RDotStar                         (* DOTALL *)
| REmpty                           (* the empty regex *)
| RCat (a b : re)
| RAlt (a b : re)
| ROpt (a : re)                    (* a? (greedy) *)
| RStar (lazy : bool) (a : re)     (* a* or a*? *)
| RRep (a : re) (lo : N) (hi : option N)  (* a{lo,hi} or a{lo,} *)
| RGroup (cap : bool) (a : re).    (* (a) or (?:a) *)

(* ---- text ---------------------------------------------------------------------------------- *)
(* regex_syntax::is_meta_character: \ . + * ? ( ) | [ ] { } ^ $ # & - ~ *)
Definition RE_META : str := [92; 46; 43; 42; 63; 40; 41; 124; 91; 93; 123; 125; 94; 36; 35; 38; 45; 126].

Fixpoint re_escape (s : str) : str :=
  match s with
  | [] => []
  | c :: r => if mem c RE_META then BSLASH :: c :: re_escape r else c :: re_escape r
  end.

(* decimal digits of a number *)
Fixpoint dec_digits (fuel : nat) (n : N) (acc : str) : str :=
  match fuel with
  | O => acc
  | S f => let acc' := (48 + n mod 10) :: acc in
           if n / 10 =? 0 then acc' else dec_digits f (n / 10) acc'
  end.
Definition dec (n : N) : str := dec_digits (S (N.to_nat (N.log2 n))) n [].

Definition print_arch (a : arch) : str :=
  match a with
  | AChar c => re_escape [c]
  | ARange x y => re_escape [x] ++ [45] ++ re_escape [y]
  end.

Definition arch_valid (a : arch) : bool :=
  match a with AChar _ => true | ARange x y => x <=? y end.

(* "(?-i:" ... ")" *)
Definition s_flagoff_open : str := [40; 63; 45; 105; 58].
Definition s_nsep : str := [91; 94; 47; 93].        (* [^/] *)
Definition s_sep : str := [91; 47; 93].             (* [/] *)
Definition s_never : str := [91; 97; 38; 38; 98; 93].   (* [a&&b] *)
Definition s_dotstar : str := [40; 63; 115; 58; 46; 42; 41]. (* DOTALL *)

Fixpoint print (r : re) : str :=
  match r with
  | RLit ci s => (if ci then [40; 63; 105; 41] else [40; 63; 45; 105; 41]) ++ re_escape s
  | RSep => s_sep
  | RNsep => s_nsep
  | RClass neg a =>
      s_flagoff_open ++ [91] ++
        (if neg then [94] ++ flat_map print_arch a ++ [47]
         else flat_map print_arch a ++ [38; 38] ++ s_nsep) ++ [93; 41]
  | RNever => s_never
  | RDotStar => s_dotstar
  | REmpty => []
  | RCat a b => print a ++ print b
  | RAlt a b => print a ++ [124] ++ print b
  | ROpt a => print a ++ [63]
  | RStar lazy a => print a ++ [42] ++ (if lazy then [63] else [])
  | RRep a lo hi =>
      print a ++ [123] ++ dec lo ++ [44] ++ (match hi with Some h => dec h | None => [] end) ++ [125]
  | RGroup cap a => (if cap then [40] else [40; 63; 58]) ++ print a ++ [41]
  end.

(* the complete program: ^ ... $ *)
Definition print_program (r : re) : str := [94] ++ print r ++ [36].

(* number of capture groups *)
Fixpoint ngroups (r : re) : nat :=
  match r with
  | RCat a b | RAlt a b => (ngroups a + ngroups b)%nat
  | ROpt a | RStar _ a | RRep a _ _ => ngroups a
  | RGroup cap a => ((if cap then 1 else 0) + ngroups a)%nat
  | _ => 0%nat
  end.

(* ---- semantics ------------------------------------------------------------------------------- *)
Section Semantics.
  Variable orbit : char -> list char.

  (* one character of a literal *)
  Definition lit_char_match (ci : bool) (c d : char) : bool :=
    N.eqb c d || (ci && mem d (orbit c)).

  Definition arch_in (c : char) (a : arch) : bool :=
    match a with AChar d => N.eqb c d | ARange x y => (x <=? c) && (c <=? y) end.

  Definition class_match (neg : bool) (a : list arch) (c : char) : bool :=
    negb (N.eqb c SEP) && xorb neg (existsb (arch_in c) a).

  Inductive lit_sem (ci : bool) : str -> str -> Prop :=
  | lit_nil : lit_sem ci [] []
  | lit_cons c d s w : lit_char_match ci c d = true -> lit_sem ci s w -> lit_sem ci (c :: s) (d :: w).

  (* k-fold iteration of a language *)
  Inductive iter_sem (L : str -> Prop) : nat -> str -> Prop :=
  | iter_0 : iter_sem L 0 []
  | iter_S n u v : L u -> iter_sem L n v -> iter_sem L (S n) (u ++ v).

  Definition in_bounds (k : nat) (lo : N) (hi : option N) : Prop :=
    lo <= N.of_nat k /\ match hi with Some h => N.of_nat k <= h | None => True end.

  Fixpoint sem (r : re) (w : str) : Prop :=
    match r with
    | RLit ci s => lit_sem ci s w
    | RSep => w = [SEP]
    | RNsep => exists c, w = [c] /\ c <> SEP
    | RClass neg a => exists c, w = [c] /\ class_match neg a c = true
    | RNever => False
    | RDotStar => True
    | REmpty => w = []
    | RCat a b => exists u v, w = u ++ v /\ sem a u /\ sem b v
    | RAlt a b => sem a w \/ sem b w
    | ROpt a => w = [] \/ sem a w
    | RStar _ a => exists k, iter_sem (sem a) k w
    | RRep a lo hi => exists k, in_bounds k lo hi /\ iter_sem (sem a) k w
    | RGroup _ a => sem a w
    end.

  (* ---- executable matcher: backtracking with continuations, leftmost-first priorities.
     [caps] maps a group index to the (start, end) character offsets of its last participation.
     Offsets are in characters of the haystack; the driver converts to bytes. ------------------ *)
  Definition caps := list (nat * (nat * nat)).

  Definition set_cap (g : nat) (se : nat * nat) (c : caps) : caps :=
    (g, se) :: filter (fun x => negb (Nat.eqb (fst x) g)) c.
  Fixpoint get_cap (g : nat) (c : caps) : option (nat * nat) :=
    match c with
    | [] => None
    | (g', se) :: c' => if Nat.eqb g g' then Some se else get_cap g c'
    end.

  Fixpoint lit_match (ci : bool) (s w : str) : option str :=
    match s, w with
    | [], _ => Some w
    | c :: s', d :: w' => if lit_char_match ci c d then lit_match ci s' w' else None
    | _ :: _, [] => None
    end.

  (* all suffixes of w, longest first (for greedy DOTALL) *)
  Fixpoint suffixes (w : str) : list str :=
    match w with [] => [[]] | _ :: w' => w :: suffixes w' end.

  Fixpoint first_some {A B} (f : A -> option B) (l : list A) : option B :=
    match l with
    | [] => None
    | a :: l' => match f a with Some b => Some b | None => first_some f l' end
    end.

  (* state threaded through the match: remaining haystack and captures; positions are recovered
     from the length of the remaining haystack. *)
  Definition K := str -> caps -> option caps.

  (* [m fuel r g w c k]: match r (whose first group has index g) at w, then continue with k.
     fuel bounds the unrolling of unbounded iteration (each iteration must consume input). *)
  Fixpoint m (total : nat) (fuel : nat) (r : re) (g : nat) (w : str) (c : caps) (k : K) {struct fuel} : option caps :=
    match fuel with
    | O => None
    | S f =>
        match r with
        | RLit ci s => match lit_match ci s w with Some w' => k w' c | None => None end
        | RSep => match w with d :: w' => if N.eqb d SEP then k w' c else None | [] => None end
        | RNsep => match w with d :: w' => if N.eqb d SEP then None else k w' c | [] => None end
        | RClass neg a => match w with d :: w' => if class_match neg a d then k w' c else None | [] => None end
        | RNever => None
        | RDotStar => first_some (fun w' => k w' c) (rev (suffixes w))
        | REmpty => k w c
        | RCat a b => m total f a g w c (fun w' c' => m total f b (g + ngroups a)%nat w' c' k)
        | RAlt a b =>
            match m total f a g w c k with
            | Some x => Some x
            | None => m total f b (g + ngroups a)%nat w c k
            end
        | ROpt a =>
            match m total f a g w c k with
            | Some x => Some x
            | None => k w c
            end
        | RStar lazy a =>
            let more := m total f a g w c (fun w' c' =>
                          if Nat.ltb (length w') (length w) then m total f (RStar lazy a) g w' c' k else None) in
            if lazy then
              match k w c with Some x => Some x | None => more end
            else
              match more with Some x => Some x | None => k w c end
        | RRep a lo hi =>
            (* greedy counted repetition *)
            let can_stop := lo =? 0 in
            let can_more := match hi with Some h => 0 <? h | None => true end in
            let lo' := N.pred lo in
            let hi' := match hi with Some h => Some (N.pred h) | None => None end in
            let more :=
              if can_more then
                m total f a g w c (fun w' c' =>
                  if Nat.ltb (length w') (length w) || negb can_stop
                  then m total f (RRep a lo' hi') g w' c' k else None)
              else None in
            match more with
            | Some x => Some x
            | None => if can_stop then k w c else None
            end
        | RGroup cap a =>
            if cap then
              let start := (total - length w)%nat in
              m total f a (S g) w c (fun w' c' => k w' (set_cap g (start, (total - length w')%nat) c'))
            else m total f a g w c k
        end
    end.

  Fixpoint re_size (r : re) : nat :=
    match r with
    | RCat a b | RAlt a b => S (re_size a + re_size b)
    | ROpt a | RStar _ a | RGroup _ a => S (re_size a)
    | RRep a lo hi => S (re_size a)
    | _ => 1%nat
    end.

  (* fuel that is enough for [m] on a haystack of [n] characters (proved adequate in MatcherFacts): one unit per level
     of nesting, one per iteration of a loop (an optional iteration consumes a character, a counted repetition has [lo]
     mandatory ones) *)
  Fixpoint need (r : re) (n : nat) : nat :=
    match r with
    | RCat a b | RAlt a b => S (Nat.max (need a n) (need b n))
    | ROpt a | RGroup _ a => S (need a n)
    | RStar _ a => S (n + need a n)
    | RRep a lo _ => S (N.to_nat lo + n + need a n)
    | _ => 1%nat
    end.

  Definition k_end : K := fun w' c => match w' with [] => Some c | _ => None end.

  (* the whole haystack is matched (`^r$`): the captures of the leftmost-first parse *)
  Definition run (r : re) (w : str) : option caps := m (length w) (need r (length w)) r 0%nat w [] k_end.
  Definition accepts (r : re) (w : str) : bool := match run r w with Some _ => true | None => false end.

End Semantics.
