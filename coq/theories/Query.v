(* Query.v -- model of the remaining queries and transformations of src/token/mod.rs and
   src/lib.rs: captures, semantic literals, components and walk programs, the invariant text
   prefix and partition, fold_map, the `any` combinator and `into_alternatives`, escape. *)
From WaxModel Require Import Base Token Regex Encode Variance Fold Rule Parse.

Section HasCasing.
Variable has_casing : char -> bool.

(* ---- captures (Glob::captures) --------------------------------------------------------------- *)
Fixpoint number_from (n : N) (l : list tok) : list (N * span) :=
  match l with
  | [] => []
  | t :: l' => (n, tspan t) :: number_from (n + 1) l'
  end.
Definition captures (t : tok) : list (N * span) :=
  number_from 1 (filter is_capturing (concatenation t)).

(* ---- components (token::components) --------------------------------------------------------------- *)
Fixpoint take_nonboundary (ts : list tok) : list tok * list tok :=
  match ts with
  | t :: r => if is_boundary t then ([], ts) else let '(a, b) := take_nonboundary r in (t :: a, b)
  | [] => ([], [])
  end.

Fixpoint components_f (fuel : nat) (ts : list tok) : list (list tok) :=
  match fuel with
  | O => []
  | S f =>
      match ts with
      | [] => []
      | t :: r =>
          if is_sep t then components_f f r
          else if is_tree t then [t] :: components_f f r
          else let '(a, b) := take_nonboundary r in (t :: a) :: components_f f b
      end
  end.
Definition components (ts : list tok) : list (list tok) := components_f (S (length ts)) ts.

(* Component::literal: Some(texts) when the component is non-empty and all of its tokens are literals *)
Definition component_literal (c : list tok) : option str :=
  match c with
  | [] => None
  | _ => if forallb is_literal c
         then Some (flat_map (fun t => match t with TLeaf _ (LLit _ s) => s | _ => [] end) c)
         else None
  end.

Definition DOT : char := 46.
Definition is_semantic (s : str) : bool := str_eqb s [DOT] || str_eqb s [DOT; DOT].

(* Token::literals (breadth-first over components) + LiteralSequence::is_semantic_literal *)
Fixpoint semantic_loop (fuel : nat) (queue : list (list tok)) : bool :=
  match fuel with
  | O => false
  | S f =>
      match queue with
      | [] => false
      | c :: rest =>
          match component_literal c with
          | Some s => is_semantic s || semantic_loop f rest
          | None =>
              semantic_loop f (rest ++ flat_map (fun t => if is_branch t then components (children t) else []) c)
          end
      end
  end.
Definition has_semantic_literals (t : tok) : bool :=
  semantic_loop (S (2 * tsize t)) (components (concatenation t)).

(* ---- walk programs (WalkProgram::compile) ------------------------------------------------------------ *)
Definition enc_component (c : list tok) : re := seq_edges (map (enc_tok true) c) true true.

Fixpoint take_until_boundary (cs : list (list tok)) : list (list tok) :=
  match cs with
  | [] => []
  | c :: r => if existsb has_boundary c then [] else c :: take_until_boundary r
  end.

Definition component_programs (t : tok) : list re :=
  if tok_is_empty t then []
  else map enc_component (take_until_boundary (components (concatenation t))).

(* ---- invariant text prefix --------------------------------------------------------------------------- *)
Definition is_inv {T B} (v : var T B) : bool := match v with Inv _ => true | _ => false end.

(* the loop of Token::invariant_text_prefix: (head, checkpoint) are Option<(index, text)> *)
Fixpoint prefix_loop (n : N) (ts : list tok) (head checkpoint : option (N * str)) : res (option (N * str)) :=
  match ts with
  | [] => Ok head
  | t :: r =>
      do v <- text_variance has_casing t;
      match v with
      | Inv txt =>
          let s := match head with Some (_, s) => s | None => [] end in
          let head' := Some (n, s ++ text_to_string txt) in
          prefix_loop (n + 1) r head' (if is_boundary t then head' else checkpoint)
      | _ => Ok (if is_boundary t then head else checkpoint)
      end
  end.

Definition invariant_text_prefix (t : tok) : res (N * str) :=
  let ts := concatenation t in
  do rooted_variant <-
    match ts with
    | t0 :: _ =>
        match has_root t0 with
        | Always => do v <- text_variance has_casing t0; Ok (negb (is_inv v))
        | _ => Ok false
        end
    | [] => Ok false
    end;
  if rooted_variant then Ok (0, [SEP])
  else
    do r <- prefix_loop 0 ts None None;
    Ok (match r with Some (i, s) => (i + 1, s) | None => (0, []) end).

(* ---- fold_map ---------------------------------------------------------------------------------------- *)
(* BranchKind::decompose / compose of a repetition goes through NaturalRange *)
Definition rep_roundtrip (lo : N) (hi : option N) : res (N * option N) :=
  let r := rep_range lo hi in
  do u <- nr_upper r;
  Ok (lower_usize (nr_lower r), upper_usize u).

Fixpoint fold_map (f : span -> span) (t : tok) : res tok :=
  match t with
  | TLeaf sp l => Ok (TLeaf (f sp) l)
  | TAlt sp bs => do bs' <- rmapM (fold_map f) bs; Ok (TAlt (f sp) bs')
  | TCat sp ts => do ts' <- rmapM (fold_map f) ts; Ok (TCat (f sp) ts')
  | TRep sp b lo hi =>
      do b' <- fold_map f b;
      do lh <- rep_roundtrip lo hi;
      Ok (TRep (f sp) b' (fst lh) (snd lh))
  end.

(* ---- partition (Tokenized::partition) --------------------------------------------------------------------- *)
(* drop [n] bytes from the front of a string (at most its length): None if that splits a character *)
Fixpoint drop_bytes (s : str) (n : N) : option str :=
  match s with
  | [] => Some []          (* cmp::min(expression.len(), n) *)
  | c :: r => if n =? 0 then Some s
              else if utf8_len c <=? n then drop_bytes r (n - utf8_len c) else None
  end.

Definition unroot (t : tok) : tok * N :=
  match t with
  | TLeaf (s, n) (LTree true) => (TLeaf (s + 1, n - 1) (LTree false), 1)
  | _ => (t, 0)
  end.

Fixpoint sum_spans (ts : list tok) : N :=
  match ts with [] => 0 | t :: r => snd (tspan t) + sum_spans r end.

Inductive partition_result :=
| PartNone (prefix : str)                                 (* no postfix *)
| PartSome (prefix : str) (post : tok) (expr : str).      (* postfix tree and its expression *)

Definition partition (e : str) (t : tok) : res partition_result :=
  do np <- invariant_text_prefix t;
  let '(n, text) := np in
  (* pop_prefix_tokens_with *)
  let popped_rest : list tok * option tok * N :=
    match t with
    | TCat sp ts =>
        if N.of_nat (length ts) <=? n then ([t], None, 0)
        else
          let popped := firstn (N.to_nat n) ts in
          match skipn (N.to_nat n) ts with
          | first :: rest => let '(first', u) := unroot first in (popped, Some (TCat sp (first' :: rest)), u)
          | [] => (popped, None, 0)
          end
    | _ => if n =? 0 then ([], Some t, 0) else ([t], None, 0)
    end in
  let '(popped, rest, unrooted) := popped_rest in
  let offset := sum_spans popped + unrooted in
  match rest with
  | None => Ok (PartNone text)
  | Some post =>
      do post' <- fold_map (fun sp => (fst sp - offset, snd sp)) post;
      match drop_bytes e offset with
      | Some e' => Ok (PartSome text post' e')
      | None => Panic PanicOther      (* "span offset split UTF-8 byte sequence" *)
      end
  end.

(* ---- any / into_alternatives ----------------------------------------------------------------------------- *)
(* token::any *)
Definition any_tree (ts : list tok) : res tok :=
  do ts' <- rmapM (fold_map (fun _ => (0, 0))) ts;
  Ok (TAlt (0, 0) ts').

(* Token::into_non_trivial *)
Fixpoint into_non_trivial (t : tok) : tok :=
  match t with
  | TAlt _ [b] => into_non_trivial b
  | TCat _ [b] => into_non_trivial b
  | TRep _ b lo hi =>
      match rep_range lo hi with
      | Inv 1 => into_non_trivial b
      | _ => t
      end
  | _ => t
  end.

(* Token::into_alternatives *)
Fixpoint alternatives_loop (fuel : nat) (queue : list tok) : list tok :=
  match fuel with
  | O => []
  | S f =>
      match queue with
      | [] => []
      | t :: rest =>
          match t with
          | TAlt _ bs =>
              let bs' := map into_non_trivial bs in
              filter (fun b => negb (is_disjunctive b)) bs' ++
              alternatives_loop f (rest ++ filter is_disjunctive bs')
          | _ => t :: alternatives_loop f rest
          end
      end
  end.
Definition into_alternatives (t : tok) : list tok :=
  alternatives_loop (S (tsize t)) [into_non_trivial t].

(* FilterAny::any + FilterAnyProgram::try_from_partitions: the exhaustive and nonexhaustive trees *)
Definition not_partition (t : tok) : res (option tok * option tok) :=
  let alts := into_alternatives t in
  do flags <- rmapM (fun a => do w <- is_exhaustive a; Ok (match w with Always => true | _ => false end)) alts;
  let tagged := combine alts flags in
  let ex := map fst (filter (fun p => snd p) tagged) in
  let nx := map fst (filter (fun p => negb (snd p)) tagged) in
  do ext <- match ex with [] => Ok None | _ => rmap Some (any_tree ex) end;
  do nxt <- match nx with [] => Ok None | _ => rmap Some (any_tree nx) end;
  Ok (ext, nxt).

End HasCasing.

(* ---- escape ------------------------------------------------------------------------------------------------- *)
(* is_meta_character: ? * $ : < > ( ) [ ] { } , *)
Definition GLOB_META : str := [63; 42; 36; 58; 60; 62; 40; 41; 91; 93; 123; 125; 44].
Definition is_meta_character (c : char) : bool := mem c GLOB_META.
Definition is_contextual_meta_character (c : char) : bool := N.eqb c 45.

Fixpoint escape (s : str) : str :=
  match s with
  | [] => []
  | c :: r => if is_meta_character c then BSLASH :: c :: escape r else c :: escape r
  end.
