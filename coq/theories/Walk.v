(* Walk.v -- model of directory walks: walkdir's stack machine (src: walkdir 2.5 IntoIter), WalkTree
   (src/walk/mod.rs), the separating-filter layers with their residue transitions (src/filter.rs,
   after the repair: filtrate discarded as a tree becomes *tree* residue), the glob walker's
   component loop and the negation (src/walk/glob.rs), over an abstract directory tree.

   The tree handed to the model is the *resolved view* of a directory under a link policy: a link
   that is followed is the node it resolves to; a dangling or re-entrant link (when links are
   followed) is an error node; a link that is not followed is a leaf. *)
From WaxModel Require Import Base Token.
Local Open Scope nat_scope.

Definition name := str.
Definition rpath := list name.          (* components relative to the root of the walk *)

Inductive node :=
| NFile                                   (* anything that is not descended into *)
| NDir (kids : list (name * node))        (* a readable directory, children in read order *)
| NDirErr                                 (* a directory that cannot be read: the entry, then one error item *)
| NErr.                                   (* reported as an error item instead of an entry *)

Inductive fitem :=
| FI (p : rpath) (n : node)
| FE (p : rpath) (d : nat).               (* a pending error item: path and depth *)
Notation frame := (list fitem).
Notation wd := (list (list fitem)).       (* walkdir's stack_list, innermost first *)

Inductive witem :=
| WEntry (p : rpath) (is_dir : bool) (d : nat)      (* d: walkdir's depth = the position of the list on the stack *)
| WError (p : rpath) (d : nat).

Definition push (p : rpath) (kids : list (name * node)) : frame :=
  map (fun k => FI (p ++ [fst k]) (snd k)) kids.

Definition over (maxd : option nat) (d : nat) : bool :=
  match maxd with Some m => Nat.ltb m d | None => false end.

(* IntoIter::next without the min_depth filter (applied by [run]): a list deeper than max_depth
   is popped unread; a directory is pushed when it is yielded; an unreadable directory pushes a
   list that holds its error. *)
Fixpoint wd_next (maxd : option nat) (st : wd) : option (witem * wd) :=
  match st with
  | [] => None
  | f :: rest =>
      if over maxd (length rest) then wd_next maxd rest
      else
        match f with
        | [] => wd_next maxd rest
        | FE p d :: sibs => Some (WError p d, sibs :: rest)
        | FI p n :: sibs =>
            let d := length rest in
            match n with
            | NFile => Some (WEntry p false d, sibs :: rest)
            | NErr => Some (WError p d, sibs :: rest)
            | NDir kids => Some (WEntry p true d, push p kids :: sibs :: rest)
            | NDirErr => Some (WEntry p true d, [FE p d] :: sibs :: rest)
            end
        end
  end.

(* IntoIter::skip_current_dir *)
Definition wd_skip (st : wd) : wd := tl st.

Definition wd_init (root : node) : wd := [[FI [] root]].

(* ---- layers ---------------------------------------------------------------------------------- *)
Inductive verdict := Keep | VFile | VTree.            (* None / EntryResidue::File / EntryResidue::Tree *)
Inductive tag := Filtrate | RNode | RTree.            (* Separation::Filtrate / TreeResidue::Node / Tree *)

Record entry := mkEntry { e_path : rpath; e_dir : bool }.

(* a layer decides from the entry and from whether it reaches the layer as filtrate or residue
   (the entry presents different root / relative paths in the two cases for prefixed glob walks) *)
Definition layer := entry -> tag -> verdict.

(* Separation::filter_tree_by_substituent: the new tag and whether the walk is cancelled *)
Definition step_layer (v : verdict) (t : tag) : tag * bool :=
  match v, t with
  | Keep, _ => (t, false)
  | VFile, Filtrate => (RNode, false)
  | VFile, _ => (t, false)
  | VTree, Filtrate => (RTree, true)
  | VTree, RNode => (RTree, true)
  | VTree, RTree => (RTree, false)
  end.

(* one entry through the stack of layers: final tag, number of cancellations, and the tag with which
   the entry reached each layer (what every layer observed) *)
Fixpoint through (ls : list layer) (e : entry) (t : tag) (cancels : nat) (seen : list tag) : tag * nat * list tag :=
  match ls with
  | [] => (t, cancels, rev seen)
  | l :: ls' =>
      let '(t', c) := step_layer (l e t) t in
      through ls' e t' (if c then S cancels else cancels) (t :: seen)
  end.

Inductive ritem :=
| REntry (e : entry) (t : tag) (seen : list tag)
| RError (p : rpath) (d : nat).

(* WalkTree + layers driven to exhaustion.  WalkTree::cancel_walk_tree only acts when the most recent
   entry is a directory. *)
Fixpoint run (fuel : nat) (mind : nat) (maxd : option nat) (ls : list layer) (st : wd) : list ritem :=
  match fuel with
  | O => []
  | S fuel' =>
      match wd_next maxd st with
      | None => []
      | Some (WError p d, st') => RError p d :: run fuel' mind maxd ls st'
      | Some (WEntry p is_dir d, st') =>
          if Nat.ltb d mind then run fuel' mind maxd ls st'
          else
            let e := mkEntry p is_dir in
            let '(t, c, seen) := through ls e Filtrate 0 [] in
            let st'' := if is_dir then Nat.iter c wd_skip st' else st' in
            REntry e t seen :: run fuel' mind maxd ls st''
      end
  end.

Fixpoint nsize (n : node) : nat :=
  match n with
  | NDir kids => S ((fix go (ks : list (name * node)) : nat :=
                       match ks with [] => 0 | k :: ks' => nsize (snd k) + go ks' end) kids)
  | NDirErr => 2
  | _ => 1
  end.

Definition walk_fuel (root : node) : nat := 2 * nsize root + 4.

Definition walk (mind : nat) (maxd : option nat) (ls : list layer) (root : node) : list ritem :=
  run (walk_fuel root) mind maxd ls (wd_init root).

(* ---- the specification: pruned pre-order ---------------------------------------------------------- *)
Definition final_tag (ls : list layer) (e : entry) : tag := fst (fst (through ls e Filtrate 0 [])).
Definition seen_tags (ls : list layer) (e : entry) : list tag := snd (through ls e Filtrate 0 []).

(* every entry that has no proper ancestor directory discarded as a tree and whose depth lies in the window,
   in pre-order, once, each with the tag the stack gives it; entries above the minimum depth are not shown to
   any layer (and so cannot be discarded); nothing deeper than the maximum is read; the error of an unreadable
   directory follows the directory unless the directory is discarded as a tree or sits at the maximum depth *)
Definition shown (ls : list layer) (mind : nat) (d : nat) (e : entry) : list ritem :=
  if Nat.ltb d mind then [] else [REntry e (final_tag ls e) (seen_tags ls e)].
Definition pruned (ls : list layer) (mind : nat) (d : nat) (e : entry) : bool :=
  negb (Nat.ltb d mind) && match final_tag ls e with RTree => true | _ => false end.

Fixpoint spec (ls : list layer) (mind : nat) (maxd : option nat) (d : nat) (p : rpath) (n : node) : list ritem :=
  match n with
  | NFile => shown ls mind d (mkEntry p false)
  | NErr => [RError p d]
  | NDirErr =>
      let e := mkEntry p true in
      shown ls mind d e ++ (if pruned ls mind d e || over maxd (S d) then [] else [RError p d])
  | NDir kids =>
      let e := mkEntry p true in
      shown ls mind d e ++
        (if pruned ls mind d e || over maxd (S d) then []
         else (fix go (ks : list (name * node)) : list ritem :=
                 match ks with
                 | [] => []
                 | k :: ks' => spec ls mind maxd (S d) (p ++ [fst k]) (snd k) ++ go ks'
                 end) kids)
  end.

Definition walk_spec (mind : nat) (maxd : option nat) (ls : list layer) (root : node) : list ritem :=
  spec ls mind maxd 0 [] root.

(* ---- concrete layers ------------------------------------------------------------------------------- *)
Fixpoint join_path (p : rpath) : str :=
  match p with
  | [] => []
  | [c] => c
  | c :: p' => c ++ SEP :: join_path p'
  end.

(* the relative path an entry presents: a GlobEntry (filtrate of a glob walk) is relative to the
   directory given to the walk (the prefix components come first); residue is a plain TreeEntry,
   relative to the root of the walk *)
Definition presented (prefix : rpath) (glob_walk : bool) (e : entry) (t : tag) : rpath :=
  match t with
  | Filtrate => if glob_walk then prefix ++ e_path e else e_path e
  | _ => e_path e
  end.

(* GlobWalker's component loop (src/walk/glob.rs): [progs] are the component programs, [complete] the
   complete program; the candidate is the path relative to the directory given to the walk *)
Fixpoint zip_loop (cands : list name) (progs : list (name -> bool)) (whole : bool) : verdict :=
  match cands, progs with
  | [], [] => if whole then Keep else VFile
  | c :: cands', [] => if whole then Keep else VFile                  (* Left: more components than programs *)
  | [], _ :: _ => VFile                                                  (* Right: more programs than components *)
  | c :: cands', pr :: progs' =>
      match cands', progs' with
      | [], [] => if pr c then (if whole then Keep else VFile) else VTree    (* Last / Only, Both *)
      | _, _ => if pr c then zip_loop cands' progs' whole else VTree          (* First / Middle, Both *)
      end
  end.

Definition glob_layer (prefix : rpath) (progs : list (name -> bool)) (complete : str -> bool) : layer :=
  fun e _ =>
    let rel := prefix ++ e_path e in
    let d := Nat.pred (length (e_path e)) in
    zip_loop (skipn d rel) (skipn d progs) (complete (join_path rel)).

(* FilterAnyProgram::residue *)
Definition not_layer (prefix : rpath) (glob_walk : bool) (exh nonexh : option (str -> bool)) : layer :=
  fun e t =>
    let rel := join_path (presented prefix glob_walk e t) in
    match exh with
    | Some f => if f rel then VTree else
                  match nonexh with Some g => if g rel then VFile else Keep | None => Keep end
    | None => match nonexh with Some g => if g rel then VFile else Keep | None => Keep end
    end.

(* filter_entry with a verdict table keyed by the presented relative path *)
Fixpoint table_lookup (tbl : list (str * verdict)) (k : str) : verdict :=
  match tbl with
  | [] => Keep
  | (k', v) :: tbl' => if str_eqb k k' then v else table_lookup tbl' k
  end.
Definition table_layer (prefix : rpath) (glob_walk : bool) (tbl : list (str * verdict)) : layer :=
  fun e t => table_lookup tbl (join_path (presented prefix glob_walk e t)).

(* ---- a glob walk: it starts at the directory the invariant prefix names (GlobWalker / Glob::walk_with_behavior) ---------- *)
Fixpoint lookup (n : node) (p : rpath) : node :=
  match p with
  | [] => n
  | c :: p' =>
      match n with
      | NDir kids =>
          match find (fun k => str_eqb (fst k) c) kids with
          | Some k => lookup (snd k) p'
          | None => NErr
          end
      | _ => NErr
      end
  end.

(* the non-empty components of a path text *)
Fixpoint split_aux (s cur : str) : rpath :=
  match s with
  | [] => if is_nil cur then [] else [rev cur]
  | c :: r =>
      if c =? SEP then (if is_nil cur then split_aux r [] else rev cur :: split_aux r [])
      else split_aux r (c :: cur)
  end.
Definition split_components (s : str) : rpath := split_aux s [].

(* DepthMinMax::min_max_at_pivot: depth behaviours are relative to the directory given to the walk; the walk itself starts
   [pivot] components below it (saturating subtraction) *)
Definition window_at_pivot (mind : nat) (maxd : option nat) (pivot : nat) : nat * option nat :=
  ((mind - pivot)%nat, match maxd with Some m => Some (m - pivot)%nat | None => None end).

(* the directory the walk starts at: the prefix text joined to the directory given; with a trailing separator the
   operating system refuses anything that is not a directory *)
Definition glob_walk_root (root : node) (prefix_text : str) : node :=
  let prefix := split_components prefix_text in
  let ends_sep := match rev prefix_text with c :: _ => c =? SEP | [] => false end in
  match lookup root prefix with
  | NFile => if ends_sep && negb (is_nil prefix) then NErr else NFile
  | n => n
  end.

Definition glob_walk (root : node) (prefix_text : str) (mind : nat) (maxd : option nat)
    (progs : list (name -> bool)) (complete : str -> bool) (rest : list layer) : list ritem :=
  let prefix := split_components prefix_text in
  let '(mn, mx) := window_at_pivot mind maxd (length prefix) in
  walk mn mx (glob_layer prefix progs complete :: rest) (glob_walk_root root prefix_text).
