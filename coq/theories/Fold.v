(* Fold.v -- model of the folds over token trees (src/token/walk.rs fold_with_sequence, and their
   instances in src/token/mod.rs and src/token/variance/mod.rs).

   fold_with_sequence drives a LIFO stack; children are pushed in sequencer order and their terms
   are pushed to the *front* of the parent's queue, so a branch folds the terms of the children the
   sequencer enqueued, in sequencer order; a child whose fold is None contributes no term; no fold
   used by the library has an initializer.  This makes the fold a structural recursion:

     fold f (Leaf l)   = Some (term l)
     fold f (Branch b) = (f.fold b [fold f c | c <- sequencer b, fold f c <> None]).map(f.finalize b)

   Forward enqueues all children in expression order; Starting enqueues the first child of a
   conjunctive branch and all children of an alternation; TreeExhaustiveness enqueues the children
   in *reverse* order while they satisfy a predicate. *)
From WaxModel Require Import Base Token Variance Encode.

Section HasCasing.
(* CharExt::has_casing (after the repair: some case mapping changes the character); a finite table
   regenerated from the built code. *)
Variable has_casing : char -> bool.

(* Repetition::variance() *)
Definition rep_range (lo : N) (hi : option N) : nrange := from_closed_open lo hi.

Definition opt_list {A} (o : option A) : list A := match o with Some a => [a] | None => [] end.

(* ---- depth (TreeVariance<Depth>) -------------------------------------------------------------- *)
Definition depth_leaf (l : leaf) : bterm :=
  match l with
  | LSep => bterm_one
  | LTree _ => bterm_unbounded
  | _ => bterm_zero
  end.

Definition rdisj (a b : bterm) : res bterm := Ok (bterm_disj a b).

Fixpoint depth_fold (t : tok) : res (option bterm) :=
  match t with
  | TLeaf _ l => Ok (Some (depth_leaf l))
  | TAlt _ bs =>
      do terms <- rmapM depth_fold bs;
      rreduce rdisj (flat_map opt_list terms)
  | TCat _ ts =>
      do terms <- rmapM depth_fold ts;
      rreduce bterm_conj (flat_map opt_list terms)
  | TRep _ b lo hi =>
      do term <- depth_fold b;
      do r <- rreduce bterm_conj (opt_list term);
      match r with
      | Some x => do y <- bterm_product x (rep_range lo hi); Ok (Some y)
      | None => Ok None
      end
  end.

(* Token::variance::<Depth>() *)
Definition depth_variance (t : tok) : res nvar :=
  do r <- depth_fold t;
  bterm_finalize (match r with Some x => x | None => bterm_zero end).

(* the final depth term has a closed termination and a variant depth: finalize does not subtract
   the closing boundary from variant ranges (the known class closed_variant_finalize of C10) *)
Definition sterm_closed_variant (s : sterm) : bool :=
  match s with (TClosed, Var _) => true | _ => false end.
Definition depth_closed_variant (t : tok) : bool :=
  match depth_fold t with
  | Ok (Some (BConj s)) => sterm_closed_variant s
  | Ok (Some (BDisj ss)) => existsb sterm_closed_variant ss
  | _ => false
  end.

(* ---- size (TreeVariance<Size>) ------------------------------------------------------------------ *)
Definition size_leaf (l : leaf) : nvar :=
  match l with
  | LLit _ s => Inv (blen s)
  | LSep => Inv 1
  | LClass _ a => match a with [] => Inv 0 | _ => Inv 4 end
  | LOne => Inv 4
  | LZom _ | LTree _ => Var Unbounded
  end.

Fixpoint size_fold (t : tok) : res (option nvar) :=
  match t with
  | TLeaf _ l => Ok (Some (size_leaf l))
  | TAlt _ bs =>
      do terms <- rmapM size_fold bs;
      rreduce nvar_disj (flat_map opt_list terms)
  | TCat _ ts =>
      do terms <- rmapM size_fold ts;
      rreduce nvar_conj (flat_map opt_list terms)
  | TRep _ b lo hi =>
      do term <- size_fold b;
      match term with
      | Some x => do y <- nvar_product x (rep_range lo hi); Ok (Some y)
      | None => Ok None
      end
  end.

Definition size_variance (t : tok) : res nvar :=
  do r <- size_fold t; Ok (match r with Some x => x | None => Inv 0 end).

(* ---- text (TreeVariance<Text>) -------------------------------------------------------------------- *)
Definition arch_text (a : arch) : tvar :=
  match a with
  | AChar c => Inv [FNominal [c]]
  | ARange x y => if N.eqb x y then Inv [FNominal [x]] else Var (Bounded tt)
  end.

Definition text_leaf (l : leaf) : tvar :=
  match l with
  | LLit ci s => if ci && existsb has_casing s then Var (Bounded tt) else Inv [FNominal s]
  | LSep => Inv [FStructural [SEP]]
  | LClass neg a =>
      if neg then Var (Bounded tt)
      else match reduce_pure tvar_disj (map arch_text a) with
           | Some v => v
           | None => Inv []
           end
  | LOne | LZom _ | LTree _ => Var Unbounded
  end.

Fixpoint text_fold (t : tok) : res (option tvar) :=
  match t with
  | TLeaf _ l => Ok (Some (text_leaf l))
  | TAlt _ bs =>
      do terms <- rmapM text_fold bs;
      Ok (reduce_pure tvar_disj (flat_map opt_list terms))
  | TCat _ ts =>
      do terms <- rmapM text_fold ts;
      Ok (reduce_pure tvar_conj (flat_map opt_list terms))
  | TRep _ b lo hi =>
      do term <- text_fold b;
      match term with
      | Some x => do y <- tvar_product x (rep_range lo hi); Ok (Some y)
      | None => Ok None
      end
  end.

Definition text_variance (t : tok) : res tvar :=
  do r <- text_fold t; Ok (match r with Some x => x | None => Inv [] end).

(* ---- has_root (IsRooting, Starting sequencer) ----------------------------------------------------- *)
Fixpoint has_root_fold (t : tok) : option when :=
  match t with
  | TLeaf _ l => Some (when_of_bool (leaf_is_rooting l))
  | TAlt _ bs => reduce_pure when_certainty (flat_map (fun b => opt_list (has_root_fold b)) bs)
  | TCat _ ts =>
      match ts with
      | [] => None
      | t0 :: _ => reduce_pure when_or (opt_list (has_root_fold t0))
      end
  | TRep _ b lo hi =>
      match has_root_fold b with
      | Some w =>
          (* repetition.variance().lower().into_bound().is_unbounded() *)
          match nr_lower (rep_range lo hi) with
          | NBUnb => Some (when_and w Sometimes)
          | _ => Some w
          end
      | None => None
      end
  end.
Definition has_root (t : tok) : when := match has_root_fold t with Some w => w | None => Never end.

(* ---- is_exhaustive (TreeExhaustiveness as sequencer and fold) ----------------------------------------- *)
(* the predicate of the sequencer's take_while *)
Definition exh_takes (t : tok) : bool :=
  match t with
  | TLeaf _ LSep => true
  | TLeaf _ (LZom _) | TLeaf _ (LTree _) => true    (* breadth and text are both unbounded *)
  | TLeaf _ _ => false
  | _ => true
  end.

Fixpoint take_while {A} (p : A -> bool) (l : list A) : list A :=
  match l with
  | [] => []
  | a :: l' => if p a then a :: take_while p l' else []
  end.

(* the leaves of a token through nested concatenations only (walk::forward over a repetition body that holds no other branch) *)
Fixpoint cat_leaves (t : tok) : option (list leaf) :=
  match t with
  | TLeaf _ l => Some [l]
  | TCat _ ts =>
      (fix go (l : list tok) : option (list leaf) :=
         match l with
         | [] => Some []
         | x :: l' => match cat_leaves x, go l' with Some a, Some b => Some (a ++ b) | _, _ => None end
         end) ts
  | _ => None
  end.

(* TreeExhaustiveness::is_unbounded_repetition: no bounds (lower 0, no upper); only tokens that are unbounded in text (`?`, `*`, `$`: no
   boundary, no literal, no class) and, except for at most one of them (`?`), in breadth *)
Definition free_rep (b : tok) (lo : N) (hi : option N) : bool :=
  (lo =? 0) &&
  match hi, cat_leaves b with
  | None, Some ls =>
      forallb (fun l => match l with LOne | LZom _ => true | _ => false end) ls &&
      Nat.leb (length (filter (fun l => match l with LOne => true | _ => false end) ls)) 1
  | _, _ => false
  end.

(* TreeExhaustiveness::is_unbounded_tree *)
Fixpoint all_unbounded (t : tok) : bool :=
  match t with
  | TLeaf _ _ => exh_takes t
  | TAlt _ bs => forallb all_unbounded bs
  | TCat _ ts => forallb all_unbounded ts
  | TRep _ b lo hi => free_rep b lo hi || all_unbounded b
  end.

(* TreeExhaustiveness::is_bounded_branch *)
Definition bounded_branch (t : tok) : bool := is_branch t && negb (all_unbounded t).

(* TreeExhaustiveness::enqueue on the reversed children (after the repairs): leaves are taken while
   they are unbounded; a branch is always taken, and in a conjunctive parent a bounded branch is the
   last token taken *)
Fixpoint take_exh {A} (conj : bool) (l : list (tok * A)) : list (tok * A) :=
  match l with
  | [] => []
  | (t, a) :: l' =>
      match t with
      | TLeaf _ _ => if exh_takes t then (t, a) :: take_exh conj l' else []
      | _ => if conj && bounded_branch t then [(t, a)] else (t, a) :: take_exh conj l'
      end
  end.

Definition exh_maybe (o : option bterm) : bool :=
  match o with
  | Some t => match bterm_is_exhaustive t with Never => false | _ => true end
  | None => false
  end.

(* TokenVariance<Depth>::is_contiguous (after the repair): zero, one, or no upper bound and a lower bound of at most one *)
Definition nvar_contiguous (v : nvar) : bool :=
  match v with
  | Inv n => (n =? 0) || (n =? 1)
  | Var Unbounded => true
  | Var (Bounded (BLower n)) => n <=? 1
  | Var (Bounded _) => false
  end.

(* BoundaryTerm<Depth>::is_contiguous: the depth term of a repetition is only multiplied when every branch of it is contiguous *)
Definition exh_rep_finalizes (t : bterm) : bool :=
  match t with
  | BConj s => nvar_contiguous (snd s)
  | BDisj ss => forallb (fun s => nvar_contiguous (snd s)) ss
  end.

Fixpoint exh_fold (t : tok) : res (option bterm) :=
  match t with
  | TLeaf _ l => Ok (Some (depth_leaf l))
  | TAlt _ bs =>
      let enq := take_exh false (rev (combine bs (map exh_fold bs))) in
      do terms0 <- rmapM snd enq;
      let terms := flat_map opt_list terms0 in
      do sum <- rreduce rdisj terms;
      if Nat.eqb (length bs) (length terms) then Ok sum
      else if exh_maybe sum then Ok sum else Ok (Some bterm_zero)
  | TCat _ ts =>
      let enq := take_exh true (rev (combine ts (map exh_fold ts))) in
      do terms0 <- rmapM snd enq;
      let terms := flat_map opt_list terms0 in
      do sum <- rreduce bterm_conj terms;
      if Nat.eqb (length ts) (length terms) then Ok sum
      else if exh_maybe sum then Ok sum else Ok (Some bterm_zero)
  | TRep _ b lo hi =>
      let enq := take_exh true [(b, exh_fold b)] in
      do terms0 <- rmapM snd enq;
      let terms := flat_map opt_list terms0 in
      do sum <- rreduce bterm_conj terms;
      let folded :=
        if Nat.eqb 1 (length terms) then sum
        else if exh_maybe sum then sum else Some bterm_zero in
      match folded with
      | Some x =>
          (* the bounds only multiply the depth of a body whose tokens are all unbounded in breadth and text (after the repair) *)
          if bounded_branch b then Ok (Some x)
          else if exh_rep_finalizes x then do y <- bterm_product x (rep_range lo hi); Ok (Some y)
          else Ok (Some x)
      | None => Ok None
      end
  end.

Definition is_exhaustive (t : tok) : res when :=
  do r <- exh_fold t;
  Ok (match r with Some x => bterm_is_exhaustive x | None => Never end).

End HasCasing.
