(* Rule.v -- model of src/rule.rs `check` (after the repairs: the outer tokens travel with each
   queued branch; adjacent boundaries are looked for within each concatenation). *)
From WaxModel Require Import Base Token Variance Fold.

Inductive rule_kind :=
| RootedSubGlob
| SingularTree
| SingularZeroOrMore
| AdjacentBoundary
| AdjacentZeroOrMore
| OversizedInvariant
| IncompatibleBounds.

Definition MAX_INVARIANT_SIZE : N := 65536.

(* SpanExt::union *)
Definition span_union (a b : span) : span :=
  let start := N.min (fst a) (fst b) in
  let end_ := N.max (fst a + snd a) (fst b + snd b) in
  (start, end_ - start).

Fixpoint first_some_l {A B} (f : A -> option B) (l : list A) : option B :=
  match l with
  | [] => None
  | a :: l' => match f a with Some b => Some b | None => first_some_l f l' end
  end.

(* ---- boundary ------------------------------------------------------------------------------------- *)
Fixpoint adjacent_boundary (ts : list tok) : option span :=
  match ts with
  | a :: ((b :: _) as rest) =>
      if is_boundary a && is_boundary b then Some (span_union (tspan a) (tspan b))
      else adjacent_boundary rest
  | _ => None
  end.

Definition rule_boundary (t : tok) : option (rule_kind * span) :=
  match first_some_l (fun x => match x with TCat _ ts => adjacent_boundary ts | _ => None end) (bfs t) with
  | Some sp => Some (AdjacentBoundary, sp)
  | None => None
  end.

(* ---- bounds ------------------------------------------------------------------------------------------ *)
Definition bad_bounds (t : tok) : bool :=
  match t with
  | TRep _ _ lo (Some hi) => (hi <? lo) || ((lo =? 0) && (hi =? 0))
  | _ => false
  end.

Definition rule_bounds (t : tok) : option (rule_kind * span) :=
  match find bad_bounds (bfs t) with
  | Some x => Some (IncompatibleBounds, tspan x)
  | None => None
  end.

(* ---- branch -------------------------------------------------------------------------------------------- *)
(* walk::starting(token).any(p) / walk::ending(token).any(p) for a predicate on leaves:
   Starting enqueues the first child of a conjunctive branch and every child of an alternation;
   Ending enqueues the last child of a conjunctive branch and every child of an alternation. *)
Fixpoint starts_with (p : tok -> bool) (t : tok) : bool :=
  p t ||
  match t with
  | TLeaf _ _ => false
  | TAlt _ bs => existsb (starts_with p) bs
  | TCat _ ts => match ts with t0 :: _ => starts_with p t0 | [] => false end
  | TRep _ b _ _ => starts_with p b
  end.

Fixpoint ends_with (p : tok -> bool) (t : tok) : bool :=
  p t ||
  match t with
  | TLeaf _ _ => false
  | TAlt _ bs => existsb (ends_with p) bs
  | TCat _ ts => (fix last_ends (l : list tok) : bool :=
                    match l with
                    | [] => false
                    | [x] => ends_with p x
                    | _ :: l' => last_ends l'
                    end) ts
  | TRep _ b _ _ => ends_with p b
  end.

Definition opt_any (f : tok -> bool) (o : option tok) : bool :=
  match o with Some t => f t | None => false end.

Definition has_starting_boundary := opt_any (starts_with is_boundary).
Definition has_ending_boundary := opt_any (ends_with is_boundary).
Definition has_starting_zom := opt_any (starts_with is_zom).
Definition has_ending_zom := opt_any (ends_with is_zom).

Record outer := mkOuter { o_left : option tok; o_right : option tok }.
Definition outer_default := mkOuter None None.
Definition opt_or {A} (a b : option A) : option A := match a with Some _ => a | None => b end.
Definition outer_or (o : outer) (l r : option tok) : outer :=
  mkOuter (opt_or l (o_left o)) (opt_or r (o_right o)).

(* Terminals of a concatenation *)
Inductive terminals := TermOnly (t : tok) | TermStartEnd (s e : tok).
Definition terminals_of (ts : list tok) : option terminals :=
  match ts with
  | [] => None
  | [t] => Some (TermOnly t)
  | s :: rest => match last_opt rest with Some e => Some (TermStartEnd s e) | None => None end
  end.

Definition is_rooted_tree (t : tok) : bool := match t with TLeaf _ (LTree true) => true | _ => false end.
Definition isSome {A} (o : option A) := match o with Some _ => true | None => false end.

(* check_branch: the arms of the match in order; the first arm whose pattern and guard hold decides *)
Definition check_branch (tm : terminals) (o : outer) : option rule_kind :=
  let l := o_left o in let r := o_right o in
  match tm with
  | TermOnly t =>
      if is_sep t && has_ending_boundary l then Some AdjacentBoundary
      else if is_sep t && has_starting_boundary r then Some AdjacentBoundary
      else if is_tree t then Some SingularTree
      else if is_zom t && has_ending_zom l then Some AdjacentZeroOrMore
      else if is_zom t && has_starting_zom r then Some AdjacentZeroOrMore
      else None
  | TermStartEnd s e =>
      if is_sep s && has_ending_boundary l then Some AdjacentBoundary
      else if is_sep e && has_starting_boundary r then Some AdjacentBoundary
      else if is_tree s && has_ending_boundary l then Some AdjacentBoundary
      else if is_tree e && has_starting_boundary r then Some AdjacentBoundary
      else if is_zom s && has_ending_zom l then Some AdjacentZeroOrMore
      else if is_zom e && has_starting_zom r then Some AdjacentZeroOrMore
      else None
  end.

Definition check_alternation (tm : terminals) (o : outer) : option rule_kind :=
  let first := match tm with TermOnly t => t | TermStartEnd s _ => s end in
  if (is_sep first || is_rooted_tree first) && negb (isSome (o_left o)) then Some RootedSubGlob
  else None.

Definition check_repetition (tm : terminals) (o : outer) (lo : N) (hi : option N) : option rule_kind :=
  let first := match tm with TermOnly t => t | TermStartEnd s _ => s end in
  let lower_unbounded := match nr_lower (rep_range lo hi) with NBUnb => true | _ => false end in
  if (is_sep first || is_rooted_tree first) && negb (isSome (o_left o)) && lower_unbounded
  then Some RootedSubGlob
  else match tm with
       | TermStartEnd s e =>
           if is_boundary s && is_boundary e then Some AdjacentBoundary else None
       | TermOnly t =>
           if is_sep t then Some AdjacentBoundary
           else if is_zom t then Some SingularZeroOrMore
           else None
       end.

(* the (left, token, right) triples of a concatenation (Adjacency::into_tuple) *)
Fixpoint adjacent_aux (left : option tok) (ts : list tok) : list (option tok * tok * option tok) :=
  match ts with
  | [] => []
  | t :: rest => (left, t, match rest with r :: _ => Some r | [] => None end) :: adjacent_aux (Some t) rest
  end.
Definition adjacent (ts : list tok) := adjacent_aux None ts.

Definition opt_first {A} (a b : option A) : option A := match a with Some _ => a | None => b end.

(* one queued item: examine the branch tokens of its concatenation, in order; returns the first
   error and the items to enqueue *)
Definition branch_item (item : outer * tok) : option (rule_kind * span) * list (outer * tok) :=
  let '(parent, token) := item in
  fold_left
    (fun (acc : option (rule_kind * span) * list (outer * tok)) (x : option tok * tok * option tok) =>
       let '(err, q) := acc in
       let '(l, t, r) := x in
       match t with
       | TAlt sp bs =>
           let o := outer_or parent l r in
           let e := first_some_l
                      (fun b => match terminals_of (concatenation b) with
                                | Some tm => opt_first (check_branch tm o) (check_alternation tm o)
                                | None => None
                                end) bs in
           (opt_first err (option_map (fun k => (k, sp)) e), q ++ map (fun b => (o, b)) bs)
       | TRep sp b lo hi =>
           let o := outer_or parent l r in
           let e := match terminals_of (concatenation b) with
                    | Some tm => opt_first (check_branch tm o) (check_repetition tm o lo hi)
                    | None => None
                    end in
           (opt_first err (option_map (fun k => (k, sp)) e), q ++ [(o, b)])
       | _ => acc
       end)
    (adjacent (concatenation token)) (None, []).

Fixpoint branch_loop (fuel : nat) (queue : list (outer * tok)) : option (rule_kind * span) :=
  match fuel with
  | O => None
  | S f =>
      match queue with
      | [] => None
      | item :: rest =>
          let '(err, more) := branch_item item in
          match err with
          | Some e => Some e
          | None => branch_loop f (rest ++ more)
          end
      end
  end.

Definition rule_branch (t : tok) : option (rule_kind * span) :=
  branch_loop (S (tsize t)) [(outer_default, t)].

(* ---- size ------------------------------------------------------------------------------------------------ *)
Fixpoint rule_size_list (l : list tok) : res (option (rule_kind * span)) :=
  match l with
  | [] => Ok None
  | x :: l' =>
      do v <- size_variance x;
      match v with
      | Inv n => if MAX_INVARIANT_SIZE <=? n then Ok (Some (OversizedInvariant, tspan x)) else rule_size_list l'
      | _ => rule_size_list l'
      end
  end.
Definition rule_size (t : tok) : res (option (rule_kind * span)) := rule_size_list (bfs t).

(* ---- check ------------------------------------------------------------------------------------------------- *)
Definition check (t : tok) : res (option (rule_kind * span)) :=
  match rule_boundary t with
  | Some e => Ok (Some e)
  | None =>
  match rule_bounds t with
  | Some e => Ok (Some e)
  | None =>
  match rule_branch t with
  | Some e => Ok (Some e)
  | None => rule_size t
  end end end.
