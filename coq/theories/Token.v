(* Token.v -- the token tree of src/token/mod.rs (Token / TokenTopology / BranchKind / LeafKind),
   without lifetimes.  Every token carries its annotation (a byte span (start, length)); for the
   unannotated trees of the `any` combinator the span is (0, 0). *)
From WaxModel Require Import Base.

Definition span := (N * N)%type.

Inductive arch :=
| AChar (c : char)
| ARange (a b : char).

Inductive leaf :=
| LLit (ci : bool) (s : str)           (* Literal { text, is_case_insensitive } *)
| LSep                                  (* Separator *)
| LClass (neg : bool) (a : list arch)   (* Class { is_negated, archetypes } *)
| LOne                                  (* Wildcard::One *)
| LZom (lazy : bool)                    (* Wildcard::ZeroOrMore(Eager | Lazy) *)
| LTree (root : bool).                  (* Wildcard::Tree { has_root } *)

Inductive tok :=
| TLeaf (sp : span) (l : leaf)
| TAlt (sp : span) (bs : list tok)                     (* Alternation *)
| TCat (sp : span) (ts : list tok)                     (* Concatenation *)
| TRep (sp : span) (b : tok) (lo : N) (hi : option N). (* Repetition { token, lower, upper } *)

Definition tspan (t : tok) : span :=
  match t with
  | TLeaf sp _ | TAlt sp _ | TCat sp _ | TRep sp _ _ _ => sp
  end.

(* Token::concatenation *)
Definition concatenation (t : tok) : list tok :=
  match t with TCat _ ts => ts | _ => [t] end.

(* BranchKind::tokens().into_inner() *)
Definition children (t : tok) : list tok :=
  match t with
  | TLeaf _ _ => []
  | TAlt _ bs => bs
  | TCat _ ts => ts
  | TRep _ b _ _ => [b]
  end.

Definition is_branch (t : tok) : bool := match t with TLeaf _ _ => false | _ => true end.
Definition is_disjunctive (t : tok) : bool := match t with TAlt _ _ => true | _ => false end.
Definition is_cat (t : tok) : bool := match t with TCat _ _ => true | _ => false end.

(* LeafKind::boundary / Token::boundary *)
Inductive boundary := BComponent | BSeparator.
Definition leaf_boundary (l : leaf) : option boundary :=
  match l with LSep => Some BSeparator | LTree _ => Some BComponent | _ => None end.
Definition tboundary (t : tok) : option boundary :=
  match t with TLeaf _ l => leaf_boundary l | _ => None end.
Definition is_boundary (t : tok) : bool := match tboundary t with Some _ => true | None => false end.

Definition leaf_is_rooting (l : leaf) : bool :=
  match l with LSep => true | LTree true => true | _ => false end.

Definition leaf_is_capturing (l : leaf) : bool :=
  match l with LClass _ _ | LOne | LZom _ | LTree _ => true | _ => false end.
Definition is_capturing (t : tok) : bool :=
  match t with
  | TLeaf _ l => leaf_is_capturing l
  | TAlt _ _ | TRep _ _ _ _ => true
  | TCat _ _ => false
  end.

Definition is_literal (t : tok) : bool := match t with TLeaf _ (LLit _ _) => true | _ => false end.
Definition is_zom (t : tok) : bool := match t with TLeaf _ (LZom _) => true | _ => false end.
Definition is_tree (t : tok) : bool := match t with TLeaf _ (LTree _) => true | _ => false end.
Definition is_sep (t : tok) : bool := match t with TLeaf _ LSep => true | _ => false end.

(* Token::empty / Token::is_empty *)
Definition tok_empty : tok := TLeaf (0, 0) (LLit false []).
Definition tok_is_empty (t : tok) : bool :=
  match t with TLeaf _ (LLit false []) => true | _ => false end.

(* number of nodes; used as fuel for breadth-first traversals *)
Fixpoint tsize (t : tok) : nat :=
  match t with
  | TLeaf _ _ => 1
  | TAlt _ bs => S (fold_right (fun b a => tsize b + a)%nat 0%nat bs)
  | TCat _ ts => S (fold_right (fun b a => tsize b + a)%nat 0%nat ts)
  | TRep _ b _ _ => S (tsize b)
  end.

(* Token::has_boundary: any token of the tree is a boundary (walk::forward(...).any) *)
Fixpoint has_boundary (t : tok) : bool :=
  match t with
  | TLeaf _ l => match leaf_boundary l with Some _ => true | None => false end
  | TAlt _ bs => existsb has_boundary bs
  | TCat _ ts => existsb has_boundary ts
  | TRep _ b _ _ => has_boundary b
  end.

(* A proper induction principle for the nested inductive. *)
Section tok_ind.
  Variable P : tok -> Prop.
  Hypothesis Hleaf : forall sp l, P (TLeaf sp l).
  Hypothesis Halt : forall sp bs, Forall P bs -> P (TAlt sp bs).
  Hypothesis Hcat : forall sp ts, Forall P ts -> P (TCat sp ts).
  Hypothesis Hrep : forall sp b lo hi, P b -> P (TRep sp b lo hi).
  Fixpoint tok_ind' (t : tok) : P t :=
    match t with
    | TLeaf sp l => Hleaf sp l
    | TAlt sp bs => Halt sp bs ((fix go (l : list tok) : Forall P l :=
                      match l with [] => Forall_nil P | x :: l' => Forall_cons x (tok_ind' x) (go l') end) bs)
    | TCat sp ts => Hcat sp ts ((fix go (l : list tok) : Forall P l :=
                      match l with [] => Forall_nil P | x :: l' => Forall_cons x (tok_ind' x) (go l') end) ts)
    | TRep sp b lo hi => Hrep sp b lo hi (tok_ind' b)
    end.
End tok_ind.

(* Breadth-first (level-order) enumeration of a tree: the order of [token::walk::Walk] with the
   [Forward] sequencer (a FIFO queue). *)
Fixpoint bfs_levels (fuel : nat) (level : list tok) : list tok :=
  match fuel with
  | O => level
  | S f => match level with
           | [] => []
           | _ => level ++ bfs_levels f (flat_map children level)
           end
  end.
Definition bfs (t : tok) : list tok := bfs_levels (tsize t) [t].

(* fold_map(|_| ()) : forget annotations (the `any` combinator). *)
Fixpoint unannotate (t : tok) : tok :=
  match t with
  | TLeaf _ l => TLeaf (0, 0) l
  | TAlt _ bs => TAlt (0, 0) (map unannotate bs)
  | TCat _ ts => TCat (0, 0) (map unannotate ts)
  | TRep _ b lo hi => TRep (0, 0) (unannotate b) lo hi
  end.
