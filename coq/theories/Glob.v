(* Glob.v -- the build pipeline of src/lib.rs: Glob::new = parse, rule::check, encode::compile. *)
From WaxModel Require Import Base Token Parse Regex Encode Variance Fold Rule Query.

(* The nesting limit of the regex-syntax parser (ParserBuilder::nest_limit default). *)
Definition REGEX_NEST_LIMIT : N := 250.

Inductive build_result :=
| BuildOk (t : tok) (r : re)
| BuildParseErr (locs : list span)
| BuildRuleErr (k : rule_kind) (sp : span)
| BuildPanic (s : panic_site)
| BuildFuel.

(* Regex::new fails (other than by size) exactly when a counted repetition exceeds u32::MAX or the
   nesting limit is exceeded; the implementation then panics. *)
Definition compile_ok (r : re) : bool := rep_in_limits r && (re_nest r <=? REGEX_NEST_LIMIT).

Definition build (e : str) : build_result :=
  match parse e with
  | ParseFuel => BuildFuel
  | ParseErr locs => BuildParseErr locs
  | ParseOk t =>
      match check t with
      | Panic s => BuildPanic s
      | Ok (Some (k, sp)) => BuildRuleErr k sp
      | Ok None =>
          let r := encode t in
          if compile_ok r then BuildOk t r else BuildPanic PanicCompile
      end
  end.
