(* Spec.v -- the documented language of a token tree, stated without regular expressions.

   [Expands t x]   : the flat leaf sequence [x] is obtained from [t] by choosing one branch of every
                     alternation and writing every repetition body out a permitted number of times.
   [FlatMatch f l x w] : the text [w] splits into one piece per leaf of [x]; a literal matches itself
                     (up to case folding when its flag says so), `/` matches one separator, `?`, `*`
                     and classes match one / any number of / one listed non-separator character(s),
                     and a tree wildcard matches zero or more complete components delimited by
                     separators or by the ends of the path, according to its position in the *flat*
                     sequence ([f]: nothing precedes the sequence, [l]: nothing follows it).
   [Lang t w]      := exists x, Expands t x /\ FlatMatch true true x w.

   [spec_match] is an executable decision procedure for [Lang] used by the correspondence check as
   the oracle (and proved sound and complete for the flat semantics on the fragment stated below). *)
From WaxModel Require Import Base Token Regex.

Section Spec.
Variable orbit : char -> list char.

Definition starts_sep (w : str) : bool := match w with c :: _ => N.eqb c SEP | [] => false end.
Definition ends_sep (w : str) : bool := starts_sep (rev w).

(* The language of a tree wildcard by flat position (DESIGN 5.3):
     only leaf         : unrooted  everything            rooted  `/` everything
     first, not last   : unrooted  "" or ...`/`          rooted  `/`...`/` (or `/`)
     neither           : `/` or `/`...`/`
     last, not first   : "" or `/`...                                                  *)
Definition tree_piece (first last root : bool) (w : str) : bool :=
  let lead := (first && negb root) || starts_sep w || (last && negb (first && root) && is_nil w) in
  let trail := last || ends_sep w || (first && negb root && is_nil w) in
  lead && trail.

Definition nosep (w : str) : bool := forallb (fun c => negb (N.eqb c SEP)) w.

(* one leaf against one piece *)
Definition leaf_piece (first last : bool) (l : leaf) (u : str) : Prop :=
  match l with
  | LLit ci s => lit_sem orbit ci s u
  | LSep => u = [SEP]
  | LClass neg a => exists c, u = [c] /\ class_match neg a c = true
  | LOne => exists c, u = [c] /\ c <> SEP
  | LZom _ => nosep u = true
  | LTree root => tree_piece first last root u = true
  end.

Inductive FlatMatch : bool -> bool -> list leaf -> str -> Prop :=
| FM_nil f l : FlatMatch f l [] []
| FM_cons f l a x u v :
    leaf_piece f (l && is_nil x) a u -> FlatMatch false l x v -> FlatMatch f l (a :: x) (u ++ v).

Inductive Expands : tok -> list leaf -> Prop :=
| E_leaf sp l : Expands (TLeaf sp l) [l]
| E_alt sp bs b x : In b bs -> Expands b x -> Expands (TAlt sp bs) x
| E_cat sp ts xs : Forall2 Expands ts xs -> Expands (TCat sp ts) (concat xs)
| E_rep sp b lo hi xs :
    in_bounds (length xs) lo hi -> Forall (Expands b) xs -> Expands (TRep sp b lo hi) (concat xs).

Definition Lang (t : tok) (w : str) : Prop := exists x, Expands t x /\ FlatMatch true true x w.

(* ---- executable oracle ---------------------------------------------------------------------- *)
(* The state of a left-to-right scan of a flat sequence that is generated on the fly:
   QStart  : no leaf yet;  QMid : some leaf, no obligation;
   QNeed   : the last leaf was a tree wildcard matched as "not last": another leaf must follow;
   QClosed : the last leaf was a tree wildcard matched as "last": no leaf may follow. *)
Inductive fstate := QStart | QMid | QNeed | QClosed.

Definition K := str -> fstate -> bool.

Fixpoint splits (w : str) : list (str * str) :=
  match w with
  | [] => [([], [])]
  | c :: w' => ([], w) :: map (fun p => (c :: fst p, snd p)) (splits w')
  end.

Definition is_closed (q : fstate) : bool := match q with QClosed => true | _ => false end.
Definition is_start (q : fstate) : bool := match q with QStart => true | _ => false end.

Definition leaf_sm (l : leaf) (w : str) (q : fstate) (k : K) : bool :=
  if is_closed q then false else
  match l with
  | LLit ci s => match lit_match orbit ci s w with Some w' => k w' QMid | None => false end
  | LSep => match w with c :: w' => N.eqb c SEP && k w' QMid | [] => false end
  | LClass neg a => match w with c :: w' => class_match neg a c && k w' QMid | [] => false end
  | LOne => match w with c :: w' => negb (N.eqb c SEP) && k w' QMid | [] => false end
  | LZom _ => existsb (fun p => nosep (fst p) && k (snd p) QMid) (splits w)
  | LTree root =>
      existsb (fun p =>
        (tree_piece (is_start q) true root (fst p) && k (snd p) QClosed) ||
        (tree_piece (is_start q) false root (fst p) && k (snd p) QNeed)) (splits w)
  end.

(* [opt] further optional iterations, then stop *)
Fixpoint rep_opt (body : str -> fstate -> K -> bool) (opt : nat) (w : str) (q : fstate) (k : K) : bool :=
  k w q ||
  match opt with
  | O => false
  | S o => body w q (fun w' q' => rep_opt body o w' q' k)
  end.

Fixpoint rep_req (body : str -> fstate -> K -> bool) (req opt : nat) (w : str) (q : fstate) (k : K) : bool :=
  match req with
  | O => rep_opt body opt w q k
  | S r => body w q (fun w' q' => rep_req body r opt w' q' k)
  end.

Fixpoint sm (t : tok) (w : str) (q : fstate) (k : K) {struct t} : bool :=
  match t with
  | TLeaf _ l => leaf_sm l w q k
  | TAlt _ bs => existsb (fun b => sm b w q k) bs
  | TCat _ ts =>
      (fix go (ts : list tok) (w : str) (q : fstate) : bool :=
         match ts with
         | [] => k w q
         | t0 :: ts' => sm t0 w q (fun w' q' => go ts' w' q')
         end) ts w q
  | TRep _ b lo hi =>
      (* iterations that neither consume text nor change the scan state can be dropped; every other iteration
         lowers 2 * (remaining text) + rank of the scan state, so [2 * length w + 4] optional iterations are enough
         for an unbounded upper bound (SpecMatchFacts.spec_match_complete) *)
      let slack := (2 * length w + 4)%nat in
      let opt := match hi with
                 | Some h => Nat.min (N.to_nat (h - lo)) slack
                 | None => slack
                 end in
      (match hi with Some h => lo <=? h | None => true end) && rep_req (sm b) (N.to_nat lo) opt w q k
  end.

Definition spec_match (t : tok) (w : str) : bool :=
  sm t w QStart (fun w' q => is_nil w' && match q with QNeed => false | _ => true end).

End Spec.

(* ---- the classes in which the encoder's local view of a tree wildcard's position is exact ------ *)
(* [fnull t]: some expansion of [t] is the empty sequence *)
Fixpoint fnull (t : tok) : bool :=
  match t with
  | TLeaf _ _ => false
  | TAlt _ bs => existsb fnull bs
  | TCat _ ts => forallb fnull ts
  | TRep _ b lo _ => (lo =? 0) || fnull b
  end.

(* the possible truth values of "nothing precedes (follows) this occurrence in the flat sequence" *)
Record poss := mkPoss { can_t : bool; can_f : bool }.
Definition poss_of (b : bool) : poss := mkPoss b (negb b).
Definition poss_ok (assumed : bool) (p : poss) : bool :=
  if assumed then negb (can_f p) else negb (can_t p).
Definition poss_add_f (p : poss) : poss := mkPoss (can_t p) true.

Definition can_repeat (hi : option N) : bool := match hi with Some h => 2 <=? h | None => true end.

(* [stable_gen strict t s ps e pe]: every tree wildcard of [t] is encoded for the position it has in every
   expansion, when [t] is encoded with edges (s, e) and may really be first / last as [ps] / [pe]; with [strict],
   moreover no rooted tree wildcard is encoded as "first, not last" (the form `[/].*[/]?` pinned by the suite). *)
Fixpoint stable_gen (strict : bool) (t : tok) (s : bool) (ps : poss) (e : bool) (pe : poss) {struct t} : bool :=
  match t with
  | TLeaf _ (LTree root) => poss_ok s ps && poss_ok e pe && negb (strict && root && s && negb e)
  | TLeaf _ _ => true
  | TAlt _ bs => forallb (fun b => stable_gen strict b s ps e pe) bs
  | TCat _ ts =>
      (* [pre]: every element so far may be empty *)
      (fix go (ts : list tok) (first pre : bool) : bool :=
         match ts with
         | [] => true
         | t0 :: ts' =>
             let last := is_nil ts' in
             let post := forallb fnull ts' in
             let ps0 := if first then ps else mkPoss (can_t ps && pre) true in
             let pe0 := if last then pe else mkPoss (can_t pe && post) true in
             stable_gen strict t0 (s && first) ps0 (e && last) pe0 && go ts' false (pre && fnull t0)
         end) ts true true
  | TRep _ b lo hi =>
      let again := can_repeat hi in
      stable_gen strict b s (if again then poss_add_f ps else ps) e (if again then poss_add_f pe else pe)
  end.

Definition stable := stable_gen false.
Definition trees_stable (t : tok) : bool := stable t true (poss_of true) true (poss_of true).
(* the class in which the encoder is proved to agree with the documented language *)
Definition trees_exact (t : tok) : bool := stable_gen true t true (poss_of true) true (poss_of true).

(* the tree wildcards of [t] with the edges the encoder gives them: (root, starting, ending) *)
Fixpoint tree_ctxs (t : tok) (s e : bool) {struct t} : list (bool * bool * bool) :=
  match t with
  | TLeaf _ (LTree root) => [(root, s, e)]
  | TLeaf _ _ => []
  | TAlt _ bs => flat_map (fun b => tree_ctxs b s e) bs
  | TCat _ ts =>
      (fix go (ts : list tok) (first : bool) : list (bool * bool * bool) :=
         match ts with
         | [] => []
         | t0 :: ts' => tree_ctxs t0 (s && first) (e && is_nil ts') ++ go ts' false
         end) ts true
  | TRep _ b _ _ => tree_ctxs b s e
  end.

(* a rooted tree wildcard that begins the expression and is followed by something is encoded
   `[/].*[/]?` (pinned by the suite): the known class rooted_first_tree *)
Definition rooted_first_tree (t : tok) : bool :=
  existsb (fun x => match x with (root, s, e) => root && s && negb e end) (tree_ctxs t true true).

(* a class with a reversed range (`[b-a]`): the class program fails to compile and the encoder falls
   back to a pattern that matches nothing for the whole class: the known class reversed_class_range *)
Fixpoint has_reversed_range (t : tok) : bool :=
  match t with
  | TLeaf _ (LClass _ a) => negb (forallb arch_valid a)
  | TLeaf _ _ => false
  | TAlt _ bs => existsb has_reversed_range bs
  | TCat _ ts => existsb has_reversed_range ts
  | TRep _ b _ _ => has_reversed_range b
  end.

(* some expansion of the tree ends with a separator: such patterns match the empty path or `/`
   through their last separator, but not what lies beneath (the known class trailing_boundary) *)
Fixpoint may_end_sep (t : tok) : bool :=
  match t with
  | TLeaf _ LSep => true
  | TLeaf _ _ => false
  | TAlt _ bs => existsb may_end_sep bs
  | TCat _ ts =>
      (fix go (ts : list tok) : bool :=
         match ts with
         | [] => false
         | t0 :: r => if forallb fnull r then may_end_sep t0 || go r else go r
         end) ts
  | TRep _ b _ _ => may_end_sep b
  end.

(* some repetition may be written out zero times *)
Fixpoint has_optional_rep (t : tok) : bool :=
  match t with
  | TLeaf _ _ => false
  | TAlt _ bs => existsb has_optional_rep bs
  | TCat _ ts => existsb has_optional_rep ts
  | TRep _ b lo hi => (lo =? 0) || (match hi with Some h => h =? 0 | None => false end) || has_optional_rep b
  end.
