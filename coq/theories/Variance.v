(* Variance.v -- model of src/token/variance/{mod,natural,ops}.rs and invariant/{mod,term,text}.rs:
   natural ranges, token variance (depth, size, text), boundary terms, and their conjunction /
   disjunction / product, with every `expect`, `unreachable!()` and checked operation made an
   explicit [Panic] outcome.  `usize` is [N]; NonZeroUsize is an [N] known to be positive. *)
From WaxModel Require Import Base Token.

(* ---- natural ranges (natural.rs) ------------------------------------------------------------- *)
Inductive bvr :=                 (* BoundedVariantRange *)
| BLower (n : N)                 (* [n, inf)   n > 0 *)
| BUpper (n : N)                 (* [0, n]     n > 0 *)
| BBoth (lo ext : N).            (* [lo, lo + ext]  lo, ext > 0 *)

Inductive bnd (B : Type) := Bounded (b : B) | Unbounded.   (* Boundedness<B> *)
Arguments Bounded {B} b.
Arguments Unbounded {B}.

Inductive var (T B : Type) := Inv (t : T) | Var (b : bnd B).   (* Variance<T, Boundedness<B>> *)
Arguments Inv {T B} t.
Arguments Var {T B} b.

Definition vrange := bnd bvr.            (* VariantRange *)
Definition nrange := var N bvr.          (* NaturalRange *)

(* NaturalBound = Variance<Zero, NonZeroBound> *)
Inductive nbound := NBZero | NBUnb | NBNum (n : N).

Definition bvr_eqb (a b : bvr) : bool :=
  match a, b with
  | BLower x, BLower y => N.eqb x y
  | BUpper x, BUpper y => N.eqb x y
  | BBoth l e, BBoth l' e' => N.eqb l l' && N.eqb e e'
  | _, _ => false
  end.

(* BoundedVariantRange::try_from_lower_and_upper *)
Definition try_lower_upper (lower : N) (upper : option N) : option bvr :=
  let u := match upper with Some u => u | None => 0 end in
  if (lower =? 0) && (u =? 0) then None
  else if u =? 0 then Some (BLower lower)
  else if lower =? 0 then Some (BUpper u)
  else if lower <? u then Some (BBoth lower (u - lower))
  else None.

(* NaturalRange::from_closed_and_open *)
Definition from_closed_open (closed : N) (open : option N) : nrange :=
  let '(lower, upper) :=
    match open with
    | Some o => if o <? closed then (o, Some closed) else (closed, Some o)
    | None => (closed, None)
    end in
  match lower, upper with
  | 0, None => Var Unbounded
  | _, _ => match try_lower_upper lower upper with
            | Some r => Var (Bounded r)
            | None => Inv lower
            end
  end.

Definition nbound_of_n (n : N) : nbound := if n =? 0 then NBZero else NBNum n.

(* BoundedVariantRange::lower / upper (as NaturalBound) *)
Definition bvr_lower (r : bvr) : nbound :=
  match r with BLower n | BBoth n _ => NBNum n | BUpper _ => NBUnb end.
Definition bvr_upper (r : bvr) : res nbound :=
  match r with
  | BBoth lo ext => do u <- cadd lo ext; Ok (NBNum u)   (* upper_from_lower_extent *)
  | BLower _ => Ok NBUnb
  | BUpper n => Ok (NBNum n)
  end.

(* NaturalRange::lower / upper *)
Definition nr_lower (r : nrange) : nbound :=
  match r with
  | Inv n => nbound_of_n n
  | Var Unbounded => NBUnb
  | Var (Bounded b) => bvr_lower b
  end.
Definition nr_upper (r : nrange) : res nbound :=
  match r with
  | Inv n => Ok (nbound_of_n n)
  | Var Unbounded => Ok NBUnb
  | Var (Bounded b) => bvr_upper b
  end.

(* NaturalLower::into_usize / NaturalUpper::into_usize *)
Definition lower_usize (b : nbound) : N := match b with NBNum n => n | _ => 0 end.
Definition upper_usize (b : nbound) : option N :=
  match b with NBZero => Some 0 | NBNum n => Some n | NBUnb => None end.

(* Conjunction / Product for NaturalBound *)
Definition nb_product (a b : nbound) : res nbound :=
  match a, b with
  | NBUnb, _ | _, NBUnb => Ok NBUnb
  | NBZero, _ | _, NBZero => Ok NBZero
  | NBNum x, NBNum y => do z <- cmul x y; Ok (NBNum z)
  end.

(* NaturalRange::by_bound_with(lhs, rhs, ops::product) *)
Definition by_bound_product (l r : nrange) : res nrange :=
  do lu <- nr_upper l;
  do ru <- nr_upper r;
  do lower <- nb_product (nr_lower l) (nr_lower r);
  do upper <- nb_product lu ru;
  Ok (from_closed_open (lower_usize lower) (upper_usize upper)).

(* the orderings of Lower<B> / Upper<B> through cobounds: min of lowers, max of uppers *)
Definition lower_min (a b : nbound) : nbound :=
  match a, b with
  | NBUnb, _ => a
  | _, NBUnb => b
  | _, _ => if lower_usize b <? lower_usize a then b else a
  end.
Definition upper_max (a b : nbound) : nbound :=
  match a, b with
  | NBUnb, _ => a
  | _, NBUnb => b
  | _, _ => let ua := match a with NBNum n => n | _ => 0 end in
            let ub := match b with NBNum n => n | _ => 0 end in
            if ua <? ub then b else a
  end.

(* BoundedVariantRange::union(self, other) *)
Definition bvr_union (a : bvr) (other : nrange) : res vrange :=
  do au <- bvr_upper a;
  do ou <- nr_upper other;
  let lower := lower_min (bvr_lower a) (nr_lower other) in
  let upper := upper_max au ou in
  match from_closed_open (lower_usize lower) (upper_usize upper) with
  | Var r => Ok r
  | Inv _ => Panic PanicUnreachable
  end.

(* BoundedVariantRange::translation *)
Definition bvr_translation (a : bvr) (v : N) : res bvr :=
  match a with
  | BBoth lo ext => do lo' <- cadd lo v; Ok (BBoth lo' ext)
  | BLower lo => do lo' <- cadd lo v; Ok (BLower lo')
  | BUpper u => do u' <- cadd u v; Ok (BUpper u')
  end.

(* Conjunction for BoundedVariantRange (after the repair: lower bounds are summed with zero as
   the identity; an unbounded upper bound is absorbing) *)
Definition bvr_conj (a b : bvr) : res bvr :=
  do au <- bvr_upper a;
  do bu <- bvr_upper b;
  do lower <- cadd (lower_usize (bvr_lower a)) (lower_usize (bvr_lower b));
  do upper <- match upper_usize au, upper_usize bu with
              | Some x, Some y => do z <- cadd x y; Ok (Some z)
              | _, _ => Ok None
              end;
  match try_lower_upper lower upper with
  | Some r => Ok r
  | None => Panic PanicOther    (* .expect("conjunction of bounded ranges is unbounded") *)
  end.

(* OpenedUpperBound for BoundedVariantRange *)
Definition bvr_open_upper (a : bvr) : vrange :=
  match a with
  | BBoth lo _ => Bounded (BLower lo)
  | BUpper _ => Unbounded
  | BLower _ => Bounded a
  end.

(* Product for BoundedVariantRange (by a range and by a NonZeroUsize) *)
Definition bvr_product (a b : bvr) : res vrange :=
  do r <- by_bound_product (Var (Bounded a)) (Var (Bounded b));
  match r with Var v => Ok v | Inv _ => Panic PanicUnreachable end.
Definition bvr_product_nz (a : bvr) (n : N) : res bvr :=
  do r <- by_bound_product (Var (Bounded a)) (Inv n);
  match r with Var (Bounded v) => Ok v | _ => Panic PanicUnreachable end.

(* ---- token variance over a natural invariant (Depth, Size) ------------------------------------ *)
Definition nvar := var N bvr.     (* TokenVariance<Depth> / TokenVariance<Size> *)

Definition nvar_eqb (a b : nvar) : bool :=
  match a, b with
  | Inv x, Inv y => N.eqb x y
  | Var Unbounded, Var Unbounded => true
  | Var (Bounded x), Var (Bounded y) => bvr_eqb x y
  | _, _ => false
  end.

(* Invariant::into_lower_bound *)
Definition n_into_lower_bound (n : N) : vrange := if n =? 0 then Unbounded else Bounded (BLower n).

(* Invariant::bound (lhs <> rhs) *)
Definition n_bound (l r : N) : vrange :=
  let lo := N.min l r in let hi := N.max l r in
  match try_lower_upper lo (Some hi) with Some b => Bounded b | None => Unbounded end.

(* Conjunction for TokenVariance<T> *)
Definition nvar_conj (l r : nvar) : res nvar :=
  match l, r with
  | Inv a, Inv b => do c <- cadd a b; Ok (Inv c)
  | Var (Bounded a), Var (Bounded b) => do c <- bvr_conj a b; Ok (Var (Bounded c))
  | Var Unbounded, Var Unbounded => Ok (Var Unbounded)
  | Var (Bounded b), Inv i | Inv i, Var (Bounded b) => do c <- bvr_translation b i; Ok (Var (Bounded c))
  | Var Unbounded, Inv i | Inv i, Var Unbounded => Ok (Var (n_into_lower_bound i))
  | Var Unbounded, Var (Bounded b) | Var (Bounded b), Var Unbounded => Ok (Var (bvr_open_upper b))
  end.

(* Disjunction for TokenVariance<T> *)
Definition nvar_disj (l r : nvar) : res nvar :=
  if nvar_eqb l r then Ok l else
  match l, r with
  | Inv a, Inv b => Ok (Var (n_bound a b))
  | Var Unbounded, _ | _, Var Unbounded => Ok (Var Unbounded)
  | Var (Bounded a), Var (Bounded b) => do v <- bvr_union a (Var (Bounded b)); Ok (Var v)
  | Var (Bounded b), Inv i | Inv i, Var (Bounded b) => do v <- bvr_union b (Inv i); Ok (Var v)
  end.

(* Product<NaturalRange> for TokenVariance<T> *)
Definition nvar_product (l : nvar) (r : nrange) : res nvar :=
  match l, r with
  | Var Unbounded, Var Unbounded
  | Var Unbounded, Var (Bounded _)
  | Var (Bounded _), Var Unbounded => Ok (Var Unbounded)
  | Var lhs, Inv n =>
      if n =? 0 then Ok (Inv 0)
      else match lhs with
           | Unbounded => Ok (Var Unbounded)
           | Bounded b => do c <- bvr_product_nz b n; Ok (Var (Bounded c))
           end
  | Var (Bounded a), Var (Bounded b) => do v <- bvr_product a b; Ok (Var v)
  | Inv a, Var rhs =>
      if a =? 0 then Ok (Inv 0)
      else match rhs with
           | Unbounded => Ok (Var Unbounded)
           | Bounded b => do c <- bvr_product_nz b a; Ok (Var (Bounded c))
           end
  | Inv a, Inv n => do c <- cmul a n; Ok (Inv c)
  end.

(* ---- boundary terms (invariant/term.rs) --------------------------------------------------------- *)
Inductive termination := TOpen | TFirst | TLast | TClosed | TCoalescent.
Inductive coalescence := CLeft (t : termination) | CRight (t : termination) | CNeither (t : termination).

Definition term_eqb (a b : termination) : bool :=
  match a, b with
  | TOpen, TOpen | TFirst, TFirst | TLast, TLast | TClosed, TClosed | TCoalescent, TCoalescent => true
  | _, _ => false
  end.

(* Conjunction for Termination *)
Definition term_conj (a b : termination) : coalescence :=
  match a, b with
  | TCoalescent, TCoalescent => CNeither TCoalescent
  | TClosed, TClosed | TFirst, TLast | TFirst, TClosed | TClosed, TLast => CNeither TClosed
  | TLast, TClosed | TOpen, TClosed | TLast, TLast | TOpen, TLast => CNeither TLast
  | TClosed, TFirst | TClosed, TOpen | TFirst, TFirst | TFirst, TOpen => CNeither TFirst
  | TOpen, TFirst | TOpen, TOpen | TLast, TFirst | TLast, TOpen => CNeither TOpen
  | TCoalescent, TClosed | TCoalescent, TLast => CRight TClosed
  | TClosed, TCoalescent | TFirst, TCoalescent => CLeft TClosed
  | TLast, TCoalescent | TOpen, TCoalescent => CLeft TLast
  | TCoalescent, TFirst | TCoalescent, TOpen => CRight TFirst
  end.

Definition sterm := (termination * nvar)%type.     (* SeparatedTerm<TokenVariance<Depth>> *)

Definition sterm_eqb (a b : sterm) : bool := term_eqb (fst a) (fst b) && nvar_eqb (snd a) (snd b).

(* Finalize for SeparatedTerm<TokenVariance<Depth>> *)
Definition sterm_finalize (s : sterm) : res nvar :=
  match fst s with
  | TOpen => nvar_conj (snd s) (Inv 1)
  | TClosed => Ok (match snd s with Inv n => Inv (N.pred n) | v => v end)
  | _ => Ok (snd s)
  end.

(* Conjunction for SeparatedTerm *)
Definition sterm_conj (l r : sterm) : res sterm :=
  match term_conj (fst l) (fst r) with
  | CLeft t => do lv <- sterm_finalize l; do v <- nvar_conj lv (snd r); Ok (t, v)
  | CRight t => do rv <- sterm_finalize r; do v <- nvar_conj (snd l) rv; Ok (t, v)
  | CNeither t => do v <- nvar_conj (snd l) (snd r); Ok (t, v)
  end.

(* DisjunctiveTerm<T>(HashSet<T>): modelled as a duplicate-free list; the iteration order of the
   hash set is unspecified, the model uses insertion order (order independence of the results is a
   theorem: see the C10 development). *)
Fixpoint set_insert (x : sterm) (s : list sterm) : list sterm :=
  match s with
  | [] => [x]
  | y :: s' => if sterm_eqb x y then s else y :: set_insert x s'
  end.
Definition set_of_list (l : list sterm) : list sterm := fold_left (fun s x => set_insert x s) l [].

Inductive bterm :=                (* BoundaryTerm<Depth> = TreeTerm<SeparatedTerm<..>> *)
| BConj (s : sterm)
| BDisj (s : list sterm).

Definition bterm_zero : bterm := BConj (TOpen, Inv 0).
Definition bterm_one : bterm := BConj (TClosed, Inv 1).
Definition bterm_unbounded : bterm := BConj (TCoalescent, Var Unbounded).

(* Conjunction for TreeTerm *)
Definition bterm_conj (l r : bterm) : res bterm :=
  match l, r with
  | BConj a, BConj b => do c <- sterm_conj a b; Ok (BConj c)
  | BConj a, BDisj bs => do cs <- rmapM (fun b => sterm_conj a b) bs; Ok (BDisj (set_of_list cs))
  | BDisj as_, BConj b => do cs <- rmapM (fun a => sterm_conj a b) as_; Ok (BDisj (set_of_list cs))
  | BDisj as_, BDisj bs =>
      do cs <- rmapM (fun ab => sterm_conj (fst ab) (snd ab)) (list_prod as_ bs);
      Ok (BDisj (set_of_list cs))
  end.

(* Disjunction for TreeTerm *)
Definition bterm_disj (l r : bterm) : bterm :=
  match l, r with
  | BConj a, BConj b => BDisj (set_of_list [a; b])
  | BConj a, BDisj bs => BDisj (set_insert a bs)
  | BDisj as_, BConj b => BDisj (set_insert b as_)
  | BDisj as_, BDisj bs => BDisj (fold_left (fun s x => set_insert x s) bs as_)
  end.

(* Product<NaturalRange> for TreeTerm *)
Definition sterm_product (s : sterm) (r : nrange) : res sterm :=
  do v <- nvar_product (snd s) r; Ok (fst s, v).
Definition bterm_product (l : bterm) (r : nrange) : res bterm :=
  match l with
  | BConj a => do c <- sterm_product a r; Ok (BConj c)
  | BDisj as_ => do cs <- rmapM (fun a => sterm_product a r) as_; Ok (BDisj (set_of_list cs))
  end.

(* Finalize for TreeTerm / DisjunctiveTerm *)
Definition bterm_finalize (t : bterm) : res nvar :=
  match t with
  | BConj a => sterm_finalize a
  | BDisj as_ =>
      do vs <- rmapM sterm_finalize as_;
      do r <- rreduce nvar_disj vs;
      Ok (match r with Some v => v | None => Inv 0 end)
  end.

(* ---- When (query.rs) ------------------------------------------------------------------------------ *)
Inductive when := Always | Sometimes | Never.

Definition when_and (a b : when) : when :=
  match a, b with
  | Never, _ | _, Never => Never
  | Sometimes, _ | _, Sometimes => Sometimes
  | Always, Always => Always
  end.
Definition when_or (a b : when) : when :=
  match a, b with
  | Always, _ | _, Always => Always
  | Sometimes, _ | _, Sometimes => Sometimes
  | Never, Never => Never
  end.
Definition when_certainty (a b : when) : when :=
  match a, b with
  | Always, Always => Always
  | Never, Never => Never
  | _, _ => Sometimes
  end.
Definition when_of_bool (b : bool) : when := if b then Always else Never.

(* TokenVariance<Depth>::is_exhaustive = !has_upper_bound *)
Definition nvar_is_exhaustive (v : nvar) : bool :=
  match v with
  | Inv _ => false
  | Var Unbounded => true
  | Var (Bounded (BLower _)) => true
  | Var (Bounded _) => false
  end.

(* BoundaryTerm<Depth>::is_exhaustive *)
Definition bterm_is_exhaustive (t : bterm) : when :=
  match t with
  | BConj a => when_of_bool (nvar_is_exhaustive (snd a))
  | BDisj as_ =>
      match reduce_pure when_certainty (map (fun a => when_of_bool (nvar_is_exhaustive (snd a))) as_) with
      | Some w => w
      | None => Never
      end
  end.

(* ---- text (invariant/text.rs) ------------------------------------------------------------------------ *)
Inductive fragment := FNominal (s : str) | FStructural (s : str).
Definition text := list fragment.          (* Text { fragments: VecDeque<Fragment> } *)

Definition frag_str (f : fragment) : str := match f with FNominal s | FStructural s => s end.
Definition frag_eqb (a b : fragment) : bool :=
  match a, b with
  | FNominal x, FNominal y => str_eqb x y     (* PATHS_ARE_CASE_INSENSITIVE = false *)
  | FStructural x, FStructural y => str_eqb x y
  | _, _ => false
  end.
Fixpoint text_eqb (a b : text) : bool :=
  match a, b with
  | [], [] => true
  | x :: a', y :: b' => frag_eqb x y && text_eqb a' b'
  | _, _ => false
  end.
Definition text_to_string (t : text) : str := flat_map frag_str t.

(* Conjunction for Fragment *)
Definition frag_conj (a b : fragment) : text :=
  match a, b with
  | FNominal x, FNominal y => [FNominal (x ++ y)]
  | FStructural x, FStructural y => [FStructural (x ++ y)]
  | _, _ => [a; b]
  end.

(* Conjunction for Text: merge the last fragment of the left with the first of the right *)
Definition text_conj (l r : text) : text :=
  match rev l, r with
  | e :: l', s :: r' => rev l' ++ frag_conj e s ++ r'
  | e :: l', [] => rev l' ++ [e]
  | [], s :: r' => s :: r'
  | [], [] => []
  end.

(* Text::repeated(n), n > 0: the fragments are repeated n times, *not* merged.
   (n - 1) * fragments.len() is a checked multiplication. *)
Definition text_repeated (t : text) (n : N) : res text :=
  do _ <- cmul (n - 1) (N.of_nat (length t));
  Ok (repeat_list t (N.to_nat n)).

Definition tvar := var text unit.     (* TokenVariance<Text> *)

Definition tvar_eqb (a b : tvar) : bool :=
  match a, b with
  | Inv x, Inv y => text_eqb x y
  | Var Unbounded, Var Unbounded => true
  | Var (Bounded _), Var (Bounded _) => true
  | _, _ => false
  end.

Definition tvar_conj (l r : tvar) : tvar :=
  match l, r with
  | Inv a, Inv b => Inv (text_conj a b)
  | Var Unbounded, Var Unbounded => Var Unbounded
  | _, _ => Var (Bounded tt)
  end.

Definition tvar_disj (l r : tvar) : tvar :=
  if tvar_eqb l r then l else
  match l, r with
  | Var Unbounded, _ | _, Var Unbounded => Var Unbounded
  | _, _ => Var (Bounded tt)
  end.

Definition tvar_product (l : tvar) (r : nrange) : res tvar :=
  match l, r with
  | Var Unbounded, Var Unbounded
  | Var Unbounded, Var (Bounded _)
  | Var (Bounded _), Var Unbounded => Ok (Var Unbounded)
  | Var lhs, Inv n => if n =? 0 then Ok (Inv []) else Ok (Var lhs)
  | Var (Bounded _), Var (Bounded _) => Ok (Var (Bounded tt))
  | Inv _, Var Unbounded => Ok (Var Unbounded)
  | Inv _, Var (Bounded _) => Ok (Var (Bounded tt))
  | Inv a, Inv n => if n =? 0 then Ok (Inv []) else do t <- text_repeated a n; Ok (Inv t)
  end.
