(* Encode.v -- model of src/encode.rs (after the repairs: true edge booleans instead of
   `superposition`, `dot-all star`, `(?-i:[..])`, rooted lone tree wildcard). *)
From WaxModel Require Import Base Token Regex.

(* Regex counted repetition is limited to u32::MAX by regex-syntax ("failed to compile glob"
   otherwise); the nesting limit of the regex parser is modelled separately in the driver. *)
Definition REGEX_REP_MAX : N := 4294967295.

Definition grp (cap : bool) (r : re) : re := RGroup cap r.

(* encode_intermediate_tree: (?:[/]|[/](DOTALL[/])) *)
Definition enc_tree_mid (cap : bool) : re :=
  RGroup false (RAlt RSep (RCat RSep (grp cap (RCat RDotStar RSep)))).

Definition enc_tree (cap : bool) (starting ending root : bool) : re :=
  match starting, ending with
  | true, false =>
      if root then grp cap (RCat RSep (RCat RDotStar (ROpt RSep)))        (* ([/]DOTALL[/]?) *)
      else RGroup false (RAlt (ROpt RSep) (grp cap (RCat RDotStar RSep))) (* (?:[/]?|(DOTALL[/])) *)
  | false, false => enc_tree_mid cap
  | false, true =>
      RGroup false (RAlt (ROpt RSep) (RCat RSep (grp cap RDotStar)))      (* (?:[/]?|[/](DOTALL)) *)
  | true, true =>
      if root then grp cap (RCat RSep RDotStar)                           (* ([/]DOTALL) *)
      else grp cap RDotStar                                               (* (DOTALL) *)
  end.

Definition enc_class (neg : bool) (a : list arch) : re :=
  (* Regex::new of the class fails exactly when some range is reversed *)
  if forallb arch_valid a then RClass neg a else RNever.

Definition enc_leaf (cap : bool) (starting ending : bool) (l : leaf) : re :=
  match l with
  | LLit ci s => RLit ci s
  | LSep => RSep
  | LClass neg a => grp cap (enc_class neg a)
  | LOne => grp cap RNsep
  | LZom lazy => grp cap (RStar lazy RNsep)
  | LTree root => enc_tree cap starting ending root
  end.

Fixpoint rcat_list (l : list re) : re :=
  match l with
  | [] => REmpty
  | [r] => r
  | r :: l' => RCat r (rcat_list l')
  end.

Fixpoint ralt_list (l : list re) : re :=
  match l with
  | [] => REmpty
  | [r] => r
  | r :: l' => RAlt r (ralt_list l')
  end.

(* NaturalRange::from((lower, upper)) then .lower().into_usize() / .upper().into_usize():
   the bounds the encoder prints (reordered when lower > upper). *)
Definition norm_bounds (lo : N) (hi : option N) : N * option N :=
  match hi with
  | Some h => if h <? lo then (h, Some lo) else (lo, Some h)
  | None => (lo, None)
  end.

(* A concatenation: every element receives its true edges: it begins (ends) the expression only
   if the concatenation does and it is the first (last) element (itertools with_position). *)
Fixpoint seq_edges_aux (first : bool) (fs : list (bool -> bool -> re)) (s e : bool) : re :=
  match fs with
  | [] => REmpty
  | [f] => f (s && first) e
  | f :: fs' => RCat (f (s && first) false) (seq_edges_aux false fs' s e)
  end.
Definition seq_edges (fs : list (bool -> bool -> re)) : bool -> bool -> re := seq_edges_aux true fs.

(* encode(grouping, (is_starting, is_ending), pattern, tree): [enc_tok cap t s e] encodes the tokens of
   t.concatenation() (t itself, at position Only, if it is not a concatenation) with grouping
   [cap] and edges (s, e).  A concatenation nested directly in a concatenation is unreachable in
   the implementation (never produced by the parser or the combinator). *)
Fixpoint enc_tok (cap : bool) (t : tok) : bool -> bool -> re :=
  match t with
  | TLeaf _ l => fun s e => enc_leaf cap s e l
  | TAlt _ bs => fun s e =>
      grp cap (ralt_list (map (fun b => RGroup false (enc_tok false b s e)) bs))
  | TCat _ ts => seq_edges (map (enc_tok cap) ts)
  | TRep _ b lo hi => fun s e =>
      let '(lo', hi') := norm_bounds lo hi in
      grp cap (RRep (RGroup false (enc_tok false b s e)) lo' hi')
  end.

(* compile: "^" encode(Capture, (true, true), tree) "$" *)
Definition encode (t : tok) : re := enc_tok true t true true.

(* Regex::new failure other than CompiledTooBig => panic!("failed to compile glob") *)
Fixpoint rep_in_limits (r : re) : bool :=
  match r with
  | RCat a b | RAlt a b => rep_in_limits a && rep_in_limits b
  | ROpt a | RStar _ a | RGroup _ a => rep_in_limits a
  | RRep a lo hi =>
      rep_in_limits a && (lo <=? REGEX_REP_MAX) &&
      match hi with Some h => h <=? REGEX_REP_MAX | None => true end
  | _ => true
  end.

(* Nesting depth of the regex-syntax AST that the printed pattern parses to, as counted by the
   parser's nest limit (NestLimiter): bracketed classes, class binary operations and unions,
   repetition operators, groups, alternations (two or more branches) and concatenations (two or
   more items; a flag directive and every literal character are items) each add one level.
   [re_views r] = ((items, max item depth) of r seen as a sequence,
                   (branches, max branch depth) of r seen as an alternation). *)
Definition seq_depth_of (v : N * N) : N := let '(n, d) := v in if 2 <=? n then 1 + d else d.

Fixpoint re_views (r : re) : (N * N) * (N * N) :=
  match r with
  | RAlt a b =>
      let '(na, da) := snd (re_views a) in
      let '(nb, db) := snd (re_views b) in
      let av := (na + nb, N.max da db) in
      ((1, seq_depth_of av), av)
  | _ =>
      let sv :=
        match r with
        | RCat a b =>
            let '(na, da) := fst (re_views a) in
            let '(nb, db) := fst (re_views b) in
            (na + nb, N.max da db)
        | REmpty => (0, 0)
        | RLit _ s => (1 + N.of_nat (length s), 0)
        | RSep | RNsep => (1, 1)
        | RNever => (1, 2)
        | RClass neg _ => (1, if neg then 3 else 4)
        | RDotStar => (1, 2)
        | ROpt a | RStar _ a | RRep a _ _ => (1, 1 + seq_depth_of (fst (re_views a)))
        | RGroup _ a => (1, 1 + seq_depth_of (snd (re_views a)))
        | RAlt _ _ => (1, 0)
        end in
      (sv, (1, seq_depth_of sv))
  end.

(* the depth of the complete program `^ r $` (always a concatenation) *)
Definition re_nest (r : re) : N := 1 + snd (fst (re_views r)).
