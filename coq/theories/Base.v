(* Base.v -- characters, strings, byte lengths, result monads.
   Model of the Rust glob library `wax`: all numbers are [N] (usize is modelled as N with explicit
   [< 2^64] checks where the code uses checked arithmetic). *)
From Coq Require Export List NArith Bool Lia.
Export ListNotations.
Open Scope N_scope.

Definition char := N.          (* a Unicode scalar value *)
Definition str := list char.

Definition SEP : char := 47.       (* '/' *)
Definition NL : char := 10.        (* '\n' *)
Definition BSLASH : char := 92.    (* '\\' *)

Definition utf8_len (c : char) : N :=
  if c <? 128 then 1 else if c <? 2048 then 2 else if c <? 65536 then 3 else 4.

Fixpoint blen (s : str) : N :=
  match s with [] => 0 | c :: r => utf8_len c + blen r end.

Definition usize_max1 : N := 18446744073709551616. (* 2^64 *)

Fixpoint str_eqb (a b : str) : bool :=
  match a, b with
  | [], [] => true
  | x :: a', y :: b' => N.eqb x y && str_eqb a' b'
  | _, _ => false
  end.

Definition mem (c : char) (s : str) : bool := existsb (N.eqb c) s.

Definition is_nil {A} (l : list A) : bool := match l with [] => true | _ => false end.

Definition opt_eqb {A} (eqb : A -> A -> bool) (a b : option A) : bool :=
  match a, b with
  | None, None => true
  | Some x, Some y => eqb x y
  | _, _ => false
  end.

(* Outcomes of operations that may panic in the implementation. *)
Inductive panic_site :=
| PanicOverflow        (* checked_add / checked_mul .expect("overflow ...") *)
| PanicUnreachable     (* unreachable!() in the variance algebra *)
| PanicCompile         (* panic!("failed to compile glob") *)
| PanicOther.

Inductive res (A : Type) :=
| Ok (a : A)
| Panic (s : panic_site).
Arguments Ok {A} a.
Arguments Panic {A} s.

Definition rbind {A B} (r : res A) (f : A -> res B) : res B :=
  match r with Ok a => f a | Panic s => Panic s end.
Definition rmap {A B} (f : A -> B) (r : res A) : res B :=
  match r with Ok a => Ok (f a) | Panic s => Panic s end.

Notation "'do' x <- r ; k" := (rbind r (fun x => k)) (at level 200, x pattern, r at level 100, k at level 200).

Definition cadd (a b : N) : res N :=
  if a + b <? usize_max1 then Ok (a + b) else Panic PanicOverflow.
Definition cmul (a b : N) : res N :=
  if a * b <? usize_max1 then Ok (a * b) else Panic PanicOverflow.

Definition rmapM {A B} (f : A -> res B) : list A -> res (list B) :=
  fix go (l : list A) : res (list B) :=
    match l with
    | [] => Ok []
    | a :: l' => do b <- f a; do bs <- go l'; Ok (b :: bs)
    end.

(* reduce: Iterator::reduce with a possibly panicking operation *)
Fixpoint rfold {A} (f : A -> A -> res A) (acc : A) (l : list A) : res A :=
  match l with
  | [] => Ok acc
  | a :: l' => do acc' <- f acc a; rfold f acc' l'
  end.
Definition rreduce {A} (f : A -> A -> res A) (l : list A) : res (option A) :=
  match l with
  | [] => Ok None
  | a :: l' => rmap Some (rfold f a l')
  end.

Fixpoint reduce_pure {A} (f : A -> A -> A) (l : list A) : option A :=
  match l with
  | [] => None
  | a :: l' => Some (fold_left f l' a)
  end.

Fixpoint last_opt {A} (l : list A) : option A :=
  match l with [] => None | [a] => Some a | _ :: l' => last_opt l' end.

Fixpoint repeat_list {A} (l : list A) (n : nat) : list A :=
  match n with O => [] | S n' => l ++ repeat_list l n' end.
