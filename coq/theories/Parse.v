(* Parse.v -- executable model of src/token/parse.rs (a nom 7 PEG without `cut`).
   The parser state (flags, subexpression) lives in the input value, so backtracking restores it;
   it is threaded textually through the remaining input after every successful sub-parser. *)
From WaxModel Require Import Base Token.

(* ---- character sets ---------------------------------------------------------------------- *)
(* is_not("/?*$:<>()[]{},\\") *)
Definition LIT_SPECIAL : str := [47; 63; 42; 36; 58; 60; 62; 40; 41; 91; 93; 123; 125; 44; 92].
(* the escapable characters of a literal: ? * $ : < > ( ) [ ] { } , *)
Definition LIT_ESCAPABLE : str := [63; 42; 36; 58; 60; 62; 40; 41; 91; 93; 123; 125; 44].
(* none_of("[]-\\") *)
Definition CLASS_SPECIAL : str := [91; 93; 45; 92].
(* \[ \] \- *)
Definition CLASS_ESCAPABLE : str := [91; 93; 45].

Definition c_lparen := 40.  Definition c_rparen := 41.  Definition c_qmark := 63.
Definition c_i := 105.      Definition c_minus := 45.   Definition c_star := 42.
Definition c_dollar := 36.  Definition c_lbrack := 91.  Definition c_rbrack := 93.
Definition c_bang := 33.    Definition c_lbrace := 123. Definition c_rbrace := 125.
Definition c_comma := 44.   Definition c_lt := 60.      Definition c_gt := 62.
Definition c_colon := 58.

(* ---- input ---------------------------------------------------------------------------------- *)
Record input := mkIn {
  i_s : str;        (* remaining text *)
  i_pos : N;        (* byte location of the remaining text *)
  i_ci : bool;      (* state.flags.is_case_insensitive *)
  i_sub : N         (* state.subexpression *)
}.

Definition adv (i : input) (consumed rest : str) : input :=
  mkIn rest (i_pos i + blen consumed) (i_ci i) (i_sub i).
Definition adv1 (i : input) (c : char) (rest : str) : input :=
  mkIn rest (i_pos i + utf8_len c) (i_ci i) (i_sub i).
Definition set_ci (i : input) (b : bool) : input := mkIn (i_s i) (i_pos i) b (i_sub i).
Definition set_sub (i : input) : input := mkIn (i_s i) (i_pos i) (i_ci i) (i_pos i).

(* tag(c) for a single character *)
Definition tag1 (c : char) (i : input) : option input :=
  match i_s i with
  | d :: r => if N.eqb c d then Some (adv1 i d r) else None
  | [] => None
  end.

(* ---- flags ----------------------------------------------------------------------------------- *)
(* many1(alt(("i", toggle true), ("-i", toggle false))) : returns None when no toggle parses. *)
Fixpoint flag_toggles (fuel : nat) (i : input) (any : bool) : option input :=
  match fuel with
  | O => if any then Some i else None
  | S f =>
      match i_s i with
      | c :: r =>
          if c =? c_i then flag_toggles f (set_ci (adv1 i c r) true) true
          else if c =? c_minus then
            match r with
            | c2 :: r2 =>
                if c2 =? c_i then flag_toggles f (set_ci (adv1 (adv1 i c r) c2 r2) false) true
                else if any then Some i else None
            | [] => if any then Some i else None
            end
          else if any then Some i else None
      | [] => if any then Some i else None
      end
  end.

(* delimited(tag("(?"), many1(...), tag(")")) *)
Definition flag_group (i : input) : option input :=
  match i_s i with
  | c1 :: c2 :: r =>
      if (c1 =? c_lparen) && (c2 =? c_qmark) then
        let i1 := adv1 (adv1 i c1 (c2 :: r)) c2 r in
        match flag_toggles (length r) i1 false with
        | Some i2 => tag1 c_rparen i2
        | None => None
        end
      else None
  | _ => None
  end.

(* many0(flag_group): never fails *)
Fixpoint flags_with_state_f (fuel : nat) (i : input) : input :=
  match fuel with
  | O => i
  | S f => match flag_group i with
           | Some i' => flags_with_state_f f i'
           | None => i
           end
  end.
Definition flags_with_state (i : input) : input := flags_with_state_f (length (i_s i)) i.
(* flags_without_state: same text, the toggles are not recorded *)
Definition flags_without_state (i : input) : input :=
  let i' := flags_with_state i in set_ci i' (i_ci i).

(* ---- literal ----------------------------------------------------------------------------------- *)
(* escaped_transform(is_not(SPECIAL), '\\', alt(value(c, tag(c)) ...)): returns the transformed
   text and the remaining text; None when a backslash is followed by a non-escapable character or
   by the end of the input (the whole literal then fails, whatever was read before). *)
Fixpoint lit_chars (s : str) : option (str * str) :=
  match s with
  | [] => Some ([], [])
  | c :: r =>
      if N.eqb c BSLASH then
        match r with
        | [] => None
        | d :: r' => if mem d LIT_ESCAPABLE then
                       match lit_chars r' with
                       | Some (t, rest) => Some (d :: t, rest)
                       | None => None
                       end
                     else None
        end
      else if mem c LIT_SPECIAL then Some ([], s)
      else match lit_chars r with
           | Some (t, rest) => Some (c :: t, rest)
           | None => None
           end
  end.

Definition consumed_of (s rest : str) : str := firstn (length s - length rest) s.

Definition p_literal (i : input) : option (leaf * input) :=
  match lit_chars (i_s i) with
  | Some (text, rest) =>
      if is_nil text then None
      else Some (LLit (i_ci i) text, adv i (consumed_of (i_s i) rest) rest)
  | None => None
  end.

(* ---- class ---------------------------------------------------------------------------------- *)
Definition class_char (s : str) : option (char * str) :=
  match s with
  | [] => None
  | c :: r =>
      if N.eqb c BSLASH then
        match r with
        | d :: r' => if mem d CLASS_ESCAPABLE then Some (d, r') else None
        | [] => None
        end
      else if mem c CLASS_SPECIAL then None
      else Some (c, r)
  end.

Definition class_arch (s : str) : option (arch * str) :=
  match class_char s with
  | None => None
  | Some (a, r) =>
      match r with
      | c :: r1 =>
          if c =? c_minus then
            match class_char r1 with
            | Some (b, r2) => Some (ARange a b, r2)
            | None => Some (AChar a, r)
            end
          else Some (AChar a, r)
      | [] => Some (AChar a, r)
      end
  end.

Fixpoint class_archs (fuel : nat) (s : str) : list arch * str :=
  match fuel with
  | O => ([], s)
  | S f => match class_arch s with
           | Some (a, r) => let '(l, r') := class_archs f r in (a :: l, r')
           | None => ([], s)
           end
  end.

Definition p_class (i : input) : option (leaf * input) :=
  match i_s i with
  | c :: r =>
      if c =? c_lbrack then
        let '(neg, r1) := match r with c2 :: r' => if c2 =? c_bang then (true, r') else (false, r) | [] => (false, r) end in
        let '(archs, r2) := class_archs (length r1) r1 in
        match archs, r2 with
        | _ :: _, c3 :: r3 => if c3 =? c_rbrack then Some (LClass neg archs, adv i (consumed_of (i_s i) r3) r3) else None
        | _, _ => None
        end
      else None
  | [] => None
  end.

(* ---- wildcards --------------------------------------------------------------------------------- *)
Inductive terminator := TermTop | TermAlt | TermRep.

(* The terminators consume nothing: eof, peek(alt(tag(","), tag("}"))), peek(alt(tag(":"), tag(">"))). *)
Definition term_ok (tm : terminator) (i : input) : bool :=
  match tm, i_s i with
  | TermTop, [] => true
  | TermAlt, c :: _ => N.eqb c c_comma || N.eqb c c_rbrace
  | TermRep, c :: _ => N.eqb c c_colon || N.eqb c c_gt
  | _, _ => false
  end.

(* peek(tuple((flags_without_state, is_not("*$")))) *)
Definition zom_lookahead (i : input) : bool :=
  match i_s (flags_without_state i) with
  | c :: _ => negb (N.eqb c c_star || N.eqb c c_dollar)
  | [] => false
  end.

Definition p_wildcard (tm : terminator) (i : input) : option (leaf * input) :=
  let head_is (c : char) : bool := match i_s i with d :: _ => d =? c | [] => false end in
  if head_is c_qmark then
    match i_s i with c :: r => Some (LOne, adv1 i c r) | [] => None end
  else
      (* tree *)
      let tree :=
        let prefix :=
          match i_s i with
          | c :: r =>
              if c =? SEP then Some (true, flags_with_state (adv1 i c r))
              else if N.eqb (i_sub i) (i_pos i) then Some (false, flags_with_state i) else None
          | [] => if N.eqb (i_sub i) (i_pos i) then Some (false, flags_with_state i) else None
          end in
        match prefix with
        | None => None
        | Some (root, i1) =>
            match i_s i1 with
            | c1 :: c2 :: r =>
                if (c1 =? c_star) && (c2 =? c_star) then
                  let i2 := adv1 (adv1 i1 c1 (c2 :: r)) c2 r in
                  let i3 := flags_with_state i2 in
                  match i_s i3 with
                  | c3 :: r3 =>
                      if c3 =? SEP then Some (LTree root, adv1 i3 c3 r3)
                      else if term_ok tm i2 then Some (LTree root, i2) else None
                  | [] => if term_ok tm i2 then Some (LTree root, i2) else None
                  end
                else None
            | _ => None
            end
        end in
      match tree with
      | Some x => Some x
      | None =>
          match i_s i with
          | c :: r =>
              let i1 := adv1 i c r in
              if c =? c_star then
                if zom_lookahead i1 || term_ok tm i1 then Some (LZom false, i1) else None
              else if c =? c_dollar then
                if zom_lookahead i1 || term_ok tm i1 then Some (LZom true, i1) else None
              else None
          | [] => None
          end
      end.

(* ---- repetition bounds --------------------------------------------------------------------------- *)
Definition is_digit (c : char) : bool := (48 <=? c) && (c <=? 57).

Fixpoint digits (s : str) : str * str :=
  match s with
  | c :: r => if is_digit c then let '(d, r') := digits r in (c :: d, r') else ([], s)
  | [] => ([], [])
  end.

(* str::parse::<usize>() on a non-empty run of ASCII digits: None on overflow *)
Definition parse_usize (d : str) : option N :=
  let v := fold_left (fun acc c => if acc <? usize_max1 then acc * 10 + (c - 48) else acc) d 0 in
  if v <? usize_max1 then Some v else None.

(* error::context("bounds", bounds) *)
Definition p_bounds (i : input) : (N * option N) * input :=
  match (match i_s i with c :: r => if c =? c_colon then Some (c, r) else None | [] => None end) with
  | Some (c, r) =>
      let i1 := adv1 i c r in
      let '(d1, r1) := digits r in
      let converged :=
        (* map_res(digit1, parse) *)
        if is_nil d1 then ((1, None), i1)
        else match parse_usize d1 with
             | Some n => ((n, Some n), adv i1 d1 r1)
             | None => ((1, None), i1)
             end in
      if is_nil d1 then ((1, None), i1)
      else
        match (match r1 with c4 :: r2 => if c4 =? c_comma then Some r2 else None | [] => None end) with
        | Some r2 =>
            let '(d2, r3) := digits r2 in
            let consumed := d1 ++ [c_comma] ++ d2 in
            match parse_usize d1, (if is_nil d2 then Some None else option_map Some (parse_usize d2)) with
            | Some lo, Some hi => ((lo, hi), adv i1 consumed r3)
            | _, _ => converged
            end
        | None => converged
        end
  | None => ((0, None), i)
  end.

(* ---- the recursive grammar -------------------------------------------------------------------------- *)
Inductive pres (A : Type) :=
| POk (a : A)
| PErr
| PFuel.
Arguments POk {A} a.
Arguments PErr {A}.
Arguments PFuel {A}.

Definition mk_span (i0 i1 : input) : span := (i_pos i0, i_pos i1 - i_pos i0).

Definition leaf_tok (i0 : input) (r : option (leaf * input)) : option (tok * input) :=
  match r with
  | Some (l, i1) => Some (TLeaf (mk_span i0 i1) l, i1)
  | None => None
  end.

(* p_tokens: multi::many1(branch::alt((literal, repetition, alternation, wildcard, class, separator)))
   (returns the possibly empty list; the caller rejects the empty list);
   p_token: one iteration of that alt, each branch `annotate(context(.., preceded(flags_with_state, X)))`;
   p_glob: annotate(concatenation(terminator)). *)
Fixpoint p_tokens (fuel : nat) (tm : terminator) (i : input) : pres (list tok * input) :=
  match fuel with
  | O => PFuel
  | S f =>
      match p_token f tm i with
      | PFuel => PFuel
      | PErr => POk ([], i)
      | POk (t, i') =>
          match p_tokens f tm i' with
          | POk (ts, i'') => POk (t :: ts, i'')
          | PErr => PErr
          | PFuel => PFuel
          end
      end
  end
with p_token (fuel : nat) (tm : terminator) (i : input) : pres (tok * input) :=
  match fuel with
  | O => PFuel
  | S f =>
      let iF := flags_with_state i in
      (* literal *)
      match leaf_tok i (p_literal iF) with
      | Some x => POk x
      | None =>
      (* repetition *)
      let rep : pres (option (tok * input)) :=
        match (match i_s iF with c :: r => if c =? c_lt then Some (c, r) else None | [] => None end) with
        | Some (c, r) =>
            match p_glob f TermRep (adv1 iF c r) with
            | PFuel => PFuel
            | PErr => POk None
            | POk (body, i1) =>
                let '((lo, hi), i2) := p_bounds i1 in
                match tag1 c_gt i2 with
                | Some i3 => POk (Some (TRep (mk_span i i3) body lo hi, i3))
                | None => POk None
                end
            end
        | None => POk None
        end in
      match rep with
      | PFuel => PFuel
      | PErr => PErr
      | POk (Some x) => POk x
      | POk None =>
      (* alternation *)
      let alt : pres (option (tok * input)) :=
        match (match i_s iF with c :: r => if c =? c_lbrace then Some (c, r) else None | [] => None end) with
        | Some (c, r) =>
            match p_branches f (adv1 iF c r) with
            | PFuel => PFuel
            | PErr => POk None
            | POk (bs, i1) =>
                match tag1 c_rbrace i1 with
                | Some i2 => POk (Some (TAlt (mk_span i i2) bs, i2))
                | None => POk None
                end
            end
        | None => POk None
        end in
      match alt with
      | PFuel => PFuel
      | PErr => PErr
      | POk (Some x) => POk x
      | POk None =>
      (* wildcard, class, separator *)
      match leaf_tok i (p_wildcard tm iF) with
      | Some x => POk x
      | None =>
      match leaf_tok i (p_class iF) with
      | Some x => POk x
      | None =>
      match (match i_s iF with c :: r => if c =? SEP then Some (c, r) else None | [] => None end) with
      | Some (c, r) => POk (TLeaf (mk_span i (adv1 iF c r)) LSep, adv1 iF c r)
      | None => PErr
      end end end end end end
  end
(* multi::separated_list1(tag(","), glob(peek(alt((tag(","), tag("}")))))) *)
with p_branches (fuel : nat) (i : input) : pres (list tok * input) :=
  match fuel with
  | O => PFuel
  | S f =>
      match p_glob f TermAlt i with
      | PFuel => PFuel
      | PErr => PErr
      | POk (b, i1) =>
          match (match i_s i1 with c :: r => if c =? c_comma then Some (c, r) else None | [] => None end) with
          | Some (c, r) =>
              match p_branches f (adv1 i1 c r) with
              | PFuel => PFuel
              | PErr => POk ([b], i1)   (* the element after the separator failed: stop before the separator *)
              | POk (bs, i2) => POk (b :: bs, i2)
              end
          | None => POk ([b], i1)
          end
      end
  end
with p_glob (fuel : nat) (tm : terminator) (i : input) : pres (tok * input) :=
  match fuel with
  | O => PFuel
  | S f =>
      let i0 := set_sub i in
      match p_tokens f tm i0 with
      | PFuel => PFuel
      | PErr => PErr
      | POk (ts, i1) =>
          match ts with
          | [] => PErr
          | _ => if term_ok tm i1 then POk (TCat (mk_span i0 i1) ts, i1) else PErr
          end
      end
  end.

Definition parse_fuel (e : str) : nat := 4 * length e + 8.

Definition init_input (e : str) : input := mkIn e 0 false 0.

(* The byte span of the character at the head of [s] (nothing at the end of input): the span of a
   parse error entry located there (after the repair of ErrorEntry::span). *)
Definition err_span (pos : N) (s : str) : span :=
  match s with c :: _ => (pos, utf8_len c) | [] => (pos, 0) end.

Inductive parse_result :=
| ParseOk (t : tok)
| ParseErr (locs : list span)
| ParseFuel.

(* token::parse *)
Definition parse (e : str) : parse_result :=
  match e with
  | [] => ParseOk tok_empty
  | _ =>
      let i := init_input e in
      let f := parse_fuel e in
      match p_tokens f TermTop (set_sub i) with
      | PFuel => ParseFuel
      | PErr => ParseErr []   (* unreachable: p_tokens only stops *)
      | POk ([], _) =>
          (* the first iteration of many1 failed: the error is that of the last alternative
             (separator) with the contexts appended: tag error after the flags, then
             Context("separator"), Alt and Many1 at the start. *)
          let iF := flags_with_state i in
          ParseErr [err_span (i_pos iF) (i_s iF); err_span 0 e; err_span 0 e; err_span 0 e]
      | POk (ts, i1) =>
          match i_s i1 with
          | [] => ParseOk (TCat (0, i_pos i1) ts)
          | _ => ParseErr [err_span (i_pos i1) (i_s i1)]   (* eof expected *)
          end
      end
  end.
