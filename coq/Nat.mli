open Datatypes

val add : nat -> nat -> nat

val mul : nat -> nat -> nat

val sub : nat -> nat -> nat

val eqb : nat -> nat -> bool

val leb : nat -> nat -> bool

val ltb : nat -> nat -> bool
