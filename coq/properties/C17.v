(* C17 *)
From WaxModel Require Import Base.
