(* C17 -- Spans reported for errors and captures index the expression safely.
   [span_ok e (s, n)]: the expression is pre ++ mid ++ post with s = byte length of pre and n = byte length of mid, i.e. the span
   lies within the expression and starts and ends on character boundaries: slicing by it cannot panic. *)
From WaxModel Require Import Base Token Parse Variance Fold Rule Query.
From WaxProofs Require Import ParseFacts SpanFacts.

(* every span of the token tree of every expression that parses *)
Theorem C17_token_spans : forall e t, parse e = ParseOk t -> spans_ok e t.
Proof. exact parse_spans_ok. Qed.
Print Assumptions C17_token_spans.

(* the spans of the capturing sub-expressions *)
Theorem C17_capture_spans : forall e t c, parse e = ParseOk t -> In c (captures t) -> span_ok e (snd c).
Proof. intros e t c H. apply capture_spans_ok. apply parse_spans_ok. exact H. Qed.
Print Assumptions C17_capture_spans.

(* every location of every parse error (for every string) *)
Theorem C17_parse_error_spans : forall e locs, parse e = ParseErr locs -> Forall (span_ok e) locs.
Proof. exact parse_error_spans_ok. Qed.
Print Assumptions C17_parse_error_spans.

(* the span of every rule error *)
Theorem C17_rule_error_span : forall e t k sp, parse e = ParseOk t -> check t = Ok (Some (k, sp)) -> span_ok e sp.
Proof. intros e t k sp H. apply rule_error_span_ok. apply parse_spans_ok. exact H. Qed.
Print Assumptions C17_rule_error_span.

Theorem C17_span_within_the_expression : forall e sp, span_ok e sp -> fst sp + snd sp <= blen e.
Proof. exact span_ok_in_bounds. Qed.
Print Assumptions C17_span_within_the_expression.

(* a parse error entry located at a character covers exactly that character; at the end of input, nothing *)
Theorem C17_error_span_char : forall pos c s, err_span pos (c :: s) = (pos, utf8_len c).
Proof. exact err_span_char. Qed.
Print Assumptions C17_error_span_char.

Theorem C17_error_span_end : forall pos, err_span pos [] = (pos, 0).
Proof. exact err_span_end. Qed.
Print Assumptions C17_error_span_end.

From WaxModel Require Import Variance Fold Rule Parse Query Glob.
From WaxProofs Require Import PartitionSpans.

(* after partition: the spans of the top-level tokens of the postfix - hence its capture spans - lie in the displayed suffix of the
   expression, on character boundaries (the tokens tile the expression, so every token from the cut on begins at or after the popped
   bytes, and the shift by their number maps a span of the expression to the same characters of the suffix) *)
Theorem C17_postfix_capture_spans_lie_in_the_suffix : forall hc e t r text post e' c,
  build e = BuildOk t r -> partition hc e t = Ok (PartSome text post e') -> In c (captures post) -> span_ok e' (snd c).
Proof. exact postfix_capture_spans_ok. Qed.
Print Assumptions C17_postfix_capture_spans_lie_in_the_suffix.
