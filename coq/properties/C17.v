(* C17 -- Spans reported for errors and captures index the expression safely (first lemmas). *)
From WaxModel Require Import Base Token Parse.
From WaxProofs Require Import ParseFacts.

(* a parse error entry located at a character covers exactly that character; at the end of input, nothing *)
Theorem C17_error_span_char : forall pos c s, err_span pos (c :: s) = (pos, utf8_len c).
Proof. exact err_span_char. Qed.
Print Assumptions C17_error_span_char.

Theorem C17_error_span_end : forall pos, err_span pos [] = (pos, 0).
Proof. exact err_span_end. Qed.
Print Assumptions C17_error_span_end.
