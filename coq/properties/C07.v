(* C07 -- Branches compose: alternation is union, repetition is iteration, `any` is union. *)
From WaxModel Require Import Base Token Regex Spec Encode.
From WaxProofs Require Import EncodeFacts.

(* for all inputs: the program of a combinator matches exactly the union of the programs of its patterns *)
Theorem C07_any_is_union :
  forall orbit sp ts w, ts <> [] ->
    (sem orbit (encode (TAlt sp ts)) w <-> exists t, In t ts /\ sem orbit (encode t) w).
Proof. exact any_is_union. Qed.
Print Assumptions C07_any_is_union.

(* an alternation of programs is the union of its branches *)
Theorem C07_alternation_is_union :
  forall orbit rs w, rs <> [] -> (sem orbit (ralt_list rs) w <-> exists r, In r rs /\ sem orbit r w).
Proof. exact sem_ralt_list. Qed.
Print Assumptions C07_alternation_is_union.

(* whether a token is encoded capturing or not (top level vs. nested in a branch) does not change what it matches *)
Theorem C07_grouping_irrelevant :
  forall orbit t cap cap' s e w, sem orbit (enc_tok cap t s e) w <-> sem orbit (enc_tok cap' t s e) w.
Proof. intros orbit t cap cap' s e w. exact (enc_tok_cap orbit t cap cap' s e w). Qed.
Print Assumptions C07_grouping_irrelevant.
