(* C07 -- Branches compose: alternation is union, repetition is iteration, `any` is union. *)
From WaxModel Require Import Base Token Regex Spec Encode.
From WaxProofs Require Import EncodeFacts.

(* for all inputs: the program of a combinator matches exactly the union of the programs of its patterns *)
Theorem C07_any_is_union :
  forall orbit sp ts w, ts <> [] ->
    (sem orbit (encode (TAlt sp ts)) w <-> exists t, In t ts /\ sem orbit (encode t) w).
Proof. exact any_is_union. Qed.
Print Assumptions C07_any_is_union.

(* an alternation of programs is the union of its branches *)
Theorem C07_alternation_is_union :
  forall orbit rs w, rs <> [] -> (sem orbit (ralt_list rs) w <-> exists r, In r rs /\ sem orbit r w).
Proof. exact sem_ralt_list. Qed.
Print Assumptions C07_alternation_is_union.

(* whether a token is encoded capturing or not (top level vs. nested in a branch) does not change what it matches *)
Theorem C07_grouping_irrelevant :
  forall orbit t cap cap' s e w, sem orbit (enc_tok cap t s e) w <-> sem orbit (enc_tok cap' t s e) w.
Proof. intros orbit t cap cap' s e w. exact (enc_tok_cap orbit t cap cap' s e w). Qed.
Print Assumptions C07_grouping_irrelevant.

From WaxProofs Require Import ComposeFacts.

(* at the level of the documented language, for every token tree: an alternation matches exactly what some branch matches;
   a repetition matches exactly what its body written out a permitted number of times matches; and both hold in place,
   inside any surrounding concatenation (flat positions of tree wildcards included: the language only depends on the flat
   sequence of leaves) *)
Theorem C07_alternation_is_union_of_branches : forall orbit sp bs w, Lang orbit (TAlt sp bs) w <-> exists b, In b bs /\ Lang orbit b w.
Proof. exact lang_alt. Qed.
Print Assumptions C07_alternation_is_union_of_branches.

Theorem C07_repetition_is_iteration : forall orbit sp sp' b lo hi w,
  Lang orbit (TRep sp b lo hi) w <-> exists n, in_bounds n lo hi /\ Lang orbit (TCat sp' (repeat b n)) w.
Proof. exact lang_rep. Qed.
Print Assumptions C07_repetition_is_iteration.

Theorem C07_alternation_composes_in_place : forall orbit sp sp' pre bs post w,
  Lang orbit (TCat sp (pre ++ TAlt sp' bs :: post)) w <-> exists b, In b bs /\ Lang orbit (TCat sp (pre ++ b :: post)) w.
Proof. exact lang_alt_in_place. Qed.
Print Assumptions C07_alternation_composes_in_place.

Theorem C07_repetition_composes_in_place : forall orbit sp sp' sp'' pre b lo hi post w,
  Lang orbit (TCat sp (pre ++ TRep sp' b lo hi :: post)) w <->
  exists n, in_bounds n lo hi /\ Lang orbit (TCat sp (pre ++ TCat sp'' (repeat b n) :: post)) w.
Proof. exact lang_rep_in_place. Qed.
Print Assumptions C07_repetition_composes_in_place.

From WaxModel Require Import Variance Fold Rule Parse Query Glob.
From WaxProofs Require Import AlgebraFacts OwnedFacts NegationFacts BuiltFacts.

(* the combinator itself, at the level of the documented language: the tree that `any` builds from its patterns (re-annotated,
   under one alternation) has as language exactly the union of the languages of the patterns *)
Theorem C07_combinator_language_is_the_union : forall orbit ts t w, Forall tok_bounds_ok ts -> any_tree ts = Ok t ->
  (Lang orbit t w <-> exists a, In a ts /\ Lang orbit a w).
Proof. exact any_tree_lang. Qed.
Print Assumptions C07_combinator_language_is_the_union.

(* for globs that build, `any` never fails and the side condition is discharged *)
Theorem C07_combinator_of_built_globs_is_total : forall ts, Forall (fun t => exists e r, build e = BuildOk t r) ts ->
  any_tree ts = Ok (TAlt (0, 0)%N (map (respan (fun _ => (0, 0)%N)) ts)).
Proof. exact built_any_total. Qed.
Print Assumptions C07_combinator_of_built_globs_is_total.
