(* C07 *)
From WaxModel Require Import Base.
