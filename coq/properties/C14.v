(* C14 -- Walk entries describe their file consistently (model of the path arithmetic on component lists). *)
From WaxModel Require Import Base Token Walk.
From WaxProofs Require Import WalkFacts.
Local Open Scope nat_scope.

(* the relative segment of an entry of a glob walk is the prefix followed by the path below the walk root: its
   number of components is the pivot plus walkdir's depth *)
Theorem C14_depth_is_components :
  forall prefix e, length (presented prefix true e Filtrate) = length prefix + length (e_path e).
Proof. exact presented_filtrate_depth. Qed.
Print Assumptions C14_depth_is_components.

(* a yielded entry's relative segment is matched by the glob *)
Theorem C14_yielded_is_matched :
  forall prefix progs complete e t,
    glob_layer prefix progs complete e t = Keep -> complete (join_path (prefix ++ e_path e)) = true.
Proof. exact glob_layer_keep_matches. Qed.
Print Assumptions C14_yielded_is_matched.
