(* C06 -- Rule checking accepts exactly the well-formed expressions, context-free (first lemmas: two of the
   documented rules hold of every glob that builds, at every nesting depth). *)
From WaxModel Require Import Base Token Variance Fold Rule.
From WaxProofs Require Import RuleFacts.

(* repetition bounds are ordered and non-degenerate at every depth of a glob that builds *)
Theorem C06_built_bounds_ordered :
  forall t, check t = Ok None -> Forall (fun x => bad_bounds x = false) (bfs t).
Proof. exact check_bounds. Qed.
Print Assumptions C06_built_bounds_ordered.

(* no concatenation of a glob that builds has two adjacent boundary tokens *)
Theorem C06_built_no_adjacent_boundary :
  forall t, check t = Ok None ->
    Forall (fun x => match x with TCat _ ts => adjacent_boundary ts = None | _ => True end) (bfs t).
Proof. exact check_boundary. Qed.
Print Assumptions C06_built_no_adjacent_boundary.

Theorem C06_adjacent_boundary_none :
  forall l a b r, adjacent_boundary (l ++ a :: b :: r) = None -> is_boundary a && is_boundary b = false.
Proof. exact adjacent_boundary_none. Qed.
Print Assumptions C06_adjacent_boundary_none.

From WaxProofs Require Import FuelFacts.

(* the two breadth-first traversals of the rule checker (the level-order enumeration used by the boundary, bounds and size
   rules, and the queue of the branch rules) are bounded by explicit fuel in the model; the fuel is adequate for every tree:
   more fuel never changes the result, so no node is left unvisited and no verdict is an artefact of the bound *)
Theorem C06_level_order_fuel_adequate : forall t k, bfs_levels (tsize t + k) [t] = bfs t.
Proof. exact bfs_fuel_adequate. Qed.
Print Assumptions C06_level_order_fuel_adequate.

Theorem C06_branch_rules_fuel_adequate : forall t k, branch_loop (S (tsize t) + k) [(outer_default, t)] = rule_branch t.
Proof. exact rule_branch_fuel_adequate. Qed.
Print Assumptions C06_branch_rules_fuel_adequate.

(* the enumeration reaches every node, so the two rules above hold at every node of a glob that builds
   ([sub x t]: x is t or a descendant of t) *)
Theorem C06_built_bounds_ordered_everywhere :
  forall t, check t = Ok None -> forall x, sub x t -> bad_bounds x = false.
Proof. exact built_bounds_everywhere. Qed.
Print Assumptions C06_built_bounds_ordered_everywhere.

Theorem C06_built_no_adjacent_boundary_everywhere :
  forall t, check t = Ok None -> forall sp ts, sub (TCat sp ts) t -> adjacent_boundary ts = None.
Proof. exact built_no_adjacent_boundary_everywhere. Qed.
Print Assumptions C06_built_no_adjacent_boundary_everywhere.

From WaxModel Require Import Parse.
From WaxProofs Require Import ZomFacts.

(* the rule "no two zero-or-more wildcards become adjacent" inside one concatenation is enforced by the parser itself (the
   rule checker only looks across branch edges): no concatenation of a parsed expression, at any depth, has two adjacent
   zero-or-more wildcards - `**` reads as a tree wildcard, `*$`, `$*`, `$$`, `*(?i)*` do not parse *)
Theorem C06_parser_never_puts_two_zero_or_more_wildcards_together : forall e t, parse e = ParseOk t -> zom_ok t = true.
Proof. exact parse_no_adjacent_zom. Qed.
Print Assumptions C06_parser_never_puts_two_zero_or_more_wildcards_together.

From WaxModel Require Import Regex Spec Query Glob.
From WaxProofs Require Import SpecFacts DepthTreeFacts DepthAltFacts RuleAdjFacts ParseShape.

(* the boundary rule over *expansions*: for globs without repetitions the rule checker is sound however the alternations nest - if the
   check passes, no expansion of the tree (no choice of branches) has two adjacent boundaries (separators or tree wildcards).  The
   breadth-first branch check is characterised declaratively (every item the queue can reach is processed without error:
   C06_every_reachable_item_is_checked), then an induction over the tree carries the outer context - the deep left and right
   neighbours that nested branches inherit - through the alternations *)
Theorem C06_passing_globs_have_no_adjacent_boundaries_in_any_expansion : forall t,
  check t = Ok None -> shp t = true -> nonempty_branches t = true -> forall x, Expands t x -> chain_ok false x = true.
Proof. exact check_no_adjacent_boundaries. Qed.
Print Assumptions C06_passing_globs_have_no_adjacent_boundaries_in_any_expansion.

Theorem C06_built_globs_without_repetitions_have_no_adjacent_boundaries : forall e t r,
  build e = BuildOk t r -> rep_free t = true -> forall x, Expands t x -> chain_ok false x = true.
Proof. exact built_no_adjacent_boundaries. Qed.
Print Assumptions C06_built_globs_without_repetitions_have_no_adjacent_boundaries.

Theorem C06_every_reachable_item_is_checked : forall t, check t = Ok None ->
  forall d, reach (outer_default, t) d -> fst (branch_item d) = None.
Proof. exact check_item_ok. Qed.
Print Assumptions C06_every_reachable_item_is_checked.

(* every parsed tree has the shape the branch rules assume: members of a concatenation are never concatenations, branches and
   repetition bodies always are *)
Theorem C06_parsed_trees_are_shaped : forall e t, parse e = ParseOk t -> sh t.
Proof. exact parse_sh. Qed.
Print Assumptions C06_parsed_trees_are_shaped.

From WaxProofs Require Import RuleZomFacts.

(* the same for the rule "no two zero-or-more wildcards become adjacent": inside one concatenation the parser enforces it, across the
   borders of alternations the branch check does, through the same inherited outer context *)
Theorem C06_built_globs_without_repetitions_have_no_adjacent_zero_or_more_wildcards : forall e t r,
  build e = BuildOk t r -> rep_free t = true -> forall x, Expands t x -> zchain false x = true.
Proof. exact built_no_adjacent_zoms. Qed.
Print Assumptions C06_built_globs_without_repetitions_have_no_adjacent_zero_or_more_wildcards.

From WaxProofs Require Import RuleCompleteFacts.

(* the other direction for the boundary rule - no false rejection, "the verdict depends only on its own neighbours": for expressions
   without repetitions, an AdjacentBoundary verdict (from the rule inside a concatenation or from the breadth-first branch check) always has
   a witness - some choice of branches yields a sequence that does hold two adjacent boundaries.  Every item the branch check reaches is
   *embedded*: its expansions occur in expansions of the whole tree immediately between expansions of the outer left and right tokens it is
   checked against, so the contexts nested branches inherit are real neighbours (C06_reached_items_are_embedded); a token that can end
   (begin) with a boundary has an expansion that does.  Together with C06_passing_globs_have_no_adjacent_boundaries_in_any_expansion this is
   "exactly" for that rule; the false rejection `{a/}x{/c}` and the context leak `{{/a,b}c,d}x{e,f}` of the pinned tree (repaired: 5c8dd9b,
   592b703) are instances the theorems now exclude *)
Theorem C06_adjacent_boundary_verdicts_have_a_witness : forall e t sp, parse e = ParseOk t -> rep_free t = true ->
  check t = Ok (Some (AdjacentBoundary, sp)) -> exists x, Expands t x /\ chain_ok false x = false.
Proof. exact parsed_adjacent_boundary_is_real. Qed.
Print Assumptions C06_adjacent_boundary_verdicts_have_a_witness.

Theorem C06_reached_items_are_embedded : forall root it d, reach it d -> Inv root it -> Inv root d.
Proof. exact reach_inv. Qed.
Print Assumptions C06_reached_items_are_embedded.

From WaxProofs Require Import RuleCompleteZom.

(* and for the rule on zero-or-more wildcards *)
Theorem C06_adjacent_zero_or_more_verdicts_have_a_witness : forall e t sp, parse e = ParseOk t -> rep_free t = true ->
  check t = Ok (Some (AdjacentZeroOrMore, sp)) -> exists x, Expands t x /\ zchain false x = false.
Proof. exact parsed_adjacent_zom_is_real. Qed.
Print Assumptions C06_adjacent_zero_or_more_verdicts_have_a_witness.

From WaxProofs Require Import RuleAdjRep RuleZomRep.

(* with repetitions: for every glob that builds and whose repetitions are all written out at least once with a body that begins and
   ends with a leaf (`<a/:1,>b`, `{<ab:1,3>,c}/**`), no expansion - no choice of branches, no number of copies - holds two adjacent
   boundaries.  The induction of the repetition-free case with one more in-context claim: the body of a repetition is an item in the
   repetition's own context, and consecutive copies meet at the body's two leaf terminals, which check_repetition compared.  The two
   conditions are sharp: a repetition that may be written out zero times lets its neighbours meet (`a/<b:0,>/c` builds and expands
   to `a//c`), and the wrap-around adjacency is only checked on leaf terminals (known class wraparound_nested_edge) *)
Theorem C06_built_globs_with_required_repetitions_have_no_adjacent_boundaries : forall e t r,
  build e = BuildOk t r -> rep_class t = true -> forall x, Expands t x -> chain_ok false x = true.
Proof. exact built_no_adjacent_boundaries_r. Qed.
Print Assumptions C06_built_globs_with_required_repetitions_have_no_adjacent_boundaries.

(* the second adjacency rule has no wrap-around check at all (`<*a*:2>` builds and expands to `*a**a*`): the class excludes bodies that
   both begin and end with a zero-or-more wildcard *)
Theorem C06_built_globs_with_required_repetitions_have_no_adjacent_zero_or_more_wildcards : forall e t r,
  build e = BuildOk t r -> rep_class t = true -> shz t = true -> forall x, Expands t x -> zchain false x = true.
Proof. exact built_no_adjacent_zoms_r. Qed.
Print Assumptions C06_built_globs_with_required_repetitions_have_no_adjacent_zero_or_more_wildcards.

(* the premises are satisfiable: {<a/:1,>b,c}/** *)
Example C06_repetition_class_nonvacuous :
  let e := [123;60;97;47;58;49;44;62;98;44;99;125;47;42;42]%N in
  exists t r, build e = BuildOk t r /\ rep_class t = true /\ shz t = true /\ rep_free t = false.
Proof. cbv zeta. do 2 eexists. repeat split; vm_compute; reflexivity. Qed.

(* the two conditions are sharp (witnesses evaluated in the model of the build pipeline): an optional repetition lets its neighbours meet,
   and the second rule has no wrap-around check *)
Example C06_optional_repetitions_let_their_neighbours_meet :
  let e := [97;47;60;98;58;48;44;62;47;99]%N in
  exists t r x, build e = BuildOk t r /\ rep_class t = false /\ Expands t x /\ chain_ok false x = false.
Proof.
  cbv zeta. do 3 eexists. split; [vm_compute; reflexivity|]. split; [vm_compute; reflexivity|]. split.
  - eapply (E_cat _ _ [_; _; _; _; _]). constructor; [|constructor; [|constructor; [|constructor; [|constructor; [|constructor]]]]]; try apply E_leaf.
    eapply (E_rep _ _ _ _ []); [split; [vm_compute; discriminate|exact I]|constructor].
  - vm_compute. reflexivity.
Qed.

Example C06_the_second_rule_has_no_wrap_around_check :
  let e := [60;42;97;42;58;50;62]%N in
  exists t r x, build e = BuildOk t r /\ rep_class t = true /\ shz t = false /\ Expands t x /\ zchain false x = false.
Proof.
  cbv zeta. do 3 eexists. split; [vm_compute; reflexivity|]. split; [vm_compute; reflexivity|]. split; [vm_compute; reflexivity|]. split.
  - eapply (E_cat _ _ [_]). constructor; [|constructor].
    eapply (E_rep _ _ _ _ [_; _]); [split; vm_compute; [discriminate|discriminate]|].
    constructor; [|constructor; [|constructor]]; (eapply (E_cat _ _ [_; _; _]); constructor; [apply E_leaf|constructor; [apply E_leaf|constructor; [apply E_leaf|constructor]]]).
  - vm_compute. reflexivity.
Qed.
