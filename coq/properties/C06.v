(* C06 -- Rule checking accepts exactly the well-formed expressions, context-free (first lemmas: two of the
   documented rules hold of every glob that builds, at every nesting depth). *)
From WaxModel Require Import Base Token Variance Fold Rule.
From WaxProofs Require Import RuleFacts.

(* repetition bounds are ordered and non-degenerate at every depth of a glob that builds *)
Theorem C06_built_bounds_ordered :
  forall t, check t = Ok None -> Forall (fun x => bad_bounds x = false) (bfs t).
Proof. exact check_bounds. Qed.
Print Assumptions C06_built_bounds_ordered.

(* no concatenation of a glob that builds has two adjacent boundary tokens *)
Theorem C06_built_no_adjacent_boundary :
  forall t, check t = Ok None ->
    Forall (fun x => match x with TCat _ ts => adjacent_boundary ts = None | _ => True end) (bfs t).
Proof. exact check_boundary. Qed.
Print Assumptions C06_built_no_adjacent_boundary.

Theorem C06_adjacent_boundary_none :
  forall l a b r, adjacent_boundary (l ++ a :: b :: r) = None -> is_boundary a && is_boundary b = false.
Proof. exact adjacent_boundary_none. Qed.
Print Assumptions C06_adjacent_boundary_none.
