(* C06 *)
From WaxModel Require Import Base.
