(* C03 -- Negated walks discard exactly the entries that match the negation. *)
From WaxModel Require Import Base Token Walk.
From WaxModel Require Import Regex Spec Encode.
From WaxProofs Require Import SpecFacts EncodeLang WalkFacts PruneFacts GlobWalkFacts NotWalkFacts.

(* per entry: appending a negation keeps exactly the filtrate that neither of its programs matches *)
Theorem C03_not_keeps_unmatched :
  forall ls prefix gw exh nonexh e,
    final_tag (ls ++ [not_layer prefix gw exh nonexh]) e = Filtrate <->
    final_tag ls e = Filtrate /\
    opt_match exh (join_path (presented prefix gw e Filtrate)) = false /\
    opt_match nonexh (join_path (presented prefix gw e Filtrate)) = false.
Proof. exact not_layer_filtrate. Qed.
Print Assumptions C03_not_keeps_unmatched.

(* and the walk with the negation appended is the pruned pre-order for that stack *)
Theorem C03_walk_is_pruned_preorder :
  forall ls mind maxd root, walk mind maxd ls root = walk_spec mind maxd ls root.
Proof. exact walk_refines. Qed.
Print Assumptions C03_walk_is_pruned_preorder.

(* the statement at the level of what the walk yields: for every tree, every underlying stack and every depth window, given
   what an 'always exhaustive' verdict promises (beneath a path the exhaustive program matches, the negation matches
   everything: C09), `not` yields exactly the entries of the underlying walk that the negation does not match - discarding
   whole trees is indistinguishable from filtering each entry *)
Theorem C03_not_is_a_filter :
  forall ls exh nonexh,
    (forall p r, opt_match exh (join_path p) = true -> matched exh nonexh (p ++ r) = true) ->
    forall mind maxd root,
      yields (walk mind maxd (ls ++ [nl exh nonexh]) root) =
      filter (fun q => negb (matched exh nonexh q)) (yields (walk mind maxd ls root)).
Proof. exact not_walk_given_promise. Qed.
Print Assumptions C03_not_is_a_filter.

(* end to end in the model, with the promise discharged: when the exhaustive part of the negation is a token tree every
   expansion of which ends in a tree wildcard (in the class of the conformance theorem; e.g. `**/target/**`), run by any
   engine that decides its language, and the negation does not match the empty path, then over any directory tree with
   valid names, any underlying stack and any depth window, `not` yields exactly the entries of the underlying walk that
   the negation does not match *)
Theorem C03_not_is_a_filter_for_tree_terminated_negations :
  forall orbit tx, wf_tok tx = true -> trees_exact tx = true -> ends_tree tx = true ->
  forall fx : str -> bool, (forall w, fx w = true <-> sem orbit (encode tx) w) -> fx [] = false ->
  forall nonexh ls mind maxd root, names_valid root ->
    yields (walk mind maxd (ls ++ [nl (Some fx) nonexh]) root) =
    filter (fun q => negb (matched (Some fx) nonexh q)) (yields (walk mind maxd ls root)).
Proof. exact not_walk_complete. Qed.
Print Assumptions C03_not_is_a_filter_for_tree_terminated_negations.

(* the class is not empty: the tree of not("**/t/**") *)
Example C03_tree_terminated_nonvacuous :
  let sp := (0%N, 0%N) in
  let tx := TAlt sp [TCat sp [TLeaf sp (LTree false); TLeaf sp (LLit false [116%N]); TLeaf sp (LTree true)]] in
  wf_tok tx = true /\ trees_exact tx = true /\ ends_tree tx = true.
Proof. cbv zeta. repeat split; vm_compute; reflexivity. Qed.

From WaxModel Require Import Variance Fold Query.
From WaxProofs Require Import AlgebraFacts NegationFacts.

(* what "matches the negation" means: the two programs a negation is compiled into (the alternatives of the pattern, split by
   their exhaustiveness verdict, each part recombined with `any`) match together exactly what the negated pattern matches -
   at the level of the documented language, for every pattern whose alternatives have ordered bounds (all built globs);
   includes the adequacy of the fuel of the alternatives queue *)
Theorem C03_negation_programs_match_the_pattern : forall orbit t ext nxt w,
  Forall tok_bounds_ok (into_alternatives t) -> not_partition t = Ok (ext, nxt) ->
  ((opt_lang orbit ext w \/ opt_lang orbit nxt w) <-> Lang orbit t w).
Proof. exact not_partition_lang. Qed.
Print Assumptions C03_negation_programs_match_the_pattern.

Theorem C03_alternatives_cover_the_pattern : forall orbit t w,
  (exists a, In a (into_alternatives t) /\ Lang orbit a w) <-> Lang orbit t w.
Proof. exact into_alternatives_lang. Qed.
Print Assumptions C03_alternatives_cover_the_pattern.

From WaxModel Require Import Rule.
From WaxProofs Require Import ZomFacts ExhaustFacts NegationWalkFacts.

(* end to end for the negations people write: every alternative of the negated pattern is a flat, rule-checked pattern that does
   not end in a separator (`**/target/**`, `*.md`, `**/.git/**`, `src/**/*.tmp`, any() of such); the two programs are run by engines
   that decide the documented languages of the two parts (the regex crate on the compiled programs, through C01_conformance);
   the negation does not match the empty path.  Then (1) the negation filter matches exactly the paths in the documented language
   of the pattern, and (2) over any tree with valid names, any underlying stack and depth window, not() yields exactly the entries
   of the underlying walk that the pattern does not match.  Nothing about exhaustiveness is assumed: the promise of each Always
   verdict is proved (C09_flat_always_sound) *)
Theorem C03_negation_of_flat_patterns_is_a_filter : forall orbit t ext nxt exh nonexh,
  Forall flat_ok (into_alternatives t) -> not_partition t = Ok (ext, nxt) ->
  decides orbit exh ext -> decides orbit nonexh nxt -> opt_match exh [] = false ->
  (forall q, matched exh nonexh q = true <-> Lang orbit t (join_path q)) /\
  forall ls mind maxd root, names_valid root ->
    yields (walk mind maxd (ls ++ [nl exh nonexh]) root) =
    filter (fun q => negb (matched exh nonexh q)) (yields (walk mind maxd ls root)).
Proof. exact negation_walk_flat. Qed.
Print Assumptions C03_negation_of_flat_patterns_is_a_filter.

From WaxModel Require Import Glob.
From WaxProofs Require Import DepthAltFacts NegationAltFacts.

(* the same with the promise abstracted: every alternative whose verdict is `Always` has a sound verdict *)
Theorem C03_negation_is_a_filter_when_the_verdicts_of_its_alternatives_are_sound : forall orbit t ext nxt exh nonexh,
  Forall (sound_alt orbit) (into_alternatives t) -> not_partition t = Ok (ext, nxt) ->
  decides orbit exh ext -> decides orbit nonexh nxt -> opt_match exh [] = false ->
  (forall q, matched exh nonexh q = true <-> Lang orbit t (join_path q)) /\
  forall ls mind maxd root, names_valid root ->
    yields (walk mind maxd (ls ++ [nl exh nonexh]) root) =
    filter (fun q => negb (matched exh nonexh q)) (yields (walk mind maxd ls root)).
Proof. exact negation_walk_sound_alts. Qed.
Print Assumptions C03_negation_is_a_filter_when_the_verdicts_of_its_alternatives_are_sound.

(* the instance for a negated glob that builds, has no repetition, cannot end with a separator and is not an alternation at its top
   (`**/{.git,node_modules}/**`, `{src,tests}/**/*.tmp`): the promise is C09_built_globs_without_repetitions_always_sound *)
Theorem C03_negation_of_a_built_glob_without_repetitions_is_a_filter : forall orbit e t r ext nxt exh nonexh,
  build e = BuildOk t r -> rep_free t = true -> may_end_sep t = false -> into_alternatives t = [t] ->
  not_partition t = Ok (ext, nxt) -> decides orbit exh ext -> decides orbit nonexh nxt -> opt_match exh [] = false ->
  (forall q, matched exh nonexh q = true <-> Lang orbit t (join_path q)) /\
  forall ls mind maxd root, names_valid root ->
    yields (walk mind maxd (ls ++ [nl exh nonexh]) root) =
    filter (fun q => negb (matched exh nonexh q)) (yields (walk mind maxd ls root)).
Proof. exact negation_of_built_glob. Qed.
Print Assumptions C03_negation_of_a_built_glob_without_repetitions_is_a_filter.

(* the premises on the glob are satisfiable: **/{a,b}/** is exhaustive and its own only alternative *)
Example C03_built_negation_nonvacuous :
  let e := [42;42;47;123;97;44;98;125;47;42;42]%N in
  exists t r ext, build e = BuildOk t r /\ rep_free t = true /\ may_end_sep t = false /\ into_alternatives t = [t] /\
                  is_exhaustive t = Ok Always /\ not_partition t = Ok (Some ext, None).
Proof. cbv zeta. do 3 eexists. repeat split; vm_compute; reflexivity. Qed.

From WaxProofs Require Import NegationRepFree.

(* every negated glob that builds, has no repetition and cannot end with a separator, whatever its shape: alternations at the top are split
   into alternatives, each of which inherits what the rule checker guarantees of the whole *)
Theorem C03_negation_of_any_built_glob_without_repetitions_is_a_filter : forall orbit e t r ext nxt exh nonexh,
  build e = BuildOk t r -> rep_free t = true -> may_end_sep t = false ->
  not_partition t = Ok (ext, nxt) -> decides orbit exh ext -> decides orbit nonexh nxt -> opt_match exh [] = false ->
  (forall q, matched exh nonexh q = true <-> Lang orbit t (join_path q)) /\
  forall ls mind maxd root, names_valid root ->
    yields (walk mind maxd (ls ++ [nl exh nonexh]) root) =
    filter (fun q => negb (matched exh nonexh q)) (yields (walk mind maxd ls root)).
Proof. exact negation_of_any_built_rep_free_glob. Qed.
Print Assumptions C03_negation_of_any_built_glob_without_repetitions_is_a_filter.

(* and the negation of a combinator of such globs: not(any([...])) *)
Theorem C03_negation_of_a_combinator_of_built_globs_without_repetitions_is_a_filter : forall orbit es ts t ext nxt exh nonexh,
  Forall2 (fun e t0 => exists r, build e = BuildOk t0 r /\ is_cat t0 = true /\ rep_free t0 = true /\ may_end_sep t0 = false) es ts -> ts <> [] ->
  any_tree ts = Ok t ->
  not_partition t = Ok (ext, nxt) -> decides orbit exh ext -> decides orbit nonexh nxt -> opt_match exh [] = false ->
  (forall q, matched exh nonexh q = true <-> Lang orbit t (join_path q)) /\
  forall ls mind maxd root, names_valid root ->
    yields (walk mind maxd (ls ++ [nl exh nonexh]) root) =
    filter (fun q => negb (matched exh nonexh q)) (yields (walk mind maxd ls root)).
Proof. exact negation_of_any_of_built_rep_free_globs. Qed.
Print Assumptions C03_negation_of_a_combinator_of_built_globs_without_repetitions_is_a_filter.

From WaxProofs Require Import ExhaustRepFacts RuleAdjRep RuleZomRep NegationRep.

(* with repetitions: every negated glob that builds, whose repetitions are written out at least once (not optional_repetition), are bounded
   above or hold a bounded token, and have bodies that begin and end with a leaf, and that cannot end with a separator
   (`not("<a/:1,>*/**/*")`, `not("{<ab:1,3>,c}/**")`): each `Always` verdict's promise is proved (C09 with repetitions), the adjacency
   facts of every expansion come from C06 with repetitions *)
Theorem C03_negation_of_any_built_glob_with_required_repetitions_is_a_filter : forall orbit e t r ext nxt exh nonexh,
  build e = BuildOk t r -> required_reps t = true -> rep_class t = true -> shz t = true -> may_end_sep t = false ->
  not_partition t = Ok (ext, nxt) -> decides orbit exh ext -> decides orbit nonexh nxt -> opt_match exh [] = false ->
  (forall q, matched exh nonexh q = true <-> Lang orbit t (join_path q)) /\
  forall ls mind maxd root, names_valid root ->
    yields (walk mind maxd (ls ++ [nl exh nonexh]) root) =
    filter (fun q => negb (matched exh nonexh q)) (yields (walk mind maxd ls root)).
Proof. exact negation_of_any_built_glob_with_required_reps. Qed.
Print Assumptions C03_negation_of_any_built_glob_with_required_repetitions_is_a_filter.

(* the premises are satisfiable: <a/:1,>*/**/* - an exhaustive negation with a repetition *)
Example C03_repetition_negation_nonvacuous :
  let e := [60;97;47;58;49;44;62;42;47;42;42;47;42]%N in
  exists t r ext, build e = BuildOk t r /\ required_reps t = true /\ rep_class t = true /\ shz t = true /\ may_end_sep t = false /\
                  rep_free t = false /\ is_exhaustive t = Ok Always /\ not_partition t = Ok (Some ext, None).
Proof. cbv zeta. do 3 eexists. repeat split; vm_compute; reflexivity. Qed.
