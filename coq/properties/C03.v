(* C03 -- Negated walks discard exactly the entries that match the negation. *)
From WaxModel Require Import Base Token Walk.
From WaxProofs Require Import WalkFacts.

(* per entry: appending a negation keeps exactly the filtrate that neither of its programs matches *)
Theorem C03_not_keeps_unmatched :
  forall ls prefix gw exh nonexh e,
    final_tag (ls ++ [not_layer prefix gw exh nonexh]) e = Filtrate <->
    final_tag ls e = Filtrate /\
    opt_match exh (join_path (presented prefix gw e Filtrate)) = false /\
    opt_match nonexh (join_path (presented prefix gw e Filtrate)) = false.
Proof. exact not_layer_filtrate. Qed.
Print Assumptions C03_not_keeps_unmatched.

(* and the walk with the negation appended is the pruned pre-order for that stack *)
Theorem C03_walk_is_pruned_preorder :
  forall ls mind maxd root, walk mind maxd ls root = walk_spec mind maxd ls root.
Proof. exact walk_refines. Qed.
Print Assumptions C03_walk_is_pruned_preorder.
