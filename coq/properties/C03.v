(* C03 -- Negated walks discard exactly the entries that match the negation. *)
From WaxModel Require Import Base Token Walk.
From WaxProofs Require Import WalkFacts.

(* per entry: appending a negation keeps exactly the filtrate that neither of its programs matches *)
Theorem C03_not_keeps_unmatched :
  forall ls prefix gw exh nonexh e,
    final_tag (ls ++ [not_layer prefix gw exh nonexh]) e = Filtrate <->
    final_tag ls e = Filtrate /\
    opt_match exh (join_path (presented prefix gw e Filtrate)) = false /\
    opt_match nonexh (join_path (presented prefix gw e Filtrate)) = false.
Proof. exact not_layer_filtrate. Qed.
Print Assumptions C03_not_keeps_unmatched.

(* and the walk with the negation appended is the pruned pre-order for that stack *)
Theorem C03_walk_is_pruned_preorder :
  forall ls mind maxd root, walk mind maxd ls root = walk_spec mind maxd ls root.
Proof. exact walk_refines. Qed.
Print Assumptions C03_walk_is_pruned_preorder.

(* the statement at the level of what the walk yields: for every tree, every underlying stack and every depth window, given
   what an 'always exhaustive' verdict promises (beneath a path the exhaustive program matches, the negation matches
   everything: C09), `not` yields exactly the entries of the underlying walk that the negation does not match - discarding
   whole trees is indistinguishable from filtering each entry *)
Theorem C03_not_is_a_filter :
  forall ls exh nonexh,
    (forall p r, opt_match exh (join_path p) = true -> matched exh nonexh (p ++ r) = true) ->
    forall mind maxd root,
      yields (walk mind maxd (ls ++ [nl exh nonexh]) root) =
      filter (fun q => negb (matched exh nonexh q)) (yields (walk mind maxd ls root)).
Proof.
  intros ls exh nonexh H mind maxd root. rewrite !walk_refines. exact (not_walk_yields ls exh nonexh H mind maxd root 0 []).
Qed.
Print Assumptions C03_not_is_a_filter.
