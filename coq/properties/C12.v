(* C12 *)
From WaxModel Require Import Base.
