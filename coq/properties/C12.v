(* C12 -- Root and semantic-literal queries agree with what the pattern matches. *)
From WaxModel Require Import Base Token Regex Spec Variance Fold.
From WaxProofs Require Import SpecFacts.

(* for every token tree (globs and combinators): "always rooted" => every path of the documented language
   begins with a separator *)
Theorem C12_root_sound :
  forall orbit t p, nonempty_branches t = true -> has_root t = Always -> Lang orbit t p -> starts_sep p = true.
Proof. exact root_sound. Qed.
Print Assumptions C12_root_sound.

From WaxModel Require Import Query.
From WaxProofs Require Import SemanticFacts.

(* the breadth-first search behind has_semantic_literals reaches every component at every nesting depth: whenever some
   component of the expression - directly, or inside any branch of any alternation or repetition - is spelled entirely
   with literals whose text is `.` or `..`, the query answers true (no fuel condition: the model's fuel is proved adequate) *)
Theorem C12_semantic_literals_found :
  forall t, has_sem (components (concatenation t)) -> has_semantic_literals t = true.
Proof. exact semantic_literals_found. Qed.
Print Assumptions C12_semantic_literals_found.

(* the premise is satisfiable below two levels of nesting: a/{b,<c/..>} *)
Example C12_semantic_nonvacuous :
  let sp := (0%N, 0%N) in
  let lit s := TLeaf sp (LLit false s) in
  let inner := TCat sp [lit [99%N]; TLeaf sp LSep; lit [DOT; DOT]] in
  let alt := TAlt sp [TCat sp [lit [98%N]]; TCat sp [TRep sp inner 1%N None]] in
  let t := TCat sp [lit [97%N]; TLeaf sp LSep; alt] in
  has_sem (components (concatenation t)) /\ has_semantic_literals t = true.
Proof.
  cbv zeta. split; [|vm_compute; reflexivity].
  eapply hs_deeper; [right; left; reflexivity|vm_compute; reflexivity|left; reflexivity|reflexivity|].
  eapply hs_deeper; [left; reflexivity|vm_compute; reflexivity|right; left; reflexivity|reflexivity|].
  eapply hs_deeper; [left; reflexivity|vm_compute; reflexivity|left; reflexivity|reflexivity|].
  eapply hs_deeper; [left; reflexivity|vm_compute; reflexivity|left; reflexivity|reflexivity|].
  eapply hs_here; [right; left; reflexivity|vm_compute; reflexivity|vm_compute; reflexivity].
Qed.

From WaxModel Require Import Parse Glob.
From WaxProofs Require Import BuiltNonempty.

(* for every glob that builds (no side condition on the tree) *)
Theorem C12_built_root_sound : forall orbit e t r p, build e = BuildOk t r -> has_root t = Always -> Lang orbit t p -> starts_sep p = true.
Proof. exact built_root_sound. Qed.
Print Assumptions C12_built_root_sound.

Theorem C12_built_globs_have_nonempty_branches : forall e t r, build e = BuildOk t r -> nonempty_branches t = true.
Proof. exact built_nonempty_branches. Qed.
Print Assumptions C12_built_globs_have_nonempty_branches.

From WaxModel Require Import Rule.
From WaxProofs Require Import DepthAltFacts RootFacts.

(* the second sentence, for every glob that builds and has no repetition: it reports "always" or "never", not "sometimes".  An
   alternation at the beginning of the expression, at any nesting, has no branch that begins with a root: the rule checker rejects
   it (RootedSubGlob) through the outer context that nested branches inherit, so the fold over starting tokens answers Never.
   With repetitions the claim fails: the known class nested_rooting *)
Theorem C12_built_globs_without_repetitions_are_never_sometimes_rooted : forall e t r,
  build e = BuildOk t r -> rep_free t = true -> has_root t <> Sometimes.
Proof. exact built_never_sometimes. Qed.
Print Assumptions C12_built_globs_without_repetitions_are_never_sometimes_rooted.

From WaxProofs Require Import RootRep.

(* beyond globs without repetitions: `has_root` only reads the starting chain of the tree (the first token, and through alternations
   the first token of every branch), so repetitions anywhere else are irrelevant; and an expression may begin with a repetition whose
   body begins with a leaf (`<a/:1,>b`; `</a:1,>` is rooted like its leaf; `</a:0,>` is rejected as a rooted sub-glob, which is exactly
   what makes the optional case Never).  The complement - a repetition at the beginning of an alternation branch or of another
   repetition - is the known class nested_rooting (`{</a:1,>,c}` builds and is sometimes rooted) *)
Theorem C12_built_globs_that_start_plainly_are_never_sometimes_rooted : forall e t r,
  build e = BuildOk t r -> starts_plainly t = true -> has_root t <> Sometimes.
Proof. exact built_never_sometimes_r. Qed.
Print Assumptions C12_built_globs_that_start_plainly_are_never_sometimes_rooted.

(* the premises are satisfiable: <a/:0,>{b,c}<d:0,> (never rooted), </a:1,>b (always rooted) *)
Example C12_starts_plainly_nonvacuous :
  (let e := [60;97;47;58;48;44;62;123;98;44;99;125;60;100;58;48;44;62]%N in
   exists t r, build e = BuildOk t r /\ starts_plainly t = true /\ rep_free t = false /\ has_root t = Never) /\
  (let e := [60;47;97;58;49;44;62;98]%N in
   exists t r, build e = BuildOk t r /\ starts_plainly t = true /\ has_root t = Always).
Proof. cbv zeta. split; do 2 eexists; repeat split; vm_compute; reflexivity. Qed.

(* the complement is not empty: {</a:1,>,c} builds and is sometimes rooted (known class nested_rooting) *)
Example C12_a_repetition_at_the_beginning_of_a_branch_may_be_sometimes_rooted :
  let e := [123;60;47;97;58;49;44;62;44;99;125]%N in
  exists t r, build e = BuildOk t r /\ starts_plainly t = false /\ has_root t = Sometimes.
Proof. cbv zeta. do 2 eexists. repeat split; vm_compute; reflexivity. Qed.
