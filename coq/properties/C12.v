(* C12 -- Root and semantic-literal queries agree with what the pattern matches. *)
From WaxModel Require Import Base Token Regex Spec Variance Fold.
From WaxProofs Require Import SpecFacts.

(* for every token tree (globs and combinators): "always rooted" => every path of the documented language
   begins with a separator *)
Theorem C12_root_sound :
  forall orbit t p, nonempty_branches t = true -> has_root t = Always -> Lang orbit t p -> starts_sep p = true.
Proof. exact root_sound. Qed.
Print Assumptions C12_root_sound.
