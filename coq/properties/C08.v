(* C08 -- Partitioning preserves meaning. *)
From WaxModel Require Import Base Token Parse Query.
From WaxProofs Require Import ParseFacts.

(* the postfix expression is the suffix of the expression at the byte offset of the popped tokens:
   dropping the bytes of a leading run of characters leaves exactly the rest (on a character boundary) *)
Theorem C08_display_suffix : forall a b, drop_bytes (a ++ b) (blen a) = Some b.
Proof. exact drop_bytes_app. Qed.
Print Assumptions C08_display_suffix.

From WaxModel Require Import Glob.
From WaxModel Require Import Parse.
From WaxProofs Require Import SpanFacts PartitionFacts.

(* partitioning a built glob never cuts its expression inside a character - the bytes popped end where a top-level token begins
   (the tokens tile the expression), unrooting a tree wildcard skips one ASCII character - and never fails to re-annotate the
   postfix: the only possible failure is a checked overflow in the text variance *)
Theorem C08_partition_is_total_up_to_overflow : forall hc e t r s, build e = BuildOk t r -> partition hc e t = Panic s -> s = PanicOverflow.
Proof. exact partition_panics_only_by_overflow. Qed.
Print Assumptions C08_partition_is_total_up_to_overflow.

Theorem C08_top_level_tokens_tile_the_expression : forall e f tm i ts i', at_ e i -> p_tokens f tm i = POk (ts, i') -> tiled (i_pos i) ts (i_pos i').
Proof. exact p_tokens_tiled. Qed.
Print Assumptions C08_top_level_tokens_tile_the_expression.

From WaxModel Require Import Regex Spec Variance Fold Query.
From WaxProofs Require Import TextExists PartitionLang PartitionIdem.

(* the first sentence of the property, at the level of the documented language, for every glob that builds.
   A prefix was popped ([n] > 0 tokens, text [text]): what follows it cannot begin with a tree wildcard - then the texts of the glob
   are exactly the prefix followed by the texts of the postfix - or it is a tree wildcard, which gives up its separator - then the
   texts of the glob are the prefix, a separator and a text of the postfix (and the prefix alone when nothing need follow the
   wildcard).  The prefix may be any run of tokens with invariant text (literals, separators, invariant alternations and
   repetitions); hypotheses: the case-folding table agrees with has_casing (validated on every run), no class lists the
   separator (known class separator_class) *)
Theorem C08_partition_preserves_the_language : forall (orbit : char -> list char) (has_casing : char -> bool),
  (forall c d, has_casing c = false -> In d (orbit c) -> d = c) ->
  forall e sp ts r n text post e',
  build e = BuildOk (TCat sp ts) r -> classes_plain (TCat sp ts) = true ->
  invariant_text_prefix has_casing (TCat sp ts) = Ok (n, text) -> (0 < n)%N -> text <> [] ->
  partition has_casing e (TCat sp ts) = Ok (PartSome text post e') ->
  forall first rest, skipn (N.to_nat n) ts = first :: rest ->
    (starts_tree_list (first :: rest) = false -> forall w, Lang orbit (TCat sp ts) w <-> exists r, w = text ++ r /\ Lang orbit post r) /\
    (is_tree first = true -> forall w, Lang orbit (TCat sp ts) w <->
       (exists r, w = text ++ SEP :: r /\ Lang orbit post r) \/ (w = text /\ Expands (TCat sp rest) [])).
Proof. exact built_partition_prefix. Qed.
Print Assumptions C08_partition_preserves_the_language.

(* nothing was popped: the postfix is the glob, except that a glob that begins with a rooted tree wildcard has the root as its
   prefix and the wildcard gives up its separator *)
Theorem C08_partition_without_prefix : forall orbit has_casing e sp ts r text post e',
  build e = BuildOk (TCat sp ts) r -> invariant_text_prefix has_casing (TCat sp ts) = Ok (0%N, text) ->
  partition has_casing e (TCat sp ts) = Ok (PartSome text post e') ->
  forall w, Lang orbit (TCat sp ts) w <->
    match ts with
    | TLeaf _ (LTree true) :: _ => exists r, w = SEP :: r /\ Lang orbit post r
    | _ => Lang orbit post w
    end.
Proof. exact built_partition_no_prefix. Qed.
Print Assumptions C08_partition_without_prefix.

(* the second sentence: partitioned again, the postfix yields an empty prefix and itself (expression included), unless its
   first token is rooted (the known class rooted_repetition) *)
Theorem C08_partition_is_idempotent : forall has_casing e sp ts text post e',
  bounds_list ts -> partition has_casing e (TCat sp ts) = Ok (PartSome text post e') ->
  (match post with TCat _ (t0 :: _) => has_root t0 <> Always | _ => True end) ->
  partition has_casing e' post = Ok (PartSome [] post e').
Proof. exact partition_idempotent. Qed.
Print Assumptions C08_partition_is_idempotent.

(* the premises are satisfiable: `a/**/b` and `a/b/*.c` *)
Example C08_prefix_tree_nonvacuous :
  exists sp ts r post e' first rest,
    build ex1 = BuildOk (TCat sp ts) r /\ classes_plain (TCat sp ts) = true /\
    invariant_text_prefix (fun _ => false) (TCat sp ts) = Ok (1%N, [97%N]) /\
    partition (fun _ => false) ex1 (TCat sp ts) = Ok (PartSome [97%N] post e') /\
    skipn 1 ts = first :: rest /\ is_tree first = true.
Proof. exact partition_prefix_tree_nonvacuous. Qed.
Example C08_prefix_sep_nonvacuous :
  exists sp ts r post e' first rest,
    build ex2 = BuildOk (TCat sp ts) r /\ classes_plain (TCat sp ts) = true /\
    invariant_text_prefix (fun _ => false) (TCat sp ts) = Ok (4%N, [97; 47; 98; 47]%N) /\
    partition (fun _ => false) ex2 (TCat sp ts) = Ok (PartSome [97; 47; 98; 47]%N post e') /\
    skipn 4 ts = first :: rest /\ starts_tree_list (first :: rest) = false.
Proof. exact partition_prefix_sep_nonvacuous. Qed.

From WaxProofs Require Import PartitionSpans.

(* the last clause: the capture spans of the postfix are relative to the displayed suffix *)
Theorem C08_postfix_capture_spans_are_relative_to_the_suffix : forall hc e t r text post e' c,
  build e = BuildOk t r -> partition hc e t = Ok (PartSome text post e') -> In c (captures post) -> span_ok e' (snd c).
Proof. exact postfix_capture_spans_ok. Qed.
Print Assumptions C08_postfix_capture_spans_are_relative_to_the_suffix.

From WaxProofs Require Import DepthAltFacts PartitionRoot.

(* "a postfix glob that is never rooted": for every glob that builds and has no repetition.  The prefix loop stops either at a variant
   boundary - a tree wildcard, which gives up its root - or right after the last boundary before the first variant token, and what follows
   a separator cannot begin with a boundary: a token that reports a root has an expansion that begins with one, which the rule checker
   excludes over expansions (C06).  With repetitions: the known class rooted_repetition *)
Theorem C08_postfix_is_never_rooted : forall hc e sp ts r text post e',
  build e = BuildOk (TCat sp ts) r -> rep_free (TCat sp ts) = true ->
  partition hc e (TCat sp ts) = Ok (PartSome text post e') -> has_root post = Never.
Proof. exact built_postfix_never_rooted. Qed.
Print Assumptions C08_postfix_is_never_rooted.

(* hence idempotence without side condition for those globs *)
Theorem C08_partition_is_idempotent_for_built_globs_without_repetitions : forall hc e sp ts r text post e',
  build e = BuildOk (TCat sp ts) r -> rep_free (TCat sp ts) = true ->
  partition hc e (TCat sp ts) = Ok (PartSome text post e') -> partition hc e' post = Ok (PartSome [] post e').
Proof. exact built_partition_idempotent. Qed.
Print Assumptions C08_partition_is_idempotent_for_built_globs_without_repetitions.

(* the premises are satisfiable: {s,t}/**/*.r has no prefix and an unrooted postfix *)
Example C08_never_rooted_nonvacuous :
  let e := [123;115;44;116;125;47;42;42;47;42;46;114]%N in
  exists sp ts r post e', build e = BuildOk (TCat sp ts) r /\ rep_free (TCat sp ts) = true /\
     partition (fun _ => false) e (TCat sp ts) = Ok (PartSome [] post e') /\ has_root post = Never.
Proof. cbv zeta. do 5 eexists. repeat split; vm_compute; reflexivity. Qed.

From WaxProofs Require Import RuleAdjRep RuleZomRep RootRep PartitionRootRep.

(* with repetitions: the postfix is never rooted, hence partition is idempotent, for every glob that builds, whose repetitions are
   written out at least once with bodies that begin and end with a leaf (the class of C06 over expansions with repetitions) and whose
   starting chain holds no repetition - a glob rooted through a repetition at its very beginning keeps its root (known class
   rooted_repetition).  A repetition that reports a root has an expansion that begins with a boundary (any tree with ordered bounds
   and non-empty branches has expansions: copies of one), and right after a boundary that contradicts C06 *)
Theorem C08_postfix_is_never_rooted_with_required_repetitions : forall hc e sp ts r text post e',
  build e = BuildOk (TCat sp ts) r -> rep_class (TCat sp ts) = true -> chain_rep_free (TCat sp ts) = true ->
  partition hc e (TCat sp ts) = Ok (PartSome text post e') -> has_root post = Never.
Proof. exact built_postfix_never_rooted_r. Qed.
Print Assumptions C08_postfix_is_never_rooted_with_required_repetitions.

Theorem C08_partition_is_idempotent_with_required_repetitions : forall hc e sp ts r text post e',
  build e = BuildOk (TCat sp ts) r -> rep_class (TCat sp ts) = true -> chain_rep_free (TCat sp ts) = true ->
  partition hc e (TCat sp ts) = Ok (PartSome text post e') -> partition hc e' post = Ok (PartSome [] post e').
Proof. exact built_partition_idempotent_r. Qed.
Print Assumptions C08_partition_is_idempotent_with_required_repetitions.

(* the premises are satisfiable: a/<b/:1,>*.c pops `a` and leaves a postfix that begins with the repetition *)
Example C08_repetition_nonvacuous :
  let e := [97;47;60;98;47;58;49;44;62;42;46;99]%N in
  exists sp ts r text post e', build e = BuildOk (TCat sp ts) r /\ rep_class (TCat sp ts) = true /\ chain_rep_free (TCat sp ts) = true /\
     rep_free (TCat sp ts) = false /\ partition (fun _ => false) e (TCat sp ts) = Ok (PartSome text post e') /\ text = [97%N; 47%N] /\ has_root post = Never.
Proof. cbv zeta. do 6 eexists. repeat split; vm_compute; reflexivity. Qed.
