(* C08 *)
From WaxModel Require Import Base.
