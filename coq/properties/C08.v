(* C08 -- Partitioning preserves meaning. *)
From WaxModel Require Import Base Token Parse Query.
From WaxProofs Require Import ParseFacts.

(* the postfix expression is the suffix of the expression at the byte offset of the popped tokens:
   dropping the bytes of a leading run of characters leaves exactly the rest (on a character boundary) *)
Theorem C08_display_suffix : forall a b, drop_bytes (a ++ b) (blen a) = Some b.
Proof. exact drop_bytes_app. Qed.
Print Assumptions C08_display_suffix.

From WaxModel Require Import Glob.
From WaxModel Require Import Parse.
From WaxProofs Require Import SpanFacts PartitionFacts.

(* partitioning a built glob never cuts its expression inside a character - the bytes popped end where a top-level token begins
   (the tokens tile the expression), unrooting a tree wildcard skips one ASCII character - and never fails to re-annotate the
   postfix: the only possible failure is a checked overflow in the text variance *)
Theorem C08_partition_is_total_up_to_overflow : forall hc e t r s, build e = BuildOk t r -> partition hc e t = Panic s -> s = PanicOverflow.
Proof. exact partition_panics_only_by_overflow. Qed.
Print Assumptions C08_partition_is_total_up_to_overflow.

Theorem C08_top_level_tokens_tile_the_expression : forall e f tm i ts i', at_ e i -> p_tokens f tm i = POk (ts, i') -> tiled (i_pos i) ts (i_pos i').
Proof. exact p_tokens_tiled. Qed.
Print Assumptions C08_top_level_tokens_tile_the_expression.
