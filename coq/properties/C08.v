(* C08 -- Partitioning preserves meaning. *)
From WaxModel Require Import Base Token Parse Query.
From WaxProofs Require Import ParseFacts.

(* the postfix expression is the suffix of the expression at the byte offset of the popped tokens:
   dropping the bytes of a leading run of characters leaves exactly the rest (on a character boundary) *)
Theorem C08_display_suffix : forall a b, drop_bytes (a ++ b) (blen a) = Some b.
Proof. exact drop_bytes_app. Qed.
Print Assumptions C08_display_suffix.
