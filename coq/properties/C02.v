(* C02 -- Walking a glob yields exactly the files whose relative path matches. *)
From WaxModel Require Import Base Token Walk.
From WaxProofs Require Import WalkFacts.

(* an entry is only yielded when the complete program matches its path relative to the directory given *)
Theorem C02_yields_only_matches :
  forall prefix progs complete e t,
    glob_layer prefix progs complete e t = Keep -> complete (join_path (prefix ++ e_path e)) = true.
Proof. exact glob_layer_keep_matches. Qed.
Print Assumptions C02_yields_only_matches.

(* a directory is only discarded as a tree when a component program rejects the component at its own position *)
Theorem C02_prune_needs_a_rejected_component :
  forall cands progs whole,
    zip_loop cands progs whole = VTree ->
    exists i c pr, nth_error cands i = Some c /\ nth_error progs i = Some pr /\ pr c = false.
Proof. exact zip_loop_tree. Qed.
Print Assumptions C02_prune_needs_a_rejected_component.

(* with the glob layer first, the walk is the pruned pre-order of the tree *)
Theorem C02_walk_is_pruned_preorder :
  forall ls mind maxd root, walk mind maxd ls root = walk_spec mind maxd ls root.
Proof. exact walk_refines. Qed.
Print Assumptions C02_walk_is_pruned_preorder.
