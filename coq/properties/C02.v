(* C02 -- Walking a glob yields exactly the files whose relative path matches. *)
From WaxModel Require Import Base Token Walk.
From WaxModel Require Import Regex Encode Parse Query.
From WaxProofs Require Import WalkFacts PruneFacts ParseTreeFacts GlobWalkFacts.

(* an entry is only yielded when the complete program matches its path relative to the directory given *)
Theorem C02_yields_only_matches :
  forall prefix progs complete e t,
    glob_layer prefix progs complete e t = Keep -> complete (join_path (prefix ++ e_path e)) = true.
Proof. exact glob_layer_keep_matches. Qed.
Print Assumptions C02_yields_only_matches.

(* a directory is only discarded as a tree when a component program rejects the component at its own position *)
Theorem C02_prune_needs_a_rejected_component :
  forall cands progs whole,
    zip_loop cands progs whole = VTree ->
    exists i c pr, nth_error cands i = Some c /\ nth_error progs i = Some pr /\ pr c = false.
Proof. exact zip_loop_tree. Qed.
Print Assumptions C02_prune_needs_a_rejected_component.

(* with the glob layer first, the walk is the pruned pre-order of the tree *)
Theorem C02_walk_is_pruned_preorder :
  forall ls mind maxd root, walk mind maxd ls root = walk_spec mind maxd ls root.
Proof. exact walk_refines. Qed.
Print Assumptions C02_walk_is_pruned_preorder.

(* the statement at the level of what the walk yields: for every tree, given pruning soundness of the component programs
   (whatever the complete program accepts, every component program accepts at its own position - what the tie and the oracle
   check of the code's programs), the walk yields exactly the entries the complete program matches (that have at least as
   many components as there are component programs), in pre-order, each once; pruning never loses one *)
Theorem C02_walk_yields_exactly_the_matches :
  forall prefix progs complete,
    (forall rel, complete (join_path rel) = true ->
       forall i c pr, nth_error rel i = Some c -> nth_error progs i = Some pr -> pr c = true) ->
    forall root,
      yields (walk 0 None [glob_layer prefix progs complete] root) =
      filter (keeps prefix progs complete) (all_entries [] root).
Proof. exact glob_walk_given_pruning. Qed.
Print Assumptions C02_walk_yields_exactly_the_matches.

(* pruning soundness of the programs the encoder builds (the hypothesis above, discharged): for every token tree whose
   literals are separator-free, whatever path of valid names the complete program accepts, every component program accepts
   the component at its own position (orbit: any case-folding table that never folds to the separator - checked over all
   code points on every run) *)
Theorem C02_component_programs_prune_soundly :
  forall orbit, (forall c d, In d (orbit c) -> d <> SEP) ->
  forall t rel, lits_nosep t = true -> Forall valid_name rel -> sem orbit (encode t) (join_path rel) ->
  forall i c comp, nth_error rel i = Some c ->
    nth_error (take_until_boundary (components (concatenation t))) i = Some comp -> sem orbit (enc_component comp) c.
Proof. exact prune_sound. Qed.
Print Assumptions C02_component_programs_prune_soundly.

(* ... and every tree the parser produces has separator-free literals *)
Theorem C02_parsed_literals_are_separator_free : forall e t, parse e = ParseOk t -> lits_nosep t = true.
Proof. exact parse_lits_nosep. Qed.
Print Assumptions C02_parsed_literals_are_separator_free.

(* end to end in the model: the walk of a glob with the complete program and the component programs the encoder builds for
   it, run by any engine that decides the regular languages, over any directory tree with valid names, yields exactly the
   entries whose path the complete program matches (with at least as many components as there are component programs),
   in pre-order, each once *)
Theorem C02_walk_of_a_glob_yields_exactly_its_matches :
  forall orbit, (forall c d, In d (orbit c) -> d <> SEP) ->
  forall t, lits_nosep t = true ->
  forall complete : str -> bool, (forall w, complete w = true <-> sem orbit (encode t) w) ->
  forall progs : list (name -> bool),
    Forall2 (fun (pr : name -> bool) r => forall w, pr w = true <-> sem orbit r w) progs (component_programs t) ->
  forall prefix, Forall valid_name prefix ->
  forall root, names_valid root ->
    yields (walk 0 None [glob_layer prefix progs complete] root) =
    filter (keeps prefix progs complete) (all_entries [] root).
Proof. exact glob_walk_complete. Qed.
Print Assumptions C02_walk_of_a_glob_yields_exactly_its_matches.

(* globs with an invariant prefix (the walk starts below the directory given): the prefix components, the starting directory
   and the translated depth window are part of the model; over a tree with valid, distinct sibling names, what the walk yields
   are exactly the entries of the whole tree that lie at or below the prefix and that the complete program matches *)
Theorem C02_prefixed_glob_walk_yields_exactly_its_matches :
  forall orbit, (forall c d, In d (orbit c) -> d <> SEP) ->
  forall t, lits_nosep t = true ->
  forall complete : str -> bool, (forall w, complete w = true <-> sem orbit (encode t) w) ->
  forall progs : list (name -> bool),
    Forall2 (fun (pr : name -> bool) r => forall w, pr w = true <-> sem orbit r w) progs (component_programs t) ->
  forall root prefix_text, names_valid root -> names_unique root ->
    glob_walk_root root prefix_text = lookup root (split_components prefix_text) ->
    yields (glob_walk root prefix_text 0 None progs complete []) =
    filter (keeps (split_components prefix_text) progs complete) (below (split_components prefix_text) (all_entries [] root)).
Proof. exact prefixed_glob_walk_complete. Qed.
Print Assumptions C02_prefixed_glob_walk_yields_exactly_its_matches.

From WaxModel Require Import Spec Parse Glob.
From WaxProofs Require Import BuiltWalk.

(* in terms of the documented language: for a glob that builds outside the three known classes of C01, the walk yields exactly the
   entries of the tree whose path below the directory given belongs to the documented language of the glob (and has at least as many
   components as there are component programs) - C02's "exactly those whose path relative to the root the glob matches", with
   "matches" being the language stated without regular expressions *)
Theorem C02_walk_of_a_built_glob_yields_its_documented_language : forall orbit, (forall c d, In d (orbit c) -> d <> SEP) ->
  forall e t r, build e = BuildOk t r -> has_reversed_range t = false -> trees_stable t = true -> rooted_first_tree t = false ->
  forall complete : str -> bool, (forall w, complete w = true <-> sem orbit (encode t) w) ->
  forall progs : list (name -> bool),
    Forall2 (fun (pr : name -> bool) re0 => forall w, pr w = true <-> sem orbit re0 w) progs (component_programs t) ->
  forall prefix, Forall valid_name prefix ->
  forall root, names_valid root ->
  forall q, In q (yields (walk 0 None [glob_layer prefix progs complete] root)) <->
            In q (all_entries [] root) /\ Lang orbit t (join_path (prefix ++ q)) /\ (length progs <= length (prefix ++ q))%nat.
Proof. exact built_glob_walk_yields_the_language. Qed.
Print Assumptions C02_walk_of_a_built_glob_yields_its_documented_language.
