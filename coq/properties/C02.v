(* C02 -- Walking a glob yields exactly the files whose relative path matches. *)
From WaxModel Require Import Base Token Walk.
From WaxProofs Require Import WalkFacts.

(* an entry is only yielded when the complete program matches its path relative to the directory given *)
Theorem C02_yields_only_matches :
  forall prefix progs complete e t,
    glob_layer prefix progs complete e t = Keep -> complete (join_path (prefix ++ e_path e)) = true.
Proof. exact glob_layer_keep_matches. Qed.
Print Assumptions C02_yields_only_matches.

(* a directory is only discarded as a tree when a component program rejects the component at its own position *)
Theorem C02_prune_needs_a_rejected_component :
  forall cands progs whole,
    zip_loop cands progs whole = VTree ->
    exists i c pr, nth_error cands i = Some c /\ nth_error progs i = Some pr /\ pr c = false.
Proof. exact zip_loop_tree. Qed.
Print Assumptions C02_prune_needs_a_rejected_component.

(* with the glob layer first, the walk is the pruned pre-order of the tree *)
Theorem C02_walk_is_pruned_preorder :
  forall ls mind maxd root, walk mind maxd ls root = walk_spec mind maxd ls root.
Proof. exact walk_refines. Qed.
Print Assumptions C02_walk_is_pruned_preorder.

(* the statement at the level of what the walk yields: for every tree, given pruning soundness of the component programs
   (whatever the complete program accepts, every component program accepts at its own position - what the tie and the oracle
   check of the code's programs), the walk yields exactly the entries the complete program matches (that have at least as
   many components as there are component programs), in pre-order, each once; pruning never loses one *)
Theorem C02_walk_yields_exactly_the_matches :
  forall prefix progs complete,
    (forall rel, complete (join_path rel) = true ->
       forall i c pr, nth_error rel i = Some c -> nth_error progs i = Some pr -> pr c = true) ->
    forall root,
      yields (walk 0 None [glob_layer prefix progs complete] root) =
      filter (keeps prefix progs complete) (all_entries [] root).
Proof.
  intros prefix progs complete H root. rewrite walk_refines. exact (glob_walk_yields prefix progs complete H root 0 []).
Qed.
Print Assumptions C02_walk_yields_exactly_the_matches.
