(* C18 -- Escaping turns any text into a glob that matches exactly that text. *)
From WaxModel Require Import Base Token Parse Query.
From WaxProofs Require Import ParseFacts.

(* the literal parser reads an escaped separator-free, backslash-free string back as exactly that string *)
Theorem C18_escape_roundtrip_component : forall s, plain s = true -> lit_chars (escape s) = Some (s, []).
Proof. exact lit_chars_escape. Qed.
Print Assumptions C18_escape_roundtrip_component.

(* every character the parser treats specially, other than `/` and `\`, is reported as a meta-character *)
Theorem C18_meta_complete :
  forall c, mem c LIT_SPECIAL = true -> c <> SEP -> c <> BSLASH -> is_meta_character c = true.
Proof. exact special_is_meta. Qed.
Print Assumptions C18_meta_complete.

(* escaping leaves strings without meta-characters unchanged *)
Theorem C18_identity : forall s, existsb is_meta_character s = false -> escape s = s.
Proof. exact escape_identity. Qed.
Print Assumptions C18_identity.

From WaxModel Require Import Regex Encode Variance Fold Rule Glob.
From WaxProofs Require Import EscapeFacts.

(* the property end to end, in the model of the whole build pipeline: for every string without a backslash, without two
   adjacent separators and shorter than the invariant size limit, the escaped string builds (it parses - the fuel of the
   parser is proved adequate -, passes every rule and compiles), the glob reports the string as its invariant text, and
   its program matches the string and no other text - whatever the case-folding table *)
Theorem C18_escape_builds_a_glob_for_exactly_the_text : forall s,
  nobs s = true -> no_double_sep s = true -> blen s < MAX_INVARIANT_SIZE ->
  exists t r, build (escape s) = BuildOk t r /\
    (forall has_casing, exists txt, text_variance has_casing t = Ok (Inv txt) /\ text_to_string txt = s) /\
    (forall orbit w, sem orbit r w <-> w = s).
Proof. exact escape_builds_exactly. Qed.
Print Assumptions C18_escape_builds_a_glob_for_exactly_the_text.

(* the premises are satisfiable by a text full of meta-characters: a*b/[c]?{d,e} *)
Example C18_nonvacuous :
  let s := [97; 42; 98; 47; 91; 99; 93; 63; 123; 100; 44; 101; 125] in
  nobs s = true /\ no_double_sep s = true /\ blen s < MAX_INVARIANT_SIZE /\
  match build (escape s) with BuildOk _ _ => True | _ => False end.
Proof. cbv zeta. repeat split; vm_compute; try reflexivity; exact I. Qed.
