(* C18 -- Escaping turns any text into a glob that matches exactly that text. *)
From WaxModel Require Import Base Token Parse Query.
From WaxProofs Require Import ParseFacts.

(* the literal parser reads an escaped separator-free, backslash-free string back as exactly that string *)
Theorem C18_escape_roundtrip_component : forall s, plain s = true -> lit_chars (escape s) = Some (s, []).
Proof. exact lit_chars_escape. Qed.
Print Assumptions C18_escape_roundtrip_component.

(* every character the parser treats specially, other than `/` and `\`, is reported as a meta-character *)
Theorem C18_meta_complete :
  forall c, mem c LIT_SPECIAL = true -> c <> SEP -> c <> BSLASH -> is_meta_character c = true.
Proof. exact special_is_meta. Qed.
Print Assumptions C18_meta_complete.

(* escaping leaves strings without meta-characters unchanged *)
Theorem C18_identity : forall s, existsb is_meta_character s = false -> escape s = s.
Proof. exact escape_identity. Qed.
Print Assumptions C18_identity.
