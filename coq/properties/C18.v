(* C18 *)
From WaxModel Require Import Base.
