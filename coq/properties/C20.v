(* C20 -- I/O faults during a walk are reported, isolated and never swallowed (model: the operating system and
   walkdir turning a fault into one error item is trusted and differential-tested). *)
From WaxModel Require Import Base Token Walk.
From WaxProofs Require Import WalkFacts.

(* layers neither create nor alter error items: every error of a filtered walk is an error of the plain walk *)
Theorem C20_errors_come_from_the_tree :
  forall l mind maxd n d p q e,
    In (RError q e) (spec l mind maxd d p n) -> In (RError q e) (spec [] mind maxd d p n).
Proof. exact errors_from_the_tree. Qed.
Print Assumptions C20_errors_come_from_the_tree.

(* the machine with faults still produces exactly the pruned pre-order, errors in place *)
Theorem C20_faults_in_place :
  forall ls mind maxd root, walk mind maxd ls root = walk_spec mind maxd ls root.
Proof. exact walk_refines. Qed.
Print Assumptions C20_faults_in_place.

From WaxProofs Require Import HealFacts.

(* "the remaining entries are exactly those a fault-free walk of the readable part of the tree would yield": removing the
   error items from the walk of a tree with faults leaves, item for item and in order, the walk of the healed tree
   (unreadable directories read as empty, error nodes removed) -- under any stack of layers and any depth window, so every
   layer also observes the same entries with the same tags *)
Theorem C20_entries_are_the_fault_free_walk :
  forall ls mind maxd root,
    is_err_node root = false ->
    entries_only (walk mind maxd ls root) = walk mind maxd ls (heal root).
Proof. exact walk_entries_heal. Qed.
Print Assumptions C20_entries_are_the_fault_free_walk.

(* the fault-free walk has no error item: every error item of the walk is due to a fault *)
Theorem C20_no_fault_no_error :
  forall ls mind maxd n d p q e,
    is_err_node n = false -> ~ In (RError q e) (spec ls mind maxd d p (heal n)).
Proof. exact heal_no_errors. Qed.
Print Assumptions C20_no_fault_no_error.

(* non-vacuity: a tree with an unreadable directory, a dangling link and a file; one error each, the file survives *)
Example C20_heal_example :
  let t := NDir [([97%N], NDirErr); ([108%N], NErr); ([102%N], NFile)] in
  walk 0%nat None [] t =
    [REntry (mkEntry [] true) Filtrate []; REntry (mkEntry [[97%N]] true) Filtrate []; RError [[97%N]] 1;
     RError [[108%N]] 1; REntry (mkEntry [[102%N]] false) Filtrate []]
  /\ heal t = NDir [([97%N], NDir []); ([102%N], NFile)].
Proof. vm_compute. split; reflexivity. Qed.
