(* C20 -- I/O faults during a walk are reported, isolated and never swallowed (model: the operating system and
   walkdir turning a fault into one error item is trusted and differential-tested). *)
From WaxModel Require Import Base Token Walk.
From WaxProofs Require Import WalkFacts.

(* layers neither create nor alter error items: every error of a filtered walk is an error of the plain walk *)
Theorem C20_errors_come_from_the_tree :
  forall l mind maxd n d p q e,
    In (RError q e) (spec l mind maxd d p n) -> In (RError q e) (spec [] mind maxd d p n).
Proof. exact errors_from_the_tree. Qed.
Print Assumptions C20_errors_come_from_the_tree.

(* the machine with faults still produces exactly the pruned pre-order, errors in place *)
Theorem C20_faults_in_place :
  forall ls mind maxd root, walk mind maxd ls root = walk_spec mind maxd ls root.
Proof. exact walk_refines. Qed.
Print Assumptions C20_faults_in_place.
