(* C05 -- Building and querying a glob is total. *)
From WaxModel Require Import Base Token Variance.
From WaxProofs Require Import AlgebraFacts.

(* after the repair the conjunction of bounded ranges never reaches unreachable!() nor its expect:
   on valid ranges it returns a valid range, or the checked addition overflows *)
Theorem C05_range_conjunction_total :
  forall a b, bvr_ok a -> bvr_ok b ->
    (exists r, bvr_conj a b = Ok r /\ bvr_ok r) \/ bvr_conj a b = Panic PanicOverflow.
Proof. exact bvr_conj_total. Qed.
Print Assumptions C05_range_conjunction_total.

From WaxModel Require Import Parse Glob.
From WaxProofs Require Import ParseFuelFacts.

(* the recursion of the parser model is bounded by explicit fuel; the fuel is adequate for every string: the parser never
   takes its out-of-fuel exit (every successful token consumes a character; nesting costs four units per character), so
   the model of Glob::new is a total function whose only outcomes are a glob, a parse error, a rule error or one of the
   named panic sites *)
Theorem C05_parser_never_out_of_fuel : forall e, parse e <> ParseFuel.
Proof. exact parse_never_out_of_fuel. Qed.
Print Assumptions C05_parser_never_out_of_fuel.

Theorem C05_build_never_out_of_fuel : forall e, build e <> BuildFuel.
Proof. exact build_never_out_of_fuel. Qed.
Print Assumptions C05_build_never_out_of_fuel.

From WaxModel Require Import Fold Rule.
From WaxProofs Require Import AlgebraClosure.

(* the variance algebra is closed on every token tree: none of its unreachable!() / expect sites can be reached; the depth,
   size, text and exhaustiveness queries and the rule checker can only fail by a checked addition or multiplication
   overflowing (bounds near usize::MAX: the known class huge_bounds) - for every tree, whatever its nesting, bounds, classes *)
Theorem C05_queries_panic_only_by_overflow : forall has_casing t s,
  depth_variance t = Panic s \/ size_variance t = Panic s \/ text_variance has_casing t = Panic s \/
  is_exhaustive t = Panic s \/ check t = Panic s -> s = PanicOverflow.
Proof. exact queries_panic_only_by_overflow. Qed.
Print Assumptions C05_queries_panic_only_by_overflow.

(* ... and a build can only panic there or in the regex compiler (counted repetition above u32::MAX or nesting above the
   limit: the known classes huge_bounds and deep_nesting, both predicted exactly by the model) *)
Theorem C05_build_panic_sites : forall e s, build e = BuildPanic s -> s = PanicOverflow \/ s = PanicCompile.
Proof. exact build_panic_sites. Qed.
Print Assumptions C05_build_panic_sites.

From WaxModel Require Import Encode Query.
From WaxProofs Require Import OwnedFacts BuiltFacts.

(* every glob that builds has repetition bounds below 2^64 and ordered at every depth (the parser only reads bounds that fit a
   usize; the rule checker orders them), so constructing a combinator from built globs - which re-annotates every tree - never
   panics *)
Theorem C05_combinators_of_built_globs_are_total : forall ts, Forall (fun t => exists e r, build e = BuildOk t r) ts ->
  any_tree ts = Ok (TAlt (0, 0) (map (respan (fun _ => (0, 0))) ts)).
Proof. exact built_any_total. Qed.
Print Assumptions C05_combinators_of_built_globs_are_total.

From WaxProofs Require Import PartitionFacts.

(* partition() on a built glob: total up to checked overflow (never "span offset split UTF-8 byte sequence") *)
Theorem C05_partition_panics_only_by_overflow : forall hc e t r s, build e = BuildOk t r -> partition hc e t = Panic s -> s = PanicOverflow.
Proof. exact partition_panics_only_by_overflow. Qed.
Print Assumptions C05_partition_panics_only_by_overflow.
