(* C05 *)
From WaxModel Require Import Base.
