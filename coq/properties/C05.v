(* C05 -- Building and querying a glob is total. *)
From WaxModel Require Import Base Token Variance.
From WaxProofs Require Import AlgebraFacts.

(* after the repair the conjunction of bounded ranges never reaches unreachable!() nor its expect:
   on valid ranges it returns a valid range, or the checked addition overflows *)
Theorem C05_range_conjunction_total :
  forall a b, bvr_ok a -> bvr_ok b ->
    (exists r, bvr_conj a b = Ok r /\ bvr_ok r) \/ bvr_conj a b = Panic PanicOverflow.
Proof. exact bvr_conj_total. Qed.
Print Assumptions C05_range_conjunction_total.
