(* C09 -- An 'always exhaustive' verdict is sound (partial: proved on the class of patterns all of whose
   expansions end in a tree wildcard; the full statement is [C09_full] and is decided per pattern by the check). *)
From WaxModel Require Import Base Token Regex Spec Variance Fold.
From WaxProofs Require Import SpecFacts.

Definition C09_full (has_casing : char -> bool) (orbit : char -> list char) : Prop :=
  forall t p z, is_exhaustive t = Ok Always -> Lang orbit t p -> nosep z = true -> z <> [] ->
    Lang orbit t (p ++ SEP :: z).

(* every path beneath a matched path is matched (even: every extension by `/` and anything) *)
Theorem C09_sound_partial :
  forall orbit t p z, ends_tree t = true -> Lang orbit t p -> Lang orbit t (p ++ SEP :: z).
Proof. exact ends_tree_exhaustive. Qed.
Print Assumptions C09_sound_partial.

From WaxModel Require Import Rule.
From WaxProofs Require Import ZomFacts ExhaustFacts.

(* the verdict itself, for every flat pattern (a concatenation of leaves: literals, separators, classes, `?`, `*`, `$`, `**`) that
   respects the rules (no two adjacent boundaries, no two adjacent zero-or-more wildcards) and does not end in a separator (the
   known class trailing_boundary): if the model of the pinned code answers Always, the pattern's last tree wildcard is followed by
   `*` components only (C09_always_means_open_tail), and then everything beneath a matched path is matched *)
Theorem C09_flat_always_sound : forall orbit sp ts p z, forallb is_leaf ts = true -> is_exhaustive (TCat sp ts) = Ok Always ->
  adjacent_boundary ts = None -> adj_zom ts = false -> last_not_sep ts -> nosep z = true ->
  Lang orbit (TCat sp ts) p -> Lang orbit (TCat sp ts) (p ++ SEP :: z).
Proof. exact flat_always_sound. Qed.
Print Assumptions C09_flat_always_sound.

Theorem C09_always_means_open_tail : forall sp ts, forallb is_leaf ts = true -> is_exhaustive (TCat sp ts) = Ok Always ->
  adjacent_boundary ts = None -> adj_zom ts = false -> last_not_sep ts -> open_tail ts.
Proof. exact always_open_tail. Qed.
Print Assumptions C09_always_means_open_tail.

(* the premises are satisfiable: a/**/* *)
Example C09_flat_nonvacuous :
  let sp := (0%N, 0%N) in
  let ts := [TLeaf sp (LLit false [97%N]); TLeaf sp (LTree true); TLeaf sp (LZom false)] in
  forallb is_leaf ts = true /\ is_exhaustive (TCat sp ts) = Ok Always /\ adjacent_boundary ts = None /\ adj_zom ts = false /\ last_not_sep ts.
Proof. cbv zeta. repeat split; vm_compute; reflexivity. Qed.

From WaxModel Require Import Parse Query Glob.
From WaxProofs Require Import BuiltExhaust.

(* for the flat globs that build the side conditions are discharged by the rule checker (no adjacent boundaries) and the parser
   (no adjacent zero-or-more wildcards): what remains is the known class trailing_boundary *)
Theorem C09_built_flat_globs_always_sound : forall orbit e sp ts r p z,
  build e = BuildOk (TCat sp ts) r -> forallb is_leaf ts = true ->
  is_exhaustive (TCat sp ts) = Ok Always -> last_not_sep ts -> nosep z = true ->
  Lang orbit (TCat sp ts) p -> Lang orbit (TCat sp ts) (p ++ SEP :: z).
Proof. exact built_flat_always_sound. Qed.
Print Assumptions C09_built_flat_globs_always_sound.

From WaxProofs Require Import DepthAltFacts ExhaustAltFacts.

(* the verdict itself for every glob that builds and has no repetition, however the alternations nest (`{src,tests}/**`,
   `**/{a,b}/*`, `x/{a/**,b/**/*}`): every expansion of the tree is covered by a member of the term the exhaustiveness fold
   computes (the taken suffix of every concatenation, conjoined in reverse; the disjunction over branches), a member without upper
   bound means the expansion ends with a tree wildcard followed by separators and zero-or-more wildcards only; with the rule
   checker's guarantees over expansions (C06: no adjacent boundaries, no adjacent zero-or-more wildcards) that tail is `*`, `*/*`,
   ..., which absorbs any further component.  What remains excluded is the known class trailing_boundary (may_end_sep); with
   repetitions the verdict was unsound twice (46d7bc7, 8aceb3d: repaired) and optional repetitions remain a known class *)
Theorem C09_built_globs_without_repetitions_always_sound : forall orbit e t r p z,
  build e = BuildOk t r -> rep_free t = true -> is_exhaustive t = Ok Always -> may_end_sep t = false -> nosep z = true ->
  Lang orbit t p -> Lang orbit t (p ++ SEP :: z).
Proof. exact built_rep_free_always_sound. Qed.
Print Assumptions C09_built_globs_without_repetitions_always_sound.

(* the premises are satisfiable: x/{a/**,b/**/*} *)
Example C09_alternation_nonvacuous :
  let e := [120;47;123;97;47;42;42;44;98;47;42;42;47;42;125]%N in
  exists t r, build e = BuildOk t r /\ rep_free t = true /\ is_exhaustive t = Ok Always /\ may_end_sep t = false.
Proof. cbv zeta. do 2 eexists. repeat split; vm_compute; reflexivity. Qed.
