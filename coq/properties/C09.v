(* C09 -- An 'always exhaustive' verdict is sound (partial: proved on the class of patterns all of whose
   expansions end in a tree wildcard; the full statement is [C09_full] and is decided per pattern by the check). *)
From WaxModel Require Import Base Token Regex Spec Variance Fold.
From WaxProofs Require Import SpecFacts.

Definition C09_full (has_casing : char -> bool) (orbit : char -> list char) : Prop :=
  forall t p z, is_exhaustive t = Ok Always -> Lang orbit t p -> nosep z = true -> z <> [] ->
    Lang orbit t (p ++ SEP :: z).

(* every path beneath a matched path is matched (even: every extension by `/` and anything) *)
Theorem C09_sound_partial :
  forall orbit t p z, ends_tree t = true -> Lang orbit t p -> Lang orbit t (p ++ SEP :: z).
Proof. exact ends_tree_exhaustive. Qed.
Print Assumptions C09_sound_partial.

From WaxModel Require Import Rule.
From WaxProofs Require Import ZomFacts ExhaustFacts.

(* the verdict itself, for every flat pattern (a concatenation of leaves: literals, separators, classes, `?`, `*`, `$`, `**`) that
   respects the rules (no two adjacent boundaries, no two adjacent zero-or-more wildcards) and does not end in a separator (the
   known class trailing_boundary): if the model of the pinned code answers Always, the pattern's last tree wildcard is followed by
   `*` components only (C09_always_means_open_tail), and then everything beneath a matched path is matched *)
Theorem C09_flat_always_sound : forall orbit sp ts p z, forallb is_leaf ts = true -> is_exhaustive (TCat sp ts) = Ok Always ->
  adjacent_boundary ts = None -> adj_zom ts = false -> last_not_sep ts -> nosep z = true ->
  Lang orbit (TCat sp ts) p -> Lang orbit (TCat sp ts) (p ++ SEP :: z).
Proof. exact flat_always_sound. Qed.
Print Assumptions C09_flat_always_sound.

Theorem C09_always_means_open_tail : forall sp ts, forallb is_leaf ts = true -> is_exhaustive (TCat sp ts) = Ok Always ->
  adjacent_boundary ts = None -> adj_zom ts = false -> last_not_sep ts -> open_tail ts.
Proof. exact always_open_tail. Qed.
Print Assumptions C09_always_means_open_tail.

(* the premises are satisfiable: a/**/* *)
Example C09_flat_nonvacuous :
  let sp := (0%N, 0%N) in
  let ts := [TLeaf sp (LLit false [97%N]); TLeaf sp (LTree true); TLeaf sp (LZom false)] in
  forallb is_leaf ts = true /\ is_exhaustive (TCat sp ts) = Ok Always /\ adjacent_boundary ts = None /\ adj_zom ts = false /\ last_not_sep ts.
Proof. cbv zeta. repeat split; vm_compute; reflexivity. Qed.

From WaxModel Require Import Parse Query Glob.
From WaxProofs Require Import BuiltExhaust.

(* for the flat globs that build the side conditions are discharged by the rule checker (no adjacent boundaries) and the parser
   (no adjacent zero-or-more wildcards): what remains is the known class trailing_boundary *)
Theorem C09_built_flat_globs_always_sound : forall orbit e sp ts r p z,
  build e = BuildOk (TCat sp ts) r -> forallb is_leaf ts = true ->
  is_exhaustive (TCat sp ts) = Ok Always -> last_not_sep ts -> nosep z = true ->
  Lang orbit (TCat sp ts) p -> Lang orbit (TCat sp ts) (p ++ SEP :: z).
Proof. exact built_flat_always_sound. Qed.
Print Assumptions C09_built_flat_globs_always_sound.

From WaxProofs Require Import DepthAltFacts ExhaustAltFacts.

(* the verdict itself for every glob that builds and has no repetition, however the alternations nest (`{src,tests}/**`,
   `**/{a,b}/*`, `x/{a/**,b/**/*}`): every expansion of the tree is covered by a member of the term the exhaustiveness fold
   computes (the taken suffix of every concatenation, conjoined in reverse; the disjunction over branches), a member without upper
   bound means the expansion ends with a tree wildcard followed by separators and zero-or-more wildcards only; with the rule
   checker's guarantees over expansions (C06: no adjacent boundaries, no adjacent zero-or-more wildcards) that tail is `*`, `*/*`,
   ..., which absorbs any further component.  What remains excluded is the known class trailing_boundary (may_end_sep); with
   repetitions the verdict was unsound three times (46d7bc7, 6c17bd8, 83c38c1: repaired) and optional repetitions remain a known class *)
Theorem C09_built_globs_without_repetitions_always_sound : forall orbit e t r p z,
  build e = BuildOk t r -> rep_free t = true -> is_exhaustive t = Ok Always -> may_end_sep t = false -> nosep z = true ->
  Lang orbit t p -> Lang orbit t (p ++ SEP :: z).
Proof. exact built_rep_free_always_sound. Qed.
Print Assumptions C09_built_globs_without_repetitions_always_sound.

(* the premises are satisfiable: x/{a/**,b/**/*} *)
Example C09_alternation_nonvacuous :
  let e := [120;47;123;97;47;42;42;44;98;47;42;42;47;42;125]%N in
  exists t r, build e = BuildOk t r /\ rep_free t = true /\ is_exhaustive t = Ok Always /\ may_end_sep t = false.
Proof. cbv zeta. do 2 eexists. repeat split; vm_compute; reflexivity. Qed.

From WaxProofs Require Import DepthTreeFacts RuleZomFacts ExhaustRepFacts.

(* with repetitions: for every glob that builds and whose repetitions are all written out at least once and are either bounded above
   or have a body that holds a bounded token (`<a:1,2>/**`, `<a/:1,>*/**/*`, `{<a:1,3>,b}/**/*` - the complement inside the
   repetitions is the known class optional_repetition and the repetitions whose unbounded range multiplies an unbounded body), an
   `Always` verdict is sound on every expansion that respects the two adjacency rules (C06) and does not end with a separator
   (trailing_boundary).  The coverage argument of the repetition-free case, without its restriction on the shape of the variances:
   an upper bound never disappears under conjunction, finalisation (`C09_upper_bounds_survive_conjunction`) or a product by a range
   that is bounded above (`C09_upper_bounds_survive_bounded_products`), so a member of the term without upper bound still points at a
   tree wildcard with a free tail - in the last copy of the body, which exists because the repetition is required; the guard of the
   12th repair (no product for a bounded body) is exactly what makes the unbounded ranges harmless *)
Theorem C09_built_globs_with_required_repetitions_always_sound : forall orbit e t r p z x,
  build e = BuildOk t r -> required_reps t = true -> is_exhaustive t = Ok Always -> nosep z = true ->
  Expands t x -> chain_ok false x = true -> zchain false x = true -> last_opt x <> Some LSep ->
  FlatMatch orbit true true x p -> FlatMatch orbit true true x (p ++ SEP :: z).
Proof. exact built_required_reps_always_sound. Qed.
Print Assumptions C09_built_globs_with_required_repetitions_always_sound.

Theorem C09_patterns_with_required_repetitions_always_sound : forall orbit t p z,
  frp t = true -> nonempty_branches t = true -> is_exhaustive t = Ok Always -> nosep z = true ->
  (forall x, Expands t x -> chain_ok false x = true /\ zchain false x = true /\ last_opt x <> Some LSep) ->
  Lang orbit t p -> Lang orbit t (p ++ SEP :: z).
Proof. exact frp_always_sound_lang. Qed.
Print Assumptions C09_patterns_with_required_repetitions_always_sound.

Theorem C09_upper_bounds_survive_conjunction : forall a b c, AlgebraClosure.st_ok a -> AlgebraClosure.st_ok b -> sterm_conj a b = Ok c ->
  AlgebraClosure.st_ok c /\ (vform (snd c) -> vform (snd a) \/ vform (snd b)).
Proof. exact sterm_conj_keeps_upper. Qed.
Print Assumptions C09_upper_bounds_survive_conjunction.

Theorem C09_upper_bounds_survive_bounded_products : forall v r v' h, AlgebraClosure.nv_ok v -> AlgebraClosure.nv_ok r ->
  AlgebraClosure.hi_of r = Some h -> nvar_product v r = Ok v' -> vform v' -> vform v.
Proof. exact product_keeps_upper. Qed.
Print Assumptions C09_upper_bounds_survive_bounded_products.

(* the premises are satisfiable: <a/:1,>*/**/* written out twice *)
Example C09_repetition_nonvacuous :
  let e := [60;97;47;58;49;44;62;42;47;42;42;47;42]%N in
  exists t r x, build e = BuildOk t r /\ required_reps t = true /\ is_exhaustive t = Ok Always /\
    Expands t x /\ chain_ok false x = true /\ zchain false x = true /\ last_opt x <> Some LSep.
Proof.
  cbv zeta. do 3 eexists. split; [vm_compute; reflexivity|]. split; [vm_compute; reflexivity|]. split; [vm_compute; reflexivity|].
  split.
  - eapply (E_cat _ _ [_; _; _; _]). constructor; [|constructor; [|constructor; [|constructor; [|constructor]]]]; try apply E_leaf.
    eapply (E_rep _ _ _ _ [_; _]); [split; [vm_compute; discriminate|exact I]|].
    constructor; [|constructor; [|constructor]]; (eapply (E_cat _ _ [_; _]); constructor; [apply E_leaf|constructor; [apply E_leaf|constructor]]).
  - split; [vm_compute; reflexivity|]. split; [vm_compute; reflexivity|]. vm_compute. discriminate.
Qed.

From WaxProofs Require Import RuleAdjRep RuleZomRep RepClosed.

(* ... and with the adjacency hypotheses discharged (C06 with repetitions): for every glob that builds, whose repetitions are required
   (not optional_repetition), bounded above or holding a bounded token, with bodies that begin and end with a leaf and not both with a
   zero-or-more wildcard, an `Always` verdict is sound for every match - outside trailing_boundary *)
Theorem C09_built_globs_with_required_repetitions_always_sound_unconditionally : forall orbit e t r p z,
  build e = BuildOk t r -> required_reps t = true -> rep_class t = true -> shz t = true ->
  is_exhaustive t = Ok Always -> may_end_sep t = false -> nosep z = true ->
  Lang orbit t p -> Lang orbit t (p ++ SEP :: z).
Proof. exact built_required_reps_always_sound_closed. Qed.
Print Assumptions C09_built_globs_with_required_repetitions_always_sound_unconditionally.

Example C09_repetition_unconditional_nonvacuous :
  let e := [60;97;47;58;49;44;62;42;47;42;42;47;42]%N in
  exists t r, build e = BuildOk t r /\ required_reps t = true /\ rep_class t = true /\ shz t = true /\
    is_exhaustive t = Ok Always /\ may_end_sep t = false.
Proof. cbv zeta. do 2 eexists. repeat split; vm_compute; reflexivity. Qed.

From WaxProofs Require Import ExhaustOptFacts.

(* inside the known class optional_repetition: a repetition that may be written out zero times is harmless when it is bounded above and
   its body holds no tree wildcard (`<a:0,2>/**`, `x<a/:0,2>b/**`, `<[0-9]:0,3>*/**/*`) - no member of its term is unbounded
   (`C09_terms_of_tree_free_tokens_promise_nothing`), so it promises nothing whether it is written out or not.  What the known class
   keeps is the optional repetition whose own term is unbounded (`<a/**:0,1>*`).  Per expansion that respects the adjacency rules: with
   optional repetitions the rules do not hold of every expansion (`a/<b:0,>/c` expands to `a//c`) *)
Theorem C09_built_globs_with_plain_repetitions_always_sound : forall orbit e t r p z x,
  build e = BuildOk t r -> plain_reps t = true -> is_exhaustive t = Ok Always -> nosep z = true ->
  Expands t x -> chain_ok false x = true -> zchain false x = true -> last_opt x <> Some LSep ->
  FlatMatch orbit true true x p -> FlatMatch orbit true true x (p ++ SEP :: z).
Proof. exact built_plain_reps_always_sound. Qed.
Print Assumptions C09_built_globs_with_plain_repetitions_always_sound.

Theorem C09_terms_of_tree_free_tokens_promise_nothing : forall t, frq t = true -> tree_free t = true ->
  AlgebraClosure.safe (AlgebraClosure.opt_ok btn) (exh_fold t).
Proof. exact tf_fold. Qed.
Print Assumptions C09_terms_of_tree_free_tokens_promise_nothing.

(* the premises are satisfiable, inside the known class: x<a/:0,2>b/** with the repetition written out zero times *)
Example C09_optional_repetition_nonvacuous :
  let e := [120;60;97;47;58;48;44;50;62;98;47;42;42]%N in
  exists t r x, build e = BuildOk t r /\ plain_reps t = true /\ has_optional_rep t = true /\ is_exhaustive t = Ok Always /\
    Expands t x /\ chain_ok false x = true /\ zchain false x = true /\ last_opt x <> Some LSep.
Proof.
  cbv zeta. do 3 eexists. split; [vm_compute; reflexivity|]. split; [vm_compute; reflexivity|]. split; [vm_compute; reflexivity|]. split; [vm_compute; reflexivity|].
  split.
  - eapply (E_cat _ _ [_; _; _; _]). constructor; [|constructor; [|constructor; [|constructor; [|constructor]]]]; try apply E_leaf.
    eapply (E_rep _ _ _ _ []); [split; vm_compute; discriminate|constructor].
  - split; [vm_compute; reflexivity|]. split; [vm_compute; reflexivity|]. vm_compute. discriminate.
Qed.

From WaxProofs Require Import ContiguousFacts.

(* the arithmetic behind the 13th repair (83c38c1): the depth terms that the fold multiplies by an unbounded range - every member zero, one,
   or without upper bound and with a lower bound of at most one - are those for which one more copy of the body can add exactly one
   component, so the depths reachable by repeating the body are closed under successor; a term with gaps is not ({2,4}:
   `<{*/*/,*/*/*/*/}:1,>*` matched `a/b/c` and not `a/b/c/z` while reporting Always) *)
Theorem C09_contiguous_terms_reach_the_next_depth : forall D, forallb nvar_contiguous D = true -> (exists d, In d D /\ d <> Inv 0%N) ->
  forall n s, reach D n s -> reach D (S n) (s + 1)%N.
Proof. exact contiguous_closed_under_successor. Qed.
Print Assumptions C09_contiguous_terms_reach_the_next_depth.

Example C09_terms_with_gaps_do_not : reach [Inv 2%N; Inv 4%N] 1 2%N /\ forall n, ~ reach [Inv 2%N; Inv 4%N] n 3%N.
Proof. exact gaps_not_closed. Qed.
