(* C09 -- An 'always exhaustive' verdict is sound (partial: proved on the class of patterns all of whose
   expansions end in a tree wildcard; the full statement is [C09_full] and is decided per pattern by the check). *)
From WaxModel Require Import Base Token Regex Spec Variance Fold.
From WaxProofs Require Import SpecFacts.

Definition C09_full (has_casing : char -> bool) (orbit : char -> list char) : Prop :=
  forall t p z, is_exhaustive t = Ok Always -> Lang orbit t p -> nosep z = true -> z <> [] ->
    Lang orbit t (p ++ SEP :: z).

(* every path beneath a matched path is matched (even: every extension by `/` and anything) *)
Theorem C09_sound_partial :
  forall orbit t p z, ends_tree t = true -> Lang orbit t p -> Lang orbit t (p ++ SEP :: z).
Proof. exact ends_tree_exhaustive. Qed.
Print Assumptions C09_sound_partial.
