(* C09 *)
From WaxModel Require Import Base.
