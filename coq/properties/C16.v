(* C16 -- Walk filters compose monotonically and independently of order. *)
From Coq Require Import Permutation.
From WaxModel Require Import Base Token Walk.
From WaxProofs Require Import WalkFacts.
Local Open Scope nat_scope.

(* stacking the same combinators in any order gives the same items with the same tags (for layers whose verdict
   is a function of the entry: path walks and prefix-free glob walks) *)
Theorem C16_permutation :
  forall l l' mind maxd n d p,
    Permutation l l' -> Forall tag_independent l ->
    map strip (spec l mind maxd d p n) = map strip (spec l' mind maxd d p n).
Proof. exact spec_permutation. Qed.
Print Assumptions C16_permutation.

Theorem C16_outcome_order_independent :
  forall l l' e, Permutation l l' -> Forall tag_independent l -> final_tag l e = final_tag l' e.
Proof. exact final_tag_permutation. Qed.
Print Assumptions C16_outcome_order_independent.

(* a later filter never brings an entry back nor downgrades a discarded tree to a discarded file *)
Theorem C16_monotone :
  forall l1 l2 e, tag_rank (final_tag l1 e) <= tag_rank (final_tag (l1 ++ l2) e).
Proof. exact final_tag_app_monotone. Qed.
Print Assumptions C16_monotone.

(* every layer observes every produced entry exactly once *)
Theorem C16_observes_once : forall l e, length (seen_tags l e) = length l.
Proof. exact seen_once. Qed.
Print Assumptions C16_observes_once.
