(* C19 -- Re-expressing or re-owning a pattern does not change its behaviour. *)
From WaxModel Require Import Base Token Query.
From WaxProofs Require Import AlgebraFacts.

(* into_owned / clone / the combinator go through Token::fold_map: with the identity on annotations it returns
   the same tree (children kept in order; repetition bounds survive the detour through NaturalRange) *)
Theorem C19_fold_map_id : forall t, tok_bounds_ok t -> fold_map (fun sp => sp) t = Ok t.
Proof. exact fold_map_id. Qed.
Print Assumptions C19_fold_map_id.
