(* C19 *)
From WaxModel Require Import Base.
