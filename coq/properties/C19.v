(* C19 -- Re-expressing or re-owning a pattern does not change its behaviour. *)
From WaxModel Require Import Base Token Regex Encode Variance Fold Query.
From WaxProofs Require Import AlgebraFacts OwnedFacts.

(* into_owned / clone / the combinator go through Token::fold_map: with the identity on annotations it returns the same tree
   (children kept in order; repetition bounds survive the detour through NaturalRange) *)
Theorem C19_fold_map_id : forall t, tok_bounds_ok t -> fold_map (fun sp => sp) t = Ok t.
Proof. exact fold_map_id. Qed.
Print Assumptions C19_fold_map_id.

(* with any function on annotations, fold_map changes nothing but the annotations *)
Theorem C19_fold_map_only_annotations : forall f t, tok_bounds_ok t -> fold_map f t = Ok (respan f t).
Proof. exact fold_map_respan. Qed.
Print Assumptions C19_fold_map_only_annotations.

(* and neither the compiled program nor any query looks at an annotation *)
Theorem C19_program_ignores_annotations : forall f t, encode (respan f t) = encode t.
Proof. exact encode_respan. Qed.
Print Assumptions C19_program_ignores_annotations.

Theorem C19_depth_ignores_annotations : forall f t, depth_variance (respan f t) = depth_variance t.
Proof. exact depth_variance_respan. Qed.
Print Assumptions C19_depth_ignores_annotations.

Theorem C19_text_ignores_annotations : forall hc f t, text_variance hc (respan f t) = text_variance hc t.
Proof. exact text_variance_respan. Qed.
Print Assumptions C19_text_ignores_annotations.

Theorem C19_root_ignores_annotations : forall f t, has_root (respan f t) = has_root t.
Proof. exact has_root_respan. Qed.
Print Assumptions C19_root_ignores_annotations.

(* a glob passed through a combinator (as text or compiled: the same tree) matches exactly what it matched before *)
Theorem C19_any_of_one :
  forall orbit t w, tok_bounds_ok t ->
    exists a, any_tree [t] = Ok a /\ (sem orbit (encode a) w <-> sem orbit (encode t) w).
Proof. exact any_of_one. Qed.
Print Assumptions C19_any_of_one.

From WaxModel Require Import Glob.
From WaxProofs Require Import BuiltFacts.

(* for every glob that builds - no hypothesis on bounds left: they are proved below 2^64 and ordered at every depth of a built
   glob - re-annotating / re-owning the tree succeeds and changes annotations only *)
Theorem C19_built_globs_are_reannotated_faithfully : forall e t r f, build e = BuildOk t r -> fold_map f t = Ok (respan f t).
Proof. exact built_fold_map. Qed.
Print Assumptions C19_built_globs_are_reannotated_faithfully.
