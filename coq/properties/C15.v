(* C15 -- Depth and link behaviours bound the walk as documented (links: on the resolved view). *)
From WaxModel Require Import Base Token Walk.
From WaxProofs Require Import WalkFacts.
Local Open Scope nat_scope.

(* every produced entry lies inside the depth window, for every tree (finite by construction: the run terminates) *)
Theorem C15_entries_in_window :
  forall l mind maxd n d p e t s,
    over maxd d = false ->
    In (REntry e t s) (spec l mind maxd d p n) ->
    exists k, length (e_path e) = length p + k /\ mind <= d + k /\ over maxd (d + k) = false.
Proof. exact entries_in_window. Qed.
Print Assumptions C15_entries_in_window.

Theorem C15_machine_is_the_windowed_preorder :
  forall ls mind maxd root, walk mind maxd ls root = walk_spec mind maxd ls root.
Proof. exact walk_refines. Qed.
Print Assumptions C15_machine_is_the_windowed_preorder.

From WaxProofs Require Import GlobWalkFacts.

(* glob walks with an invariant prefix: the walk starts [pivot] components below the directory given and the window is
   translated by the model itself (split_components, glob_walk_root, window_at_pivot are part of the model, not of the
   harness); every entry produced has its depth - measured from the directory given - inside the configured window; the
   upper bound holds when the window reaches the pivot (below it the starting directory is still yielded: the known class
   max_below_prefix) *)
Theorem C15_glob_walk_in_window : forall root prefix_text mind maxd progs complete rest e t s,
  In (REntry e t s) (glob_walk root prefix_text mind maxd progs complete rest) ->
  let pivot := length (split_components prefix_text) in
  (mind <= pivot + length (e_path e))%nat /\
  match maxd with Some m => (pivot <= m)%nat -> (pivot + length (e_path e) <= m)%nat | None => True end.
Proof. exact glob_walk_in_window. Qed.
Print Assumptions C15_glob_walk_in_window.
