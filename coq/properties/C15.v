(* C15 -- Depth and link behaviours bound the walk as documented (links: on the resolved view). *)
From WaxModel Require Import Base Token Walk.
From WaxProofs Require Import WalkFacts.
Local Open Scope nat_scope.

(* every produced entry lies inside the depth window, for every tree (finite by construction: the run terminates) *)
Theorem C15_entries_in_window :
  forall l mind maxd n d p e t s,
    over maxd d = false ->
    In (REntry e t s) (spec l mind maxd d p n) ->
    exists k, length (e_path e) = length p + k /\ mind <= d + k /\ over maxd (d + k) = false.
Proof. exact entries_in_window. Qed.
Print Assumptions C15_entries_in_window.

Theorem C15_machine_is_the_windowed_preorder :
  forall ls mind maxd root, walk mind maxd ls root = walk_spec mind maxd ls root.
Proof. exact walk_refines. Qed.
Print Assumptions C15_machine_is_the_windowed_preorder.
