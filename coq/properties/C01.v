(* C01 -- Matching conforms to the documented glob semantics. *)
From WaxModel Require Import Base Token Regex Spec Encode.
From WaxProofs Require Import EncodeFacts.

Theorem C01_class_ignores_flags :
  forall orbit orbit' cap s e neg a w,
    sem orbit (enc_leaf cap s e (LClass neg a)) w <-> sem orbit' (enc_leaf cap s e (LClass neg a)) w.
Proof. exact class_ignores_flags. Qed.
Print Assumptions C01_class_ignores_flags.
