(* C01 -- Matching conforms to the documented glob semantics.
   Every theorem is closed by [exact] of a lemma proved in coq/proofs; nothing else lives here. *)
From WaxModel Require Import Base Token Regex Spec Encode.
From WaxProofs Require Import EncodeFacts.

(* character classes stay case sensitive whatever flags (case folding relation) are in force *)
Theorem C01_class_ignores_flags :
  forall orbit orbit' cap s e neg a w,
    sem orbit (enc_leaf cap s e (LClass neg a)) w <-> sem orbit' (enc_leaf cap s e (LClass neg a)) w.
Proof. exact class_ignores_flags. Qed.
Print Assumptions C01_class_ignores_flags.

(* `?` matches exactly one non-separator character *)
Theorem C01_one :
  forall orbit cap s e w, sem orbit (enc_leaf cap s e LOne) w <-> exists c, w = [c] /\ c <> SEP.
Proof. exact one_sem. Qed.
Print Assumptions C01_one.

(* `*` and `$` match exactly the separator-free texts *)
Theorem C01_zero_or_more :
  forall orbit cap s e lz w, sem orbit (enc_leaf cap s e (LZom lz)) w <-> nosep w = true.
Proof. exact zom_sem. Qed.
Print Assumptions C01_zero_or_more.

(* a class matches exactly one listed (unlisted) non-separator character, by exact code point *)
Theorem C01_class :
  forall orbit cap s e neg a w, forallb arch_valid a = true ->
    (sem orbit (enc_leaf cap s e (LClass neg a)) w <-> exists c, w = [c] /\ class_match neg a c = true).
Proof. exact class_sem. Qed.
Print Assumptions C01_class.

Theorem C01_class_never_separator :
  forall orbit cap s e neg a w, sem orbit (enc_leaf cap s e (LClass neg a)) w -> exists c, w = [c] /\ c <> SEP.
Proof. exact class_sem_nosep. Qed.
Print Assumptions C01_class_never_separator.

(* a lone tree wildcard matches every text: every character a path may contain, newlines included *)
Theorem C01_tree_any_character : forall orbit cap w, sem orbit (enc_leaf cap true true (LTree false)) w.
Proof. exact lone_tree_matches_everything. Qed.
Print Assumptions C01_tree_any_character.

(* ---- the main statement ------------------------------------------------------------------------------------------
   For every token tree with valid class ranges and ordered bounds in which every tree wildcard is encoded for the
   position it has in every expansion (decidable: [trees_exact]), the compiled program matches a text exactly when
   the text belongs to the documented language: some choice of branches and some permitted numbers of iterations
   give a flat sequence of leaves whose pieces match the text, tree wildcards by their flat position. *)
From WaxProofs Require Import EncodeLang.

Theorem C01_conformance :
  forall orbit t w, wf_tok t = true -> trees_exact t = true -> (sem orbit (encode t) w <-> Lang orbit t w).
Proof. exact conformance. Qed.
Print Assumptions C01_conformance.

(* the hypotheses are satisfiable by non-trivial trees: `a/**/{b,c}*<d:1,2>` *)
Definition C01_example : tok :=
  TCat (0, 0) [TLeaf (0, 0) (LLit false [97]); TLeaf (0, 0) (LTree true);
               TAlt (0, 0) [TCat (0, 0) [TLeaf (0, 0) (LLit false [98])]; TCat (0, 0) [TLeaf (0, 0) (LLit true [99])]];
               TLeaf (0, 0) (LZom false);
               TRep (0, 0) (TCat (0, 0) [TLeaf (0, 0) (LLit false [100])]) 1 (Some 2)].
Theorem C01_conformance_not_vacuous : wf_tok C01_example = true /\ trees_exact C01_example = true.
Proof. split; vm_compute; reflexivity. Qed.
Print Assumptions C01_conformance_not_vacuous.

From WaxProofs Require Import MatcherFacts.

(* the matching engine of the model - the executable the correspondence check runs against the implementation's is_match -
   decides exactly the language [sem] the theorems above are about: it is sound, and the fuel it is given is adequate *)
Theorem C01_model_engine_decides_the_language : forall orbit r w, accepts orbit r w = true <-> sem orbit r w.
Proof. exact accepts_spec. Qed.
Print Assumptions C01_model_engine_decides_the_language.

From WaxProofs Require Import SpecMatchFacts.

(* the oracle the check evaluates on the implementation's outputs decides exactly the documented language, for every token
   tree and every text (the bound on optional repetitions is proved sufficient: every iteration that is not droppable lowers
   2 * remaining text + rank of the scan state) *)
Theorem C01_oracle_decides_the_documented_language : forall orbit t w, spec_match orbit t w = true <-> Lang orbit t w.
Proof. exact spec_match_spec. Qed.
Print Assumptions C01_oracle_decides_the_documented_language.

(* hence, in the class of C01_conformance, the two executables the correspondence check compares the implementation with -
   the model engine on the model of the compiled program, and the oracle - compute the same function *)
Theorem C01_executables_agree : forall orbit t w, wf_tok t = true -> trees_exact t = true ->
  accepts orbit (encode t) w = spec_match orbit t w.
Proof. exact executables_agree. Qed.
Print Assumptions C01_executables_agree.

(* ---- for the globs that build ------------------------------------------------------------------------------------------
   The hypotheses of the main statement are discharged for every glob that builds, except for the three known classes, which are
   exactly their complement: a class with a reversed range (reversed_class_range), a tree wildcard whose flat position is not the
   same in every expansion (unstable_tree_position), a rooted tree wildcard that begins the expression and is followed by something
   (rooted_first_tree).  Outside them the compiled program matches a text exactly when it belongs to the documented language. *)
From WaxModel Require Import Variance Fold Rule Parse Query Glob.
From WaxProofs Require Import BuiltConformance.

Theorem C01_built_globs_conform : forall orbit e t r,
  build e = BuildOk t r -> has_reversed_range t = false -> trees_stable t = true -> rooted_first_tree t = false ->
  forall w, sem orbit (encode t) w <-> Lang orbit t w.
Proof. exact built_conformance. Qed.
Print Assumptions C01_built_globs_conform.

Theorem C01_class_of_conformance_is_the_complement_of_the_known_classes :
  forall t, trees_exact t = trees_stable t && negb (rooted_first_tree t).
Proof. exact trees_exact_split. Qed.
Print Assumptions C01_class_of_conformance_is_the_complement_of_the_known_classes.
