(* C04 *)
From WaxModel Require Import Base.
