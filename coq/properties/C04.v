(* C04 -- Captures are consistent with the match and with the expression. *)
From WaxModel Require Import Base Token Regex Spec Encode.
From WaxProofs Require Import EncodeFacts.

(* captures 1..n correspond one to one to the capturing tokens of the top-level concatenation:
   the compiled program has exactly one group per capturing token and none for nested tokens *)
Theorem C04_group_count :
  forall t, flat_top t -> ngroups (encode t) = length (filter is_capturing (concatenation t)).
Proof. exact group_count. Qed.
Print Assumptions C04_group_count.

Theorem C04_nested_tokens_do_not_capture : forall t s e, ngroups (enc_tok false t s e) = 0%nat.
Proof. exact ngroups_enc_false. Qed.
Print Assumptions C04_nested_tokens_do_not_capture.

(* text captured by `?`, `*`, `$` or a class never contains a separator (the group's own language) *)
Theorem C04_wildcard_capture_separator_free :
  forall orbit cap s e lz w, sem orbit (enc_leaf cap s e (LZom lz)) w -> nosep w = true.
Proof. intros orbit cap s e lz w. exact (proj1 (zom_sem orbit cap s e lz w)). Qed.
Print Assumptions C04_wildcard_capture_separator_free.
