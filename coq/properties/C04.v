(* C04 -- Captures are consistent with the match and with the expression. *)
From WaxModel Require Import Base Token Regex Spec Encode.
From WaxProofs Require Import EncodeFacts.

(* captures 1..n correspond one to one to the capturing tokens of the top-level concatenation:
   the compiled program has exactly one group per capturing token and none for nested tokens *)
Theorem C04_group_count :
  forall t, flat_top t -> ngroups (encode t) = length (filter is_capturing (concatenation t)).
Proof. exact group_count. Qed.
Print Assumptions C04_group_count.

Theorem C04_nested_tokens_do_not_capture : forall t s e, ngroups (enc_tok false t s e) = 0%nat.
Proof. exact ngroups_enc_false. Qed.
Print Assumptions C04_nested_tokens_do_not_capture.

(* text captured by `?`, `*`, `$` or a class never contains a separator (the group's own language) *)
Theorem C04_wildcard_capture_separator_free :
  forall orbit cap s e lz w, sem orbit (enc_leaf cap s e (LZom lz)) w -> nosep w = true.
Proof. intros orbit cap s e lz w. exact (proj1 (zom_sem orbit cap s e lz w)). Qed.
Print Assumptions C04_wildcard_capture_separator_free.

From WaxProofs Require Import MatcherFacts CaptureFacts.
Local Open Scope nat_scope.

(* the assignment of captures is consistent, for every glob whose top-level tokens are not themselves concatenations (all
   parsed globs), every path and *every* parse the engine can end with (any final continuation: the leftmost-first parse of
   the model engine as well as any other parse - the regex crate reorders priorities by lifting common prefixes out of
   alternations, and the correspondence check accepts its assignment only if the model engine finds a parse with it):
   the path splits into one text per top-level token, each matched by its own token; a capturing token other than a tree
   wildcard recorded exactly its text in its own group, a tree wildcard nothing or a span inside its text; groups are
   numbered in token order, so captures are ordered, do not overlap, and the text between them is the text of the tokens
   between *)
Theorem C04_captures_are_a_consistent_assignment : forall orbit t fuel w k x, flat_top t ->
  m orbit (length w) fuel (encode t) 0 w [] k = Some x ->
  exists us v c', w = concat us ++ v /\
    Forall2 (fun t u => exists s' e', sem orbit (enc_tok true t s' e') u) (concatenation t) us /\
    k v c' = Some x /\ assigned (concatenation t) 0 0 us c'.
Proof. exact glob_captures_valid. Qed.
Print Assumptions C04_captures_are_a_consistent_assignment.

(* what the engine records: groups of a sub-expression are only set inside the text it matched, other groups are left alone,
   and a capturing group records exactly the text of what it wraps *)
Theorem C04_engine_captures : forall orbit fuel total r g w c k x, length w <= total -> m orbit total fuel r g w c k = Some x ->
  exists u v c', w = u ++ v /\ sem orbit r u /\ k v c' = Some x /\
    eff g (ngroups r) (total - length w) (total - length v) c c' /\
    (forall a, r = RGroup true a -> get_cap g c' = Some (total - length w, total - length v)).
Proof. exact m_caps. Qed.
Print Assumptions C04_engine_captures.
