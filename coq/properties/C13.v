(* C13 -- Discarded directory trees are never read, and only they are skipped. *)
From WaxModel Require Import Base Token Walk.
From WaxProofs Require Import WalkFacts.
Local Open Scope nat_scope.

(* for every directory tree, every stack of layers and every depth window, the machine (walkdir's stack with
   skip_current_dir, WalkTree's is_dir guard, the residue transitions of the layers) produces exactly the pruned
   pre-order: every entry that has no proper ancestor directory discarded as a tree, in order, once *)
Theorem C13_refines :
  forall ls mind maxd root, walk mind maxd ls root = walk_spec mind maxd ls root.
Proof. exact walk_refines. Qed.
Print Assumptions C13_refines.

Theorem C13_machine_refines_from_any_state :
  forall ls mind maxd fuel st, measure st < fuel -> run fuel mind maxd ls st = spec_wd ls mind maxd st.
Proof. exact run_refines. Qed.
Print Assumptions C13_machine_refines_from_any_state.

(* nothing beneath a directory that some layer discards as a tree is produced to anyone *)
Theorem C13_discarded_tree_is_not_read :
  forall ls mind maxd d p kids,
    pruned ls mind d (mkEntry p true) = true ->
    spec ls mind maxd d p (NDir kids) = shown ls mind d (mkEntry p true).
Proof. exact pruned_dir_alone. Qed.
Print Assumptions C13_discarded_tree_is_not_read.

(* discarding a directory as a single file (or keeping it) skips none of its children *)
Theorem C13_file_discard_skips_nothing :
  forall ls mind maxd d p kids,
    pruned ls mind d (mkEntry p true) = false -> over maxd (S d) = false ->
    spec ls mind maxd d p (NDir kids) =
    shown ls mind d (mkEntry p true) ++ flat_map (fun k => spec ls mind maxd (S d) (p ++ [fst k]) (snd k)) kids.
Proof. exact unpruned_dir_children. Qed.
Print Assumptions C13_file_discard_skips_nothing.

(* whatever the verdicts on an entry that is not a directory, nothing else is affected *)
Theorem C13_nondirectory_discard_is_local :
  forall ls mind maxd d p, spec ls mind maxd d p NFile = shown ls mind d (mkEntry p false).
Proof. exact nondir_alone. Qed.
Print Assumptions C13_nondirectory_discard_is_local.

(* the walk is cancelled at most once per entry, and exactly when the entry ends up discarded as a tree *)
Theorem C13_one_cancellation :
  forall l e t c acc, t <> RTree ->
    (exists acc', through l e t c acc = (RTree, S c, acc')) \/
    (exists t' acc', t' <> RTree /\ through l e t c acc = (t', c, acc')).
Proof. exact through_shape. Qed.
Print Assumptions C13_one_cancellation.
