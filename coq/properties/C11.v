(* C11 -- Invariant text is the one and only path the pattern matches. *)
From WaxModel Require Import Base Token Regex Spec Variance Fold.
From WaxProofs Require Import SpecFacts TextFacts.

(* for every token tree (globs and combinators): if the pattern reports invariant text, no other text belongs to its
   documented language.  The one assumption on the two tables (validated over all code points on every run): a
   character the code considers caseless is only folded to itself by the regex engine. *)
Theorem C11_unique :
  forall (orbit : char -> list char) (has_casing : char -> bool),
    (forall c d, has_casing c = false -> In d (orbit c) -> d = c) ->
    forall t txt w,
      nonempty_branches t = true -> text_variance has_casing t = Ok (Inv txt) -> Lang orbit t w -> w = text_to_string txt.
Proof. exact invariant_text_is_the_only_text. Qed.
Print Assumptions C11_unique.

(* a pattern whose documented language has two different texts reports variant text *)
Theorem C11_two_texts_variant :
  forall (orbit : char -> list char) (has_casing : char -> bool),
    (forall c d, has_casing c = false -> In d (orbit c) -> d = c) ->
    forall t txt x1 x2 f1 l1 f2 l2 w1 w2,
      nonempty_branches t = true -> Expands t x1 -> Expands t x2 ->
      FlatMatch orbit f1 l1 x1 w1 -> FlatMatch orbit f2 l2 x2 w2 -> w1 <> w2 ->
      text_fold has_casing t <> Ok (Some (Inv txt)).
Proof. exact two_texts_variant. Qed.
Print Assumptions C11_two_texts_variant.

(* a case sensitive literal matches only its own text, and does match it *)
Theorem C11_literal_unique : forall orbit s w, lit_sem orbit false s w -> w = s.
Proof. exact lit_sem_exact. Qed.
Print Assumptions C11_literal_unique.

Theorem C11_literal_matches : forall orbit ci s, lit_sem orbit ci s s.
Proof. exact lit_sem_refl. Qed.
Print Assumptions C11_literal_matches.

From WaxProofs Require Import TextExists.

(* existence: a pattern that reports invariant text does match it, provided no class lists the separator (such a class
   reports the text `/` although it matches nothing: the known class separator_class) *)
Theorem C11_matched :
  forall (orbit : char -> list char) (has_casing : char -> bool) t txt,
    nonempty_branches t = true -> classes_plain t = true ->
    text_variance has_casing t = Ok (Inv txt) -> Lang orbit t (text_to_string txt).
Proof. exact invariant_text_is_matched. Qed.
Print Assumptions C11_matched.

(* the property as stated: the invariant text is the one and only path in the documented language *)
Theorem C11_one_and_only :
  forall (orbit : char -> list char) (has_casing : char -> bool),
    (forall c d, has_casing c = false -> In d (orbit c) -> d = c) ->
    forall t txt, nonempty_branches t = true -> classes_plain t = true -> text_variance has_casing t = Ok (Inv txt) ->
    forall w, Lang orbit t w <-> w = text_to_string txt.
Proof. exact invariant_text_characterises. Qed.
Print Assumptions C11_one_and_only.

From WaxModel Require Import Parse Glob.
From WaxProofs Require Import BuiltNonempty.

(* for every glob that builds the side condition on the tree is discharged (the parser never produces an empty alternation or
   concatenation, the rule checker rejects the bounds 0,0) *)
Theorem C11_built_globs_one_and_only :
  forall (orbit : char -> list char) (has_casing : char -> bool),
    (forall c d, has_casing c = false -> In d (orbit c) -> d = c) ->
    forall e t r txt, build e = BuildOk t r -> classes_plain t = true -> text_variance has_casing t = Ok (Inv txt) ->
    forall w, Lang orbit t w <-> w = text_to_string txt.
Proof. exact built_invariant_text_characterises. Qed.
Print Assumptions C11_built_globs_one_and_only.
