(* C11 *)
From WaxModel Require Import Base.
