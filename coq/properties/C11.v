(* C11 -- Invariant text is the one and only path the pattern matches (first lemmas). *)
From WaxModel Require Import Base Token Regex Spec.
From WaxProofs Require Import SpecFacts.

(* a case sensitive literal matches only its own text, and does match it *)
Theorem C11_literal_unique : forall orbit s w, lit_sem orbit false s w -> w = s.
Proof. exact lit_sem_exact. Qed.
Print Assumptions C11_literal_unique.

Theorem C11_literal_matches : forall orbit ci s, lit_sem orbit ci s s.
Proof. exact lit_sem_refl. Qed.
Print Assumptions C11_literal_matches.
