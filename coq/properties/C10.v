(* C10 -- Reported depth bounds contain the depth of every match.
   Proved for the patterns that are a concatenation of leaves without tree wildcards (literals, separators, `?`, `*`, `$`,
   classes: e.g. `src/*.rs`, `/a/?/[xy]*`); the general statement [C10_full] is decided per generated pattern by the check
   (exact tie on the reported variance + component counts of matched canonical paths). *)
From WaxModel Require Import Base Token Regex Spec Variance Fold.
From WaxProofs Require Import RuleFacts DepthFacts.

Definition C10_full (orbit : char -> list char) : Prop :=
  forall t p v, depth_variance t = Ok v -> Lang orbit t p -> canonical p = true -> 1 <= ncomp p -> in_variance (ncomp p) v.

(* the depth a flat pattern reports is invariant: its separators, plus one if it neither begins nor ends with one, minus one
   if it does both *)
Theorem C10_flat_depth :
  forall sp ts v, flat_cat ts = true -> depth_variance (TCat sp ts) = Ok v -> v = Inv (flat_depth (map leaf_of ts)).
Proof. exact depth_flat. Qed.
Print Assumptions C10_flat_depth.

(* and it is the number of components of every canonical path of the documented language that has a component and begins
   with a separator exactly when the pattern does (hypothesis on the case-folding table: it never produces a separator) *)
Theorem C10_flat_sound :
  forall (orbit : char -> list char), (forall c d, In d (orbit c) -> d <> SEP) ->
  forall sp ts v p l0 rest,
    flat_cat ts = true -> map leaf_of ts = l0 :: rest ->
    depth_variance (TCat sp ts) = Ok v -> Lang orbit (TCat sp ts) p ->
    canonical p = true -> 1 <= ncomp p -> starts_sep p = is_sep_leaf l0 ->
    in_variance (ncomp p) v.
Proof. exact depth_flat_sound. Qed.
Print Assumptions C10_flat_sound.

Theorem C10_leaf_depth :
  forall sp l, depth_variance (TLeaf sp l) =
    match l with LSep => Ok (Inv 0) | LTree _ => Ok (Var Unbounded) | _ => Ok (Inv 1) end.
Proof. exact depth_single_leaf. Qed.
Print Assumptions C10_leaf_depth.
