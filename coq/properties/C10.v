(* C10 -- Reported depth bounds contain the depth of every match (first lemma only: the terms of the leaves;
   the soundness statement [C10_full] is decided per generated pattern by the check, not yet proved). *)
From WaxModel Require Import Base Token Regex Spec Variance Fold.
From WaxProofs Require Import RuleFacts.

Definition C10_full (orbit : char -> list char) (ncomp : str -> N) (canonical : str -> Prop) : Prop :=
  forall t p v, depth_variance t = Ok v -> Lang orbit t p -> canonical p -> 1 <= ncomp p -> in_variance (ncomp p) v.

Theorem C10_leaf_depth :
  forall sp l, depth_variance (TLeaf sp l) =
    match l with LSep => Ok (Inv 0) | LTree _ => Ok (Var Unbounded) | _ => Ok (Inv 1) end.
Proof. exact depth_single_leaf. Qed.
Print Assumptions C10_leaf_depth.
