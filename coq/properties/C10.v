(* C10 -- Reported depth bounds contain the depth of every match.
   Proved for the patterns that are a concatenation of leaves without tree wildcards (literals, separators, `?`, `*`, `$`,
   classes: e.g. `src/*.rs`, `/a/?/[xy]*`); the general statement [C10_full] is decided per generated pattern by the check
   (exact tie on the reported variance + component counts of matched canonical paths). *)
From WaxModel Require Import Base Token Regex Spec Variance Fold.
From WaxProofs Require Import RuleFacts DepthFacts.

Definition C10_full (orbit : char -> list char) : Prop :=
  forall t p v, depth_variance t = Ok v -> Lang orbit t p -> canonical p = true -> 1 <= ncomp p -> in_variance (ncomp p) v.

(* the depth a flat pattern reports is invariant: its separators, plus one if it neither begins nor ends with one, minus one
   if it does both *)
Theorem C10_flat_depth :
  forall sp ts v, flat_cat ts = true -> depth_variance (TCat sp ts) = Ok v -> v = Inv (flat_depth (map leaf_of ts)).
Proof. exact depth_flat. Qed.
Print Assumptions C10_flat_depth.

(* and it is the number of components of every canonical path of the documented language that has a component and begins
   with a separator exactly when the pattern does (hypothesis on the case-folding table: it never produces a separator) *)
Theorem C10_flat_sound :
  forall (orbit : char -> list char), (forall c d, In d (orbit c) -> d <> SEP) ->
  forall sp ts v p l0 rest,
    flat_cat ts = true -> map leaf_of ts = l0 :: rest ->
    depth_variance (TCat sp ts) = Ok v -> Lang orbit (TCat sp ts) p ->
    canonical p = true -> 1 <= ncomp p -> starts_sep p = is_sep_leaf l0 ->
    in_variance (ncomp p) v.
Proof. exact depth_flat_sound. Qed.
Print Assumptions C10_flat_sound.

Theorem C10_leaf_depth :
  forall sp l, depth_variance (TLeaf sp l) =
    match l with LSep => Ok (Inv 0) | LTree _ => Ok (Var Unbounded) | _ => Ok (Inv 1) end.
Proof. exact depth_single_leaf. Qed.
Print Assumptions C10_leaf_depth.

From WaxModel Require Import Rule Parse Query Glob.
From WaxProofs Require Import SpecFacts ExhaustFacts PruneFacts DepthTreeFacts DepthAltFacts DepthRepFacts BuiltDepth.

(* flat patterns that contain tree wildcards (`src/**/*.rs`, `**/a/*`, `/usr/**`): the reported depth has no upper bound and its
   lower bound is at most the number of components of every canonical path of the documented language; the conjunction fold
   keeps the lower bound below the number of maximal runs of non-boundary leaves, and every run is a component of every match *)
Theorem C10_flat_with_tree_wildcards_sound : forall orbit sp ts v p l0 rest,
  forallb is_leaf ts = true -> adjacent_boundary ts = None -> existsb tree_tok ts = true ->
  map leaf_of ts = l0 :: rest ->
  depth_variance (TCat sp ts) = Ok v -> Lang orbit (TCat sp ts) p ->
  canonical p = true -> 1 <= ncomp p -> starts_sep p = leaf_is_rooting l0 ->
  in_variance (ncomp p) v.
Proof. exact depth_flat_tree_sound. Qed.
Print Assumptions C10_flat_with_tree_wildcards_sound.

(* every flat glob that builds, with or without tree wildcards: the side conditions (no adjacent boundaries, separator-free
   literals) are discharged by the rule checker and the parser *)
Theorem C10_built_flat_globs_sound : forall (orbit : char -> list char), (forall c d, In d (orbit c) -> d <> SEP) ->
  forall e sp ts r v p l0 rest,
  build e = BuildOk (TCat sp ts) r -> forallb is_leaf ts = true -> map leaf_of ts = l0 :: rest ->
  depth_variance (TCat sp ts) = Ok v -> Lang orbit (TCat sp ts) p ->
  canonical p = true -> 1 <= ncomp p -> starts_sep p = leaf_is_rooting l0 ->
  in_variance (ncomp p) v.
Proof. exact built_flat_depth_sound. Qed.
Print Assumptions C10_built_flat_globs_sound.

(* patterns without repetitions - alternations, concatenations, leaves and tree wildcards at any nesting (`*.{rs,toml}`,
   `{src,tests}/**/*.rs`, `**/{a,b}/*`): a term of the depth algebra is a sound summary of a flat leaf sequence, summaries compose
   under conjunction whatever the grouping (the algebra is not associative), every expansion is summarised by a member of the
   tree's term, and the final disjunction covers its finalized members.  The path is matched through an expansion in which no
   two boundaries are adjacent and which begins with a root exactly when the path does; the known class closed_variant_finalize
   is excluded by its predicate *)
Theorem C10_patterns_without_repetitions_sound : forall (orbit : char -> list char), (forall c d, In d (orbit c) -> d <> SEP) ->
  forall t v p x,
  nonempty_branches t = true -> rep_free t = true -> lits_nosep t = true ->
  depth_variance t = Ok v -> depth_closed_variant t = false ->
  Expands t x -> FlatMatch orbit true true x p -> chain_ok false x = true ->
  canonical p = true -> 1 <= ncomp p ->
  starts_sep p = (match x with a :: _ => leaf_is_rooting a | [] => false end) ->
  in_variance (ncomp p) v.
Proof. exact depth_alt_sound. Qed.
Print Assumptions C10_patterns_without_repetitions_sound.

Theorem C10_built_globs_without_repetitions_sound : forall (orbit : char -> list char), (forall c d, In d (orbit c) -> d <> SEP) ->
  forall e t r v p x,
  build e = BuildOk t r -> rep_free t = true ->
  depth_variance t = Ok v -> depth_closed_variant t = false ->
  Expands t x -> FlatMatch orbit true true x p -> chain_ok false x = true ->
  canonical p = true -> 1 <= ncomp p ->
  starts_sep p = (match x with a :: _ => leaf_is_rooting a | [] => false end) ->
  in_variance (ncomp p) v.
Proof. exact built_alt_depth_sound. Qed.
Print Assumptions C10_built_globs_without_repetitions_sound.

(* the algebra itself: the conjunction of two sound summaries is a sound summary of the concatenation, and a disjunction
   contains whatever its operands contain *)
Theorem C10_summaries_compose : forall s1 s2 s x1 x2, K s1 x1 -> K s2 x2 -> lb x1 && fb x2 = false -> sterm_conj s1 s2 = Ok s -> K s (x1 ++ x2).
Proof. exact K_conj. Qed.
Print Assumptions C10_summaries_compose.

Theorem C10_disjunction_covers : forall a b c n, nvar_disj a b = Ok c -> in_variance n a \/ in_variance n b -> in_variance n c.
Proof. exact nvar_disj_cover. Qed.
Print Assumptions C10_disjunction_covers.

(* the premises are satisfiable: {s,t}/**/*.{r,m/d} reports "at least 2" *)
Example C10_alternation_nonvacuous :
  let sp := (0%N, 0%N) in
  let L s := TLeaf sp (LLit false s) in
  let t := TCat sp [TAlt sp [TCat sp [L [115%N]]; TCat sp [L [116%N]]]; TLeaf sp (LTree true); TLeaf sp (LZom false); L [46%N];
                    TAlt sp [TCat sp [L [114%N]]; TCat sp [L [109%N]; TLeaf sp LSep; L [100%N]]]] in
  nonempty_branches t = true /\ rep_free t = true /\ lits_nosep t = true /\ depth_closed_variant t = false /\
  depth_variance t = Ok (Var (Bounded (BLower 2))).
Proof. cbv zeta. repeat split; vm_compute; reflexivity. Qed.

(* with repetitions that are written out at least once and whose body has a single depth term (`<a/:1,>b`, `<[0-9]:1,3>.txt`,
   `src/<*/:1,2>*.rs`): the summary is generalised from exact counts to ranges - the separator count of a tree-free sequence lies
   in the variance of its term, a sequence with a tree wildcard has a term without upper bound - and is preserved by the product
   with the repetition range (C10_product_sound) as well as by conjunction (C10_conjunction_sound) *)
Theorem C10_patterns_with_simple_repetitions_sound : forall (orbit : char -> list char), (forall c d, In d (orbit c) -> d <> SEP) ->
  forall t v p x,
  nonempty_branches t = true -> simple_reps t = true -> lits_nosep t = true ->
  depth_variance t = Ok v -> depth_closed_variant t = false ->
  Expands t x -> FlatMatch orbit true true x p -> chain_ok false x = true ->
  canonical p = true -> 1 <= ncomp p ->
  starts_sep p = (match x with a :: _ => leaf_is_rooting a | [] => false end) ->
  in_variance (ncomp p) v.
Proof. exact depth_rep_sound. Qed.
Print Assumptions C10_patterns_with_simple_repetitions_sound.

Theorem C10_built_globs_with_simple_repetitions_sound : forall (orbit : char -> list char), (forall c d, In d (orbit c) -> d <> SEP) ->
  forall e t r v p x,
  build e = BuildOk t r -> simple_reps t = true ->
  depth_variance t = Ok v -> depth_closed_variant t = false ->
  Expands t x -> FlatMatch orbit true true x p -> chain_ok false x = true ->
  canonical p = true -> 1 <= ncomp p ->
  starts_sep p = (match x with a :: _ => leaf_is_rooting a | [] => false end) ->
  in_variance (ncomp p) v.
Proof. exact built_rep_depth_sound. Qed.
Print Assumptions C10_built_globs_with_simple_repetitions_sound.

Theorem C10_conjunction_sound : forall a b c, nvar_conj a b = Ok c ->
  (forall x y, in_variance x a -> in_variance y b -> in_variance (x + y) c) /\ lowN c <= lowN a + lowN b /\ (upN a = None \/ upN b = None -> upN c = None).
Proof. exact conj_sound. Qed.
Print Assumptions C10_conjunction_sound.

Theorem C10_product_sound : forall v r c, nvar_product v r = Ok c ->
  (forall l, Forall (fun a => in_variance a v) l -> in_variance (N.of_nat (length l)) r -> in_variance (sumN l) c) /\ lowN c <= lowN v * lowN r /\ (upN v = None -> 1 <= lowN r -> upN c = None).
Proof. exact product_sound. Qed.
Print Assumptions C10_product_sound.

(* the premises are satisfiable: s/<*/:1,2>*.{r,m} reports "between 3 and 4" *)
Example C10_repetition_nonvacuous :
  let sp := (0%N, 0%N) in
  let L s := TLeaf sp (LLit false s) in
  let t := TCat sp [L [115%N]; TLeaf sp LSep; TRep sp (TCat sp [TLeaf sp (LZom false); TLeaf sp LSep]) 1 (Some 2); TLeaf sp (LZom false); L [46%N];
                    TAlt sp [TCat sp [L [114%N]]; TCat sp [L [109%N]]]] in
  nonempty_branches t = true /\ simple_reps t = true /\ lits_nosep t = true /\ depth_closed_variant t = false /\
  depth_variance t = Ok (Var (Bounded (BBoth 3 1))).
Proof. cbv zeta. repeat split; vm_compute; reflexivity. Qed.

(* for globs that build and have no repetition nothing is assumed about adjacency: the rule checker guarantees it for every
   expansion (C06_built_globs_without_repetitions_have_no_adjacent_boundaries) *)
Theorem C10_built_globs_without_repetitions_sound_unconditionally : forall (orbit : char -> list char), (forall c d, In d (orbit c) -> d <> SEP) ->
  forall e t r v p,
  build e = BuildOk t r -> rep_free t = true ->
  depth_variance t = Ok v -> depth_closed_variant t = false ->
  Lang orbit t p -> canonical p = true -> 1 <= ncomp p ->
  (forall x, Expands t x -> FlatMatch orbit true true x p -> starts_sep p = (match x with a :: _ => leaf_is_rooting a | [] => false end)) ->
  in_variance (ncomp p) v.
Proof. exact built_rep_free_depth_sound. Qed.
Print Assumptions C10_built_globs_without_repetitions_sound_unconditionally.

From WaxProofs Require Import DepthRooted.

(* the same with the rootedness condition stated through the query has_root, as in the property's quantifier ("relative when the pattern
   is unrooted and rooted when it is rooted"): a built glob without repetitions reports Always or Never (C12), and the verdict decides how
   every expansion begins *)
Theorem C10_built_globs_without_repetitions_sound_for_paths_rooted_like_the_glob : forall (orbit : char -> list char), (forall c d, In d (orbit c) -> d <> SEP) ->
  forall e t r v p,
  build e = BuildOk t r -> rep_free t = true ->
  depth_variance t = Ok v -> depth_closed_variant t = false ->
  Lang orbit t p -> canonical p = true -> 1 <= ncomp p ->
  starts_sep p = (match has_root t with Always => true | _ => false end) ->
  in_variance (ncomp p) v.
Proof. exact built_rep_free_depth_sound_rooted. Qed.
Print Assumptions C10_built_globs_without_repetitions_sound_for_paths_rooted_like_the_glob.

From WaxProofs Require Import RuleAdjRep RuleZomRep RepClosed.

(* with repetitions nothing is assumed about adjacency either, when every repetition is written out at least once and its body begins
   and ends with a leaf: the rule checker guarantees every expansion (C06_built_globs_with_required_repetitions_have_no_adjacent_boundaries) *)
Theorem C10_built_globs_with_simple_repetitions_sound_unconditionally : forall (orbit : char -> list char), (forall c d, In d (orbit c) -> d <> SEP) ->
  forall e t r v p,
  build e = BuildOk t r -> simple_reps t = true -> rep_class t = true ->
  depth_variance t = Ok v -> depth_closed_variant t = false ->
  Lang orbit t p -> canonical p = true -> 1 <= ncomp p ->
  (forall x, Expands t x -> FlatMatch orbit true true x p -> starts_sep p = (match x with a :: _ => leaf_is_rooting a | [] => false end)) ->
  in_variance (ncomp p) v.
Proof. exact built_rep_depth_sound_lang. Qed.
Print Assumptions C10_built_globs_with_simple_repetitions_sound_unconditionally.

(* the premises are satisfiable: s/<*/:1,2>*.{r,m} *)
Example C10_repetition_unconditional_nonvacuous :
  let e := [115;47;60;42;47;58;49;44;50;62;42;46;123;114;44;109;125]%N in
  exists t r, build e = BuildOk t r /\ simple_reps t = true /\ rep_class t = true /\ depth_closed_variant t = false /\
    depth_variance t = Ok (Var (Bounded (BBoth 3 1))).
Proof. cbv zeta. do 2 eexists. repeat split; vm_compute; reflexivity. Qed.

From WaxProofs Require Import RootRep DepthRootedRep.

(* ... and with the rootedness condition stated through has_root, as in the property's own quantifier: the glob starts plainly, so it
   is never "sometimes rooted" (C12), and the verdict decides how every expansion begins (repetitions are written out at least once) *)
Theorem C10_built_globs_with_simple_repetitions_sound_for_paths_rooted_like_the_glob : forall (orbit : char -> list char), (forall c d, In d (orbit c) -> d <> SEP) ->
  forall e t r v p,
  build e = BuildOk t r -> simple_reps t = true -> rep_class t = true -> starts_plainly t = true ->
  depth_variance t = Ok v -> depth_closed_variant t = false ->
  Lang orbit t p -> canonical p = true -> 1 <= ncomp p ->
  starts_sep p = (match has_root t with Always => true | _ => false end) ->
  in_variance (ncomp p) v.
Proof. exact built_rep_depth_sound_rooted. Qed.
Print Assumptions C10_built_globs_with_simple_repetitions_sound_for_paths_rooted_like_the_glob.

Example C10_repetition_rooted_nonvacuous :
  let e := [115;47;60;42;47;58;49;44;50;62;42;46;123;114;44;109;125]%N in
  exists t r, build e = BuildOk t r /\ simple_reps t = true /\ rep_class t = true /\ starts_plainly t = true /\ depth_closed_variant t = false /\
    has_root t = Never /\ depth_variance t = Ok (Var (Bounded (BBoth 3 1))).
Proof. cbv zeta. do 2 eexists. repeat split; vm_compute; reflexivity. Qed.
