(* C10 *)
From WaxModel Require Import Base.
