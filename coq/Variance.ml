open Base
open BinNat
open BinNums
open Datatypes
open List

type bvr =
| BLower of coq_N
| BUpper of coq_N
| BBoth of coq_N * coq_N

type 'b bnd =
| Bounded of 'b
| Unbounded

type ('t, 'b) var =
| Inv of 't
| Var of 'b bnd

type vrange = bvr bnd

type nrange = (coq_N, bvr) var

type nbound =
| NBZero
| NBUnb
| NBNum of coq_N

(** val bvr_eqb : bvr -> bvr -> bool **)

let bvr_eqb a b =
  match a with
  | BLower x -> (match b with
                 | BLower y -> N.eqb x y
                 | _ -> false)
  | BUpper x -> (match b with
                 | BUpper y -> N.eqb x y
                 | _ -> false)
  | BBoth (l, e) ->
    (match b with
     | BBoth (l', e') -> (&&) (N.eqb l l') (N.eqb e e')
     | _ -> false)

(** val try_lower_upper : coq_N -> coq_N option -> bvr option **)

let try_lower_upper lower upper =
  let u = match upper with
          | Some u -> u
          | None -> N0 in
  if (&&) (N.eqb lower N0) (N.eqb u N0)
  then None
  else if N.eqb u N0
       then Some (BLower lower)
       else if N.eqb lower N0
            then Some (BUpper u)
            else if N.ltb lower u
                 then Some (BBoth (lower, (N.sub u lower)))
                 else None

(** val from_closed_open : coq_N -> coq_N option -> nrange **)

let from_closed_open closed = function
| Some o ->
  if N.ltb o closed
  then let upper = Some closed in
       (match o with
        | N0 ->
          (match upper with
           | Some _ ->
             (match try_lower_upper o upper with
              | Some r -> Var (Bounded r)
              | None -> Inv o)
           | None -> Var Unbounded)
        | Npos _ ->
          (match try_lower_upper o upper with
           | Some r -> Var (Bounded r)
           | None -> Inv o))
  else let upper = Some o in
       (match closed with
        | N0 ->
          (match upper with
           | Some _ ->
             (match try_lower_upper closed upper with
              | Some r -> Var (Bounded r)
              | None -> Inv closed)
           | None -> Var Unbounded)
        | Npos _ ->
          (match try_lower_upper closed upper with
           | Some r -> Var (Bounded r)
           | None -> Inv closed))
| None ->
  let upper = None in
  (match closed with
   | N0 ->
     (match upper with
      | Some _ ->
        (match try_lower_upper closed upper with
         | Some r -> Var (Bounded r)
         | None -> Inv closed)
      | None -> Var Unbounded)
   | Npos _ ->
     (match try_lower_upper closed upper with
      | Some r -> Var (Bounded r)
      | None -> Inv closed))

(** val nbound_of_n : coq_N -> nbound **)

let nbound_of_n n =
  if N.eqb n N0 then NBZero else NBNum n

(** val bvr_lower : bvr -> nbound **)

let bvr_lower = function
| BLower n -> NBNum n
| BUpper _ -> NBUnb
| BBoth (n, _) -> NBNum n

(** val bvr_upper : bvr -> nbound res **)

let bvr_upper = function
| BLower _ -> Ok NBUnb
| BUpper n -> Ok (NBNum n)
| BBoth (lo, ext) -> rbind (cadd lo ext) (fun u -> Ok (NBNum u))

(** val nr_lower : nrange -> nbound **)

let nr_lower = function
| Inv n -> nbound_of_n n
| Var b0 -> (match b0 with
             | Bounded b -> bvr_lower b
             | Unbounded -> NBUnb)

(** val nr_upper : nrange -> nbound res **)

let nr_upper = function
| Inv n -> Ok (nbound_of_n n)
| Var b0 -> (match b0 with
             | Bounded b -> bvr_upper b
             | Unbounded -> Ok NBUnb)

(** val lower_usize : nbound -> coq_N **)

let lower_usize = function
| NBNum n -> n
| _ -> N0

(** val upper_usize : nbound -> coq_N option **)

let upper_usize = function
| NBZero -> Some N0
| NBUnb -> None
| NBNum n -> Some n

(** val nb_product : nbound -> nbound -> nbound res **)

let nb_product a b =
  match a with
  | NBZero -> (match b with
               | NBUnb -> Ok NBUnb
               | _ -> Ok NBZero)
  | NBUnb -> Ok NBUnb
  | NBNum x ->
    (match b with
     | NBNum y -> rbind (cmul x y) (fun z -> Ok (NBNum z))
     | x0 -> Ok x0)

(** val by_bound_product : nrange -> nrange -> nrange res **)

let by_bound_product l r =
  rbind (nr_upper l) (fun lu ->
    rbind (nr_upper r) (fun ru ->
      rbind (nb_product (nr_lower l) (nr_lower r)) (fun lower ->
        rbind (nb_product lu ru) (fun upper -> Ok
          (from_closed_open (lower_usize lower) (upper_usize upper))))))

(** val lower_min : nbound -> nbound -> nbound **)

let lower_min a b =
  match a with
  | NBUnb -> a
  | _ ->
    (match b with
     | NBUnb -> b
     | _ -> if N.ltb (lower_usize b) (lower_usize a) then b else a)

(** val upper_max : nbound -> nbound -> nbound **)

let upper_max a b =
  match a with
  | NBUnb -> a
  | _ ->
    (match b with
     | NBUnb -> b
     | _ ->
       let ua = match a with
                | NBNum n -> n
                | _ -> N0 in
       let ub = match b with
                | NBNum n -> n
                | _ -> N0 in
       if N.ltb ua ub then b else a)

(** val bvr_union : bvr -> nrange -> vrange res **)

let bvr_union a other =
  rbind (bvr_upper a) (fun au ->
    rbind (nr_upper other) (fun ou ->
      let lower = lower_min (bvr_lower a) (nr_lower other) in
      let upper = upper_max au ou in
      (match from_closed_open (lower_usize lower) (upper_usize upper) with
       | Inv _ -> Panic PanicUnreachable
       | Var r -> Ok r)))

(** val bvr_translation : bvr -> coq_N -> bvr res **)

let bvr_translation a v =
  match a with
  | BLower lo -> rbind (cadd lo v) (fun lo' -> Ok (BLower lo'))
  | BUpper u -> rbind (cadd u v) (fun u' -> Ok (BUpper u'))
  | BBoth (lo, ext) -> rbind (cadd lo v) (fun lo' -> Ok (BBoth (lo', ext)))

(** val bvr_conj : bvr -> bvr -> bvr res **)

let bvr_conj a b =
  rbind (bvr_upper a) (fun au ->
    rbind (bvr_upper b) (fun bu ->
      rbind (cadd (lower_usize (bvr_lower a)) (lower_usize (bvr_lower b)))
        (fun lower ->
        rbind
          (match upper_usize au with
           | Some x ->
             (match upper_usize bu with
              | Some y -> rbind (cadd x y) (fun z -> Ok (Some z))
              | None -> Ok None)
           | None -> Ok None) (fun upper ->
          match try_lower_upper lower upper with
          | Some r -> Ok r
          | None -> Panic PanicOther))))

(** val bvr_open_upper : bvr -> vrange **)

let bvr_open_upper a = match a with
| BLower _ -> Bounded a
| BUpper _ -> Unbounded
| BBoth (lo, _) -> Bounded (BLower lo)

(** val bvr_product : bvr -> bvr -> vrange res **)

let bvr_product a b =
  rbind (by_bound_product (Var (Bounded a)) (Var (Bounded b))) (fun r ->
    match r with
    | Inv _ -> Panic PanicUnreachable
    | Var v -> Ok v)

(** val bvr_product_nz : bvr -> coq_N -> bvr res **)

let bvr_product_nz a n =
  rbind (by_bound_product (Var (Bounded a)) (Inv n)) (fun r ->
    match r with
    | Inv _ -> Panic PanicUnreachable
    | Var b ->
      (match b with
       | Bounded v -> Ok v
       | Unbounded -> Panic PanicUnreachable))

type nvar = (coq_N, bvr) var

(** val nvar_eqb : nvar -> nvar -> bool **)

let nvar_eqb a b =
  match a with
  | Inv x -> (match b with
              | Inv y -> N.eqb x y
              | Var _ -> false)
  | Var b0 ->
    (match b0 with
     | Bounded x ->
       (match b with
        | Inv _ -> false
        | Var b1 ->
          (match b1 with
           | Bounded y -> bvr_eqb x y
           | Unbounded -> false))
     | Unbounded ->
       (match b with
        | Inv _ -> false
        | Var b1 -> (match b1 with
                     | Bounded _ -> false
                     | Unbounded -> true)))

(** val n_into_lower_bound : coq_N -> vrange **)

let n_into_lower_bound n =
  if N.eqb n N0 then Unbounded else Bounded (BLower n)

(** val n_bound : coq_N -> coq_N -> vrange **)

let n_bound l r =
  let lo = N.min l r in
  let hi = N.max l r in
  (match try_lower_upper lo (Some hi) with
   | Some b -> Bounded b
   | None -> Unbounded)

(** val nvar_conj : nvar -> nvar -> nvar res **)

let nvar_conj l r =
  match l with
  | Inv i ->
    (match r with
     | Inv b -> rbind (cadd i b) (fun c -> Ok (Inv c))
     | Var b0 ->
       (match b0 with
        | Bounded b ->
          rbind (bvr_translation b i) (fun c -> Ok (Var (Bounded c)))
        | Unbounded -> Ok (Var (n_into_lower_bound i))))
  | Var b0 ->
    (match b0 with
     | Bounded b ->
       (match r with
        | Inv i -> rbind (bvr_translation b i) (fun c -> Ok (Var (Bounded c)))
        | Var b1 ->
          (match b1 with
           | Bounded b2 ->
             rbind (bvr_conj b b2) (fun c -> Ok (Var (Bounded c)))
           | Unbounded -> Ok (Var (bvr_open_upper b))))
     | Unbounded ->
       (match r with
        | Inv i -> Ok (Var (n_into_lower_bound i))
        | Var b1 ->
          (match b1 with
           | Bounded b -> Ok (Var (bvr_open_upper b))
           | Unbounded -> Ok (Var Unbounded))))

(** val nvar_disj : nvar -> nvar -> nvar res **)

let nvar_disj l r =
  if nvar_eqb l r
  then Ok l
  else (match l with
        | Inv i ->
          (match r with
           | Inv b -> Ok (Var (n_bound i b))
           | Var b0 ->
             (match b0 with
              | Bounded b -> rbind (bvr_union b (Inv i)) (fun v -> Ok (Var v))
              | Unbounded -> Ok (Var Unbounded)))
        | Var b0 ->
          (match b0 with
           | Bounded b ->
             (match r with
              | Inv i -> rbind (bvr_union b (Inv i)) (fun v -> Ok (Var v))
              | Var b1 ->
                (match b1 with
                 | Bounded b2 ->
                   rbind (bvr_union b (Var (Bounded b2))) (fun v -> Ok (Var
                     v))
                 | Unbounded -> Ok (Var Unbounded)))
           | Unbounded -> Ok (Var Unbounded)))

(** val nvar_product : nvar -> nrange -> nvar res **)

let nvar_product l r =
  match l with
  | Inv a ->
    (match r with
     | Inv n -> rbind (cmul a n) (fun c -> Ok (Inv c))
     | Var rhs ->
       if N.eqb a N0
       then Ok (Inv N0)
       else (match rhs with
             | Bounded b ->
               rbind (bvr_product_nz b a) (fun c -> Ok (Var (Bounded c)))
             | Unbounded -> Ok (Var Unbounded)))
  | Var lhs ->
    (match lhs with
     | Bounded a ->
       (match r with
        | Inv n ->
          if N.eqb n N0
          then Ok (Inv N0)
          else (match lhs with
                | Bounded b ->
                  rbind (bvr_product_nz b n) (fun c -> Ok (Var (Bounded c)))
                | Unbounded -> Ok (Var Unbounded))
        | Var b0 ->
          (match b0 with
           | Bounded b -> rbind (bvr_product a b) (fun v -> Ok (Var v))
           | Unbounded -> Ok (Var Unbounded)))
     | Unbounded ->
       (match r with
        | Inv n ->
          if N.eqb n N0
          then Ok (Inv N0)
          else (match lhs with
                | Bounded b ->
                  rbind (bvr_product_nz b n) (fun c -> Ok (Var (Bounded c)))
                | Unbounded -> Ok (Var Unbounded))
        | Var _ -> Ok (Var Unbounded)))

type termination =
| TOpen
| TFirst
| TLast
| TClosed
| TCoalescent

type coalescence =
| CLeft of termination
| CRight of termination
| CNeither of termination

(** val term_eqb : termination -> termination -> bool **)

let term_eqb a b =
  match a with
  | TOpen -> (match b with
              | TOpen -> true
              | _ -> false)
  | TFirst -> (match b with
               | TFirst -> true
               | _ -> false)
  | TLast -> (match b with
              | TLast -> true
              | _ -> false)
  | TClosed -> (match b with
                | TClosed -> true
                | _ -> false)
  | TCoalescent -> (match b with
                    | TCoalescent -> true
                    | _ -> false)

(** val term_conj : termination -> termination -> coalescence **)

let term_conj a b =
  match a with
  | TOpen ->
    (match b with
     | TOpen -> CNeither TOpen
     | TFirst -> CNeither TOpen
     | TCoalescent -> CLeft TLast
     | _ -> CNeither TLast)
  | TLast ->
    (match b with
     | TOpen -> CNeither TOpen
     | TFirst -> CNeither TOpen
     | TCoalescent -> CLeft TLast
     | _ -> CNeither TLast)
  | TCoalescent ->
    (match b with
     | TOpen -> CRight TFirst
     | TFirst -> CRight TFirst
     | TCoalescent -> CNeither TCoalescent
     | _ -> CRight TClosed)
  | _ ->
    (match b with
     | TOpen -> CNeither TFirst
     | TFirst -> CNeither TFirst
     | TCoalescent -> CLeft TClosed
     | _ -> CNeither TClosed)

type sterm = termination * nvar

(** val sterm_eqb : sterm -> sterm -> bool **)

let sterm_eqb a b =
  (&&) (term_eqb (fst a) (fst b)) (nvar_eqb (snd a) (snd b))

(** val sterm_finalize : sterm -> nvar res **)

let sterm_finalize s =
  match fst s with
  | TOpen -> nvar_conj (snd s) (Inv (Npos Coq_xH))
  | TClosed -> Ok (match snd s with
                   | Inv n -> Inv (N.pred n)
                   | Var b -> Var b)
  | _ -> Ok (snd s)

(** val sterm_conj : sterm -> sterm -> sterm res **)

let sterm_conj l r =
  match term_conj (fst l) (fst r) with
  | CLeft t ->
    rbind (sterm_finalize l) (fun lv ->
      rbind (nvar_conj lv (snd r)) (fun v -> Ok (t, v)))
  | CRight t ->
    rbind (sterm_finalize r) (fun rv ->
      rbind (nvar_conj (snd l) rv) (fun v -> Ok (t, v)))
  | CNeither t -> rbind (nvar_conj (snd l) (snd r)) (fun v -> Ok (t, v))

(** val set_insert : sterm -> sterm list -> sterm list **)

let rec set_insert x s = match s with
| [] -> x :: []
| y :: s' -> if sterm_eqb x y then s else y :: (set_insert x s')

(** val set_of_list : sterm list -> sterm list **)

let set_of_list l =
  fold_left (fun s x -> set_insert x s) l []

type bterm =
| BConj of sterm
| BDisj of sterm list

(** val bterm_zero : bterm **)

let bterm_zero =
  BConj (TOpen, (Inv N0))

(** val bterm_one : bterm **)

let bterm_one =
  BConj (TClosed, (Inv (Npos Coq_xH)))

(** val bterm_unbounded : bterm **)

let bterm_unbounded =
  BConj (TCoalescent, (Var Unbounded))

(** val bterm_conj : bterm -> bterm -> bterm res **)

let bterm_conj l r =
  match l with
  | BConj a ->
    (match r with
     | BConj b -> rbind (sterm_conj a b) (fun c -> Ok (BConj c))
     | BDisj bs ->
       rbind (rmapM (fun b -> sterm_conj a b) bs) (fun cs -> Ok (BDisj
         (set_of_list cs))))
  | BDisj as_ ->
    (match r with
     | BConj b ->
       rbind (rmapM (fun a -> sterm_conj a b) as_) (fun cs -> Ok (BDisj
         (set_of_list cs)))
     | BDisj bs ->
       rbind
         (rmapM (fun ab -> sterm_conj (fst ab) (snd ab)) (list_prod as_ bs))
         (fun cs -> Ok (BDisj (set_of_list cs))))

(** val bterm_disj : bterm -> bterm -> bterm **)

let bterm_disj l r =
  match l with
  | BConj a ->
    (match r with
     | BConj b -> BDisj (set_of_list (a :: (b :: [])))
     | BDisj bs -> BDisj (set_insert a bs))
  | BDisj as_ ->
    (match r with
     | BConj b -> BDisj (set_insert b as_)
     | BDisj bs -> BDisj (fold_left (fun s x -> set_insert x s) bs as_))

(** val sterm_product : sterm -> nrange -> sterm res **)

let sterm_product s r =
  rbind (nvar_product (snd s) r) (fun v -> Ok ((fst s), v))

(** val bterm_product : bterm -> nrange -> bterm res **)

let bterm_product l r =
  match l with
  | BConj a -> rbind (sterm_product a r) (fun c -> Ok (BConj c))
  | BDisj as_ ->
    rbind (rmapM (fun a -> sterm_product a r) as_) (fun cs -> Ok (BDisj
      (set_of_list cs)))

(** val bterm_finalize : bterm -> nvar res **)

let bterm_finalize = function
| BConj a -> sterm_finalize a
| BDisj as_ ->
  rbind (rmapM sterm_finalize as_) (fun vs ->
    rbind (rreduce nvar_disj vs) (fun r -> Ok
      (match r with
       | Some v -> v
       | None -> Inv N0)))

type coq_when =
| Always
| Sometimes
| Never

(** val when_and : coq_when -> coq_when -> coq_when **)

let when_and a b =
  match a with
  | Always -> b
  | Sometimes -> (match b with
                  | Always -> Sometimes
                  | x -> x)
  | Never -> Never

(** val when_or : coq_when -> coq_when -> coq_when **)

let when_or a b =
  match a with
  | Always -> Always
  | Sometimes -> (match b with
                  | Always -> Always
                  | _ -> Sometimes)
  | Never -> b

(** val when_certainty : coq_when -> coq_when -> coq_when **)

let when_certainty a b =
  match a with
  | Always -> (match b with
               | Always -> Always
               | _ -> Sometimes)
  | Sometimes -> Sometimes
  | Never -> (match b with
              | Always -> Sometimes
              | x -> x)

(** val when_of_bool : bool -> coq_when **)

let when_of_bool = function
| true -> Always
| false -> Never

(** val nvar_is_exhaustive : nvar -> bool **)

let nvar_is_exhaustive = function
| Inv _ -> false
| Var b ->
  (match b with
   | Bounded b0 -> (match b0 with
                    | BLower _ -> true
                    | _ -> false)
   | Unbounded -> true)

(** val bterm_is_exhaustive : bterm -> coq_when **)

let bterm_is_exhaustive = function
| BConj a -> when_of_bool (nvar_is_exhaustive (snd a))
| BDisj as_ ->
  (match reduce_pure when_certainty
           (map (fun a -> when_of_bool (nvar_is_exhaustive (snd a))) as_) with
   | Some w -> w
   | None -> Never)

type fragment =
| FNominal of str
| FStructural of str

type text = fragment list

(** val frag_str : fragment -> str **)

let frag_str = function
| FNominal s -> s
| FStructural s -> s

(** val frag_eqb : fragment -> fragment -> bool **)

let frag_eqb a b =
  match a with
  | FNominal x ->
    (match b with
     | FNominal y -> str_eqb x y
     | FStructural _ -> false)
  | FStructural x ->
    (match b with
     | FNominal _ -> false
     | FStructural y -> str_eqb x y)

(** val text_eqb : text -> text -> bool **)

let rec text_eqb a b =
  match a with
  | [] -> (match b with
           | [] -> true
           | _ :: _ -> false)
  | x :: a' ->
    (match b with
     | [] -> false
     | y :: b' -> (&&) (frag_eqb x y) (text_eqb a' b'))

(** val text_to_string : text -> str **)

let text_to_string t =
  flat_map frag_str t

(** val frag_conj : fragment -> fragment -> text **)

let frag_conj a b =
  match a with
  | FNominal x ->
    (match b with
     | FNominal y -> (FNominal (app x y)) :: []
     | FStructural _ -> a :: (b :: []))
  | FStructural x ->
    (match b with
     | FNominal _ -> a :: (b :: [])
     | FStructural y -> (FStructural (app x y)) :: [])

(** val text_conj : text -> text -> text **)

let text_conj l r =
  match rev l with
  | [] -> r
  | e :: l' ->
    (match r with
     | [] -> app (rev l') (e :: [])
     | s :: r' -> app (rev l') (app (frag_conj e s) r'))

(** val text_repeated : text -> coq_N -> text res **)

let text_repeated t n =
  rbind (cmul (N.sub n (Npos Coq_xH)) (N.of_nat (length t))) (fun _ -> Ok
    (repeat_list t (N.to_nat n)))

type tvar = (text, unit) var

(** val tvar_eqb : tvar -> tvar -> bool **)

let tvar_eqb a b =
  match a with
  | Inv x -> (match b with
              | Inv y -> text_eqb x y
              | Var _ -> false)
  | Var b0 ->
    (match b0 with
     | Bounded _ ->
       (match b with
        | Inv _ -> false
        | Var b2 -> (match b2 with
                     | Bounded _ -> true
                     | Unbounded -> false))
     | Unbounded ->
       (match b with
        | Inv _ -> false
        | Var b1 -> (match b1 with
                     | Bounded _ -> false
                     | Unbounded -> true)))

(** val tvar_conj : tvar -> tvar -> tvar **)

let tvar_conj l r =
  match l with
  | Inv a ->
    (match r with
     | Inv b -> Inv (text_conj a b)
     | Var _ -> Var (Bounded ()))
  | Var b ->
    (match b with
     | Bounded _ -> Var (Bounded ())
     | Unbounded ->
       (match r with
        | Inv _ -> Var (Bounded ())
        | Var b0 ->
          (match b0 with
           | Bounded _ -> Var (Bounded ())
           | Unbounded -> Var Unbounded)))

(** val tvar_disj : tvar -> tvar -> tvar **)

let tvar_disj l r =
  if tvar_eqb l r
  then l
  else (match l with
        | Inv _ ->
          (match r with
           | Inv _ -> Var (Bounded ())
           | Var b ->
             (match b with
              | Bounded _ -> Var (Bounded ())
              | Unbounded -> Var Unbounded))
        | Var b ->
          (match b with
           | Bounded _ ->
             (match r with
              | Inv _ -> Var (Bounded ())
              | Var b1 ->
                (match b1 with
                 | Bounded _ -> Var (Bounded ())
                 | Unbounded -> Var Unbounded))
           | Unbounded -> Var Unbounded))

(** val tvar_product : tvar -> nrange -> tvar res **)

let tvar_product l r =
  match l with
  | Inv a ->
    (match r with
     | Inv n ->
       if N.eqb n N0
       then Ok (Inv [])
       else rbind (text_repeated a n) (fun t -> Ok (Inv t))
     | Var b ->
       (match b with
        | Bounded _ -> Ok (Var (Bounded ()))
        | Unbounded -> Ok (Var Unbounded)))
  | Var lhs ->
    (match lhs with
     | Bounded _ ->
       (match r with
        | Inv n -> if N.eqb n N0 then Ok (Inv []) else Ok (Var lhs)
        | Var b0 ->
          (match b0 with
           | Bounded _ -> Ok (Var (Bounded ()))
           | Unbounded -> Ok (Var Unbounded)))
     | Unbounded ->
       (match r with
        | Inv n -> if N.eqb n N0 then Ok (Inv []) else Ok (Var lhs)
        | Var _ -> Ok (Var Unbounded)))
