(* BuiltNonempty.v -- every alternation and every concatenation the parser produces has at least one member, at every depth; with
   the rule checker (no repetition is bounded by 0,0) every built glob satisfies [nonempty_branches], the side condition of the
   text and root theorems (C08, C11, C12). *)
From Coq Require Import Arith Lia.
From WaxModel Require Import Base Token Regex Encode Variance Fold Rule Parse Query Glob.
From WaxProofs Require Import AlgebraFacts OwnedFacts FuelFacts RuleFacts SpecFacts BuiltFacts.
Local Open Scope N_scope.

Fixpoint ne (t : tok) : Prop :=
  match t with
  | TLeaf _ _ => True
  | TAlt _ bs => bs <> [] /\ (fix go (l : list tok) : Prop := match l with [] => True | x :: l' => ne x /\ go l' end) bs
  | TCat _ ts => ts <> [] /\ (fix go (l : list tok) : Prop := match l with [] => True | x :: l' => ne x /\ go l' end) ts
  | TRep _ b lo hi => ne b
  end.
Definition all_ne (l : list tok) : Prop := (fix go (l : list tok) : Prop := match l with [] => True | x :: l' => ne x /\ go l' end) l.

Definition tokens_n (f : nat) : Prop := forall tm i ts i', p_tokens f tm i = POk (ts, i') -> all_ne ts.
Definition token_n (f : nat) : Prop := forall tm i t i', p_token f tm i = POk (t, i') -> ne t.
Definition branches_n (f : nat) : Prop := forall i bs i', p_branches f i = POk (bs, i') -> bs <> [] /\ all_ne bs.
Definition glob_n (f : nat) : Prop := forall tm i t i', p_glob f tm i = POk (t, i') -> ne t.

Ltac leaf_tail_n H :=
  match type of H with context [p_wildcard ?tm ?iF] =>
    destruct (p_wildcard tm iF) as [[? ?]|]; cbn [leaf_tok] in H;
    [ inversion H; subst; exact I
    | destruct (p_class iF) as [[? ?]|]; cbn [leaf_tok] in H;
      [ inversion H; subst; exact I
      | match type of H with (match ?T with _ => _ end) = _ =>
          destruct T as [[? ?]|]; [|discriminate]; inversion H; subst; exact I
        end ] ]
  end.

Lemma step_n : forall f, tokens_n f -> token_n f -> branches_n f -> glob_n f ->
  tokens_n (S f) /\ token_n (S f) /\ branches_n (S f) /\ glob_n (S f).
Proof.
  intros f IHts IHt IHb IHg. split; [|split; [|split]].
  - intros tm i ts i' H. cbn [p_tokens] in H.
    destruct (p_token f tm i) as [[t i1]| |] eqn:Et; [| |discriminate].
    + destruct (p_tokens f tm i1) as [[ts' i2]| |] eqn:Ets; try discriminate. inversion H; subst.
      split; [exact (IHt _ _ _ _ Et)|exact (IHts _ _ _ _ Ets)].
    + inversion H; subst. exact I.
  - intros tm i t i' H. cbn [p_token] in H. set (iF := flags_with_state i) in *.
    destruct (p_literal iF) as [[l1 i1]|] eqn:El; cbn [leaf_tok] in H.
    { inversion H; subst. exact I. }
    assert (AltTail :
      match
        match (match i_s iF with c :: r => if c =? c_lbrace then Some (c, r) else None | [] => None end) with
        | Some (c, r) =>
            match p_branches f (adv1 iF c r) with
            | PFuel => PFuel
            | PErr => POk None
            | POk (bs, i1) => match tag1 c_rbrace i1 with Some i2 => POk (Some (TAlt (mk_span i i2) bs, i2)) | None => POk None end
            end
        | None => POk None
        end
      with
      | PFuel => PFuel
      | PErr => PErr
      | POk (Some x) => POk x
      | POk None =>
          match leaf_tok i (p_wildcard tm iF) with
          | Some x => POk x
          | None => match leaf_tok i (p_class iF) with
                    | Some x => POk x
                    | None => match (match i_s iF with c :: r => if c =? SEP then Some (c, r) else None | [] => None end) with
                              | Some (c, r) => POk (TLeaf (mk_span i (adv1 iF c r)) LSep, adv1 iF c r)
                              | None => PErr
                              end
                    end
          end
      end = POk (t, i') -> ne t).
    { intros HA.
      destruct (match i_s iF with c :: r => if c =? c_lbrace then Some (c, r) else None | [] => None end) as [[c r]|] eqn:Elb.
      - destruct (p_branches f (adv1 iF c r)) as [[bs i1]| |] eqn:Eb; [| |discriminate].
        + destruct (tag1 c_rbrace i1) as [i2|] eqn:Etg.
          * inversion HA; subst. cbn [ne]. exact (IHb _ _ _ Eb).
          * leaf_tail_n HA.
        + leaf_tail_n HA.
      - leaf_tail_n HA. }
    destruct (match i_s iF with c :: r => if c =? c_lt then Some (c, r) else None | [] => None end) as [[c r]|] eqn:Elt.
    + destruct (p_glob f TermRep (adv1 iF c r)) as [[body i1]| |] eqn:Eg; [| |discriminate].
      * destruct (p_bounds i1) as [[lo hi] i2] eqn:Ebd.
        destruct (tag1 c_gt i2) as [i3|] eqn:Etg.
        -- inversion H; subst. cbn [ne]. exact (IHg _ _ _ _ Eg).
        -- apply AltTail. exact H.
      * apply AltTail. exact H.
    + apply AltTail. exact H.
  - intros i bs i' H. cbn [p_branches] in H.
    destruct (p_glob f TermAlt i) as [[b i1]| |] eqn:Eg; try discriminate. pose proof (IHg _ _ _ _ Eg) as Hb.
    destruct (match i_s i1 with c :: r => if c =? c_comma then Some (c, r) else None | [] => None end) as [[c r]|] eqn:Ec.
    + destruct (p_branches f (adv1 i1 c r)) as [[bs' i2]| |] eqn:Eb; [| |discriminate].
      * inversion H; subst. split; [discriminate|]. split; [exact Hb|exact (proj2 (IHb _ _ _ Eb))].
      * inversion H; subst. split; [discriminate|]. split; [exact Hb|exact I].
    + inversion H; subst. split; [discriminate|]. split; [exact Hb|exact I].
  - intros tm i t i' H. cbn [p_glob] in H.
    destruct (p_tokens f tm (set_sub i)) as [[ts i1]| |] eqn:Ets; try discriminate.
    destruct ts as [|t0 ts']; [discriminate|]. destruct (term_ok tm i1); [|discriminate]. inversion H; subst.
    cbn [ne]. split; [discriminate|]. exact (IHts _ _ _ _ Ets).
Qed.

Theorem grammar_n : forall f, tokens_n f /\ token_n f /\ branches_n f /\ glob_n f.
Proof.
  induction f as [|f [H1 [H2 [H3 H4]]]].
  - split; [|split; [|split]]; intro; intros; cbn in *; discriminate.
  - apply step_n; assumption.
Qed.

Theorem parse_ne : forall e t, parse e = ParseOk t -> ne t.
Proof.
  intros e t H. unfold parse in H. destruct e as [|c e]; [inversion H; subst; exact I|].
  destruct (p_tokens (parse_fuel (c :: e)) TermTop (set_sub (init_input (c :: e)))) as [[ts i1]| |] eqn:E; try discriminate.
  destruct ts as [|t0 ts]; [discriminate|]. destruct (i_s i1); [|discriminate]. inversion H; subst.
  cbn [ne]. split; [discriminate|]. exact (proj1 (grammar_n _) _ _ _ _ E).
Qed.


Lemma ne_nonempty : forall t, ne t -> (forall x, sub x t -> bad_bounds x = false) -> nonempty_branches t = true.
Proof.
  induction t as [sp l|sp bs IH|sp ts IH|sp b lo hi IH] using tok_ind'; intros Hn Hb.
  - reflexivity.
  - cbn [nonempty_branches]. destruct Hn as [Hnil Hn]. replace (is_nil bs) with false by (destruct bs; [congruence|reflexivity]). cbn [negb andb].
    assert (Hsub : forall b1, In b1 bs -> forall x, sub x b1 -> bad_bounds x = false).
    { intros b1 Hin x Hx. apply Hb. eapply sub_child; [exact Hin|exact Hx]. }
    clear Hb Hnil. induction IH as [|b1 bs' Hb1 _ IHbs]; [reflexivity|]. destruct Hn as [Hn1 Hn']. cbn [forallb].
    rewrite Hb1; [|exact Hn1|apply Hsub; left; reflexivity]. apply IHbs; [exact Hn'|intros b2 Hin; apply Hsub; right; exact Hin].
  - cbn [nonempty_branches]. destruct Hn as [Hnil Hn]. replace (is_nil ts) with false by (destruct ts; [congruence|reflexivity]). cbn [negb andb].
    assert (Hsub : forall b1, In b1 ts -> forall x, sub x b1 -> bad_bounds x = false).
    { intros b1 Hin x Hx. apply Hb. eapply sub_child; [exact Hin|exact Hx]. }
    clear Hb Hnil. induction IH as [|b1 bs' Hb1 _ IHbs]; [reflexivity|]. destruct Hn as [Hn1 Hn']. cbn [forallb].
    rewrite Hb1; [|exact Hn1|apply Hsub; left; reflexivity]. apply IHbs; [exact Hn'|intros b2 Hin; apply Hsub; right; exact Hin].
  - cbn [nonempty_branches]. cbn [ne] in Hn. rewrite IH; [|exact Hn|intros x Hx; apply Hb; eapply sub_child; [left; reflexivity|exact Hx]].
    cbn [andb]. pose proof (Hb _ (sub_refl _)) as H0. cbn [bad_bounds] in H0. destruct hi as [h|]; [|rewrite andb_false_r; reflexivity].
    apply orb_false_iff in H0. destruct H0 as [_ H0]. rewrite H0. reflexivity.
Qed.

(* every glob that builds has non-empty alternations and concatenations and no repetition bounded by 0,0, at every depth *)
Theorem built_nonempty_branches : forall e t r, build e = BuildOk t r -> nonempty_branches t = true.
Proof.
  intros e t r H. unfold build in H. destruct (parse e) as [t0| |] eqn:Ep; try discriminate.
  destruct (check t0) as [[[k sp]|]|s] eqn:Ec; try discriminate. destruct (compile_ok (encode t0)); [|discriminate]. inversion H; subst.
  apply ne_nonempty; [eapply parse_ne; exact Ep|]. apply built_bounds_everywhere. exact Ec.
Qed.

(* ---- the theorems that need non-empty branches, for every glob that builds ------------------------------------------------------- *)
From WaxModel Require Import Spec.
From WaxProofs Require Import TextFacts TextExists.

(* C12: a built glob that reports "always rooted" only matches paths that begin with a separator *)
Theorem built_root_sound : forall orbit e t r p, build e = BuildOk t r -> has_root t = Always -> Lang orbit t p -> starts_sep p = true.
Proof. intros orbit e t r p Hb. apply root_sound. exact (built_nonempty_branches _ _ _ Hb). Qed.

(* C11: the documented language of a built glob that reports invariant text is exactly that text *)
Theorem built_invariant_text_characterises :
  forall (orbit : char -> list char) (has_casing : char -> bool),
    (forall c d, has_casing c = false -> In d (orbit c) -> d = c) ->
    forall e t r txt, build e = BuildOk t r -> classes_plain t = true -> text_variance has_casing t = Ok (Inv txt) ->
    forall w, Lang orbit t w <-> w = text_to_string txt.
Proof. intros orbit hc Hco e t r txt Hb. apply (invariant_text_characterises orbit hc Hco). exact (built_nonempty_branches _ _ _ Hb). Qed.
