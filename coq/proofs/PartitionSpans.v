(* PartitionSpans.v -- C08 / C17: the spans of the top-level tokens of the postfix of a partition - hence its capture spans - lie in
   the displayed suffix of the expression, on character boundaries.  The tokens tile the expression, so every token from the cut
   on begins at or after the popped bytes; the shift by the number of popped bytes maps a span of the expression to the same
   characters of the suffix. *)
From Coq Require Import Arith Lia.
From WaxModel Require Import Base Token Regex Encode Variance Fold Rule Parse Query Glob.
From WaxProofs Require Import ParseFacts SpanFacts ParseFuelFacts AlgebraFacts AlgebraClosure OwnedFacts BuiltFacts PartitionFacts.
Local Open Scope N_scope.

Lemma blen_zero : forall l, blen l = 0 -> l = [].
Proof. intros [|c l] H; [reflexivity|]. cbn [blen] in H. pose proof (utf8_len_pos c). lia. Qed.

(* a span of the expression at or after a prefix is the same span of the rest, shifted *)
Lemma span_shift : forall A e' s n, span_ok (A ++ e') (s, n) -> blen A <= s -> span_ok e' (s - blen A, n).
Proof.
  intros A e' s n [pre [mid [post [He [Hs Hn]]]]] Hle. cbn [fst snd] in *. apply app_eq_app in He. destruct He as [l [[HA Hm]|[Hp He']]].
  - assert (l = []) by (apply blen_zero; subst A; rewrite blen_app in Hle; lia). subst l. rewrite app_nil_r in HA. subst A. cbn [app] in Hm.
    exists [], mid, post. split; [symmetry; exact Hm|]. cbn [fst snd blen]. split; [lia|exact Hn].
  - exists l, mid, post. split; [exact He'|]. cbn [fst snd]. split; [subst pre; rewrite blen_app in Hs; lia|exact Hn].
Qed.

(* every token covers at least one byte *)
Lemma p_tokens_nonempty_spans : forall e f tm i ts i', at_ e i -> p_tokens f tm i = POk (ts, i') -> Forall (fun t => 1 <= snd (tspan t)) ts.
Proof.
  intros e. induction f as [|f IH]; intros tm i ts i' Hat H; [discriminate|]. cbn [p_tokens] in H.
  destruct (p_token f tm i) as [[t i1]| |] eqn:Et; [| |discriminate].
  - destruct (p_tokens f tm i1) as [[ts' i2]| |] eqn:Ets; try discriminate. inversion H; subst.
    destruct (proj1 (proj2 (grammar_ok e f)) _ _ _ _ Et Hat) as [Ha _]. constructor; [|apply (IH tm i1 ts' i' (at_adv _ _ _ Hat Ha) Ets)].
    rewrite (p_token_span _ _ _ _ _ Et). unfold mk_span. cbn [snd]. pose proof (token_consumes e _ _ _ _ _ Et Hat) as Hc.
    destruct Ha as [mid [Hm Hp]]. unfold ln in Hc. rewrite Hm, app_length in Hc. destruct mid as [|c0 mid']; [cbn in Hc; lia|].
    cbn [blen] in Hp. pose proof (utf8_len_pos c0). lia.
  - inversion H; subst. constructor.
Qed.

Lemma tiled_skipn : forall ts p q n first rest, tiled p ts q -> skipn n ts = first :: rest ->
  fst (tspan first) = p + sum_spans (firstn n ts) /\ tiled (p + sum_spans (firstn n ts) + snd (tspan first)) rest q.
Proof.
  induction ts as [|t ts IH]; intros p q n first rest H Hs; [destruct n; discriminate|]. cbn [tiled] in H. destruct H as [Hp Hr]. destruct n as [|n].
  - cbn [skipn] in Hs. injection Hs as <- <-. cbn [firstn sum_spans]. rewrite N.add_0_r. split; [exact Hp|exact Hr].
  - cbn [skipn] in Hs. destruct (IH _ _ n first rest Hr Hs) as [H1 H2]. cbn [firstn sum_spans]. split; [lia|].
    replace (p + (snd (tspan t) + sum_spans (firstn n ts)) + snd (tspan first)) with (p + snd (tspan t) + sum_spans (firstn n ts) + snd (tspan first)) by lia. exact H2.
Qed.

Lemma tiled_starts : forall ts p q, tiled p ts q -> Forall (fun t => p <= fst (tspan t)) ts.
Proof.
  induction ts as [|t ts IH]; intros p q H; [constructor|]. cbn [tiled] in H. destruct H as [Hp Hr]. constructor; [lia|].
  eapply Forall_impl; [|exact (IH _ _ Hr)]. intros a Ha. cbn beta in Ha. lia.
Qed.

Lemma drop_bytes_split : forall e n e', drop_bytes e n = Some e' -> boundary_of e n -> exists A, e = A ++ e' /\ blen A = n.
Proof. intros e n e' H [pre [post [-> ->]]]. rewrite drop_bytes_app in H. inversion H; subst. exists pre. auto. Qed.

Theorem postfix_top_spans_ok : forall hc e t r text post e',
  build e = BuildOk t r -> partition hc e t = Ok (PartSome text post e') -> Forall (fun m => span_ok e' (tspan m)) (concatenation post).
Proof.
  intros hc e t r text post e' Hb. pose proof (built_bounds_ok e t r Hb) as Hbounds.
  assert (Hp : parse e = ParseOk t).
  { unfold build in Hb. destruct (parse e) as [t0| |]; try discriminate. destruct (check t0) as [[[k sp]|]|s0]; try discriminate.
    destruct (compile_ok (encode t0)); [|discriminate]. inversion Hb; subst. reflexivity. }
  clear Hb. unfold partition. destruct (invariant_text_prefix hc t) as [[n text0]|s0] eqn:Ei; [|discriminate]. cbn [rbind].
  unfold parse in Hp. destruct e as [|c ee].
  { inversion Hp; subst. cbn [tok_empty]. destruct (n =? 0); [|discriminate]. cbn [sum_spans N.add fold_map rbind drop_bytes]. intros H. inversion H; subst.
    cbn [concatenation]. constructor; [|constructor]. cbn [tspan]. exists [], [], []. repeat split. }
  destruct (p_tokens (parse_fuel (c :: ee)) TermTop (set_sub (init_input (c :: ee)))) as [[ts i1]| |] eqn:E; try discriminate.
  destruct ts as [|t0 ts0]; [discriminate|]. destruct (i_s i1) eqn:Ei1; [|discriminate]. inversion Hp; subst. clear Hp.
  set (e := c :: ee) in *. set (ts := t0 :: ts0) in *.
  assert (Hat : at_ e (set_sub (init_input e))) by (eapply at_adv; [apply at_init|apply set_sub_rel]).
  pose proof (p_tokens_tiled e _ _ _ _ _ Hat E) as Htile. cbn [set_sub init_input i_pos] in Htile.
  pose proof (p_tokens_roots e _ _ _ _ _ Hat E) as Hroots.
  pose proof (p_tokens_nonempty_spans e _ _ _ _ _ Hat E) as Hlens.
  destruct (proj1 (grammar_ok e _) _ _ _ _ E Hat) as [_ Hspans].
  destruct (N.of_nat (length ts) <=? n) eqn:Elen; [discriminate|].
  destruct (skipn (N.to_nat n) ts) as [|first rest] eqn:Es; [discriminate|].
  destruct (nth_skipn _ _ _ _ Es) as [Hnth Hlt].
  destruct (tiled_skipn _ _ _ _ _ _ Htile Es) as [Hstart Hrest]. rewrite N.add_0_l in Hstart, Hrest.
  assert (Hin : In first ts) by (eapply nth_error_In; exact Hnth).
  assert (Hsok : span_ok e (tspan first)) by (apply spans_ok_span; eapply all_spans_in; [exact Hspans|exact Hin]).
  assert (Hroot : root_ascii e first) by (rewrite Forall_forall in Hroots; apply Hroots; exact Hin).
  assert (Hlen1 : 1 <= snd (tspan first)) by (rewrite Forall_forall in Hlens; apply Hlens; exact Hin).
  assert (Hbsk : tok_bounds_ok first /\ (fix go (l : list tok) : Prop := match l with [] => True | x :: l' => tok_bounds_ok x /\ go l' end) rest).
  { cbn [tok_bounds_ok] in Hbounds. pose proof (bounds_skipn (N.to_nat n) ts Hbounds) as Hsk. rewrite Es in Hsk. exact Hsk. }
  destruct (unroot first) as [first' u] eqn:Eu.
  assert (Hfirst' : tok_bounds_ok first').
  { unfold unroot in Eu. destruct first as [[s1 n1] [| | | | |[|]]| | |]; inversion Eu; subst; try exact (proj1 Hbsk); exact I. }
  match goal with |- context [fold_map ?f ?p] => rewrite (fold_map_respan f p) end.
  2:{ cbn [tok_bounds_ok]. split; [exact Hfirst'|exact (proj2 Hbsk)]. }
  cbn [rbind]. set (off := sum_spans (firstn (N.to_nat n) ts) + u) in *.
  assert (Hbd : boundary_of e off).
  { unfold off. destruct (tspan first) as [s0 n0] eqn:Esp. cbn [fst] in Hstart. apply span_ok_iff in Hsok. destruct Hsok as [Hb0 _].
    unfold unroot in Eu. destruct first as [[s1 n1] [| | | | |[|]]| | |]; inversion Eu; subst; try (rewrite N.add_0_r; exact Hb0).
    cbn [tspan] in Esp. inversion Esp as [[Hs1 Hn1]]. cbn [root_ascii] in Hroot. destruct Hroot as [pre [c0 [pst [He [Hpre' Hc0]]]]].
    exists (pre ++ [c0]), pst. split; [rewrite <- app_assoc; exact He|]. rewrite blen_app. cbn [blen]. lia. }
  destruct (drop_bytes e off) as [e''|] eqn:Ed; [|discriminate]. intros H. inversion H; subst. clear H.
  destruct (drop_bytes_split _ _ _ Ed Hbd) as [A [HeA HA]].
  (* the members of the postfix *)
  assert (Hu : u <= 1 /\ fst (tspan first') = fst (tspan first) + u /\ snd (tspan first') = snd (tspan first) - u /\ span_ok e (tspan first')).
  { unfold unroot in Eu. destruct first as [[s1 n1] lf| | |]; try (inversion Eu; subst; repeat split; try lia; cbn; try lia; rewrite ?N.sub_0_r; exact Hsok).
    destruct lf as [| | | | |[|]]; try (inversion Eu; subst; repeat split; try lia; cbn; try lia; rewrite ?N.sub_0_r; exact Hsok).
    inversion Eu; subst. cbn [tspan fst snd] in *. split; [lia|]. split; [reflexivity|]. split; [reflexivity|].
    cbn [root_ascii] in Hroot. destruct Hroot as [pre [c0 [pst [He [Hpre' Hc0]]]]].
    destruct Hsok as [pre2 [mid2 [post2 [He2 [Hs2 Hn2]]]]]. cbn [fst snd] in *.
    assert (pre2 = pre). { rewrite He in He2. apply app_eq_app in He2. destruct He2 as [l [[H1 H2]|[H1 H2]]].
      - assert (l = []) by (apply blen_zero; subst pre; rewrite blen_app in Hpre'; lia). subst l. rewrite app_nil_r in H1. auto.
      - assert (l = []) by (apply blen_zero; subst pre2; rewrite blen_app in Hs2; lia). subst l. rewrite app_nil_r in H1. auto. }
    subst pre2. rewrite He in He2. apply app_inv_head in He2. destruct mid2 as [|m0 mid2']; [cbn in Hn2; lia|]. cbn [app] in He2. inversion He2; subst.
    exists (pre ++ [m0]), mid2', post2. split; [rewrite <- app_assoc; exact He|]. cbn [fst snd]. split; [rewrite blen_app; cbn [blen]; lia|]. cbn [blen] in *. lia. }
  destruct Hu as [Hu1 [Hu2 [Hu3 Hu4]]].
  cbn [respan concatenation map]. constructor.
  - (* the first token of the postfix *)
    assert (Ets : tspan (respan (fun sp0 : span => (fst sp0 - off, snd sp0)) first') = (fst (tspan first') - off, snd (tspan first'))) by (destruct first'; reflexivity).
    rewrite Ets. rewrite HeA in Hu4. destruct (tspan first') as [s1 n1] eqn:Esp. cbn [fst snd] in *. rewrite <- HA. apply span_shift; [exact Hu4|]. rewrite HA. unfold off. lia.
  - apply Forall_forall. intros m Hm. apply in_map_iff in Hm. destruct Hm as [m0 [<- Hm0]].
    assert (Ets : tspan (respan (fun sp0 : span => (fst sp0 - off, snd sp0)) m0) = (fst (tspan m0) - off, snd (tspan m0))) by (destruct m0; reflexivity).
    rewrite Ets. assert (Hin0 : In m0 ts). { rewrite <- (firstn_skipn (N.to_nat n) ts), Es. apply in_or_app. right. right. exact Hm0. }
    assert (Hs0 : span_ok e (tspan m0)) by (apply spans_ok_span; eapply all_spans_in; [exact Hspans|exact Hin0]).
    pose proof (tiled_starts _ _ _ Hrest) as Hst. rewrite Forall_forall in Hst. specialize (Hst m0 Hm0).
    rewrite HeA in Hs0. destruct (tspan m0) as [s1 n1] eqn:Esp. cbn [fst snd] in *. rewrite <- HA. apply span_shift; [exact Hs0|]. rewrite HA. unfold off. lia.
Qed.

(* the capture spans of the postfix lie in the displayed suffix *)
Theorem postfix_capture_spans_ok : forall hc e t r text post e' c,
  build e = BuildOk t r -> partition hc e t = Ok (PartSome text post e') -> In c (captures post) -> span_ok e' (snd c).
Proof.
  intros hc e t r text post e' c Hb Hp Hc. pose proof (postfix_top_spans_ok _ _ _ _ _ _ _ Hb Hp) as H.
  unfold captures in Hc. apply number_from_in in Hc. destruct Hc as [x [Hx ->]]. apply filter_In in Hx. destruct Hx as [Hx _].
  rewrite Forall_forall in H. exact (H x Hx).
Qed.
