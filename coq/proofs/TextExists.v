(* TextExists.v -- C11 (existence): a pattern that reports invariant text does match that text (it belongs to the
   documented language) - the complement of TextFacts.text_unique. *)
From Coq Require Import Lia.
From WaxModel Require Import Base Token Regex Spec Variance Encode Fold.
From WaxProofs Require Import SpecFacts EncodeLang TextFacts.

(* every class that is not negated lists at least one character and never the separator (a class that lists `/` reports the
   text `/` although it matches nothing: the known class separator_class) *)
Definition arch_has_sep (a : arch) : bool := match a with AChar d => N.eqb SEP d | ARange x y => (x <=? SEP) && (SEP <=? y) end.
Fixpoint classes_plain (t : tok) : bool :=
  match t with
  | TLeaf _ (LClass false a) => negb (is_nil a) && forallb (fun x => negb (arch_has_sep x)) a
  | TLeaf _ _ => true
  | TAlt _ bs => forallb classes_plain bs
  | TCat _ ts => forallb classes_plain ts
  | TRep _ b _ _ => classes_plain b
  end.

Section TextExists.
Variable orbit : char -> list char.
Variable has_casing : char -> bool.
Notation FlatMatch := (Spec.FlatMatch orbit).
Notation leaf_piece := (Spec.leaf_piece orbit).

Lemma leaf_text_matched : forall sp l0 t f l,
  classes_plain (TLeaf sp l0) = true -> text_leaf has_casing l0 = Inv t -> leaf_piece f l l0 (text_to_string t).
Proof.
  intros sp l0 t f l Hc Ht. destruct l0 as [ci s| |neg a| |lz|root]; cbn [text_leaf leaf_piece] in *; try discriminate.
  - destruct (ci && existsb has_casing s); [discriminate|]. inversion Ht; subst. cbn. rewrite app_nil_r. apply lit_sem_refl.
  - inversion Ht; subst. reflexivity.
  - destruct neg; [discriminate|]. cbn [classes_plain] in Hc. apply andb_prop in Hc. destruct Hc as [Hne Hns].
    destruct a as [|x a]; [discriminate|]. cbn [map reduce_pure] in Ht.
    assert (Hx : arch_text x = Inv t).
    { destruct (fold_left tvar_disj (map arch_text a) (arch_text x)) eqn:E; [|discriminate]. inversion Ht; subst.
      apply fold_disj_inv in E. exact (proj1 E). }
    cbn [forallb] in Hns. apply andb_prop in Hns. destruct Hns as [Hxs _].
    assert (Hc : exists c, text_to_string t = [c] /\ arch_in c x = true /\ c <> SEP).
    { destruct x as [d|lo hi]; cbn [arch_text arch_has_sep arch_in] in *.
      - inversion Hx; subst. exists d. split; [reflexivity|]. split; [apply N.eqb_refl|].
        intros ->. rewrite N.eqb_refl in Hxs. discriminate.
      - destruct (N.eqb_spec lo hi) as [->|]; [|discriminate]. inversion Hx; subst. exists hi. split; [reflexivity|].
        split; [rewrite N.leb_refl; reflexivity|]. intros ->. rewrite N.leb_refl in Hxs. discriminate. }
    destruct Hc as [c [-> [Hin Hsep]]]. exists c. split; [reflexivity|]. unfold class_match.
    apply N.eqb_neq in Hsep. rewrite Hsep. cbn [negb andb xorb existsb]. rewrite Hin. reflexivity.
Qed.

Definition matched_text (t : tok) : Prop :=
  forall txt, text_fold has_casing t = Ok (Some (Inv txt)) ->
  exists x, Expands t x /\ forall f l, FlatMatch f l x (text_to_string txt).

Lemma flatmatchs_allpos : forall xs ss,
  Forall2 (fun (x : list leaf) (s : str) => forall f l, FlatMatch f l x s) xs ss ->
  forall f l, FlatMatchs orbit f l xs (concat ss).
Proof.
  intros xs ss H. induction H as [|x s xs ss Hx _ IH]; intros f l; [reflexivity|].
  cbn [FlatMatchs concat]. exists s, (concat ss). split; [reflexivity|]. split; [apply Hx|apply IH].
Qed.

Lemma rep_range_inv_bounds : forall lo hi n, rep_range lo hi = Inv n -> lo = n /\ hi = Some n.
Proof.
  intros lo hi n H. unfold rep_range, from_closed_open in H. destruct hi as [h|].
  - destruct (N.ltb_spec h lo) as [Hlt|Hge].
    + unfold try_lower_upper in H. destruct h as [|ph]; [destruct lo; [lia|cbn in H; discriminate]|].
      destruct (N.eqb_spec (N.pos ph) 0); [lia|]. destruct (N.eqb_spec lo 0); [lia|]. cbn [andb] in H.
      destruct (N.ltb_spec (N.pos ph) lo); [discriminate|lia].
    + assert (Hm : forall (X : nrange), match lo, Some h with 0%N, None => Var Unbounded | _, _ => X end = X) by (intros; destruct lo; reflexivity).
      rewrite Hm in H. clear Hm. unfold try_lower_upper in H.
      destruct (N.eqb_spec lo 0), (N.eqb_spec h 0); cbn [andb] in H; try discriminate.
      * inversion H; subst. split; reflexivity.
      * destruct (N.ltb_spec lo h); [discriminate|]. inversion H; subst. assert (h = n) by lia. subst. split; reflexivity.
  - destruct lo; cbn in H; discriminate.
Qed.

Lemma forall2_repeat : forall {A B} (R : A -> B -> Prop) a b n, R a b -> Forall2 R (repeat a n) (repeat b n).
Proof. intros A B R a b n H. induction n; cbn; constructor; assumption. Qed.

Theorem text_matched : forall t, nonempty_branches t = true -> classes_plain t = true -> matched_text t.
Proof.
  induction t as [sp l0|sp bs IH|sp ts IH|sp b lo hi IH] using tok_ind'; intros Hne Hcl txt Ht.
  - cbn [text_fold] in Ht. inversion Ht as [Hl]. exists [l0]. split; [constructor|]. intros f l. apply flatmatch_single.
    eapply leaf_text_matched; eassumption.
  - cbn [nonempty_branches] in Hne. apply andb_prop in Hne. destruct Hne as [_ Hall].
    destruct bs as [|b0 bs']; [cbn in Ht; discriminate|].
    cbn [text_fold rmapM rbind] in Ht. destruct (text_fold has_casing b0) as [r0|] eqn:E0; [|discriminate]. cbn [rbind] in Ht.
    destruct (rmapM (text_fold has_casing) bs') as [rs|]; [|discriminate]. cbn [rbind] in Ht.
    cbn [forallb] in Hall, Hcl. apply andb_prop in Hall. apply andb_prop in Hcl. destruct Hall as [H0 _]. destruct Hcl as [C0 _].
    destruct r0 as [v|]; [|exfalso; apply (text_fold_some has_casing b0 H0 None E0); reflexivity].
    cbn [flat_map opt_list app reduce_pure] in Ht. inversion Ht as [Hf]. apply fold_disj_inv in Hf. destruct Hf as [-> _].
    inversion IH as [|? ? IH0 _]; subst. destruct (IH0 H0 C0 txt E0) as [x [Hx Hm]].
    exists x. split; [eapply E_alt; [left; reflexivity|exact Hx]|exact Hm].
  - cbn [nonempty_branches] in Hne. apply andb_prop in Hne. destruct Hne as [_ Hall]. cbn [classes_plain] in Hcl.
    cbn [text_fold rbind] in Ht. destruct (rmapM (text_fold has_casing) ts) as [terms|] eqn:Er; [|discriminate]. cbn [rbind] in Ht.
    inversion Ht as [Hred]. clear Ht. apply reduce_conj_inv in Hred. destruct Hred as [tl [Htl Hs]].
    apply rmapM_ok_forall2 in Er.
    assert (Hxs : exists xs, Forall2 Expands ts xs /\
              Forall2 (fun (x : list leaf) (s : str) => forall f l, FlatMatch f l x s) xs (map text_to_string tl)).
    { clear Hs. revert terms tl Er Htl Hall Hcl. induction IH as [|t0 ts' IH0 _ IHts]; intros terms tl Er Htl Hall Hcl.
      - inversion Er; subst. cbn in Htl. destruct tl; [|discriminate]. exists []. split; constructor.
      - inversion Er as [|? r0 ? terms' Hr0 Er']; subst.
        cbn [forallb] in Hall, Hcl. apply andb_prop in Hall. apply andb_prop in Hcl. destruct Hall as [H0 Hall']. destruct Hcl as [C0 Hcl'].
        destruct r0 as [v|]; [|exfalso; apply (text_fold_some has_casing t0 H0 None Hr0); reflexivity].
        cbn [flat_map opt_list app] in Htl. destruct tl as [|t1 tl']; [discriminate|]. cbn [map] in Htl. inversion Htl; subst.
        destruct (IH0 H0 C0 t1 Hr0) as [x0 [Hx0 Hm0]].
        destruct (IHts terms' tl' Er' ltac:(assumption) Hall' Hcl') as [xs [Hxs Hms]].
        exists (x0 :: xs). split; [constructor; assumption|]. cbn [map]. constructor; assumption. }
    destruct Hxs as [xs [Hxs Hms]]. exists (concat xs). split; [constructor; exact Hxs|].
    intros f l. rewrite Hs. apply flatmatch_concat. apply flatmatchs_allpos. exact Hms.
  - cbn [nonempty_branches] in Hne. apply andb_prop in Hne. destruct Hne as [Hn Hb0]. cbn [classes_plain] in Hcl.
    cbn [text_fold rbind] in Ht. destruct (text_fold has_casing b) as [r0|] eqn:E0; [|discriminate]. cbn [rbind] in Ht.
    destruct r0 as [v|]; [|exfalso; apply (text_fold_some has_casing b Hn None E0); reflexivity].
    destruct (tvar_product v (rep_range lo hi)) as [y|] eqn:Ep; [|discriminate]. cbn [rbind] in Ht. inversion Ht; subst y. clear Ht.
    (* the range is invariant and not zero *)
    destruct (rep_range lo hi) as [n|rv] eqn:Er.
    + destruct (rep_range_inv_bounds lo hi n Er) as [-> ->].
      assert (Hn0 : n <> 0%N).
      { intros ->. rewrite N.eqb_refl in Hb0. cbn in Hb0. discriminate. }
      destruct v as [a|bv]; cbn [tvar_product] in Ep.
      * apply N.eqb_neq in Hn0. rewrite Hn0 in Ep. unfold text_repeated in Ep.
        destruct (cmul (n - 1) (N.of_nat (length a))); [|discriminate]. cbn [rbind] in Ep. inversion Ep; subst.
        destruct (IH Hn Hcl a E0) as [x [Hx Hm]].
        exists (concat (repeat x (N.to_nat n))). split.
        -- constructor; [unfold in_bounds; rewrite repeat_length, N2Nat.id; split; [apply N.le_refl|apply N.le_refl]|].
           apply Forall_forall. intros y Hy. apply repeat_spec in Hy. subst. exact Hx.
        -- intros f l. rewrite repeat_list_string. apply flatmatch_concat. apply flatmatchs_allpos.
           apply forall2_repeat. exact Hm.
      * apply N.eqb_neq in Hn0. rewrite Hn0 in Ep. destruct bv; inversion Ep.
    + destruct v as [a|[[]|]], rv as [rb|]; cbn [tvar_product] in Ep; inversion Ep.
Qed.

(* C11 (existence): a pattern that reports invariant text matches that text *)
Theorem invariant_text_is_matched : forall t txt,
  nonempty_branches t = true -> classes_plain t = true ->
  text_variance has_casing t = Ok (Inv txt) -> Lang orbit t (text_to_string txt).
Proof.
  intros t txt Hne Hcl H. unfold text_variance in H. destruct (text_fold has_casing t) as [r|] eqn:E; [|discriminate].
  cbn [rbind] in H. destruct r as [v|]; [|exfalso; apply (text_fold_some has_casing t Hne None E); reflexivity].
  inversion H; subst. destruct (text_matched t Hne Hcl txt E) as [x [Hx Hm]]. exists x. split; [exact Hx|apply Hm].
Qed.

End TextExists.

(* C11: the documented language of a pattern that reports invariant text is exactly that text *)
Theorem invariant_text_characterises :
  forall (orbit : char -> list char) (has_casing : char -> bool),
    (forall c d, has_casing c = false -> In d (orbit c) -> d = c) ->
    forall t txt, nonempty_branches t = true -> classes_plain t = true -> text_variance has_casing t = Ok (Inv txt) ->
    forall w, Lang orbit t w <-> w = text_to_string txt.
Proof.
  intros orbit hc Hco t txt Hne Hcl Ht w. split.
  - intros Hl. eapply invariant_text_is_the_only_text; eassumption.
  - intros ->. eapply invariant_text_is_matched; eassumption.
Qed.
