(* ParseTreeFacts.v -- invariants of every token tree the parser produces, by induction over the fuelled grammar:
   every leaf comes from one of the four leaf parsers. Instance: literals are non-empty and separator-free. *)
From Coq Require Import Arith Lia.
From WaxModel Require Import Base Token Regex Spec Parse.
From WaxProofs Require Import PruneFacts.
Local Open Scope nat_scope.

Section LeafInvariant.
Variable P : leaf -> bool.

Fixpoint leaves_ok (t : tok) : bool :=
  match t with
  | TLeaf _ l => P l
  | TAlt _ bs => forallb leaves_ok bs
  | TCat _ ts => forallb leaves_ok ts
  | TRep _ b _ _ => leaves_ok b
  end.

Hypothesis Hlit : forall i l i', p_literal i = Some (l, i') -> P l = true.
Hypothesis Hwild : forall tm i l i', p_wildcard tm i = Some (l, i') -> P l = true.
Hypothesis Hclass : forall i l i', p_class i = Some (l, i') -> P l = true.
Hypothesis Hsep : P LSep = true.

Definition tokens_p (f : nat) : Prop := forall tm i ts i', p_tokens f tm i = POk (ts, i') -> forallb leaves_ok ts = true.
Definition token_p (f : nat) : Prop := forall tm i t i', p_token f tm i = POk (t, i') -> leaves_ok t = true.
Definition branches_p (f : nat) : Prop := forall i bs i', p_branches f i = POk (bs, i') -> forallb leaves_ok bs = true.
Definition glob_p (f : nat) : Prop := forall tm i t i', p_glob f tm i = POk (t, i') -> leaves_ok t = true.

Ltac leaf_tail_p H :=
  match type of H with context [p_wildcard ?tm ?iF] =>
    let Ew := fresh "Ew" in
    destruct (p_wildcard tm iF) as [[? ?]|] eqn:Ew; cbn [leaf_tok] in H;
    [ inversion H; subst; clear H; cbn [leaves_ok]; eapply Hwild; exact Ew
    | let Ec := fresh "Ec" in
      destruct (p_class iF) as [[? ?]|] eqn:Ec; cbn [leaf_tok] in H;
      [ inversion H; subst; clear H; cbn [leaves_ok]; eapply Hclass; exact Ec
      | match type of H with (match ?T with _ => _ end) = _ =>
          destruct T as [[? ?]|]; [|discriminate]; inversion H; subst; clear H; cbn [leaves_ok]; exact Hsep
        end ] ]
  end.

Lemma step_p : forall f, tokens_p f -> token_p f -> branches_p f -> glob_p f ->
  tokens_p (S f) /\ token_p (S f) /\ branches_p (S f) /\ glob_p (S f).
Proof.
  intros f IHts IHt IHb IHg. split; [|split; [|split]].
  - intros tm i ts i' H. cbn [p_tokens] in H.
    destruct (p_token f tm i) as [[t i1]| |] eqn:Et; [| |discriminate].
    + destruct (p_tokens f tm i1) as [[ts' i2]| |] eqn:Ets; try discriminate. inversion H; subst.
      cbn [forallb]. rewrite (IHt _ _ _ _ Et), (IHts _ _ _ _ Ets). reflexivity.
    + inversion H; subst. reflexivity.
  - intros tm i t i' H. cbn [p_token] in H.
    set (iF := flags_with_state i) in *.
    destruct (p_literal iF) as [[l1 i1]|] eqn:El; cbn [leaf_tok] in H.
    { inversion H; subst. cbn [leaves_ok]. eapply Hlit. exact El. }
    assert (AltTail :
      match
        match (match i_s iF with c :: r => if (c =? c_lbrace)%N then Some (c, r) else None | [] => None end) with
        | Some (c, r) =>
            match p_branches f (adv1 iF c r) with
            | PFuel => PFuel
            | PErr => POk None
            | POk (bs, i1) => match tag1 c_rbrace i1 with Some i2 => POk (Some (TAlt (mk_span i i2) bs, i2)) | None => POk None end
            end
        | None => POk None
        end
      with
      | PFuel => PFuel
      | PErr => PErr
      | POk (Some x) => POk x
      | POk None =>
          match leaf_tok i (p_wildcard tm iF) with
          | Some x => POk x
          | None => match leaf_tok i (p_class iF) with
                    | Some x => POk x
                    | None => match (match i_s iF with c :: r => if (c =? SEP)%N then Some (c, r) else None | [] => None end) with
                              | Some (c, r) => POk (TLeaf (mk_span i (adv1 iF c r)) LSep, adv1 iF c r)
                              | None => PErr
                              end
                    end
          end
      end = POk (t, i') -> leaves_ok t = true).
    { intros HA.
      destruct (match i_s iF with c :: r => if (c =? c_lbrace)%N then Some (c, r) else None | [] => None end) as [[c r]|] eqn:Elb.
      - destruct (p_branches f (adv1 iF c r)) as [[bs i1]| |] eqn:Eb; [| |discriminate].
        + destruct (tag1 c_rbrace i1) as [i2|] eqn:Etg.
          * inversion HA; subst. cbn [leaves_ok]. eapply IHb. exact Eb.
          * leaf_tail_p HA.
        + leaf_tail_p HA.
      - leaf_tail_p HA. }
    destruct (match i_s iF with c :: r => if (c =? c_lt)%N then Some (c, r) else None | [] => None end) as [[c r]|] eqn:Elt.
    + destruct (p_glob f TermRep (adv1 iF c r)) as [[body i1]| |] eqn:Eg; [| |discriminate].
      * destruct (p_bounds i1) as [[lo hi] i2] eqn:Ebd.
        destruct (tag1 c_gt i2) as [i3|] eqn:Etg.
        -- inversion H; subst. cbn [leaves_ok]. eapply IHg. exact Eg.
        -- apply AltTail. exact H.
      * apply AltTail. exact H.
    + apply AltTail. exact H.
  - intros i bs i' H. cbn [p_branches] in H.
    destruct (p_glob f TermAlt i) as [[b i1]| |] eqn:Eg; try discriminate. pose proof (IHg _ _ _ _ Eg) as Hb.
    destruct (match i_s i1 with c :: r => if (c =? c_comma)%N then Some (c, r) else None | [] => None end) as [[c r]|] eqn:Ec.
    + destruct (p_branches f (adv1 i1 c r)) as [[bs' i2]| |] eqn:Eb; [| |discriminate].
      * inversion H; subst. cbn [forallb]. rewrite Hb, (IHb _ _ _ Eb). reflexivity.
      * inversion H; subst. cbn [forallb]. rewrite Hb. reflexivity.
    + inversion H; subst. cbn [forallb]. rewrite Hb. reflexivity.
  - intros tm i t i' H. cbn [p_glob] in H.
    destruct (p_tokens f tm (set_sub i)) as [[ts i1]| |] eqn:Ets; try discriminate.
    destruct ts as [|t0 ts']; [discriminate|]. destruct (term_ok tm i1); [|discriminate]. inversion H; subst.
    cbn [leaves_ok]. eapply IHts. exact Ets.
Qed.

Theorem grammar_p : forall f, tokens_p f /\ token_p f /\ branches_p f /\ glob_p f.
Proof.
  induction f as [|f [H1 [H2 [H3 H4]]]].
  - split; [|split; [|split]]; intro; intros; cbn in *; discriminate.
  - apply step_p; assumption.
Qed.

Hypothesis Hempty : P (LLit false []) = true.

Theorem parse_leaves_ok : forall e t, parse e = ParseOk t -> leaves_ok t = true.
Proof.
  intros e t H. unfold parse in H. destruct e as [|c e]; [inversion H; subst; cbn; exact Hempty|].
  destruct (p_tokens (parse_fuel (c :: e)) TermTop (set_sub (init_input (c :: e)))) as [[ts i1]| |] eqn:E; try discriminate.
  destruct ts as [|t0 ts]; [discriminate|]. destruct (i_s i1); [|discriminate]. inversion H; subst.
  cbn [leaves_ok]. eapply (proj1 (grammar_p _)). exact E.
Qed.

End LeafInvariant.

(* ---- instance: literals are separator-free ----------------------------------------------------------------------- *)
Definition lit_nosep (l : leaf) : bool := match l with LLit _ s => nosep s | _ => true end.

Lemma leaves_lits_nosep : forall t, leaves_ok lit_nosep t = lits_nosep t.
Proof.
  induction t as [sp l|sp bs IH|sp ts IH|sp b lo hi IH] using tok_ind'; cbn [leaves_ok lits_nosep].
  - destruct l; reflexivity.
  - induction IH as [|x xs Hx _ IHxs]; [reflexivity|]. cbn [forallb]. rewrite Hx, IHxs. reflexivity.
  - induction IH as [|x xs Hx _ IHxs]; [reflexivity|]. cbn [forallb]. rewrite Hx, IHxs. reflexivity.
  - exact IH.
Qed.

Lemma lit_chars_nosep_n : forall n s t rest, length s <= n -> lit_chars s = Some (t, rest) -> nosep t = true.
Proof.
  induction n as [|n IH]; intros s t rest Hn H.
  - destruct s; [|cbn in Hn; lia]. cbn in H. inversion H; subst. reflexivity.
  - destruct s as [|c s]; [cbn in H; inversion H; subst; reflexivity|]. cbn [lit_chars] in H. cbn [length] in Hn.
    destruct (c =? BSLASH)%N.
    + destruct s as [|d s']; [discriminate|]. destruct (mem d LIT_ESCAPABLE) eqn:Ed; [|discriminate].
      destruct (lit_chars s') as [[t' rest']|] eqn:E; [|discriminate]. inversion H; subst.
      cbn [nosep forallb]. fold (nosep t'). rewrite (IH s' t' rest); [|cbn [length] in Hn; lia|exact E]. rewrite andb_true_r.
      destruct (d =? SEP)%N eqn:Es; [|reflexivity]. apply N.eqb_eq in Es. subst d. vm_compute in Ed. discriminate.
    + destruct (mem c LIT_SPECIAL) eqn:Ec; [inversion H; subst; reflexivity|].
      destruct (lit_chars s) as [[t' rest']|] eqn:E; [|discriminate]. inversion H; subst.
      cbn [nosep forallb]. fold (nosep t'). rewrite (IH s t' rest); [|lia|exact E]. rewrite andb_true_r.
      destruct (c =? SEP)%N eqn:Es; [|reflexivity]. apply N.eqb_eq in Es. subst c. vm_compute in Ec. discriminate.
Qed.

Lemma p_literal_nosep : forall i l i', p_literal i = Some (l, i') -> lit_nosep l = true.
Proof.
  intros i l i' H. unfold p_literal in H. destruct (lit_chars (i_s i)) as [[text rest]|] eqn:E; [|discriminate].
  destruct (is_nil text); [discriminate|]. inversion H; subst. cbn [lit_nosep]. eapply lit_chars_nosep_n; [apply le_n|exact E].
Qed.

Ltac crack H :=
  repeat match type of H with
         | context [match ?x with _ => _ end] =>
             lazymatch x with
             | context [match _ with _ => _ end] => fail
             | _ => destruct x
             end
         end; try discriminate; try (inversion H; subst; reflexivity).

Lemma p_wildcard_not_lit : forall tm i l i', p_wildcard tm i = Some (l, i') -> lit_nosep l = true.
Proof. intros tm i l i' H. unfold p_wildcard in H. cbv zeta in H. crack H. Qed.

Lemma p_class_not_lit : forall i l i', p_class i = Some (l, i') -> lit_nosep l = true.
Proof. intros i l i' H. unfold p_class in H. cbv zeta in H. crack H. Qed.

(* every literal of a parsed expression is separator-free *)
Theorem parse_lits_nosep : forall e t, parse e = ParseOk t -> lits_nosep t = true.
Proof.
  intros e t H. rewrite <- leaves_lits_nosep. eapply parse_leaves_ok; [| | | | |exact H].
  - exact p_literal_nosep.
  - exact p_wildcard_not_lit.
  - exact p_class_not_lit.
  - reflexivity.
  - reflexivity.
Qed.
