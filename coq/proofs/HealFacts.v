(* HealFacts.v -- C20: the entries of a walk over a tree with faults are exactly the items of the walk over the readable
   part of the tree (unreadable directories read as empty, error nodes removed); layers see the same entries. *)
From WaxModel Require Import Base Token Walk.
From WaxProofs Require Import WalkFacts.
Local Open Scope nat_scope.

Definition is_err_node (n : node) : bool := match n with NErr => true | _ => false end.

Fixpoint heal (n : node) : node :=
  match n with
  | NDir kids =>
      NDir ((fix go (ks : list (name * node)) : list (name * node) :=
               match ks with
               | [] => []
               | k :: ks' => if is_err_node (snd k) then go ks' else (fst k, heal (snd k)) :: go ks'
               end) kids)
  | NDirErr => NDir []
  | other => other
  end.

Definition is_entry (r : ritem) : bool := match r with REntry _ _ _ => true | RError _ _ => false end.
Definition entries_only (l : list ritem) : list ritem := filter is_entry l.

Lemma entries_only_app : forall a b, entries_only (a ++ b) = entries_only a ++ entries_only b.
Proof. intros a b. unfold entries_only. apply filter_app. Qed.

Lemma entries_only_shown : forall ls mind d e, entries_only (shown ls mind d e) = shown ls mind d e.
Proof. intros ls mind d e. unfold shown. destruct (Nat.ltb d mind); reflexivity. Qed.

Lemma heal_entries : forall ls mind maxd n d p,
  entries_only (spec ls mind maxd d p n) = if is_err_node n then [] else spec ls mind maxd d p (heal n).
Proof.
  intros ls mind maxd n. induction n as [|kids IH| |] using node_ind'; intros d p.
  - cbn [spec heal is_err_node]. apply entries_only_shown.
  - cbn [is_err_node]. cbn [spec heal]. rewrite entries_only_app, entries_only_shown. f_equal.
    destruct (pruned ls mind d (mkEntry p true) || over maxd (S d)); [reflexivity|].
    induction IH as [|k ks Hk _ IHks]; [reflexivity|].
    rewrite entries_only_app, Hk, IHks. destruct (is_err_node (snd k)); reflexivity.
  - cbn [spec heal is_err_node]. rewrite entries_only_app, entries_only_shown. f_equal.
    destruct (pruned ls mind d (mkEntry p true) || over maxd (S d)); reflexivity.
  - reflexivity.
Qed.

(* the whole walk: the machine's entries on the faulty tree = the machine's run on the healed tree *)
Theorem walk_entries_heal : forall ls mind maxd root,
  is_err_node root = false ->
  entries_only (walk mind maxd ls root) = walk mind maxd ls (heal root).
Proof.
  intros ls mind maxd root H. rewrite !walk_refines. unfold walk_spec. rewrite heal_entries, H. reflexivity.
Qed.

(* and the healed walk has no error item at all *)
Lemma heal_no_errors : forall ls mind maxd n d p q e,
  is_err_node n = false -> ~ In (RError q e) (spec ls mind maxd d p (heal n)).
Proof.
  intros ls mind maxd n d p q e Hn Hin.
  assert (E : spec ls mind maxd d p (heal n) = entries_only (spec ls mind maxd d p n)) by (rewrite heal_entries, Hn; reflexivity).
  rewrite E in Hin. apply filter_In in Hin. destruct Hin as [_ Hc]. discriminate.
Qed.
