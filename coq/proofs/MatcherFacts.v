(* MatcherFacts.v -- the executable matching engine of the model ([Regex.m]: backtracking, continuation passing, fuelled)
   decides the language [sem]: it is sound, and with the fuel [need] it is complete.  The correspondence check runs this
   engine against the implementation, so what it validates is [sem] itself - the language the theorems are about. *)
From Coq Require Import Arith Lia.
From WaxModel Require Import Base Token Regex.
Local Open Scope nat_scope.

Section Matcher.
Variable orbit : char -> list char.
Notation sem := (sem orbit).
Notation m := (m orbit).
Notation lit_match := (lit_match orbit).

(* ---- literals, suffixes --------------------------------------------------------------------------------------------------- *)
Lemma lit_match_sound : forall ci s w w', lit_match ci s w = Some w' -> exists u, w = u ++ w' /\ lit_sem orbit ci s u.
Proof.
  induction s as [|c s IH]; intros w w' H; cbn [Regex.lit_match] in H.
  - inversion H; subst. exists []. split; [reflexivity|constructor].
  - destruct w as [|d w]; [discriminate|]. destruct (lit_char_match orbit ci c d) eqn:E; [|discriminate].
    destruct (IH _ _ H) as [u [-> Hu]]. exists (d :: u). split; [reflexivity|]. constructor; assumption.
Qed.

Lemma lit_match_complete : forall ci s u v, lit_sem orbit ci s u -> lit_match ci s (u ++ v) = Some v.
Proof.
  intros ci s u v H. induction H as [|c d s w Hm _ IH]; [destruct v; reflexivity|]. cbn [app Regex.lit_match]. rewrite Hm. exact IH.
Qed.

Lemma suffixes_spec : forall w v, In v (suffixes w) <-> exists u, w = u ++ v.
Proof.
  induction w as [|c w IH]; intros v; cbn [suffixes].
  - split; [intros [<-|[]]; exists []; reflexivity|intros [u H]; left; destruct u; [cbn in H; congruence|discriminate]].
  - split.
    + intros [<-|H]; [exists []; reflexivity|]. apply IH in H. destruct H as [u ->]. exists (c :: u). reflexivity.
    + intros [[|d u] H]; [left; cbn in H; congruence|]. right. apply IH. cbn in H. inversion H; subst. exists u. reflexivity.
Qed.

Lemma first_some_sound : forall {A B} (f : A -> option B) l x, first_some f l = Some x -> exists a, In a l /\ f a = Some x.
Proof.
  intros A B f l x. induction l as [|a l IH]; intros H; [discriminate|]. cbn [first_some] in H.
  destruct (f a) eqn:E; [inversion H; subst; exists a; split; [left; reflexivity|exact E]|].
  destruct (IH H) as [a' [Hin Hf]]. exists a'. split; [right; exact Hin|exact Hf].
Qed.

Lemma first_some_complete : forall {A B} (f : A -> option B) l a, In a l -> f a <> None -> first_some f l <> None.
Proof.
  intros A B f l a. induction l as [|b l IH]; intros Hin Hf; [contradiction|]. cbn [first_some].
  destruct (f b) eqn:E; [discriminate|]. destruct Hin as [->|Hin]; [congruence|]. apply IH; assumption.
Qed.

(* ---- soundness ------------------------------------------------------------------------------------------------------------ *)
Lemma in_bounds_succ : forall k lo hi, in_bounds k (N.pred lo) (match hi with Some h => Some (N.pred h) | None => None end) ->
  (match hi with Some h => (0 <? h)%N | None => true end) = true -> in_bounds (S k) lo hi.
Proof.
  intros k lo hi [Hl Hh] Hm. unfold in_bounds. split; [lia|]. destruct hi as [h|]; [|exact I]. apply N.ltb_lt in Hm. lia.
Qed.

Theorem m_sound : forall fuel total r g w c k x, m total fuel r g w c k = Some x ->
  exists u v c', w = u ++ v /\ sem r u /\ k v c' = Some x.
Proof.
  induction fuel as [|f IH]; intros total r g w c k x H; [discriminate|]. cbn [Regex.m] in H.
  destruct r as [ci s| | |neg a| | | |a b|a b|a|lz a|a lo hi|cap a].
  - destruct (lit_match ci s w) as [w'|] eqn:E; [|discriminate]. destruct (lit_match_sound _ _ _ _ E) as [u [-> Hu]].
    exists u, w', c. split; [reflexivity|]. split; [exact Hu|exact H].
  - destruct w as [|d w']; [discriminate|]. destruct (N.eqb_spec d SEP) as [->|]; [|discriminate].
    exists [SEP], w', c. split; [reflexivity|]. split; [reflexivity|exact H].
  - destruct w as [|d w']; [discriminate|]. destruct (N.eqb_spec d SEP) as [|Hd]; [discriminate|].
    exists [d], w', c. split; [reflexivity|]. split; [exists d; split; [reflexivity|exact Hd]|exact H].
  - destruct w as [|d w']; [discriminate|]. destruct (class_match neg a d) eqn:E; [|discriminate].
    exists [d], w', c. split; [reflexivity|]. split; [exists d; split; [reflexivity|exact E]|exact H].
  - discriminate.
  - apply first_some_sound in H. destruct H as [w' [Hin Hk]]. apply in_rev, suffixes_spec in Hin. destruct Hin as [u ->].
    exists u, w', c. split; [reflexivity|]. split; [exact I|exact Hk].
  - exists [], w, c. split; [reflexivity|]. split; [reflexivity|exact H].
  - apply IH in H. destruct H as [u [v [c' [-> [Hu Hk]]]]]. apply IH in Hk. destruct Hk as [u2 [v2 [c2 [-> [Hu2 Hk2]]]]].
    exists (u ++ u2), v2, c2. split; [apply app_assoc|]. split; [|exact Hk2]. exists u, u2. split; [reflexivity|]. split; assumption.
  - destruct (m total f a g w c k) eqn:E.
    + inversion H; subst. apply IH in E. destruct E as [u [v [c' [-> [Hu Hk]]]]]. exists u, v, c'. split; [reflexivity|]. split; [left; exact Hu|exact Hk].
    + apply IH in H. destruct H as [u [v [c' [-> [Hu Hk]]]]]. exists u, v, c'. split; [reflexivity|]. split; [right; exact Hu|exact Hk].
  - destruct (m total f a g w c k) eqn:E.
    + inversion H; subst. apply IH in E. destruct E as [u [v [c' [-> [Hu Hk]]]]]. exists u, v, c'. split; [reflexivity|]. split; [right; exact Hu|exact Hk].
    + exists [], w, c. split; [reflexivity|]. split; [left; reflexivity|exact H].
  - (* star *)
    assert (Hmore : forall kk, kk = (fun w' c' => if Nat.ltb (length w') (length w) then m total f (RStar lz a) g w' c' k else None) ->
              forall y, m total f a g w c kk = Some y ->
              exists u v c', w = u ++ v /\ sem (RStar lz a) u /\ k v c' = Some y).
    { intros kk -> y Hy. apply IH in Hy. destruct Hy as [u [v [c' [-> [Hu Hk]]]]]. destruct (Nat.ltb (length v) (length (u ++ v))); [|discriminate].
      apply IH in Hk. destruct Hk as [u2 [v2 [c2 [-> [[n Hn] Hk2]]]]]. exists (u ++ u2), v2, c2. split; [apply app_assoc|]. split; [|exact Hk2].
      exists (S n). constructor; assumption. }
    destruct lz.
    + destruct (k w c) eqn:Ek; [|eapply Hmore; [reflexivity|exact H]]. inversion H; subst.
      exists [], w, c. split; [reflexivity|]. split; [exists 0; constructor|exact Ek].
    + match type of H with match ?M with _ => _ end = _ => destruct M eqn:Em end; [inversion H; subst; eapply Hmore; [reflexivity|exact Em]|].
      exists [], w, c. split; [reflexivity|]. split; [exists 0; constructor|exact H].
  - (* counted repetition *)
    set (can_stop := (lo =? 0)%N) in *. set (can_more := match hi with Some h => (0 <? h)%N | None => true end) in *.
    set (lo' := N.pred lo) in *. set (hi' := match hi with Some h => Some (N.pred h) | None => None end) in *.
    match type of H with match ?M with _ => _ end = _ => destruct M as [y|] eqn:Em end.
    + inversion H; subst y. destruct can_more eqn:Ecm; [|discriminate]. apply IH in Em. destruct Em as [u [v [c' [-> [Hu Hk]]]]].
      destruct (Nat.ltb (length v) (length (u ++ v)) || negb can_stop); [|discriminate].
      apply IH in Hk. destruct Hk as [u2 [v2 [c2 [-> [[n [Hb Hn]] Hk2]]]]]. exists (u ++ u2), v2, c2. split; [apply app_assoc|]. split; [|exact Hk2].
      exists (S n). split; [apply in_bounds_succ; [exact Hb|exact Ecm]|constructor; assumption].
    + destruct can_stop eqn:Ecs; [|discriminate]. exists [], w, c. split; [reflexivity|]. split; [|exact H].
      exists 0. split; [|constructor]. subst can_stop. apply N.eqb_eq in Ecs. subst lo. unfold in_bounds. split; [lia|]. destruct hi; [lia|exact I].
  - destruct cap.
    + apply IH in H. destruct H as [u [v [c' [-> [Hu Hk]]]]]. eexists u, v, _. split; [reflexivity|]. split; [exact Hu|exact Hk].
    + apply IH in H. destruct H as [u [v [c' [-> [Hu Hk]]]]]. exists u, v, c'. split; [reflexivity|]. split; [exact Hu|exact Hk].
Qed.

(* ---- completeness --------------------------------------------------------------------------------------------------------- *)
Lemma need_mono : forall r n n', n <= n' -> need r n <= need r n'.
Proof.
  induction r; intros n n' H; cbn [need]; try lia;
    repeat match goal with IH : forall n n', n <= n' -> need ?r n <= need ?r n' |- _ => pose proof (IH n n' H); clear IH end; lia.
Qed.

Lemma need_pos : forall r n, 1 <= need r n.
Proof. destruct r; intros; cbn [need]; lia. Qed.

(* iterations that match the empty text can be skipped *)
Lemma iter_skip_empty : forall (L : str -> Prop) k u, iter_sem L k u ->
  u = [] \/ exists u1 u2 k', u = u1 ++ u2 /\ u1 <> [] /\ L u1 /\ iter_sem L k' u2 /\ k' < k.
Proof.
  intros L k u H. induction H as [|n u v Hu Hv IH]; [left; reflexivity|].
  destruct u as [|c u].
  - destruct IH as [->|[u1 [u2 [k' [-> [Hne [H1 [H2 Hlt]]]]]]]]; [left; reflexivity|].
    right. exists u1, u2, k'. repeat split; try assumption. lia.
  - right. exists (c :: u), v, n. repeat split; try assumption; [discriminate|lia].
Qed.

Theorem m_complete : forall fuel total r g w u v c k,
  w = u ++ v -> sem r u -> (forall c', k v c' <> None) -> need r (length w) <= fuel -> m total fuel r g w c k <> None.
Proof.
  induction fuel as [|f IH]; intros total r g w u v c k Hw Hs Hk Hf; [pose proof (need_pos r (length w)); lia|].
  cbn [Regex.m]. destruct r as [ci s| | |neg a| | | |a b|a b|a|lz a|a lo hi|cap a]; cbn [Regex.sem need] in *.
  - subst w. rewrite (lit_match_complete ci s u v Hs). apply Hk.
  - subst. cbn [app]. rewrite N.eqb_refl. apply Hk.
  - destruct Hs as [d [-> Hd]]. subst w. cbn [app]. apply N.eqb_neq in Hd. rewrite Hd. apply Hk.
  - destruct Hs as [d [-> Hd]]. subst w. cbn [app]. rewrite Hd. apply Hk.
  - contradiction.
  - apply (first_some_complete _ _ v); [|apply Hk]. apply -> in_rev. apply suffixes_spec. exists u. exact Hw.
  - subst u w. apply Hk.
  - destruct Hs as [u1 [u2 [-> [H1 H2]]]]. subst w. rewrite <- app_assoc in *.
    apply (IH total a g _ u1 (u2 ++ v)); [reflexivity|exact H1| |lia].
    intros c'. apply (IH total b _ _ u2 v); [reflexivity|exact H2|exact Hk|].
    pose proof (need_mono b (length (u2 ++ v)) (length (u1 ++ u2 ++ v))). rewrite !app_length in *. lia.
  - destruct (m total f a g w c k) eqn:E; [discriminate|]. destruct Hs as [Ha|Hb].
    + exfalso. apply (IH total a g w u v c k Hw Ha Hk); [lia|exact E].
    + apply (IH total b _ w u v c k Hw Hb Hk). lia.
  - destruct (m total f a g w c k) eqn:E; [discriminate|]. destruct Hs as [->|Ha].
    + cbn [app] in Hw. subst w. apply Hk.
    + exfalso. apply (IH total a g w u v c k Hw Ha Hk); [lia|exact E].
  - (* star *)
    destruct Hs as [n Hn]. apply iter_skip_empty in Hn.
    assert (Hstop : u = [] -> k w c <> None) by (intros ->; cbn [app] in Hw; subst w; apply Hk).
    destruct Hn as [->|[u1 [u2 [k' [-> [Hne [H1 [H2 _]]]]]]]].
    + specialize (Hstop eq_refl). destruct lz.
      * destruct (k w c); [discriminate|congruence].
      * match goal with |- match ?M with _ => _ end <> None => destruct M end; [discriminate|exact Hstop].
    + assert (Hmore : m total f a g w c (fun w' c' => if Nat.ltb (length w') (length w) then m total f (RStar lz a) g w' c' k else None) <> None).
      { subst w. rewrite <- app_assoc. apply (IH total a g _ u1 (u2 ++ v)); [reflexivity|exact H1| |rewrite <- app_assoc in Hf; lia].
        intros c'. assert (Hlt : Nat.ltb (length (u2 ++ v)) (length (u1 ++ u2 ++ v)) = true).
        { apply Nat.ltb_lt. rewrite !app_length. destruct u1; [congruence|cbn [length]; lia]. }
        rewrite Hlt. apply (IH total (RStar lz a) g _ u2 v); [reflexivity|exists k'; exact H2|exact Hk|].
        cbn [need]. apply Nat.ltb_lt in Hlt. pose proof (need_mono a (length (u2 ++ v)) (length ((u1 ++ u2) ++ v))).
        rewrite <- app_assoc in *. lia. }
      destruct lz.
      * destruct (k w c); [discriminate|exact Hmore].
      * match goal with |- match ?M with _ => _ end <> None => destruct M end; [discriminate|congruence].
  - (* counted repetition *)
    destruct Hs as [n [[Hlo Hhi] Hn]].
    destruct (N.eqb_spec lo 0) as [->|Hlo0].
    + (* no mandatory iteration left: optional iterations must consume *)
      cbn [N.eqb N.pred] in *. apply iter_skip_empty in Hn.
      destruct Hn as [->|[u1 [u2 [k' [-> [Hne [H1 [H2 Hlt]]]]]]]].
      * cbn [app] in Hw. subst w. match goal with |- match ?M with _ => _ end <> None => destruct M end; [discriminate|apply Hk].
      * assert (Hcm : match hi with Some h => (0 <? h)%N | None => true end = true).
        { destruct hi as [h|]; [|reflexivity]. apply N.ltb_lt. lia. }
        rewrite Hcm.
        match goal with |- match ?M with _ => _ end <> None => assert (HM : M <> None); [|destruct M; [discriminate|congruence]] end.
        subst w. rewrite <- app_assoc. apply (IH total a g _ u1 (u2 ++ v)); [reflexivity|exact H1| |rewrite <- app_assoc in Hf; lia].
        intros c'. assert (Hl : Nat.ltb (length (u2 ++ v)) (length (u1 ++ u2 ++ v)) = true).
        { apply Nat.ltb_lt. rewrite !app_length. destruct u1; [congruence|cbn [length]; lia]. }
        rewrite Hl. cbn [orb].
        apply (IH total (RRep a 0 (match hi with Some h => Some (N.pred h) | None => None end)) g _ u2 v); [reflexivity| |exact Hk|].
        -- exists k'. split; [|exact H2]. split; [lia|]. destruct hi as [h|]; [lia|exact I].
        -- cbn [need]. apply Nat.ltb_lt in Hl. pose proof (need_mono a (length (u2 ++ v)) (length ((u1 ++ u2) ++ v))).
           rewrite <- app_assoc in *. change (N.to_nat 0) with 0 in *. lia.
    + (* a mandatory iteration *)
      destruct n as [|n']; [lia|]. inversion Hn as [|? u1 u2 H1 H2]; subst.
      assert (Hcm : match hi with Some h => (0 <? h)%N | None => true end = true).
      { destruct hi as [h|]; [|reflexivity]. apply N.ltb_lt. lia. }
      rewrite Hcm.
      match goal with |- match ?M with _ => _ end <> None => assert (HM : M <> None); [|destruct M; [discriminate|congruence]] end.
      rewrite <- app_assoc. apply (IH total a g _ u1 (u2 ++ v)); [reflexivity|exact H1| |rewrite <- app_assoc in Hf; lia].
      intros c'. cbn [negb]. rewrite orb_true_r.
      apply (IH total (RRep a (N.pred lo) (match hi with Some h => Some (N.pred h) | None => None end)) g _ u2 v); [reflexivity| |exact Hk|].
      * exists n'. split; [|exact H2]. split; [lia|]. destruct hi as [h|]; [lia|exact I].
      * cbn [need]. pose proof (need_mono a (length (u2 ++ v)) (length ((u1 ++ u2) ++ v))). rewrite <- app_assoc in *.
        rewrite !app_length in *. rewrite N2Nat.inj_pred. lia.
  - destruct cap.
    + apply (IH total a (S g) w u v c _ Hw Hs); [|lia]. intros c'. apply Hk.
    + apply (IH total a g w u v c k Hw Hs Hk). lia.
Qed.

(* ---- the engine decides the language ------------------------------------------------------------------------------------------ *)
Theorem accepts_spec : forall r w, accepts orbit r w = true <-> sem r w.
Proof.
  intros r w. unfold accepts, run. split.
  - destruct (Regex.m orbit (length w) (need r (length w)) r 0 w [] k_end) eqn:E; [|discriminate]. intros _.
    apply m_sound in E. destruct E as [u [v [c' [-> [Hu Hk]]]]]. unfold k_end in Hk. destruct v; [|discriminate].
    rewrite app_nil_r. exact Hu.
  - intros Hs. pose proof (m_complete (need r (length w)) (length w) r 0 w w [] [] k_end) as H.
    destruct (Regex.m orbit (length w) (need r (length w)) r 0 w [] k_end); [reflexivity|].
    exfalso. apply H; [symmetry; apply app_nil_r|exact Hs|intros c'; discriminate|apply le_n|reflexivity].
Qed.

End Matcher.
