(* NotWalkFacts.v -- C03 end to end in the model for negations whose exhaustive part ends in a tree wildcard: `not` yields
   exactly the entries of the underlying walk that the negation does not match; discarding whole trees is
   indistinguishable from filtering entry by entry.  The promise of an exhaustive verdict (C09) is discharged by
   SpecFacts.ends_tree_exhaustive through the conformance theorem. *)
From Coq Require Import Arith Lia.
From WaxModel Require Import Base Token Regex Spec Encode Variance Fold Walk.
From WaxProofs Require Import SpecFacts EncodeLang WalkFacts PruneFacts GlobWalkFacts.
Local Open Scope nat_scope.

(* the conditional form, for arbitrary programs: given the promise on every path *)
Lemma not_walk_given_promise : forall ls (exh nonexh : option (str -> bool)),
  (forall p r, opt_match exh (join_path p) = true -> matched exh nonexh (p ++ r) = true) ->
  forall mind maxd root,
    yields (walk mind maxd (ls ++ [nl exh nonexh]) root) =
    filter (fun q => negb (matched exh nonexh q)) (yields (walk mind maxd ls root)).
Proof.
  intros ls exh nonexh H mind maxd root. rewrite !walk_refines.
  apply (not_walk_yields ls exh nonexh (fun _ => True) (fun p r _ _ => H p r) mind maxd root 0 []). intros; exact I.
Qed.

Lemma join_app : forall p r, p <> [] -> r <> [] -> join_path (p ++ r) = join_path p ++ SEP :: join_path r.
Proof.
  induction p as [|c p IH]; intros r Hp Hr; [congruence|]. destruct p as [|d p'].
  - cbn [app]. destruct r; [congruence|]. reflexivity.
  - change ((c :: d :: p') ++ r) with (c :: ((d :: p') ++ r)). rewrite join_cons by (cbn [app]; discriminate).
    rewrite IH by (assumption || discriminate). rewrite (join_cons c (d :: p')) by discriminate. rewrite <- app_assoc. reflexivity.
Qed.

Section NotWalkComplete.
Variable orbit : char -> list char.
(* the exhaustive part of the negation: a token tree every expansion of which ends in a tree wildcard, in the class of the
   conformance theorem; run by an engine that decides its language *)
Variable tx : tok.
Hypothesis Hwf : wf_tok tx = true.
Hypothesis Hexact : trees_exact tx = true.
Hypothesis Hends : ends_tree tx = true.
Variable fx : str -> bool.
Hypothesis Hfx : forall w, fx w = true <-> sem orbit (encode tx) w.
(* the negation does not match the empty path (the directory given to the walk is not itself discarded) *)
Hypothesis Hroot : fx [] = false.
Variable nonexh : option (str -> bool).

Lemma promise_holds : forall p r, Forall valid_name (p ++ r) -> r <> [] ->
  opt_match (Some fx) (join_path p) = true -> matched (Some fx) nonexh (p ++ r) = true.
Proof.
  intros p r Hv Hr Hm. cbn [opt_match] in Hm. destruct p as [|c p]; [cbn in Hm; congruence|].
  unfold matched. cbn [opt_match]. apply orb_true_iff. left. rewrite join_app by (discriminate || exact Hr).
  apply Hfx. apply (conformance orbit tx _ Hwf Hexact). apply ends_tree_exhaustive; [exact Hends|].
  apply (conformance orbit tx _ Hwf Hexact). apply Hfx. exact Hm.
Qed.

Theorem not_walk_complete : forall ls mind maxd root, names_valid root ->
  yields (walk mind maxd (ls ++ [nl (Some fx) nonexh]) root) =
  filter (fun q => negb (matched (Some fx) nonexh q)) (yields (walk mind maxd ls root)).
Proof.
  intros ls mind maxd root Hroot'. rewrite !walk_refines.
  apply (not_walk_yields ls (Some fx) nonexh (Forall valid_name) promise_holds mind maxd root 0 []).
  intros q Hq. eapply all_entries_valid; [exact Hroot'|constructor|exact Hq].
Qed.

End NotWalkComplete.
