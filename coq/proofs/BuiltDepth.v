(* BuiltDepth.v -- C10 for the globs that build: the side conditions of the depth theorems (no adjacent boundaries, separator-free
   literals, non-empty branches) are discharged by the parser and the rule checker. *)
From Coq Require Import Arith Lia.
From WaxModel Require Import Base Token Regex Spec Encode Variance Fold Rule Parse Query Glob.
From WaxProofs Require Import SpecFacts EncodeLang RuleFacts DepthFacts ExhaustFacts FuelFacts PruneFacts ParseTreeFacts BuiltFacts.
From WaxProofs Require Import BuiltNonempty DepthTreeFacts DepthAltFacts DepthRepFacts RuleAdjFacts ParseShape.
Local Open Scope N_scope.

Lemma build_inv : forall e t r, build e = BuildOk t r -> parse e = ParseOk t /\ check t = Ok None.
Proof.
  intros e t r H. unfold build in H. destruct (parse e) as [t0| |] eqn:Ep; try discriminate.
  destruct (check t0) as [[[k sp]|]|s] eqn:Ec; try discriminate. destruct (compile_ok (encode t0)); [|discriminate]. inversion H; subst. auto.
Qed.

Section BuiltDepth.
Variable orbit : char -> list char.
Hypothesis orbit_nosep : forall c d, In d (orbit c) -> d <> SEP.

(* every flat glob that builds (a concatenation of literals, separators, classes, `?`, `*`, `$` and tree wildcards) *)
Theorem built_flat_depth_sound : forall e sp ts r v p l0 rest,
  build e = BuildOk (TCat sp ts) r -> forallb is_leaf ts = true -> map leaf_of ts = l0 :: rest ->
  depth_variance (TCat sp ts) = Ok v -> Lang orbit (TCat sp ts) p ->
  canonical p = true -> 1 <= ncomp p -> starts_sep p = leaf_is_rooting l0 ->
  in_variance (ncomp p) v.
Proof.
  intros e sp ts r v p l0 rest Hb Hl Hls Hv HL Hcan Hn Hroot. destruct (build_inv _ _ _ Hb) as [Hp Hc].
  pose proof (built_no_adjacent_boundary_everywhere _ Hc sp ts (sub_refl _)) as Ha.
  destruct (existsb tree_tok ts) eqn:Et.
  - eapply depth_flat_tree_sound; eassumption.
  - pose proof (parse_lits_nosep _ _ Hp) as Hlit. cbn [lits_nosep] in Hlit.
    assert (Hfc : flat_cat ts = true).
    { unfold flat_cat. destruct ts as [|t0 ts']; [discriminate|]. cbn [is_nil negb andb]. apply forallb_forall. intros t Ht.
      rewrite forallb_forall in Hl, Hlit. specialize (Hl t Ht). specialize (Hlit t Ht).
      assert (Htt : tree_tok t = false).
      { destruct (tree_tok t) eqn:E; [|reflexivity]. assert (existsb tree_tok (t0 :: ts') = true) by (apply existsb_exists; eauto). congruence. }
      destruct t as [s0 l| | |]; try discriminate. destruct l; try discriminate; cbn; try reflexivity. exact Hlit. }
    eapply (depth_flat_sound orbit orbit_nosep); try eassumption.
    rewrite Hroot. assert (Hin : In l0 (map leaf_of ts)) by (rewrite Hls; left; reflexivity). apply in_map_iff in Hin. destruct Hin as [t [<- Ht]].
    assert (Htt : tree_tok t = false).
    { destruct (tree_tok t) eqn:E; [|reflexivity]. assert (existsb tree_tok ts = true) by (apply existsb_exists; eauto). congruence. }
    rewrite forallb_forall in Hl. specialize (Hl t Ht). destruct t as [s0 l| | |]; try discriminate. destruct l; try discriminate; reflexivity.
Qed.

(* every glob that builds and has no repetition: the side conditions on the tree are discharged; what remains is about the path and
   the expansion that matches it (no two boundaries become adjacent in it, it begins with a root exactly when the path does) *)
Theorem built_alt_depth_sound : forall e t r v p x,
  build e = BuildOk t r -> rep_free t = true ->
  depth_variance t = Ok v -> depth_closed_variant t = false ->
  Expands t x -> FlatMatch orbit true true x p -> chain_ok false x = true ->
  canonical p = true -> 1 <= ncomp p ->
  starts_sep p = (match x with a :: _ => leaf_is_rooting a | [] => false end) ->
  in_variance (ncomp p) v.
Proof.
  intros e t r v p x Hb Hrf Hv Hcv Hx Hm Hc Hcan Hn Hroot. destruct (build_inv _ _ _ Hb) as [Hp Hck].
  eapply (depth_alt_sound orbit orbit_nosep); try eassumption.
  - eapply built_nonempty_branches; exact Hb.
  - eapply parse_lits_nosep; exact Hp.
Qed.

(* every glob that builds whose repetitions are written out at least once and have a body with a single depth term *)
Theorem built_rep_depth_sound : forall e t r v p x,
  build e = BuildOk t r -> simple_reps t = true ->
  depth_variance t = Ok v -> depth_closed_variant t = false ->
  Expands t x -> FlatMatch orbit true true x p -> chain_ok false x = true ->
  canonical p = true -> 1 <= ncomp p ->
  starts_sep p = (match x with a :: _ => leaf_is_rooting a | [] => false end) ->
  in_variance (ncomp p) v.
Proof.
  intros e t r v p x Hb Hrf Hv Hcv Hx Hm Hc Hcan Hn Hroot. destruct (build_inv _ _ _ Hb) as [Hp Hck].
  eapply (depth_rep_sound orbit orbit_nosep); try eassumption.
  - eapply built_nonempty_branches; exact Hb.
  - eapply parse_lits_nosep; exact Hp.
Qed.

(* every glob that builds and has no repetition, with nothing assumed about adjacency: the rule checker guarantees that no expansion
   holds two adjacent boundaries (RuleAdjFacts / ParseShape) *)
Theorem built_rep_free_depth_sound : forall e t r v p,
  build e = BuildOk t r -> rep_free t = true ->
  depth_variance t = Ok v -> depth_closed_variant t = false ->
  Lang orbit t p -> canonical p = true -> 1 <= ncomp p ->
  (forall x, Expands t x -> FlatMatch orbit true true x p -> starts_sep p = (match x with a :: _ => leaf_is_rooting a | [] => false end)) ->
  in_variance (ncomp p) v.
Proof.
  intros e t r v p Hb Hrf Hv Hcv [x [Hx Hm]] Hcan Hn Hroot.
  eapply built_alt_depth_sound; try eassumption; [|apply Hroot; assumption].
  eapply built_no_adjacent_boundaries; eassumption.
Qed.

End BuiltDepth.
