(* DepthAltFacts.v -- C10 for patterns without repetitions (alternations, concatenations, leaves, tree wildcards: `*.{rs,toml}`,
   `{src,tests}/**/*.rs`, `**/{a,b}/*`): the number of components of every canonical path of the documented language lies in
   the reported depth variance.  A term of the depth algebra is a sound summary [K] of a flat leaf sequence; summaries compose
   under conjunction whatever the grouping (the algebra is not associative), every expansion of the tree is summarised by a
   member of its term, and the final disjunction covers the finalized members. *)
From Coq Require Import Arith Lia.
From WaxModel Require Import Base Token Regex Spec Encode Variance Fold Rule.
From WaxProofs Require Import SpecFacts EncodeLang RuleFacts DepthFacts ExhaustFacts TextFacts.
From WaxProofs Require Import DepthTreeFacts.
Local Open Scope N_scope.
Local Arguments N.add : simpl never.
Local Arguments N.ltb : simpl never.

(* ---- measures of a leaf sequence ----------------------------------------------------------------------------------------------------------- *)
Definition fb (x : list leaf) : bool := match x with a :: _ => is_bnd a | [] => false end.
Definition lb (x : list leaf) : bool := match last_opt x with Some a => is_bnd a | None => false end.
Fixpoint nsep (x : list leaf) : N := match x with [] => 0 | a :: r => (if is_sep_leaf a then 1 else 0) + nsep r end.
Definition trees (x : list leaf) : bool := existsb is_tree_leaf x.
Definition single_tree (x : list leaf) : bool := match x with [LTree _] => true | _ => false end.

Lemma last_opt_app2 : forall {A} (p l : list A), l <> [] -> last_opt (p ++ l) = last_opt l.
Proof. intros. apply ExhaustFacts.last_opt_app. assumption. Qed.

Lemma lb_app : forall x y, y <> [] -> lb (x ++ y) = lb y.
Proof. intros x y Hy. unfold lb. rewrite last_opt_app2 by exact Hy. reflexivity. Qed.
Lemma fb_app : forall x y, x <> [] -> fb (x ++ y) = fb x.
Proof. intros [|a x] y H; [congruence|reflexivity]. Qed.
Lemma nsep_app : forall x y, nsep (x ++ y) = nsep x + nsep y.
Proof. induction x as [|a x IH]; intros y; cbn [app nsep]; [lia|]. rewrite IH. lia. Qed.
Lemma trees_app : forall x y, trees (x ++ y) = trees x || trees y.
Proof. intros. unfold trees. apply existsb_app. Qed.

Lemma runs_flag : forall x, runs false x = runs true x + (if negb (is_nil x) && negb (fb x) then 1 else 0).
Proof. intros [|a x]; [reflexivity|]. cbn [runs is_nil fb negb andb]. destruct (is_bnd a); cbn [negb]; lia. Qed.

Lemma runs_app : forall x y pr, x <> [] -> runs pr (x ++ y) = runs pr x + runs (negb (lb x)) y.
Proof.
  induction x as [|a x IH]; intros y pr Hx; [congruence|]. destruct x as [|b x'].
  - cbn [app runs]. change (lb [a]) with (is_bnd a). destruct (is_bnd a); cbn [negb runs]; lia.
  - assert (El : lb (a :: b :: x') = lb (b :: x')) by reflexivity. rewrite El.
    assert (Hz : b :: x' <> []) by discriminate. remember (b :: x') as z eqn:Ez. clear Ez El.
    change ((a :: z) ++ y) with (a :: (z ++ y)). cbn [runs].
    destruct (is_bnd a); rewrite IH by exact Hz; lia.
Qed.

Lemma chain_ok_app : forall x y pb, chain_ok pb (x ++ y) = true -> x <> [] ->
  chain_ok pb x = true /\ chain_ok (lb x) y = true.
Proof.
  induction x as [|a x IH]; intros y pb H Hx; [congruence|]. cbn [app chain_ok] in H. apply andb_prop in H. destruct H as [Ha H].
  destruct x as [|b x'].
  - cbn [app] in H. cbn [chain_ok]. rewrite Ha. split; [reflexivity|exact H].
  - destruct (IH y _ H ltac:(discriminate)) as [H1 H2]. split; [cbn [chain_ok]; rewrite Ha; exact H1|exact H2].
Qed.

Lemma chain_ok_weaken : forall x pb, chain_ok pb x = true -> chain_ok false x = true.
Proof. intros [|a x] pb H; [reflexivity|]. cbn [chain_ok andb negb] in *. apply andb_prop in H. destruct H as [_ H]. exact H. Qed.

Lemma chain_ok_junction : forall y, chain_ok true y = true -> fb y = false.
Proof. intros [|a y] H; [reflexivity|]. cbn [chain_ok fb] in *. destruct (is_bnd a); [discriminate|reflexivity]. Qed.

(* ---- a term as the summary of a leaf sequence ------------------------------------------------------------------------------------------------- *)
Definition flags (T : termination) (x : list leaf) : Prop :=
  if single_tree x then T = TCoalescent else T = term_of_flags (fb x) (lb x).
Definition bound (T : termination) (v : nvar) (x : list leaf) : Prop :=
  match T with TOpen => lo v + 1 <= runs false x | TClosed => lo v <= runs false x + 1 | _ => lo v <= runs false x end.

Definition K (s : sterm) (x : list leaf) : Prop :=
  x <> [] /\ shape (snd s) /\ (trees x = false -> snd s = Inv (nsep x)) /\ (trees x = true -> vform (snd s)) /\
  flags (fst s) x /\ bound (fst s) (snd s) x.

Lemma K_leaf : forall l, K (sterm_of l) [l].
Proof.
  intros l. unfold K, flags, bound, trees, lb. split; [discriminate|].
  destruct l; cbn; repeat split; try discriminate; try reflexivity; try lia; intros; try discriminate; exact I.
Qed.

Lemma conj_inv_l : forall v i v', shape v -> nvar_conj (Inv i) v = Ok v' -> shape v' /\ lo v' = i + lo v /\ (vform v -> vform v').
Proof.
  intros [j|[[k|k|a b]|]] i v' Hs H; try destruct Hs; cbn [nvar_conj rbind] in H.
  - destruct (cadd i j) as [c|] eqn:E; [|discriminate]. inversion H; subst. apply cadd_ok in E. subst c. cbn. split; [exact I|]. split; [reflexivity|intros []].
  - cbn [bvr_translation rbind] in H. destruct (cadd k i) as [c|] eqn:E; [|discriminate]. inversion H; subst. apply cadd_ok in E. subst c. cbn. split; [exact I|]. split; [lia|auto].
  - inversion H; subst. unfold n_into_lower_bound. destruct (N.eqb_spec i 0) as [->|Hi]; cbn; (split; [exact I|]); (split; [lia|auto]).
Qed.

Lemma conj_vv : forall a b c, vform a -> vform b -> nvar_conj a b = Ok c -> vform c /\ lo c = lo a + lo b.
Proof.
  intros [j|[[k|k|x y]|]] [j'|[[k'|k'|x' y']|]] c Ha Hb H; try destruct Ha; try destruct Hb; cbn [nvar_conj rbind bvr_open_upper] in H.
  - unfold bvr_conj in H. cbn [bvr_upper bvr_lower lower_usize upper_usize rbind] in H.
    destruct (cadd k k') as [s|] eqn:E; [|discriminate]. cbn [rbind] in H. apply cadd_ok in E. subst s.
    unfold try_lower_upper in H. cbn [N.eqb] in H. rewrite andb_true_r in H.
    destruct (N.eqb_spec (k + k') 0); [discriminate|]. cbn in H. inversion H; subst. cbn. auto.
  - inversion H; subst. cbn. split; [exact I|lia].
  - inversion H; subst. cbn. auto.
  - inversion H; subst. cbn. auto.
Qed.

(* the conjunction of two values of the allowed shapes *)
Lemma conj_any : forall a b c, shape a -> shape b -> nvar_conj a b = Ok c ->
  shape c /\ lo c = lo a + lo b /\ (vform a \/ vform b -> vform c) /\ (forall i j, a = Inv i -> b = Inv j -> c = Inv (i + j)).
Proof.
  intros a b c Ha Hb H. destruct a as [i|va] eqn:Ea.
  - destruct b as [j|vb] eqn:Eb.
    + cbn [nvar_conj rbind] in H. destruct (cadd i j) as [s|] eqn:E; [|discriminate]. inversion H; subst. apply cadd_ok in E. subst s.
      split; [exact I|]. split; [reflexivity|]. split; [intros [[]|[]]|]. intros i0 j0 E1 E2. inversion E1; inversion E2; subst. reflexivity.
    + destruct (conj_inv_l _ _ _ Hb H) as [S1 [S2 S3]]. split; [exact S1|]. split; [exact S2|]. split; [intros [[]|Hv]; apply S3; exact Hv|]. intros; discriminate.
  - assert (Hva : vform (Var va)) by (destruct va as [[]|]; try destruct Ha; exact I).
    destruct b as [j|vb] eqn:Eb.
    + destruct (conj_inv _ _ _ Ha H) as [S1 [S2 S3]]. split; [exact S1|]. split; [exact S2|]. split; [intros _; apply S3; exact Hva|]. intros; discriminate.
    + assert (Hvb : vform (Var vb)) by (destruct vb as [[]|]; try destruct Hb; exact I).
      destruct (conj_vv _ _ _ Hva Hvb H) as [S1 S2]. split; [apply vform_shape; exact S1|]. split; [exact S2|]. split; [intros _; exact S1|]. intros; discriminate.
Qed.

Lemma single_tree_facts : forall x, single_tree x = true ->
  fb x = true /\ lb x = true /\ runs false x = 0 /\ trees x = true /\ x <> [].
Proof. intros [|[] [|b x]] H; try discriminate. repeat split; try reflexivity. discriminate. Qed.

Lemma single_tree_app : forall x y, x <> [] -> y <> [] -> single_tree (x ++ y) = false.
Proof. intros [|a [|b x]] [|c y] Hx Hy; try congruence; cbn; destruct a; reflexivity. Qed.

Lemma flags_cases : forall T x, x <> [] -> flags T x ->
  (T = TCoalescent /\ fb x = true /\ lb x = true /\ runs false x = 0 /\ trees x = true) \/
  (T = term_of_flags (fb x) (lb x)).
Proof.
  intros T x Hx H. unfold flags in H. destruct (single_tree x) eqn:E; [|right; exact H].
  left. destruct (single_tree_facts x E) as [H1 [H2 [H3 [H4 _]]]]. auto.
Qed.

Ltac step_conj H :=
  match type of H with
  | rbind (nvar_conj ?a ?b) _ = _ => let c := fresh "c" in let E := fresh "E" in destruct (nvar_conj a b) as [c|] eqn:E; [|discriminate]; cbn [rbind] in H
  | rbind (sterm_finalize ?a) _ = _ => let c := fresh "c" in let E := fresh "E" in destruct (sterm_finalize a) as [c|] eqn:E; [|discriminate]; cbn [rbind] in H
  end.

(* summaries compose under conjunction, whatever the grouping *)
Lemma K_conj : forall s1 s2 s x1 x2, K s1 x1 -> K s2 x2 -> lb x1 && fb x2 = false -> sterm_conj s1 s2 = Ok s -> K s (x1 ++ x2).
Proof.
  intros [T1 v1] [T2 v2] [T v] x1 x2 [N1 [S1 [I1 [V1 [F1 B1]]]]] [N2 [S2 [I2 [V2 [F2 B2]]]]] Hj H.
  cbn [fst snd] in *. unfold K. cbn [fst snd].
  assert (Hne : x1 ++ x2 <> []) by (destruct x1; [congruence|discriminate]).
  unfold flags. rewrite (single_tree_app x1 x2 N1 N2), (fb_app x1 x2 N1), (lb_app x1 x2 N2), trees_app, nsep_app.
  assert (Hr : runs false (x1 ++ x2) = runs false x1 + runs false x2 - (if negb (lb x1) && negb (fb x2) then 1 else 0)).
  { rewrite (runs_app x1 x2 false N1). destruct (lb x1); cbn [negb andb]; [lia|]. rewrite (runs_flag x2).
    destruct x2; [congruence|]. cbn [is_nil negb andb]. destruct (negb (fb (l :: x2))); lia. }
  unfold bound in *. rewrite Hr. clear Hr.
  destruct (flags_cases _ _ N1 F1) as [[-> [Hf1 [Hl1 [Hr1 Ht1]]]] | -> ]; destruct (flags_cases _ _ N2 F2) as [[-> [Hf2 [Hl2 [Hr2 Ht2]]]] | -> ];
    rewrite ?Hf1, ?Hl1, ?Hr1, ?Ht1, ?Hf2, ?Hl2, ?Hr2, ?Ht2 in *; cbn [andb negb orb] in *; try discriminate.
  - (* tree, then a sequence that begins with a run *)
    rewrite Hj in *. unfold sterm_conj in H. cbn [fst snd] in H. specialize (V1 eq_refl).
    destruct (lb x2); cbn [term_of_flags term_conj] in *; step_conj H; step_conj H; inversion H; subst;
      destruct (fin_lo _ _ _ S2 E) as [G1 [G2 G3]]; destruct (conj_any _ _ _ S1 G1 E0) as [C1 [C2 [C3 C4]]];
      (split; [exact Hne|]); (split; [exact C1|]); (split; [discriminate|]); (split; [intros _; apply C3; left; exact V1|]); (split; [reflexivity|]); lia.
  - (* a sequence that ends with a run, then a tree *)
    assert (Hl1 : lb x1 = false) by (destruct (lb x1); [discriminate|reflexivity]). rewrite Hl1 in *.
    unfold sterm_conj in H. cbn [fst snd] in H. specialize (V2 eq_refl). rewrite orb_true_r.
    destruct (fb x1); cbn [term_of_flags term_conj] in *; step_conj H; step_conj H; inversion H; subst;
      destruct (fin_lo _ _ _ S1 E) as [G1 [G2 G3]]; destruct (conj_any _ _ _ G1 S2 E0) as [C1 [C2 [C3 C4]]];
      (split; [exact Hne|]); (split; [exact C1|]); (split; [discriminate|]); (split; [intros _; apply C3; right; exact V2|]); (split; [reflexivity|]); cbn [negb andb] in *; lia.
  - (* neither is a lone tree *)
    unfold sterm_conj in H. cbn [fst snd] in H. rewrite term_conj_flags in H. step_conj H. inversion H; subst.
    destruct (conj_any _ _ _ S1 S2 E) as [C1 [C2 [C3 C4]]].
    split; [exact Hne|]. split; [exact C1|]. split; [|split; [|split; [reflexivity|]]].
    + intros Ht. apply orb_false_iff in Ht. destruct Ht as [Ht1 Ht2]. apply C4; [apply I1; exact Ht1|apply I2; exact Ht2].
    + intros Ht. apply C3. apply orb_true_iff in Ht. destruct Ht as [Ht|Ht]; [left; apply V1|right; apply V2]; exact Ht.
    + destruct (fb x1), (lb x1), (fb x2), (lb x2); cbn [term_of_flags andb negb] in *; try discriminate; lia.
Qed.

(* ---- the disjunctive sets ------------------------------------------------------------------------------------------------------------------------ *)
Lemma bvr_eqb_eq : forall a b, bvr_eqb a b = true -> a = b.
Proof.
  intros [x|x|l e] [y|y|l' e'] H; try discriminate; cbn [bvr_eqb] in H.
  - apply N.eqb_eq in H. subst. reflexivity.
  - apply N.eqb_eq in H. subst. reflexivity.
  - apply andb_prop in H. destruct H as [H1 H2]. apply N.eqb_eq in H1, H2. subst. reflexivity.
Qed.
Lemma nvar_eqb_eq : forall a b, nvar_eqb a b = true -> a = b.
Proof.
  intros [x|[x|]] [y|[y|]] H; try discriminate; cbn [nvar_eqb] in H.
  - apply N.eqb_eq in H. subst. reflexivity.
  - apply bvr_eqb_eq in H. subst. reflexivity.
  - reflexivity.
Qed.
Lemma sterm_eqb_eq : forall a b, sterm_eqb a b = true -> a = b.
Proof.
  intros [ta va] [tb vb] H. unfold sterm_eqb in H. cbn [fst snd] in H. apply andb_prop in H. destruct H as [Ht Hv].
  apply nvar_eqb_eq in Hv. subst. destruct ta, tb; try discriminate; reflexivity.
Qed.

Lemma set_insert_in : forall x s y, In y (set_insert x s) <-> y = x \/ In y s.
Proof.
  induction s as [|z s IH]; intros y; cbn [set_insert].
  - cbn. split; [intros [H|[]]; auto|intros [H|[]]; auto].
  - destruct (sterm_eqb x z) eqn:E.
    + apply sterm_eqb_eq in E. subst z. cbn [In]. split; [auto|]. intros [->|H]; auto.
    + cbn [In]. rewrite IH. split; intros H; repeat destruct H as [H|H]; auto.
Qed.

Lemma fold_insert_in : forall l acc y, In y (fold_left (fun s x => set_insert x s) l acc) <-> In y l \/ In y acc.
Proof.
  induction l as [|x l IH]; intros acc y; cbn [fold_left].
  - cbn. split; [auto|intros [[]|H]; exact H].
  - rewrite IH, set_insert_in. cbn [In]. split; intros H; repeat destruct H as [H|H]; auto.
Qed.

Lemma set_of_list_in : forall l y, In y (set_of_list l) <-> In y l.
Proof. intros l y. unfold set_of_list. rewrite fold_insert_in. cbn. split; [intros [H|[]]; exact H|auto]. Qed.

Definition members (b : bterm) : list sterm := match b with BConj s => [s] | BDisj ss => ss end.

Lemma bterm_disj_members : forall l r y, In y (members (bterm_disj l r)) <-> In y (members l) \/ In y (members r).
Proof.
  intros [a|ss] [b|bs] y; cbn [bterm_disj members].
  - rewrite set_of_list_in. cbn. split; intros H; repeat destruct H as [H|H]; auto; contradiction.
  - rewrite set_insert_in. cbn. split; intros H; repeat destruct H as [H|H]; auto; contradiction.
  - rewrite set_insert_in. cbn. split; intros H; repeat destruct H as [H|H]; auto; contradiction.
  - rewrite fold_insert_in. split; intros [H|H]; auto.
Qed.

Lemma rmapM_all_ok : forall {A B} (f : A -> res B) l rs, rmapM f l = Ok rs -> forall r, In r rs -> exists a, In a l /\ f a = Ok r.
Proof.
  induction l as [|x l IH]; intros rs H r Hin.
  - cbn in H. inversion H; subst. contradiction.
  - cbn [rmapM rbind] in H. destruct (f x) as [b|] eqn:Ef; [|discriminate]. cbn [rbind] in H.
    destruct (rmapM f l) as [bs|] eqn:El; [|discriminate]. inversion H; subst. destruct Hin as [<-|Hin].
    + exists x. split; [left; reflexivity|exact Ef].
    + destruct (IH bs eq_refl r Hin) as [a [Ha Hf]]. exists a. split; [right; exact Ha|exact Hf].
Qed.

(* the conjunction of two terms holds the conjunction of every pair of members *)
Lemma bterm_conj_members : forall l r c s1 s2, bterm_conj l r = Ok c -> In s1 (members l) -> In s2 (members r) ->
  exists s, sterm_conj s1 s2 = Ok s /\ In s (members c).
Proof.
  intros [a|ss] [b|bs] c s1 s2 H H1 H2; cbn [bterm_conj members] in *.
  - destruct H1 as [<-|[]]. destruct H2 as [<-|[]]. destruct (sterm_conj a b) as [x|] eqn:E; [|discriminate]. inversion H; subst. exists x. split; [reflexivity|left; reflexivity].
  - destruct H1 as [<-|[]]. destruct (rmapM (fun b0 => sterm_conj a b0) bs) as [cs|] eqn:E; [|discriminate]. inversion H; subst.
    destruct (rmapM_ok_in _ _ _ s2 E H2) as [x [Hx Hi]]. exists x. split; [exact Hx|]. cbn [members]. apply set_of_list_in. exact Hi.
  - destruct H2 as [<-|[]]. destruct (rmapM (fun a0 => sterm_conj a0 b) ss) as [cs|] eqn:E; [|discriminate]. inversion H; subst.
    destruct (rmapM_ok_in _ _ _ s1 E H1) as [x [Hx Hi]]. exists x. split; [exact Hx|]. cbn [members]. apply set_of_list_in. exact Hi.
  - destruct (rmapM (fun ab => sterm_conj (fst ab) (snd ab)) (list_prod ss bs)) as [cs|] eqn:E; [|discriminate]. inversion H; subst.
    assert (Hp : In (s1, s2) (list_prod ss bs)) by (apply in_prod; assumption).
    destruct (rmapM_ok_in _ _ _ (s1, s2) E Hp) as [x [Hx Hi]]. exists x. split; [exact Hx|]. cbn [members]. apply set_of_list_in. exact Hi.
Qed.

(* ---- every expansion of a tree without repetitions is summarised by a member of its term --------------------------------------------------------- *)
Fixpoint rep_free (t : tok) : bool :=
  match t with
  | TLeaf _ _ => true
  | TAlt _ bs => forallb rep_free bs
  | TCat _ ts => forallb rep_free ts
  | TRep _ _ _ _ => false
  end.

Lemma rfold_disj_members : forall l acc c, rfold rdisj acc l = Ok c -> forall y, In y (members c) <-> In y (members acc) \/ exists b, In b l /\ In y (members b).
Proof.
  induction l as [|b l IH]; intros acc c H y.
  - cbn in H. inversion H; subst. split; [auto|]. intros [H0|[b [[] _]]]. exact H0.
  - cbn [rfold] in H. unfold rdisj at 1 in H. cbn [rbind] in H. rewrite (IH _ _ H), bterm_disj_members. split.
    + intros [[H0|H0]|[b0 [Hb Hy]]]; [auto|right; exists b; split; [left; reflexivity|exact H0]|right; exists b0; split; [right; exact Hb|exact Hy]].
    + intros [H0|[b0 [[<-|Hb] Hy]]]; [auto|auto|right; exists b0; auto].
Qed.

Definition summarised (t : tok) : Prop :=
  forall b, depth_fold t = Ok (Some b) -> forall x, Expands t x -> chain_ok false x = true -> exists s, In s (members b) /\ K s x.

Lemma flat_map_opt_in : forall {A} (l : list (option A)) a, In (Some a) l -> In a (flat_map opt_list l).
Proof. intros A l a H. apply in_flat_map. exists (Some a). split; [exact H|left; reflexivity]. Qed.

Lemma depth_fold_some : forall t, nonempty_branches t = true -> rep_free t = true -> forall r, depth_fold t = Ok r -> r <> None.
Proof.
  induction t as [sp l|sp bs IH|sp ts IH|sp b lo hi IH] using tok_ind'; intros Hne Hrf r Hr; try discriminate.
  - cbn in Hr. inversion Hr. discriminate.
  - cbn [nonempty_branches rep_free] in *. apply andb_prop in Hne. destruct Hne as [Hn Hall]. destruct bs as [|b0 bs']; [discriminate|].
    cbn [depth_fold rmapM rbind] in Hr. destruct (depth_fold b0) as [r0|] eqn:E0; [|discriminate]. cbn [rbind] in Hr.
    destruct (rmapM depth_fold bs') as [rs|]; [|discriminate]. cbn [rbind] in Hr.
    inversion IH as [|? ? IH0 _]; subst. cbn [forallb] in Hall, Hrf. apply andb_prop in Hall, Hrf. destruct Hall as [H0 _]. destruct Hrf as [R0 _].
    destruct r0 as [v|]; [|exfalso; apply (IH0 H0 R0 None E0); reflexivity]. cbn [flat_map opt_list app rreduce] in Hr.
    destruct (rfold rdisj v (flat_map opt_list rs)); inversion Hr; discriminate.
  - cbn [nonempty_branches rep_free] in *. apply andb_prop in Hne. destruct Hne as [Hn Hall]. destruct ts as [|b0 bs']; [discriminate|].
    cbn [depth_fold rmapM rbind] in Hr. destruct (depth_fold b0) as [r0|] eqn:E0; [|discriminate]. cbn [rbind] in Hr.
    destruct (rmapM depth_fold bs') as [rs|]; [|discriminate]. cbn [rbind] in Hr.
    inversion IH as [|? ? IH0 _]; subst. cbn [forallb] in Hall, Hrf. apply andb_prop in Hall, Hrf. destruct Hall as [H0 _]. destruct Hrf as [R0 _].
    destruct r0 as [v|]; [|exfalso; apply (IH0 H0 R0 None E0); reflexivity]. cbn [flat_map opt_list app rreduce] in Hr.
    destruct (rfold bterm_conj v (flat_map opt_list rs)); inversion Hr; discriminate.
Qed.

Lemma rmapM_forall2 : forall {A B} (f : A -> res B) l rs, rmapM f l = Ok rs -> Forall2 (fun a r => f a = Ok r) l rs.
Proof. intros. eapply rmapM_ok_forall2. eassumption. Qed.

(* the concatenation: fold along the members, with the expansion of the prefix summarised by a member of the accumulator *)
Lemma cat_summarised : forall ts xs terms,
  Forall summarised ts -> forallb nonempty_branches ts = true -> forallb rep_free ts = true ->
  Forall2 Expands ts xs -> Forall2 (fun t r => depth_fold t = Ok r) ts terms ->
  forall acc xa c sa, In sa (members acc) -> K sa xa -> chain_ok false (xa ++ concat xs) = true ->
  rfold bterm_conj acc (flat_map opt_list terms) = Ok c ->
  exists s, In s (members c) /\ K s (xa ++ concat xs).
Proof.
  intros ts xs terms IH Hne Hrf HX. revert terms IH Hne Hrf.
  induction HX as [|t0 x0 ts' xs' Hx0 _ IHX]; intros terms IH Hne Hrf HT acc xa c sa Hsa HK Hc H.
  - inversion HT; subst. cbn in H. inversion H; subst. cbn [concat]. rewrite app_nil_r. exists sa. auto.
  - inversion HT as [|? r0 ? terms' Hr0 HT']; subst. inversion IH as [|? ? IH0 IH']; subst.
    cbn [forallb] in Hne, Hrf. apply andb_prop in Hne, Hrf. destruct Hne as [Hn0 Hne']. destruct Hrf as [Hf0 Hrf'].
    destruct r0 as [b0|]; [|exfalso; apply (depth_fold_some t0 Hn0 Hf0 None Hr0); reflexivity].
    cbn [flat_map opt_list app rfold] in H. destruct (bterm_conj acc b0) as [acc'|] eqn:Ec; [|discriminate]. cbn [rbind] in H.
    cbn [concat] in Hc |- *. destruct HK as [Nxa HK'].
    destruct (chain_ok_app xa (x0 ++ concat xs') false Hc Nxa) as [Hca Hcr].
    assert (Nx0 : x0 <> []).
    { intros ->. pose proof (EncodeLang.expands_nil_fnull t0 Hx0) as Hfn. clear - Hfn Hf0 Hn0.
      revert Hfn Hf0 Hn0. induction t0 as [sp l|sp bs IHb|sp cs IHc|sp b lo hi _] using tok_ind'; cbn [fnull rep_free nonempty_branches]; intros Hfn Hf0 Hn0; try discriminate.
      - apply andb_prop in Hn0. destruct Hn0 as [_ Hn0]. apply existsb_exists in Hfn. destruct Hfn as [b [Hin Hb]]. rewrite Forall_forall in IHb.
        rewrite forallb_forall in Hf0, Hn0. exact (IHb b Hin Hb (Hf0 b Hin) (Hn0 b Hin)).
      - apply andb_prop in Hn0. destruct Hn0 as [Hnil Hn0]. destruct cs as [|c0 cs']; [discriminate|]. inversion IHc as [|? ? I0 _]; subst.
        cbn [forallb] in *. apply andb_prop in Hfn, Hf0, Hn0. exact (I0 (proj1 Hfn) (proj1 Hf0) (proj1 Hn0)). }
    destruct (chain_ok_app x0 (concat xs') _ Hcr Nx0) as [Hc0 Hcr'].
    destruct (IH0 b0 Hr0 x0 Hx0 (chain_ok_weaken _ _ Hc0)) as [s0 [Hs0 HK0]].
    destruct (bterm_conj_members _ _ _ sa s0 Ec Hsa Hs0) as [s' [Hs' Hin']].
    assert (Hj : lb xa && fb x0 = false).
    { destruct (lb xa) eqn:El; [|reflexivity]. cbn [andb]. apply chain_ok_junction. exact Hc0. }
    pose proof (K_conj _ _ _ _ _ (conj Nxa HK') HK0 Hj Hs') as HK1.
    rewrite app_assoc in Hc |- *.
    apply (IHX terms' IH' Hne' Hrf' HT' acc' (xa ++ x0) c s' Hin' HK1 Hc H).
Qed.

Theorem rep_free_summarised : forall t, nonempty_branches t = true -> rep_free t = true -> summarised t.
Proof.
  induction t as [sp l|sp bs IH|sp ts IH|sp b lo hi IH] using tok_ind'; intros Hne Hrf; try discriminate.
  - intros b Hb x Hx _. cbn in Hb. inversion Hb; subst. inversion Hx; subst. rewrite depth_leaf_sterm. exists (sterm_of l). split; [left; reflexivity|apply K_leaf].
  - intros b Hb x Hx Hc. inversion Hx as [|sp0 bs0 bb x0 Hin Hxb| |]; subst.
    cbn [nonempty_branches rep_free] in *. apply andb_prop in Hne. destruct Hne as [_ Hall]. rewrite forallb_forall in Hall, Hrf.
    cbn [depth_fold rbind] in Hb. destruct (rmapM depth_fold bs) as [terms|] eqn:Er; [|discriminate]. cbn [rbind] in Hb.
    destruct (rmapM_ok_in _ _ _ bb Er Hin) as [r [Hr Hir]].
    destruct r as [b1|]; [|exfalso; apply (depth_fold_some bb (Hall bb Hin) (Hrf bb Hin) None Hr); reflexivity].
    rewrite Forall_forall in IH. destruct (IH bb Hin (Hall bb Hin) (Hrf bb Hin) b1 Hr x Hxb Hc) as [s [Hs HK]].
    exists s. split; [|exact HK].
    pose proof (flat_map_opt_in terms b1 Hir) as Hfl. destruct (flat_map opt_list terms) as [|a l] eqn:Efl; [contradiction|].
    cbn [rreduce] in Hb. destruct (rfold rdisj a l) as [c|] eqn:Ef; [|discriminate]. cbn [rmap] in Hb. inversion Hb; subst.
    apply (rfold_disj_members _ _ _ Ef). destruct Hfl as [<-|Hfl]; [left; exact Hs|right; exists b1; auto].
  - intros b Hb x Hx Hc. inversion Hx as [| |sp0 ts0 xs HF|]; subst.
    cbn [nonempty_branches rep_free] in *. apply andb_prop in Hne. destruct Hne as [Hnil Hall].
    cbn [depth_fold rbind] in Hb. destruct (rmapM depth_fold ts) as [terms|] eqn:Er; [|discriminate]. cbn [rbind] in Hb.
    pose proof (rmapM_forall2 _ _ _ Er) as HT.
    assert (IH' : Forall summarised ts).
    { apply Forall_forall. intros t Ht. rewrite Forall_forall in IH. rewrite forallb_forall in Hall, Hrf. exact (IH t Ht (Hall t Ht) (Hrf t Ht)). }
    destruct HF as [|t0 x0 ts' xs' Hx0 HF']; [discriminate|]. inversion HT as [|? r0 ? terms' Hr0 HT']; subst. inversion IH' as [|? ? IH0 IH'']; subst.
    cbn [forallb] in Hall, Hrf. apply andb_prop in Hall, Hrf. destruct Hall as [Hn0 Hne']. destruct Hrf as [Hf0 Hrf'].
    destruct r0 as [b0|]; [|exfalso; apply (depth_fold_some t0 Hn0 Hf0 None Hr0); reflexivity].
    cbn [flat_map opt_list app rreduce] in Hb. destruct (rfold bterm_conj b0 (flat_map opt_list terms')) as [c|] eqn:Ef; [|discriminate]. cbn [rmap] in Hb. injection Hb as <-.
    cbn [concat] in Hc |- *.
    assert (Nx0 : x0 <> []).
    { intros ->. cbn [app] in *. pose proof (EncodeLang.expands_nil_fnull t0 Hx0) as Hfn. clear - Hfn Hf0 Hn0.
      revert Hfn Hf0 Hn0. induction t0 as [sp l|sp bs IHb|sp cs IHc|sp b lo hi _] using tok_ind'; cbn [fnull rep_free nonempty_branches]; intros Hfn Hf0 Hn0; try discriminate.
      - apply andb_prop in Hn0. destruct Hn0 as [_ Hn0]. apply existsb_exists in Hfn. destruct Hfn as [b [Hin Hb]]. rewrite Forall_forall in IHb.
        rewrite forallb_forall in Hf0, Hn0. exact (IHb b Hin Hb (Hf0 b Hin) (Hn0 b Hin)).
      - apply andb_prop in Hn0. destruct Hn0 as [Hnil Hn0]. destruct cs as [|c0 cs']; [discriminate|]. inversion IHc as [|? ? I0 _]; subst.
        cbn [forallb] in *. apply andb_prop in Hfn, Hf0, Hn0. exact (I0 (proj1 Hfn) (proj1 Hf0) (proj1 Hn0)). }
    destruct (chain_ok_app x0 (concat xs') false Hc Nx0) as [Hc0 _].
    destruct (IH0 b0 Hr0 x0 Hx0 Hc0) as [s0 [Hs0 HK0]].
    exact (cat_summarised ts' xs' terms' IH'' Hne' Hrf' HF' HT' b0 x0 c s0 Hs0 HK0 Hc Ef).
Qed.

(* ---- the final disjunction covers its operands -------------------------------------------------------------------------------------------------- *)
Definition lowN (v : nvar) : N :=
  match v with Inv n => n | Var Unbounded => 0 | Var (Bounded (BLower n)) => n | Var (Bounded (BUpper _)) => 0 | Var (Bounded (BBoth l _)) => l end.
Definition upN (v : nvar) : option N :=
  match v with Inv n => Some n | Var Unbounded => None | Var (Bounded (BLower _)) => None | Var (Bounded (BUpper n)) => Some n | Var (Bounded (BBoth l e)) => Some (l + e) end.
Definition within (n : N) (l : N) (u : option N) : Prop := l <= n /\ match u with Some u => n <= u | None => True end.

Lemma in_variance_within : forall n v, in_variance n v <-> within n (lowN v) (upN v).
Proof. intros n [x|[[k|k|l e]|]]; unfold within; cbn [in_variance lowN upN]; lia. Qed.

Lemma fco_within : forall l u n, within n l u -> in_variance n (from_closed_open l u).
Proof.
  intros l u n [Hl Hu]. unfold from_closed_open. destruct u as [u|].
  - destruct (N.ltb_spec u l) as [Hlt|Hge]; [lia|].
    destruct l as [|pl] eqn:El.
    + unfold try_lower_upper. cbn [N.eqb andb]. destruct (N.eqb_spec u 0) as [->|Hu0]; [cbn; lia|]. cbn [in_variance]. exact Hu.
    + rewrite <- El in *. unfold try_lower_upper. assert (Hl0 : (l =? 0) = false) by (apply N.eqb_neq; lia). rewrite Hl0. cbn [andb].
      destruct (N.eqb_spec u 0) as [->|Hu0]; [lia|]. destruct (N.ltb_spec l u); cbn [in_variance]; lia.
  - destruct l as [|pl] eqn:El; [exact I|]. rewrite <- El in *. unfold try_lower_upper. cbn [N.eqb]. rewrite andb_true_r.
    assert (Hl0 : (l =? 0) = false) by (apply N.eqb_neq; lia). rewrite Hl0. cbn [in_variance]. exact Hl.
Qed.

Lemma lower_usize_nr : forall v, lower_usize (nr_lower v) = lowN v.
Proof. intros [x|[[k|k|l e]|]]; cbn; try reflexivity. unfold nbound_of_n. destruct (N.eqb_spec x 0) as [->|]; reflexivity. Qed.

Lemma upper_usize_nr : forall v u, nr_upper v = Ok u -> upper_usize u = upN v.
Proof.
  intros [x|[[k|k|l e]|]] u H; cbn [nr_upper bvr_upper] in H; try (inversion H; subst; reflexivity).
  - inversion H; subst. unfold nbound_of_n. destruct (N.eqb_spec x 0) as [->|]; reflexivity.
  - destruct (cadd l e) as [s|] eqn:E; [|discriminate]. inversion H; subst. apply cadd_ok in E. subst. reflexivity.
Qed.

Lemma lower_min_usize : forall a b, lower_usize (lower_min a b) = N.min (lower_usize a) (lower_usize b).
Proof.
  intros [| |x] [| |y]; cbn [lower_min lower_usize]; try (rewrite ?N.min_0_l, ?N.min_0_r; reflexivity);
    match goal with |- context [if ?c then _ else _] => destruct c eqn:E end; cbn [lower_usize]; try apply N.ltb_lt in E; try apply N.ltb_ge in E; lia.
Qed.

Lemma upper_max_usize : forall a b, upper_usize (upper_max a b) =
  match upper_usize a, upper_usize b with Some x, Some y => Some (N.max x y) | _, _ => None end.
Proof.
  intros [| |x] [| |y]; cbn [upper_max upper_usize]; try reflexivity;
    try (match goal with |- context [if ?c then _ else _] => destruct c eqn:E end; cbn [upper_usize]; try apply N.ltb_lt in E; try apply N.ltb_ge in E; f_equal; lia).
Qed.

Lemma bvr_union_cover : forall a other r n, bvr_union a other = Ok r ->
  in_variance n (Var (Bounded a)) \/ in_variance n other -> in_variance n (Var r).
Proof.
  intros a other r n H Hin. unfold bvr_union in H.
  destruct (bvr_upper a) as [au|] eqn:Ea; [|discriminate]. cbn [rbind] in H.
  destruct (nr_upper other) as [ou|] eqn:Eo; [|discriminate]. cbn [rbind] in H.
  assert (Hua : upper_usize au = upN (Var (Bounded a))) by (apply upper_usize_nr; exact Ea).
  assert (Huo : upper_usize ou = upN other) by (apply upper_usize_nr; exact Eo).
  assert (Hla : lower_usize (bvr_lower a) = lowN (Var (Bounded a))) by (apply (lower_usize_nr (Var (Bounded a)))).
  assert (Hlo := lower_usize_nr other).
  assert (Hw : within n (lower_usize (lower_min (bvr_lower a) (nr_lower other))) (upper_usize (upper_max au ou))).
  { rewrite lower_min_usize, upper_max_usize, Hua, Huo, Hla, Hlo. rewrite !in_variance_within in Hin. unfold within in *.
    destruct Hin as [[H1 H2]|[H1 H2]]; (split; [lia|]); destruct (upN (Var (Bounded a))), (upN other); try exact I; lia. }
  apply fco_within in Hw. destruct (from_closed_open _ _) as [x|r0]; [discriminate|]. inversion H; subst. exact Hw.
Qed.

Lemma nvar_disj_cover : forall a b c n, nvar_disj a b = Ok c -> in_variance n a \/ in_variance n b -> in_variance n c.
Proof.
  intros a b c n H Hin. unfold nvar_disj in H. destruct (nvar_eqb a b) eqn:E.
  - apply nvar_eqb_eq in E. subst b. inversion H; subst. destruct Hin; assumption.
  - destruct a as [x|[ba|]], b as [y|[bb|]]; cbn [rbind] in H; try (inversion H; subst; exact I).
    + inversion H; subst. unfold n_bound. cbn [in_variance] in Hin.
      assert (Hw : within n (N.min x y) (Some (N.max x y))) by (unfold within; lia).
      assert (Hxy : x <> y) by (intros ->; cbn in E; rewrite N.eqb_refl in E; discriminate).
      unfold try_lower_upper. destruct (N.eqb_spec (N.min x y) 0) as [E0|E0]; destruct (N.eqb_spec (N.max x y) 0) as [E1|E1]; cbn [andb]; try lia.
      * cbn [in_variance]. unfold within in Hw. lia.
      * destruct (N.ltb_spec (N.min x y) (N.max x y)); [|lia]. cbn [in_variance]. unfold within in Hw. lia.
    + destruct (bvr_union bb (Inv x)) as [v|] eqn:Eu; [|discriminate]. inversion H; subst. apply (bvr_union_cover _ _ _ n Eu). tauto.
    + destruct (bvr_union ba (Inv y)) as [v|] eqn:Eu; [|discriminate]. inversion H; subst. apply (bvr_union_cover _ _ _ n Eu). tauto.
    + destruct (bvr_union ba (Var (Bounded bb))) as [v|] eqn:Eu; [|discriminate]. inversion H; subst. apply (bvr_union_cover _ _ _ n Eu). tauto.
Qed.

Lemma rfold_disj_cover : forall l acc c n, rfold nvar_disj acc l = Ok c -> in_variance n acc \/ (exists v, In v l /\ in_variance n v) -> in_variance n c.
Proof.
  induction l as [|v l IH]; intros acc c n H Hin.
  - cbn in H. inversion H; subst. destruct Hin as [H0|[v [[] _]]]. exact H0.
  - cbn [rfold] in H. destruct (nvar_disj acc v) as [a'|] eqn:E; [|discriminate]. cbn [rbind] in H. apply (IH _ _ n H).
    destruct Hin as [H0|[v0 [[<-|Hv] Hi]]].
    + left. apply (nvar_disj_cover _ _ _ n E). left. exact H0.
    + left. apply (nvar_disj_cover _ _ _ n E). right. exact Hi.
    + right. exists v0. auto.
Qed.

Lemma bterm_finalize_cover : forall b v s f n, bterm_finalize b = Ok v -> In s (members b) -> sterm_finalize s = Ok f -> in_variance n f -> in_variance n v.
Proof.
  intros [a|ss] v s f n H Hs Hf Hin; cbn [bterm_finalize members] in *.
  - destruct Hs as [<-|[]]. rewrite Hf in H. inversion H; subst. exact Hin.
  - destruct (rmapM sterm_finalize ss) as [vs|] eqn:Em; [|discriminate]. cbn [rbind] in H.
    destruct (rmapM_ok_in _ _ _ s Em Hs) as [f' [Hf' Hi]]. rewrite Hf in Hf'. inversion Hf'; subst f'.
    destruct vs as [|v0 vs']; [contradiction|]. cbn [rreduce] in H. destruct (rfold nvar_disj v0 vs') as [c|] eqn:Ef; [|discriminate]. cbn [rmap rbind] in H.
    inversion H; subst. apply (rfold_disj_cover _ _ _ n Ef). destruct Hi as [<-|Hi]; [left; exact Hin|right; exists f; auto].
Qed.

Lemma bterm_finalize_members_ok : forall b v s, bterm_finalize b = Ok v -> In s (members b) -> exists f, sterm_finalize s = Ok f.
Proof.
  intros [a|ss] v s H Hs; cbn [bterm_finalize members] in *.
  - destruct Hs as [<-|[]]. eauto.
  - destruct (rmapM sterm_finalize ss) as [vs|] eqn:Em; [|discriminate]. destruct (rmapM_ok_in _ _ _ s Em Hs) as [f [Hf _]]. eauto.
Qed.

(* ---- the theorem --------------------------------------------------------------------------------------------------------------------------------- *)
From WaxProofs Require Import PruneFacts.

Definition lit_ok (l : leaf) : bool := match l with LLit _ s => nosep s | _ => true end.

Lemma expands_lit_ok : forall t x, lits_nosep t = true -> Expands t x -> forallb lit_ok x = true.
Proof.
  induction t as [sp l|sp bs IH|sp ts IH|sp b lo hi IH] using tok_ind'; intros x Hl Hx.
  - inversion Hx; subst. cbn [forallb]. rewrite andb_true_r. destruct l; try reflexivity. exact Hl.
  - inversion Hx as [|sp0 bs0 bb x0 Hin Hxb| |]; subst. cbn [lits_nosep] in Hl. rewrite forallb_forall in Hl. rewrite Forall_forall in IH. exact (IH bb Hin x (Hl bb Hin) Hxb).
  - inversion Hx as [| |sp0 ts0 xs HF|]; subst. cbn [lits_nosep] in Hl. clear Hx. induction HF as [|t0 x0 ts' xs' Hx0 _ IHF]; [reflexivity|].
    inversion IH as [|? ? I0 I']; subst. cbn [forallb] in Hl. apply andb_prop in Hl. destruct Hl as [H0 Hl']. cbn [concat]. rewrite forallb_app.
    rewrite (I0 x0 H0 Hx0), (IHF I' Hl'). reflexivity.
  - inversion Hx as [| | |sp0 b0 lo0 hi0 xs Hb HF]; subst. cbn [lits_nosep] in Hl. clear Hx Hb. induction HF as [|x0 xs' Hx0 _ IHF]; [reflexivity|].
    cbn [concat]. rewrite forallb_app, (IH x0 Hl Hx0). exact IHF.
Qed.

Lemma count_seps_nsep : forall x, count_seps x = nsep x.
Proof.
  induction x as [|a x IH]; [reflexivity|]. unfold count_seps in *. cbn [filter nsep]. destruct (is_sep_leaf a); cbn [length]; rewrite <- IH; lia.
Qed.

Lemma leaf_ok_of : forall x, forallb lit_ok x = true -> trees x = false -> forallb leaf_ok x = true.
Proof.
  induction x as [|a x IH]; intros Hl Ht; [reflexivity|]. cbn [forallb] in *. unfold trees in *. cbn [existsb] in Ht.
  apply andb_prop in Hl. destruct Hl as [Ha Hl]. apply orb_false_iff in Ht. destruct Ht as [Hta Ht].
  rewrite (IH Hl Ht), andb_true_r. destruct a; try reflexivity; try discriminate. exact Ha.
Qed.

Section AltSound.
Variable orbit : char -> list char.
Hypothesis orbit_nosep : forall c d, In d (orbit c) -> d <> SEP.

Theorem depth_alt_sound : forall t v p x,
  nonempty_branches t = true -> rep_free t = true -> lits_nosep t = true ->
  depth_variance t = Ok v -> depth_closed_variant t = false ->
  Expands t x -> FlatMatch orbit true true x p -> chain_ok false x = true ->
  canonical p = true -> 1 <= ncomp p ->
  starts_sep p = (match x with a :: _ => leaf_is_rooting a | [] => false end) ->
  in_variance (ncomp p) v.
Proof.
  intros t v p x Hne Hrf Hlit Hv Hcv Hx Hm Hc Hcan Hn Hroot.
  unfold depth_variance in Hv. destruct (depth_fold t) as [r|] eqn:Ed; [|discriminate]. cbn [rbind] in Hv.
  destruct r as [b|]; [|exfalso; apply (depth_fold_some t Hne Hrf None Ed); reflexivity].
  destruct (rep_free_summarised t Hne Hrf b Ed x Hx Hc) as [[T vs] [Hs [Nx [Sh [Iv [Vf [Fl Bd]]]]]]]. cbn [fst snd] in *.
  destruct (bterm_finalize_members_ok _ _ _ Hv Hs) as [f Hf].
  apply (bterm_finalize_cover _ _ _ _ _ Hv Hs Hf).
  assert (Hncv : sterm_closed_variant (T, vs) = false).
  { unfold depth_closed_variant in Hcv. rewrite Ed in Hcv. destruct b as [s0|ss]; cbn [members] in Hs.
    - destruct Hs as [<-|[]]. exact Hcv.
    - destruct (sterm_closed_variant (T, vs)) eqn:E; [|reflexivity]. assert (existsb sterm_closed_variant ss = true) by (apply existsb_exists; eauto). congruence. }
  destruct x as [|a x']; [congruence|].
  (* a pattern that ends with a separator matches no canonical path that has a component *)
  assert (Hlast : last_opt (a :: x') <> Some LSep).
  { intros Ell. pose proof (last_sep_ends orbit _ _ _ _ Hm Ell) as He.
    unfold canonical in Hcan. apply andb_prop in Hcan. destruct Hcan as [_ Hcn]. rewrite He in Hcn. cbn [andb] in Hcn.
    apply negb_true_iff in Hcn. apply negb_false_iff in Hcn.
    destruct p as [|c [|d p']]; [discriminate| |discriminate].
    unfold ends_sep in He. cbn in He. unfold ncomp in Hn. cbn [starts_sep] in Hn. rewrite He in Hn. cbn in Hn. lia. }
  destruct (fin_lo _ _ _ Sh Hf) as [F1 [F2 F3]].
  destruct (trees (a :: x')) eqn:Et.
  - (* some tree wildcard: a lower bound *)
    specialize (Vf eq_refl). pose proof (F2 Vf) as Hvf. pose proof (runs_ncomp orbit a x' p Hc Hm Hroot Hn) as Hr.
    assert (Hlo : lo f <= ncomp p).
    { rewrite F3. unfold bound in Bd. destruct T; try lia. destruct vs as [n0|bv]; [destruct Vf|]. cbn in Hncv. discriminate. }
    destruct f as [n0|[[k|k|l e]|]]; try destruct Hvf; cbn [in_variance lo] in *; [lia|exact I].
  - (* no tree wildcard: the exact count *)
    specialize (Iv eq_refl). subst vs. pose proof (expands_lit_ok t _ Hlit Hx) as Hlo.
    pose proof (leaf_ok_of _ Hlo Et) as Hlk. pose proof (flat_seps orbit orbit_nosep _ _ _ _ Hlk Hm) as Hsp. rewrite count_seps_nsep in Hsp.
    unfold flags in Fl. assert (Est : single_tree (a :: x') = false).
    { destruct x' as [|b9 x'']; [|destruct a; reflexivity]. destruct a; try reflexivity. unfold trees in Et. cbn in Et. discriminate. }
    rewrite Est in Fl.
    assert (Hlb : lb (a :: x') = false).
    { unfold lb. destruct (last_opt (a :: x')) as [ll|] eqn:Ell; [|reflexivity]. destruct ll; try reflexivity; [congruence|].
      exfalso. assert (Hin : In (LTree root) (a :: x')).
      { clear - Ell. revert a Ell. induction x' as [|b x'' IH]; intros a Ell; [cbn in Ell; inversion Ell; left; reflexivity|].
        change (last_opt (a :: b :: x'')) with (last_opt (b :: x'')) in Ell. right. apply IH. exact Ell. }
      unfold trees in Et. assert (existsb is_tree_leaf (a :: x') = true) by (apply existsb_exists; exists (LTree root); auto). congruence. }
    rewrite Hlb in Fl. cbn [fb] in Fl.
    assert (Hfa : is_bnd a = is_sep_leaf a /\ leaf_is_rooting a = is_sep_leaf a).
    { unfold trees in Et. cbn [existsb] in Et. apply orb_false_iff in Et. destruct Et as [Eta _]. destruct a; try discriminate; auto. }
    destruct Hfa as [Hfa1 Hfa2]. rewrite Hfa1 in Fl. rewrite Hfa2 in Hroot.
    unfold ncomp in *. destruct p as [|c p']; [cbn in Hn; lia|]. rewrite Hroot in *.
    destruct (is_sep_leaf a); cbn [term_of_flags] in Fl; subst T; unfold sterm_finalize in Hf; cbn [fst snd] in Hf.
    + inversion Hf; subst. cbn [in_variance]. destruct (is_nil (tl (c :: p'))); [lia|exact Hsp].
    + cbn [nvar_conj rbind] in Hf. destruct (cadd (nsep (a :: x')) 1) as [s|] eqn:E; [|discriminate]. apply cadd_ok in E. inversion Hf; subst. cbn [in_variance]. lia.
Qed.

End AltSound.
