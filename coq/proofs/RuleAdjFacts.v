(* RuleAdjFacts.v -- C06: for globs without repetitions the rule checker is sound for the boundary rule over *expansions*: if the
   check passes, no expansion of the tree has two adjacent boundaries (separators / tree wildcards), however the alternations nest.
   The breadth-first branch check is characterised declaratively (every reachable item is processed without error), then an
   induction over the tree carries the outer context (the deep left and right neighbours) through nested alternations. *)
From Coq Require Import Arith Lia.
From WaxModel Require Import Base Token Regex Spec Encode Variance Fold Rule.
From WaxProofs Require Import SpecFacts EncodeLang RuleFacts FuelFacts ComposeFacts DepthFacts DepthTreeFacts DepthAltFacts.
Local Open Scope nat_scope.

(* ---- one item of the queue -------------------------------------------------------------------------------------------------------------------- *)
Definition step_err (o : outer) (x : option tok * tok * option tok) : option rule_kind :=
  let '(l, t, r) := x in
  match t with
  | TAlt sp bs =>
      first_some_l (fun b => match terminals_of (concatenation b) with
                             | Some tm => opt_first (check_branch tm (outer_or o l r)) (check_alternation tm (outer_or o l r))
                             | None => None
                             end) bs
  | TRep sp b lo hi =>
      match terminals_of (concatenation b) with
      | Some tm => opt_first (check_branch tm (outer_or o l r)) (check_repetition tm (outer_or o l r) lo hi)
      | None => None
      end
  | _ => None
  end.

Definition step_children (o : outer) (x : option tok * tok * option tok) : list (outer * tok) :=
  let '(l, t, r) := x in
  match t with
  | TAlt sp bs => map (fun b => (outer_or o l r, b)) bs
  | TRep sp b lo hi => [(outer_or o l r, b)]
  | _ => []
  end.

Lemma bstep_decomp : forall o err q x, exists err',
  bstep o (err, q) x = (err', q ++ step_children o x) /\ (err' = None <-> err = None /\ step_err o x = None).
Proof.
  intros o err q [[l t] r]. unfold bstep, step_err, step_children. destruct t as [sp lf|sp bs|sp ts|sp b lo hi].
  - exists err. rewrite app_nil_r. split; [reflexivity|tauto].
  - eexists. split; [reflexivity|]. destruct err; cbn [opt_first]; [split; [discriminate|intros [H _]; discriminate]|].
    destruct (first_some_l _ bs); cbn [option_map]; split; try tauto; try discriminate. intros [_ H]; discriminate.
  - exists err. rewrite app_nil_r. split; [reflexivity|tauto].
  - eexists. split; [reflexivity|]. destruct err; cbn [opt_first]; [split; [discriminate|intros [H _]; discriminate]|].
    destruct (match terminals_of (concatenation b) with Some tm => _ | None => None end); cbn [option_map]; split; try tauto; try discriminate. intros [_ H]; discriminate.
Qed.

Lemma fold_bstep_decomp : forall o xs err q, exists err',
  fold_left (bstep o) xs (err, q) = (err', q ++ flat_map (step_children o) xs) /\
  (err' = None <-> err = None /\ Forall (fun x => step_err o x = None) xs).
Proof.
  intros o. induction xs as [|x xs IH]; intros err q.
  - exists err. cbn. rewrite app_nil_r. split; [reflexivity|]. split; [auto|tauto].
  - cbn [fold_left flat_map]. destruct (bstep_decomp o err q x) as [e1 [E1 H1]]. rewrite E1.
    destruct (IH e1 (q ++ step_children o x)) as [e2 [E2 H2]]. exists e2. split; [rewrite E2, app_assoc; reflexivity|].
    rewrite H2, H1. split.
    + intros [[Ha Hb] Hc]. split; [exact Ha|constructor; assumption].
    + intros [Ha Hb]. inversion Hb; subst. tauto.
Qed.

Definition item_children (it : outer * tok) : list (outer * tok) :=
  flat_map (step_children (fst it)) (adjacent (concatenation (snd it))).

Lemma branch_item_decomp : forall o tk,
  snd (branch_item (o, tk)) = item_children (o, tk) /\
  (fst (branch_item (o, tk)) = None <-> Forall (fun x => step_err o x = None) (adjacent (concatenation tk))).
Proof.
  intros o tk. rewrite branch_item_eq. destruct (fold_bstep_decomp o (adjacent (concatenation tk)) None []) as [e [E H]].
  rewrite E. cbn [fst snd app]. split; [reflexivity|]. rewrite H. tauto.
Qed.

(* ---- every item the loop can reach is processed without error --------------------------------------------------------------------------------- *)
Inductive reach : outer * tok -> outer * tok -> Prop :=
| reach_refl : forall it, reach it it
| reach_step : forall it c d, In c (item_children it) -> reach c d -> reach it d.

Lemma loop_none : forall f q, branch_loop f q = None -> qsz q < f ->
  forall it, In it q -> forall d, reach it d -> fst (branch_item d) = None.
Proof.
  induction f as [|f IH]; intros q H Hs it Hin d Hr; [lia|].
  cbn [branch_loop] in H. destruct q as [|item rest]; [contradiction|].
  pose proof (branch_item_size item) as Hsz. destruct (branch_item item) as [err more] eqn:Eb. destruct err; [discriminate|].
  assert (Hq : qsz (rest ++ more) < f).
  { rewrite qsz_app. cbn [snd] in Hsz. cbn [qsz fold_right] in Hs. fold (qsz rest) in Hs. lia. }
  assert (Hmore : more = item_children item).
  { destruct item as [o tk]. destruct (branch_item_decomp o tk) as [H1 _]. rewrite Eb in H1. exact H1. }
  subst more. destruct Hin as [<-|Hin].
  - inversion Hr as [|? c ? Hc Hcd]; subst.
    + rewrite Eb. reflexivity.
    + apply (IH _ H Hq c); [apply in_or_app; right; exact Hc|exact Hcd].
  - apply (IH _ H Hq it); [apply in_or_app; left; exact Hin|exact Hr].
Qed.

Definition item_ok (o : outer) (tk : tok) : Prop := forall d, reach (o, tk) d -> fst (branch_item d) = None.

Lemma check_item_ok : forall t, check t = Ok None -> item_ok outer_default t.
Proof.
  intros t H d Hr. unfold check in H. destruct (rule_boundary t); [discriminate|]. destruct (rule_bounds t); [discriminate|].
  destruct (rule_branch t) eqn:E; [discriminate|]. unfold rule_branch in E.
  apply (loop_none _ _ E ltac:(cbn; lia) (outer_default, t)); [left; reflexivity|exact Hr].
Qed.

Lemma item_ok_child : forall o tk c, item_ok o tk -> In c (item_children (o, tk)) -> item_ok (fst c) (snd c).
Proof. intros o tk [oc tc] H Hin d Hr. apply H. eapply reach_step; [exact Hin|exact Hr]. Qed.

(* ---- the shape of parsed trees without repetitions: members of a concatenation are leaves or alternations, branches are concatenations ---------- *)
Fixpoint shp (t : tok) : bool :=
  match t with
  | TLeaf _ _ => true
  | TAlt _ bs => forallb (fun b => is_cat b && shp b) bs
  | TCat _ ts => forallb (fun m => negb (is_cat m) && shp m) ts
  | TRep _ _ _ _ => false
  end.

Lemma shp_rep_free : forall t, shp t = true -> rep_free t = true.
Proof.
  induction t as [sp l|sp bs IH|sp ts IH|sp b lo hi IH] using tok_ind'; intros H; try reflexivity; try discriminate; cbn [shp rep_free] in *.
  - rewrite forallb_forall in *. rewrite Forall_forall in IH. intros b Hb. specialize (H b Hb). apply andb_prop in H. apply (IH b Hb). apply H.
  - rewrite forallb_forall in *. rewrite Forall_forall in IH. intros b Hb. specialize (H b Hb). apply andb_prop in H. apply (IH b Hb). apply H.
Qed.

Lemma rep_free_fnull : forall t, nonempty_branches t = true -> rep_free t = true -> fnull t = false.
Proof.
  induction t as [sp l|sp bs IH|sp ts IH|sp b lo hi IH] using tok_ind'; cbn [fnull rep_free nonempty_branches]; intros Hn Hs; try discriminate.
  - reflexivity.
  - apply andb_prop in Hn. destruct Hn as [_ Hn]. rewrite forallb_forall in Hn, Hs. rewrite Forall_forall in IH.
    destruct (existsb fnull bs) eqn:E; [|reflexivity]. apply existsb_exists in E. destruct E as [b [Hin Hb]]. rewrite (IH b Hin (Hn b Hin) (Hs b Hin)) in Hb. discriminate.
  - apply andb_prop in Hn. destruct Hn as [Hnil Hn]. destruct ts as [|t0 ts']; [discriminate|]. inversion IH as [|? ? I0 _]; subst.
    cbn [forallb] in *. apply andb_prop in Hn, Hs. rewrite (I0 (proj1 Hn) (proj1 Hs)). reflexivity.
Qed.

Lemma expands_nonempty : forall t x, nonempty_branches t = true -> rep_free t = true -> Expands t x -> x <> [].
Proof. intros t x Hn Hr Hx ->. pose proof (expands_nil_fnull t Hx) as H. rewrite (rep_free_fnull t Hn Hr) in H. discriminate. Qed.

Definition starts_b (t : tok) : bool := starts_with is_boundary t.
Definition ends_b (t : tok) : bool := ends_with is_boundary t.

Lemma is_boundary_leaf : forall sp l, is_boundary (TLeaf sp l) = is_bnd l.
Proof. intros sp []; reflexivity. Qed.

(* a token that cannot begin with a boundary has no expansion that does *)
Lemma starts_b_sound : forall t, nonempty_branches t = true -> rep_free t = true -> starts_b t = false ->
  forall x, Expands t x -> fb x = false.
Proof.
  unfold starts_b. induction t as [sp l|sp bs IH|sp ts IH|sp b lo hi IH] using tok_ind'; intros Hn Hr Hs x Hx; try discriminate.
  - inversion Hx; subst. cbn [starts_with] in Hs. rewrite orb_false_r, is_boundary_leaf in Hs. exact Hs.
  - inversion Hx as [|sp0 bs0 bb x0 Hin Hxb| |]; subst. cbn [starts_with nonempty_branches rep_free] in *. cbn [is_boundary tboundary orb] in Hs.
    apply andb_prop in Hn. destruct Hn as [_ Hn]. rewrite forallb_forall in Hn, Hr. rewrite Forall_forall in IH.
    apply (IH bb Hin (Hn bb Hin) (Hr bb Hin)); [|exact Hxb].
    destruct (starts_with is_boundary bb) eqn:E; [|reflexivity]. assert (existsb (starts_with is_boundary) bs = true) by (apply existsb_exists; eauto). congruence.
  - inversion Hx as [| |sp0 ts0 xs HF|]; subst. cbn [starts_with nonempty_branches rep_free] in *. cbn [is_boundary tboundary orb] in Hs.
    apply andb_prop in Hn. destruct Hn as [_ Hn]. destruct HF as [|t0 x0 ts' xs' Hx0 HF']; [reflexivity|].
    inversion IH as [|? ? I0 _]; subst. cbn [forallb] in Hn, Hr. apply andb_prop in Hn, Hr. cbn [concat].
    rewrite fb_app by (eapply expands_nonempty; [apply Hn|apply Hr|exact Hx0]). apply (I0 (proj1 Hn) (proj1 Hr) Hs _ Hx0).
Qed.

Lemma ends_with_cat : forall p sp ts t, last_opt ts = Some t -> ends_with p (TCat sp ts) = p (TCat sp ts) || ends_with p t.
Proof.
  intros p sp ts t H. cbn [ends_with]. f_equal. induction ts as [|a ts IH]; [discriminate|]. destruct ts as [|b ts'].
  - cbn in H. inversion H; subst. reflexivity.
  - change (last_opt (a :: b :: ts')) with (last_opt (b :: ts')) in H. rewrite <- (IH H). reflexivity.
Qed.

Lemma forall2_last : forall {A B} (R : A -> B -> Prop) l l' a, Forall2 R l l' -> last_opt l = Some a ->
  exists pre b, l' = pre ++ [b] /\ R a b.
Proof.
  intros A B R l l' a H. induction H as [|x y l l' Hxy HF IH]; intros Hl; [discriminate|]. destruct l as [|x2 l2].
  - inversion HF; subst. cbn in Hl. inversion Hl; subst. exists [], y. auto.
  - change (last_opt (x :: x2 :: l2)) with (last_opt (x2 :: l2)) in Hl. destruct (IH Hl) as [pre [b [-> Hb]]]. exists (y :: pre), b. auto.
Qed.

Lemma starts_concat_snoc : forall (pre : list (list leaf)) b, b <> [] -> lb (concat (pre ++ [b])) = lb b.
Proof. intros pre b Hb. rewrite concat_app. cbn [concat]. rewrite app_nil_r. apply lb_app. exact Hb. Qed.

Lemma ends_b_sound : forall t, nonempty_branches t = true -> rep_free t = true -> ends_b t = false ->
  forall x, Expands t x -> lb x = false.
Proof.
  unfold ends_b. induction t as [sp l|sp bs IH|sp ts IH|sp b lo hi IH] using tok_ind'; intros Hn Hr Hs x Hx; try discriminate.
  - inversion Hx; subst. cbn [ends_with] in Hs. rewrite orb_false_r, is_boundary_leaf in Hs. exact Hs.
  - inversion Hx as [|sp0 bs0 bb x0 Hin Hxb| |]; subst. cbn [ends_with nonempty_branches rep_free] in *. cbn [is_boundary tboundary orb] in Hs.
    apply andb_prop in Hn. destruct Hn as [_ Hn]. rewrite forallb_forall in Hn, Hr. rewrite Forall_forall in IH.
    apply (IH bb Hin (Hn bb Hin) (Hr bb Hin)); [|exact Hxb].
    destruct (ends_with is_boundary bb) eqn:E; [|reflexivity]. assert (existsb (ends_with is_boundary) bs = true) by (apply existsb_exists; eauto). congruence.
  - inversion Hx as [| |sp0 ts0 xs HF|]; subst. cbn [nonempty_branches rep_free] in *.
    apply andb_prop in Hn. destruct Hn as [Hnil Hn]. destruct (last_opt_nonempty ts) as [tl Htl]; [destruct ts; [discriminate|discriminate]|].
    rewrite (ends_with_cat _ sp ts tl Htl) in Hs. cbn [is_boundary tboundary orb] in Hs.
    destruct (forall2_last _ _ _ _ HF Htl) as [pre [b [-> Hb]]].
    assert (Hin : In tl ts). { clear - Htl. induction ts as [|a ts IH]; [discriminate|]. destruct ts as [|c ts']; [cbn in Htl; inversion Htl; left; reflexivity|right; apply IH; exact Htl]. }
    rewrite forallb_forall in Hn, Hr. rewrite Forall_forall in IH.
    rewrite starts_concat_snoc by (eapply expands_nonempty; [apply (Hn tl Hin)|apply (Hr tl Hin)|exact Hb]).
    apply (IH tl Hin (Hn tl Hin) (Hr tl Hin) Hs _ Hb).
Qed.

(* ---- the claims ------------------------------------------------------------------------------------------------------------------------------------- *)
Definition ctx (o : outer) (x : list leaf) : Prop :=
  (has_ending_boundary (o_left o) = true -> fb x = false) /\ (has_starting_boundary (o_right o) = true -> lb x = false).

Definition term_ok_b (o : outer) (b : tok) : Prop :=
  match terminals_of (concatenation b) with Some tm => check_branch tm o = None | None => True end.

Definition P (t : tok) : Prop := forall o,
  match t with
  | TCat sp ts => item_ok o t -> forall x, Expands t x -> chain_ok false x = true /\ (term_ok_b o t -> ctx o x)
  | TAlt sp bs => (forall b, In b bs -> item_ok o b /\ term_ok_b o b) -> forall x, Expands t x -> chain_ok false x = true /\ ctx o x
  | _ => True
  end.

(* a member of a concatenation: a leaf or an alternation *)
Definition member (m : tok) : Prop :=
  negb (is_cat m) = true /\ shp m = true /\ nonempty_branches m = true.

Definition mfact (o : outer) (tr : option tok * tok * option tok) : Prop :=
  let '(l, m, r) := tr in forall x, Expands m x -> x <> [] /\ chain_ok false x = true /\
     match m with TAlt _ _ => ctx (outer_or o l r) x | _ => True end.

Lemma opt_first_none : forall {A} (a b : option A), opt_first a b = None -> a = None.
Proof. intros A [x|] b H; [discriminate|reflexivity]. Qed.

Lemma mfact_of : forall o l m r, P m -> member m -> step_err o (l, m, r) = None ->
  (forall c, In c (step_children o (l, m, r)) -> item_ok (fst c) (snd c)) -> mfact o (l, m, r).
Proof.
  intros o l m r HP [Hnc [Hs Hn]] He Hc x Hx. pose proof (expands_nonempty m x Hn (shp_rep_free m Hs) Hx) as Hne. split; [exact Hne|].
  destruct m as [sp lf|sp bs|sp ts|sp b lo hi]; try discriminate.
  - inversion Hx; subst. split; [reflexivity|exact I].
  - cbn [step_err step_children] in He, Hc. apply first_some_l_none in He. rewrite Forall_forall in He.
    assert (Hb : forall b, In b bs -> item_ok (outer_or o l r) b /\ term_ok_b (outer_or o l r) b).
    { intros b Hin. split; [apply (Hc (outer_or o l r, b)); apply in_map_iff; exists b; auto|].
      specialize (He b Hin). unfold term_ok_b. destruct (terminals_of (concatenation b)) as [tm|]; [|exact I]. eapply opt_first_none; exact He. }
    exact (HP (outer_or o l r) Hb x Hx).
Qed.

Lemma chain_ok_true_of : forall y, chain_ok false y = true -> fb y = false -> chain_ok true y = true.
Proof. intros [|a y] H Hf; [reflexivity|]. cbn [chain_ok fb] in *. rewrite Hf in *. cbn [andb negb] in *. exact H. Qed.

Lemma chain_ok_app_intro : forall x y pb, x <> [] -> chain_ok pb x = true -> chain_ok (lb x) y = true -> chain_ok pb (x ++ y) = true.
Proof.
  induction x as [|a x IH]; intros y pb Hx H1 H2; [congruence|]. cbn [app chain_ok] in *. apply andb_prop in H1. destruct H1 as [Ha H1]. rewrite Ha. cbn [andb].
  destruct x as [|b x'].
  - cbn [app]. exact H2.
  - apply IH; [discriminate|exact H1|exact H2].
Qed.

Fixpoint juncs (xs : list (list leaf)) : Prop :=
  match xs with x :: ((y :: _) as r) => lb x && fb y = false /\ juncs r | _ => True end.

Lemma chain_concat : forall xs, Forall (fun x => x <> [] /\ chain_ok false x = true) xs -> juncs xs -> chain_ok false (concat xs) = true.
Proof.
  induction xs as [|x xs IH]; intros HF HJ; [reflexivity|]. inversion HF as [|? ? [Nx Cx] HF']; subst. cbn [concat].
  destruct xs as [|y ys]; [cbn [concat]; rewrite app_nil_r; exact Cx|].
  destruct HJ as [Hj HJ']. apply chain_ok_app_intro; [exact Nx|exact Cx|].
  specialize (IH HF' HJ'). destruct (lb x) eqn:El; [|exact IH]. cbn [andb] in Hj. apply chain_ok_true_of; [exact IH|].
  inversion HF' as [|? ? [Ny _] _]; subst. cbn [concat]. rewrite fb_app by exact Ny. exact Hj.
Qed.

Lemma junction : forall o l a b r xa xb,
  mfact o (l, a, Some b) -> mfact o (Some a, b, r) -> member a -> member b ->
  is_boundary a && is_boundary b = false -> Expands a xa -> Expands b xb -> lb xa && fb xb = false.
Proof.
  intros o l a b r xa xb Ma Mb [Hca [Hsa Hna]] [Hcb [Hsb Hnb]] Hadj Hxa Hxb.
  destruct (Ma xa Hxa) as [_ [_ Ca]]. destruct (Mb xb Hxb) as [_ [_ Cb]].
  destruct a as [spa la|spa bsa|spa tsa|spa ba loa hia]; try discriminate.
  - inversion Hxa; subst. change (lb [la]) with (is_bnd la). rewrite is_boundary_leaf in Hadj. destruct (is_bnd la) eqn:Ela; [|reflexivity]. cbn [andb] in *.
    destruct b as [spb lb0|spb bsb|spb tsb|spb bb lob hib]; try discriminate.
    + inversion Hxb; subst. rewrite is_boundary_leaf in Hadj. exact Hadj.
    + destruct Cb as [Cb _]. apply Cb. cbn [outer_or o_left opt_or has_ending_boundary opt_any]. cbn [ends_with]. rewrite is_boundary_leaf, Ela. reflexivity.
  - destruct Ca as [_ Ca]. cbn [outer_or o_right opt_or has_starting_boundary opt_any] in Ca.
    destruct (starts_with is_boundary b) eqn:Esb.
    + rewrite (Ca eq_refl). reflexivity.
    + rewrite (starts_b_sound b Hnb (shp_rep_free b Hsb) Esb xb Hxb). apply andb_false_r.
Qed.

Lemma members_facts : forall o ms xs, Forall2 Expands ms xs -> forall lf,
  (forall tr, In tr (adjacent_aux lf ms) -> mfact o tr) -> Forall member ms -> adjacent_boundary ms = None ->
  Forall (fun x => x <> [] /\ chain_ok false x = true) xs /\ juncs xs.
Proof.
  intros o ms xs HF. induction HF as [|m x ms' xs' Hx HF' IH]; intros lf Hm Hmem Hadj; [split; [constructor|exact I]|].
  inversion Hmem as [|? ? Hm0 Hmem']; subst. cbn [adjacent_aux] in Hm.
  pose proof (Hm _ (or_introl eq_refl)) as M0. destruct (M0 x Hx) as [Nx [Cx _]].
  destruct (IH (Some m) (fun tr Hin => Hm tr (or_intror Hin)) Hmem' (adjacent_boundary_tail _ _ Hadj)) as [F' J'].
  split; [constructor; [split; assumption|exact F']|].
  destruct HF' as [|m2 y ms2 ys Hy HF2]; [exact I|]. cbn [juncs]. split; [|exact J'].
  inversion Hmem' as [|? ? Hm2 _]; subst. cbn [adjacent_aux] in Hm.
  eapply (junction o lf m m2 _ x y); [exact M0|apply Hm; right; left; reflexivity|exact Hm0|exact Hm2| |exact Hx|exact Hy].
  cbn [adjacent_boundary] in Hadj. destruct (is_boundary m && is_boundary m2); [discriminate|reflexivity].
Qed.

Lemma adjacent_last : forall ts lf e, last_opt ts = Some e -> exists l, In (l, e, None) (adjacent_aux lf ts).
Proof.
  induction ts as [|a ts IH]; intros lf e H; [discriminate|]. destruct ts as [|b ts'].
  - cbn in H. inversion H; subst. exists lf. left. reflexivity.
  - change (last_opt (a :: b :: ts')) with (last_opt (b :: ts')) in H. destruct (IH (Some a) e H) as [l Hl]. exists l. right. exact Hl.
Qed.

Lemma leaf_boundary_split : forall sp l, is_boundary (TLeaf sp l) = is_sep (TLeaf sp l) || is_tree (TLeaf sp l).
Proof. intros sp []; reflexivity. Qed.

Ltac crack H := repeat match type of H with (if ?c then _ else _) = None => let E := fresh "E" in destruct c eqn:E; [discriminate|] end.

(* the outer context of an item reaches its first and last members *)
Lemma item_ctx : forall o sp ts xs, ts <> [] -> Forall2 Expands ts xs -> Forall member ts ->
  (forall tr, In tr (adjacent ts) -> mfact o tr) -> term_ok_b o (TCat sp ts) -> ctx o (concat xs).
Proof.
  intros o sp ts xs Hne HF Hmem Hm Ht. unfold term_ok_b in Ht. cbn [concatenation] in Ht.
  destruct HF as [|m1 x1 ts' xs' Hx1 HF']; [congruence|]. inversion Hmem as [|? ? Hm1 Hmem']; subst.
  assert (N1 : x1 <> []) by (destruct Hm1 as [_ [Hs Hn]]; eapply expands_nonempty; [exact Hn|apply shp_rep_free; exact Hs|exact Hx1]).
  split.
  - (* left *) intros Hl. cbn [concat]. rewrite fb_app by exact N1. unfold adjacent in Hm. cbn [adjacent_aux] in Hm.
    pose proof (Hm _ (or_introl eq_refl)) as M1. destruct (M1 x1 Hx1) as [_ [_ C1]].
    destruct m1 as [s1 l1|s1 bs1|s1 cs1|s1 b1 lo1 hi1]; try (destruct Hm1 as [Hc _]; discriminate).
    + inversion Hx1; subst. change (fb [l1]) with (is_bnd l1). rewrite <- (is_boundary_leaf s1 l1), leaf_boundary_split.
      destruct ts' as [|m2 ts2]; cbn [terminals_of] in Ht.
      * unfold check_branch in Ht. crack Ht. rewrite ?Hl, ?andb_true_r in *. destruct (is_sep (TLeaf s1 l1)), (is_tree (TLeaf s1 l1)); cbn in *; try discriminate; reflexivity.
      * destruct (last_opt_nonempty (m2 :: ts2)) as [e He]; [discriminate|]. rewrite He in Ht.
        unfold check_branch in Ht. crack Ht. rewrite ?Hl, ?andb_true_r in *. destruct (is_sep (TLeaf s1 l1)), (is_tree (TLeaf s1 l1)); cbn in *; try discriminate; reflexivity.
    + destruct C1 as [C1 _]. apply C1. cbn [outer_or o_left opt_or]. exact Hl.
    + destruct (shp (TRep s1 b1 lo1 hi1)) eqn:E; [discriminate|]. destruct Hm1 as [_ [Hs _]]. congruence.
  - (* right *) intros Hr. destruct (last_opt_nonempty (m1 :: ts')) as [e He]; [discriminate|].
    destruct (forall2_last _ _ _ _ (Forall2_cons _ _ Hx1 HF') He) as [pre [xe [Exs Hxe]]]. rewrite Exs.
    assert (Hine : In e (m1 :: ts')). { clear - He. revert He. generalize (m1 :: ts'). induction l as [|a l IH]; [discriminate|]. destruct l as [|c l']; [cbn; intros H; inversion H; auto|intros H; right; apply IH; exact H]. }
    rewrite Forall_forall in Hmem. destruct (Hmem e Hine) as [Hce [Hse Hne']].
    rewrite starts_concat_snoc by (eapply expands_nonempty; [exact Hne'|apply shp_rep_free; exact Hse|exact Hxe]).
    destruct (adjacent_last (m1 :: ts') None e He) as [le Hle]. pose proof (Hm _ Hle) as Me. destruct (Me xe Hxe) as [_ [_ Ce]].
    destruct e as [se le0|se bse|se cse|se be loe hie]; try discriminate.
    + inversion Hxe; subst. change (lb [le0]) with (is_bnd le0). rewrite <- (is_boundary_leaf se le0), leaf_boundary_split.
      destruct ts' as [|m2 ts2]; cbn [terminals_of] in Ht.
      * cbn in He. inversion He; subst. unfold check_branch in Ht. crack Ht. rewrite ?Hr, ?andb_true_r in *. destruct (is_sep (TLeaf se le0)), (is_tree (TLeaf se le0)); cbn in *; try discriminate; reflexivity.
      * change (last_opt (m1 :: m2 :: ts2)) with (last_opt (m2 :: ts2)) in He. rewrite He in Ht. unfold check_branch in Ht. crack Ht.
        rewrite ?Hr, ?andb_true_r in *. destruct (is_sep (TLeaf se le0)), (is_tree (TLeaf se le0)); cbn in *; try discriminate; reflexivity.
    + destruct Ce as [_ Ce]. apply Ce. cbn [outer_or o_right opt_or]. exact Hr.
Qed.

(* ---- the induction ------------------------------------------------------------------------------------------------------------------------------------ *)
Definition cats_ok (t : tok) : Prop := forall sp ts, sub (TCat sp ts) t -> adjacent_boundary ts = None.

Lemma cats_ok_child : forall t c, cats_ok t -> In c (children t) -> cats_ok c.
Proof. intros t c H Hin sp ts Hs. apply (H sp ts). eapply sub_child; [exact Hin|exact Hs]. Qed.

Lemma adjacent_member : forall ts lf l m r, In (l, m, r) (adjacent_aux lf ts) -> In m ts.
Proof.
  intros ts lf l m r H. rewrite <- (adjacent_aux_mid ts lf). apply in_map_iff. exists (l, m, r). split; [reflexivity|exact H].
Qed.

Theorem claims : forall t, shp t = true -> nonempty_branches t = true -> cats_ok t -> P t.
Proof.
  induction t as [sp l|sp bs IH|sp ts IH|sp b lo hi IH] using tok_ind'; intros Hs Hn Hc o; cbn [P]; try exact I.
  - (* an alternation in the context o: every branch is an item *)
    intros Hb x Hx. inversion Hx as [|sp0 bs0 bb x0 Hin Hxb| |]; subst.
    cbn [shp nonempty_branches] in Hs, Hn. apply andb_prop in Hn. destruct Hn as [_ Hn]. rewrite forallb_forall in Hs, Hn. rewrite Forall_forall in IH.
    specialize (Hs bb Hin). apply andb_prop in Hs. destruct Hs as [Hcat Hsb].
    destruct (Hb bb Hin) as [Hok Ht].
    pose proof (IH bb Hin Hsb (Hn bb Hin) (cats_ok_child _ _ Hc Hin) o) as HP.
    destruct bb as [| |spb tsb|]; try discriminate. destruct (HP Hok x Hxb) as [C1 C2]. split; [exact C1|exact (C2 Ht)].
  - (* a concatenation as an item *)
    intros Hok x Hx. inversion Hx as [| |sp0 ts0 xs HF|]; subst.
    cbn [shp nonempty_branches] in Hs, Hn. apply andb_prop in Hn. destruct Hn as [Hnil Hn].
    assert (Hmem : Forall member ts).
    { apply Forall_forall. intros m Hm. rewrite forallb_forall in Hs, Hn. specialize (Hs m Hm). apply andb_prop in Hs. destruct Hs as [H1 H2]. split; [exact H1|]. split; [exact H2|exact (Hn m Hm)]. }
    destruct (branch_item_decomp o (TCat sp ts)) as [_ Herr]. pose proof (proj1 Herr (Hok _ (reach_refl _))) as Hsteps. cbn [concatenation] in Hsteps.
    rewrite Forall_forall in Hsteps.
    assert (Hm : forall tr, In tr (adjacent ts) -> mfact o tr).
    { intros [[l m] r] Hin. pose proof (adjacent_member _ _ _ _ _ Hin) as Hmin. rewrite Forall_forall in IH, Hmem.
      destruct (Hmem m Hmin) as [Hc1 [Hs1 Hn1]].
      apply mfact_of; [apply (IH m Hmin Hs1 Hn1 (cats_ok_child (TCat sp ts) m Hc Hmin))|exact (Hmem m Hmin)|exact (Hsteps _ Hin)|].
      intros c Hcin. apply (item_ok_child o (TCat sp ts) c Hok). unfold item_children. cbn [fst snd concatenation]. apply in_flat_map. exists (l, m, r). split; [exact Hin|exact Hcin]. }
    pose proof (Hc sp ts (sub_refl _)) as Hadj.
    destruct (members_facts o ts xs HF None Hm Hmem Hadj) as [F J]. split; [apply chain_concat; assumption|].
    intros Ht. apply (item_ctx o sp ts xs); try assumption. destruct ts; [discriminate|discriminate].
Qed.

(* C06 / C10: every expansion of a glob without repetitions that passes the rule checker is free of adjacent boundaries *)
Theorem check_no_adjacent_boundaries : forall t, check t = Ok None -> shp t = true -> nonempty_branches t = true ->
  forall x, Expands t x -> chain_ok false x = true.
Proof.
  intros t Hck Hs Hn x Hx. assert (Hc : cats_ok t) by (intros sp ts Hsub; exact (built_no_adjacent_boundary_everywhere t Hck sp ts Hsub)).
  pose proof (claims t Hs Hn Hc outer_default) as HP. pose proof (check_item_ok t Hck) as Hok.
  destruct t as [sp l|sp bs|sp ts|sp b lo hi]; try discriminate.
  - inversion Hx; subst. reflexivity.
  - (* an alternation at the root: its own item holds it as the only member *)
    assert (Hb : forall b, In b bs -> item_ok (outer_or outer_default None None) b /\ term_ok_b (outer_or outer_default None None) b).
    { destruct (branch_item_decomp outer_default (TAlt sp bs)) as [_ Herr]. pose proof (proj1 Herr (Hok _ (reach_refl _))) as Hsteps. cbn [concatenation adjacent adjacent_aux] in Hsteps.
      inversion Hsteps as [|? ? He _]; subst. cbn [step_err] in He. apply first_some_l_none in He. rewrite Forall_forall in He.
      intros b Hin. split.
      - apply (item_ok_child outer_default (TAlt sp bs) (outer_or outer_default None None, b) Hok). unfold item_children. cbn [fst snd concatenation adjacent adjacent_aux flat_map step_children].
        rewrite app_nil_r. apply in_map_iff. exists b. auto.
      - specialize (He b Hin). unfold term_ok_b. destruct (terminals_of (concatenation b)) as [tm|]; [|exact I]. eapply opt_first_none; exact He. }
    exact (proj1 (HP Hb x Hx)).
  - exact (proj1 (HP Hok x Hx)).
Qed.
