(* RootRep.v -- C12, second sentence, beyond globs without repetitions: `has_root` only looks at the starting chain of the tree (the first
   token, and through alternations the first token of every branch), so a glob never reports "sometimes rooted" as soon as that chain
   holds no repetition - repetitions anywhere else are irrelevant - or the expression begins with a repetition whose body begins with a
   leaf (`<a/:1,>b`, `</a:1,>`: rooted like the leaf; `</a:0,>` is rejected as a rooted sub-glob).  What remains is the known class
   nested_rooting: a repetition at the beginning of an alternation branch or of another repetition. *)
From Coq Require Import Arith Lia.
From WaxModel Require Import Base Token Regex Spec Encode Variance Fold Rule Parse Query Glob.
From WaxProofs Require Import SpecFacts EncodeLang RuleFacts FuelFacts DepthTreeFacts DepthAltFacts BuiltNonempty RuleAdjFacts ParseShape ExhaustFacts RootFacts.
Local Open Scope nat_scope.

(* the starting chain holds no repetition; branches are concatenations, members are not *)
Fixpoint srf (t : tok) : bool :=
  match t with
  | TLeaf _ _ => true
  | TAlt _ bs => forallb (fun b => is_cat b && srf b) bs
  | TCat _ ts => match ts with [] => true | t0 :: _ => negb (is_cat t0) && srf t0 end
  | TRep _ _ _ _ => false
  end.

Theorem starting_chain_unrooted : forall t, srf t = true -> nonempty_branches t = true -> Q t.
Proof.
  induction t as [sp l|sp bs IH|sp ts IH|sp b lo hi IH] using tok_ind'; intros Hs Hn o Ho; cbn [Q]; try exact I.
  - intros Hb. cbn [has_root_fold]. cbn [srf nonempty_branches] in Hs, Hn. apply andb_prop in Hn. destruct Hn as [Hnil Hn]. rewrite forallb_forall in Hs, Hn. rewrite Forall_forall in IH.
    assert (Hall : forall b, In b bs -> has_root_fold b = Some Never).
    { intros b Hin. specialize (Hs b Hin). apply andb_prop in Hs. destruct Hs as [Hcat Hsb]. destruct (Hb b Hin) as [Hok Ha].
      pose proof (IH b Hin Hsb (Hn b Hin) o Ho) as HQ. destruct b as [| |spb tsb|]; try discriminate. exact (HQ Hok Ha). }
    apply certainty_never.
    + destruct bs as [|b0 bs']; [discriminate|]. cbn [flat_map]. rewrite (Hall b0 (or_introl eq_refl)). discriminate.
    + apply Forall_forall. intros w Hw. apply in_flat_map in Hw. destruct Hw as [b [Hin Hw]]. rewrite (Hall b Hin) in Hw. destruct Hw as [<-|[]]. reflexivity.
  - intros Hok Ha. cbn [srf nonempty_branches] in Hs, Hn. apply andb_prop in Hn. destruct Hn as [Hnil Hn].
    destruct ts as [|t0 ts']; [discriminate|]. cbn [has_root_fold]. inversion IH as [|? ? IH0 _]; subst.
    cbn [forallb] in Hn. apply andb_prop in Hn. destruct Hn as [Hn0 _]. apply andb_prop in Hs. destruct Hs as [Hnc0 Hs0].
    destruct t0 as [s0 l0|s0 bs0|s0 cs0|s0 b0 lo0 hi0]; try discriminate.
    + (* a leaf: the alternation rule rejects a rooting first terminal *)
      cbn [has_root_fold opt_list reduce_pure fold_left]. unfold alt_ok_b in Ha. cbn [concatenation] in Ha.
      assert (Hf : (is_sep (TLeaf s0 l0) || is_rooted_tree (TLeaf s0 l0)) = false).
      { destruct ts' as [|m2 ts2]; cbn [terminals_of] in Ha.
        - unfold check_alternation in Ha. rewrite Ho in Ha. cbn [isSome negb] in Ha. rewrite andb_true_r in Ha. destruct (is_sep _ || is_rooted_tree _); [discriminate|reflexivity].
        - destruct (last_opt (m2 :: ts2)) as [e|] eqn:El.
          + unfold check_alternation in Ha. rewrite Ho in Ha. cbn [isSome negb] in Ha. rewrite andb_true_r in Ha. destruct (is_sep _ || is_rooted_tree _); [discriminate|reflexivity].
          + destruct (DepthFacts.last_opt_nonempty (m2 :: ts2)) as [e He]; [discriminate|]. congruence. }
      f_equal. destruct l0; try reflexivity; cbn in Hf; try discriminate. destruct root; [discriminate|reflexivity].
    + (* a nested alternation: same context *)
      destruct (branch_item_decomp o (TCat sp (TAlt s0 bs0 :: ts'))) as [_ Herr]. pose proof (proj1 Herr (Hok _ (reach_refl _))) as Hsteps.
      cbn [concatenation] in Hsteps. unfold adjacent in Hsteps. cbn [adjacent_aux] in Hsteps. inversion Hsteps as [|? ? He _]; subst. cbn [step_err] in He.
      apply first_some_l_none in He. rewrite Forall_forall in He.
      set (o' := outer_or o None (match ts' with r :: _ => Some r | [] => None end)) in *.
      assert (Ho' : o_left o' = None) by (unfold o'; cbn [outer_or o_left opt_or]; exact Ho).
      assert (Hb : forall b, In b bs0 -> item_ok o' b /\ alt_ok_b o' b).
      { intros b Hin. split.
        - apply (item_ok_child o (TCat sp (TAlt s0 bs0 :: ts')) (o', b) Hok). unfold item_children. cbn [fst snd concatenation]. unfold adjacent. cbn [adjacent_aux flat_map step_children].
          apply in_or_app. left. apply in_map_iff. exists b. auto.
        - specialize (He b Hin). unfold alt_ok_b. fold o' in He. destruct (terminals_of (concatenation b)) as [tm|]; [|exact I]. exact (proj2 (opt_first_none2 _ _ He)). }
      pose proof (IH0 Hs0 Hn0 o' Ho' Hb) as H0. rewrite H0. reflexivity.
Qed.


Definition leaf_first_rep (t : tok) : bool :=
  match t with
  | TRep _ b _ _ => is_cat b && match concatenation b with m :: _ => is_leaf m | [] => false end
  | _ => false
  end.

Definition start_ok (t : tok) : bool :=
  match t with
  | TLeaf _ _ => true
  | TCat _ [] => true
  | TCat _ (t0 :: _) => negb (is_cat t0) && (srf t0 || leaf_first_rep t0)
  | _ => false
  end.

Lemma rooting_leaf : forall s l, (is_sep (TLeaf s l) || is_rooted_tree (TLeaf s l)) = false -> leaf_is_rooting l = false.
Proof. intros s l H. destruct l; try reflexivity; cbn in H; try discriminate. destruct root; [discriminate|reflexivity]. Qed.

Theorem check_never_sometimes_r : forall t, check t = Ok None -> start_ok t = true -> nonempty_branches t = true -> has_root t <> Sometimes.
Proof.
  intros t Hck Hs Hn. pose proof (check_item_ok t Hck) as Hok. unfold has_root.
  destruct t as [sp l|sp bs|sp ts|sp b lo hi]; try discriminate.
  - cbn [has_root_fold]. destruct (leaf_is_rooting l); discriminate.
  - cbn [start_ok nonempty_branches] in Hs, Hn. apply andb_prop in Hn. destruct Hn as [Hnil Hn]. destruct ts as [|t0 ts']; [discriminate|].
    cbn [forallb] in Hn. apply andb_prop in Hn. destruct Hn as [Hn0 Hn']. apply andb_prop in Hs. destruct Hs as [Hnc0 Hs0].
    destruct (branch_item_decomp outer_default (TCat sp (t0 :: ts'))) as [_ Herr]. pose proof (proj1 Herr (Hok _ (reach_refl _))) as Hsteps.
    cbn [concatenation] in Hsteps. unfold adjacent in Hsteps. cbn [adjacent_aux] in Hsteps. inversion Hsteps as [|? ? He _]; subst.
    set (o' := outer_or outer_default None (match ts' with r :: _ => Some r | [] => None end)) in *.
    cbn [has_root_fold]. destruct t0 as [s0 l0|s0 bs0|s0 cs0|s0 b0 lo0 hi0]; try discriminate.
    + cbn [has_root_fold opt_list reduce_pure fold_left]. destruct (leaf_is_rooting l0); discriminate.
    + cbn [leaf_first_rep] in Hs0. rewrite orb_false_r in Hs0. cbn [step_err] in He.
      apply first_some_l_none in He. rewrite Forall_forall in He.
      assert (Hb : forall b, In b bs0 -> item_ok o' b /\ alt_ok_b o' b).
      { intros b Hin. split.
        - apply (item_ok_child outer_default (TCat sp (TAlt s0 bs0 :: ts')) (o', b) Hok). unfold item_children. cbn [fst snd concatenation]. unfold adjacent. cbn [adjacent_aux flat_map step_children].
          apply in_or_app. left. apply in_map_iff. exists b. auto.
        - specialize (He b Hin). unfold alt_ok_b. fold o' in He. destruct (terminals_of (concatenation b)) as [tm|]; [|exact I]. exact (proj2 (opt_first_none2 _ _ He)). }
      rewrite (starting_chain_unrooted _ Hs0 Hn0 o' eq_refl Hb). cbn. discriminate.
    + (* the expression begins with a repetition whose body begins with a leaf *)
      cbn [srf leaf_first_rep orb] in Hs0. apply andb_prop in Hs0. destruct Hs0 as [Hcb Hlf].
      destruct b0 as [| |sb tsb|]; try discriminate. cbn [concatenation] in Hlf. destruct tsb as [|m rest]; [discriminate|]. destruct m as [sm lm| | |]; try discriminate.
      cbn [has_root_fold opt_list reduce_pure fold_left].
      destruct (nr_lower (rep_range lo0 hi0)) eqn:El.
      * cbn [opt_list reduce_pure fold_left]. destruct (leaf_is_rooting lm); discriminate.
      * (* the lower bound is zero: a rooting first leaf is a rooted sub-glob *)
        cbn [step_err concatenation] in He. fold o' in He.
        assert (Hf : (is_sep (TLeaf sm lm) || is_rooted_tree (TLeaf sm lm)) = false).
        { destruct rest as [|m2 rest2]; cbn [terminals_of] in He.
          - apply opt_first_none2 in He. destruct He as [_ He]. unfold check_repetition in He. rewrite El in He. cbn [o' outer_or o_left opt_or outer_default isSome negb] in He.
            rewrite !andb_true_r in He. destruct (is_sep _ || is_rooted_tree _); [discriminate|reflexivity].
          - destruct (last_opt (m2 :: rest2)) as [e|] eqn:Ee.
            + apply opt_first_none2 in He. destruct He as [_ He]. unfold check_repetition in He. rewrite El in He. cbn [o' outer_or o_left opt_or outer_default isSome negb] in He.
              rewrite !andb_true_r in He. destruct (is_sep _ || is_rooted_tree _); [discriminate|reflexivity].
            + destruct (DepthFacts.last_opt_nonempty (m2 :: rest2)) as [e He']; [discriminate|]. congruence. }
        rewrite (rooting_leaf _ _ Hf). cbn. discriminate.
      * cbn [opt_list reduce_pure fold_left]. destruct (leaf_is_rooting lm); discriminate.
Qed.

(* the class on built globs *)
Fixpoint chain_rep_free (t : tok) : bool :=
  match t with
  | TLeaf _ _ => true
  | TAlt _ bs => forallb chain_rep_free bs
  | TCat _ ts => match ts with [] => true | t0 :: _ => chain_rep_free t0 end
  | TRep _ _ _ _ => false
  end.

Definition starts_plainly (t : tok) : bool :=
  match t with
  | TCat _ (TRep _ b _ _ :: _) => match concatenation b with m :: _ => is_leaf m | [] => false end
  | _ => chain_rep_free t
  end.

Lemma sh_srf : forall t, sh t -> chain_rep_free t = true -> srf t = true.
Proof.
  induction t as [sp l|sp bs IH|sp ts IH|sp b lo hi IH] using tok_ind'; intros Hs Hr; try reflexivity; try discriminate; cbn [sh srf chain_rep_free] in *.
  - induction IH as [|x l Hx _ IHl]; [reflexivity|]. destruct Hs as [[Hc Hsx] Hs']. cbn [forallb] in *. apply andb_prop in Hr. destruct Hr as [Hr1 Hr2].
    rewrite Hc, (Hx Hsx Hr1), (IHl Hs' Hr2). reflexivity.
  - destruct ts as [|t0 ts']; [reflexivity|]. inversion IH as [|? ? H0 _]; subst. destruct Hs as [[Hc Hs0] _]. rewrite Hc, (H0 Hs0 Hr). reflexivity.
Qed.

Theorem built_never_sometimes_r : forall e t r, build e = BuildOk t r -> starts_plainly t = true -> has_root t <> Sometimes.
Proof.
  intros e t r Hb Hp. pose proof (built_nonempty_branches e t r Hb) as Hne.
  unfold build in Hb. destruct (parse e) as [t0| |] eqn:Ep; try discriminate.
  destruct (check t0) as [[[k sp]|]|s] eqn:Ec; try discriminate. destruct (compile_ok (encode t0)) eqn:Eco; [|discriminate]. inversion Hb; subst.
  pose proof (parse_sh e t Ep) as Hsh. apply (check_never_sometimes_r t Ec); [|exact Hne].
  assert (Hroot : match t with TLeaf _ _ | TCat _ _ => True | _ => False end).
  { unfold parse in Ep. destruct e as [|c e]; [inversion Ep; subst; exact I|].
    destruct (p_tokens (parse_fuel (c :: e)) TermTop (set_sub (init_input (c :: e)))) as [[ts i1]| |]; try discriminate.
    destruct ts as [|t1 ts]; [discriminate|]. destruct (i_s i1); [|discriminate]. inversion Ep; subst. exact I. }
  destruct t as [sp l|sp bs|sp ts|sp b lo hi]; try contradiction; [reflexivity|].
  destruct ts as [|t0 ts']; [reflexivity|]. cbn [sh] in Hsh. destruct Hsh as [[Hc0 Hs0] _]. cbn [start_ok]. rewrite Hc0. cbn [negb andb].
  destruct t0 as [s0 l0|s0 bs0|s0 cs0|s0 b0 lo0 hi0].
  - reflexivity.
  - cbn [starts_plainly chain_rep_free] in Hp. rewrite (sh_srf _ Hs0 Hp). reflexivity.
  - discriminate.
  - cbn [starts_plainly] in Hp. cbn [srf leaf_first_rep orb]. cbn [sh] in Hs0. destruct Hs0 as [Hcb _]. rewrite Hcb, Hp. reflexivity.
Qed.
