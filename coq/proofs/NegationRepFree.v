(* NegationRepFree.v -- C03 for every negated glob that builds, has no repetition and cannot end with a separator, whatever its shape
   (alternations at the top are split into alternatives, each of which inherits what the rule checker guarantees of the whole). *)
From Coq Require Import Arith Lia.
From WaxModel Require Import Base Token Regex Spec Encode Variance Fold Rule Parse Query Glob Walk.
From WaxProofs Require Import AlgebraFacts SpecFacts EncodeLang OwnedFacts ComposeFacts RuleFacts FuelFacts WalkFacts PruneFacts GlobWalkFacts NotWalkFacts NegationFacts ZomFacts ExhaustFacts NegationWalkFacts.
From WaxProofs Require Import DepthTreeFacts DepthAltFacts BuiltFacts BuiltNonempty RuleAdjFacts ParseShape RuleZomFacts NegationAltFacts.
From WaxProofs Require ExhaustAltFacts PartitionIdem.
Local Open Scope nat_scope.

(* what an alternative inherits *)
Definition Qalt (a : tok) : Prop :=
  tok_bounds_ok a /\ rep_free a = true /\ shp a = true /\ nonempty_branches a = true /\ may_end_sep a = false /\
  forall x, Expands a x -> chain_ok false x = true /\ zchain false x = true.

Lemma Qalt_branch : forall sp bs b, Qalt (TAlt sp bs) -> In b bs -> Qalt b.
Proof.
  intros sp bs b [Hb [Hr [Hs [Hn [Hm Hx]]]]] Hin. cbn [rep_free shp nonempty_branches may_end_sep] in *. apply andb_prop in Hn. destruct Hn as [_ Hn].
  rewrite forallb_forall in Hr, Hs, Hn. specialize (Hs b Hin). apply andb_prop in Hs. repeat split.
  - clear - Hb Hin. cbn [tok_bounds_ok] in Hb. induction bs as [|b0 bs IH]; [contradiction|]. destruct Hb as [H0 Hb]. destruct Hin as [<-|Hin]; [exact H0|exact (IH Hb Hin)].
  - exact (Hr b Hin).
  - exact (proj2 Hs).
  - exact (Hn b Hin).
  - destruct (may_end_sep b) eqn:E; [|reflexivity]. assert (existsb may_end_sep bs = true) by (apply existsb_exists; eauto). congruence.
  - apply Hx. econstructor; eassumption.
  - apply Hx. econstructor; eassumption.
Qed.

Lemma Qalt_non_trivial : forall t, Qalt t -> Qalt (into_non_trivial t).
Proof.
  induction t as [sp l|sp bs IH|sp ts IH|sp b lo hi IH] using tok_ind'; intros HQ; cbn [into_non_trivial]; try exact HQ.
  - destruct bs as [|b [|b2 bs']]; try exact HQ. inversion IH as [|? ? Hb _]; subst. apply Hb. eapply Qalt_branch; [exact HQ|left; reflexivity].
  - destruct ts as [|b [|b2 ts']]; try exact HQ. inversion IH as [|? ? Hb _]; subst. apply Hb.
    destruct HQ as [Hbd [Hr [Hs [Hn [Hm Hx]]]]]. cbn [tok_bounds_ok rep_free shp nonempty_branches may_end_sep forallb] in *.
    rewrite !andb_true_r in *. cbn [is_nil negb andb] in Hn. apply andb_prop in Hs. rewrite orb_false_r in Hm. repeat split; try tauto.
    + apply (Hx x). apply expands_single_cat. exact H.
    + apply (Hx x). apply expands_single_cat. exact H.
  - destruct HQ as [_ [Hr _]]. discriminate.
Qed.

Lemma alternatives_Q : forall fuel queue, Forall Qalt queue -> Forall Qalt (alternatives_loop fuel queue).
Proof.
  induction fuel as [|f IH]; intros queue HQ; [constructor|]. cbn [alternatives_loop]. destruct queue as [|t rest]; [constructor|].
  inversion HQ as [|? ? Ht Hrest]; subst. destruct t as [sp l|sp bs|sp ts|sp b lo hi]; try (constructor; [exact Ht|apply IH; exact Hrest]).
  assert (Hbs : Forall Qalt (map into_non_trivial bs)).
  { apply Forall_forall. intros b' Hb'. apply in_map_iff in Hb'. destruct Hb' as [b [<- Hin]]. apply Qalt_non_trivial. eapply Qalt_branch; eassumption. }
  apply Forall_app. split.
  - apply Forall_forall. intros a Ha. apply filter_In in Ha. rewrite Forall_forall in Hbs. exact (Hbs a (proj1 Ha)).
  - apply IH. apply Forall_app. split; [exact Hrest|]. apply Forall_forall. intros a Ha. apply filter_In in Ha. rewrite Forall_forall in Hbs. exact (Hbs a (proj1 Ha)).
Qed.

(* re-annotation keeps everything an alternative inherits *)
Lemma forallb_map_ext : forall (p : tok -> bool) g l, Forall (fun t => p (respan g t) = p t) l -> forallb p (map (respan g) l) = forallb p l.
Proof. intros p g l H. induction H as [|t l Ht _ IH]; [reflexivity|]. cbn [map forallb]. rewrite Ht, IH. reflexivity. Qed.

Lemma is_cat_respan : forall g t, is_cat (respan g t) = is_cat t.
Proof. intros g []; reflexivity. Qed.

Lemma rep_free_respan : forall g t, rep_free (respan g t) = rep_free t.
Proof. intros g. induction t as [sp l|sp bs IH|sp ts IH|sp b lo hi IH] using tok_ind'; cbn [respan rep_free]; try reflexivity; apply forallb_map_ext; exact IH. Qed.

Lemma shp_respan : forall g t, shp (respan g t) = shp t.
Proof.
  intros g. induction t as [sp l|sp bs IH|sp ts IH|sp b lo hi IH] using tok_ind'; cbn [respan shp]; try reflexivity.
  - induction IH as [|t l Ht _ IHl]; [reflexivity|]. cbn [map forallb]. rewrite is_cat_respan, Ht, IHl. reflexivity.
  - induction IH as [|t l Ht _ IHl]; [reflexivity|]. cbn [map forallb]. rewrite is_cat_respan, Ht, IHl. reflexivity.
Qed.

Lemma nonempty_respan : forall g t, nonempty_branches (respan g t) = nonempty_branches t.
Proof.
  intros g. induction t as [sp l|sp bs IH|sp ts IH|sp b lo hi IH] using tok_ind'; cbn [respan nonempty_branches]; try reflexivity.
  - rewrite (forallb_map_ext nonempty_branches g bs IH). destruct bs; reflexivity.
  - rewrite (forallb_map_ext nonempty_branches g ts IH). destruct ts; reflexivity.
  - rewrite IH. reflexivity.
Qed.

Lemma fnull_respan : forall g t, fnull (respan g t) = fnull t.
Proof.
  intros g. induction t as [sp l|sp bs IH|sp ts IH|sp b lo hi IH] using tok_ind'; cbn [respan fnull]; try reflexivity.
  - induction IH as [|t l Ht _ IHl]; [reflexivity|]. cbn [map existsb]. rewrite Ht, IHl. reflexivity.
  - apply forallb_map_ext. exact IH.
  - rewrite IH. reflexivity.
Qed.

Lemma may_end_sep_respan : forall g t, may_end_sep (respan g t) = may_end_sep t.
Proof.
  intros g. induction t as [sp l|sp bs IH|sp ts IH|sp b lo hi IH] using tok_ind'; cbn [respan may_end_sep]; try reflexivity.
  - induction IH as [|t l Ht _ IHl]; [reflexivity|]. cbn [map existsb]. rewrite Ht, IHl. reflexivity.
  - induction IH as [|t l Ht _ IHl]; [reflexivity|]. cbn [map]. rewrite Ht, IHl.
    replace (forallb fnull (map (respan g) l)) with (forallb fnull l); [reflexivity|]. symmetry. apply forallb_map_ext. apply Forall_forall. intros t0 _. apply fnull_respan.
  - exact IH.
Qed.

Lemma Qalt_respan : forall g t, Qalt t -> Qalt (respan g t).
Proof.
  intros g t [Hb [Hr [Hs [Hn [Hm Hx]]]]]. split; [apply PartitionIdem.bounds_respan; exact Hb|]. rewrite rep_free_respan, shp_respan, nonempty_respan, may_end_sep_respan.
  repeat split; try assumption; apply Hx; apply (NegationFacts.expands_respan g); assumption.
Qed.

Section NegationRepFree.
Variable orbit : char -> list char.
Notation Lang := (Spec.Lang orbit).

(* C09 from what an alternative inherits *)
Lemma Qalt_sound : forall a, Qalt a -> sound_alt orbit a.
Proof.
  intros a [Hb [Hr [Hs [Hn [Hm Hx]]]]]. split; [exact Hb|]. intros He w z Hz [x [Hxa Hma]].
  destruct (ExhaustAltFacts.rep_free_S a Hs Hn) as [_ HS]. unfold is_exhaustive in He. destruct (exh_fold a) as [[b|]|] eqn:Ef; try discriminate. cbn [rbind] in He. inversion He as [Hal].
  destruct (HS b eq_refl) as [Hsh Hcov]. destruct (Hcov x Hxa) as [m [Hmem Hft]].
  unfold ExhaustAltFacts.shape_members in Hsh. rewrite Forall_forall in Hsh.
  pose proof (Hft (ExhaustAltFacts.exhaustive_vform _ (Hsh m Hmem) (ExhaustAltFacts.always_members b Hal m Hmem))) as Hxft.
  exists x. split; [exact Hxa|]. apply ExhaustAltFacts.open_tail_l_extends; [|exact Hz|exact Hma].
  destruct (Hx x Hxa) as [Hc Hzc]. apply ExhaustAltFacts.ft_open_tail; [exact Hxft|exact Hc|exact Hzc|]. exact (ExhaustAltFacts.no_trailing_sep a Hn Hr Hm x Hxa).
Qed.

Theorem negation_of_any_built_rep_free_glob : forall e t r ext nxt exh nonexh,
  build e = BuildOk t r -> rep_free t = true -> may_end_sep t = false ->
  not_partition t = Ok (ext, nxt) -> decides orbit exh ext -> decides orbit nonexh nxt -> opt_match exh [] = false ->
  (forall q, matched exh nonexh q = true <-> Lang t (join_path q)) /\
  forall ls mind maxd root, names_valid root ->
    yields (walk mind maxd (ls ++ [nl exh nonexh]) root) =
    filter (fun q => negb (matched exh nonexh q)) (yields (walk mind maxd ls root)).
Proof.
  intros e t r ext nxt exh nonexh Hb Hrf Hms. apply negation_walk_sound_alts.
  assert (HQ : Qalt t).
  { split; [exact (built_bounds_ok e t r Hb)|]. split; [exact Hrf|]. split.
    - unfold build in Hb. destruct (parse e) as [t0| |] eqn:Ep; try discriminate. destruct (check t0) as [[[k sp]|]|s]; try discriminate.
      destruct (compile_ok (encode t0)); [|discriminate]. inversion Hb; subst. apply sh_shp; [eapply parse_sh; exact Ep|exact Hrf].
    - split; [exact (built_nonempty_branches e t r Hb)|]. split; [exact Hms|]. intros x Hx. split; [exact (built_no_adjacent_boundaries e t r Hb Hrf x Hx)|exact (built_no_adjacent_zoms e t r Hb Hrf x Hx)]. }
  unfold into_alternatives. eapply Forall_impl; [intros a Ha; apply Qalt_sound; exact Ha|]. apply alternatives_Q. constructor; [apply Qalt_non_trivial; exact HQ|constructor].
Qed.

(* the negation of a combinator of such globs *)
Theorem negation_of_any_of_built_rep_free_globs : forall es ts t ext nxt exh nonexh,
  Forall2 (fun e t0 => exists r, build e = BuildOk t0 r /\ is_cat t0 = true /\ rep_free t0 = true /\ may_end_sep t0 = false) es ts -> ts <> [] ->
  any_tree ts = Ok t ->
  not_partition t = Ok (ext, nxt) -> decides orbit exh ext -> decides orbit nonexh nxt -> opt_match exh [] = false ->
  (forall q, matched exh nonexh q = true <-> Lang t (join_path q)) /\
  forall ls mind maxd root, names_valid root ->
    yields (walk mind maxd (ls ++ [nl exh nonexh]) root) =
    filter (fun q => negb (matched exh nonexh q)) (yields (walk mind maxd ls root)).
Proof.
  intros es ts t ext nxt exh nonexh Hall Hne Hany. apply negation_walk_sound_alts.
  assert (HQs : Forall (fun t0 => Qalt t0 /\ is_cat t0 = true) ts).
  { clear Hany Hne. induction Hall as [|e t0 es ts [r [Hb [Hc [Hrf Hms]]]] _ IH]; constructor; [|exact IH]. split; [|exact Hc].
    split; [exact (built_bounds_ok e t0 r Hb)|]. split; [exact Hrf|]. split.
    - unfold build in Hb. destruct (parse e) as [t1| |] eqn:Ep; try discriminate. destruct (check t1) as [[[k sp]|]|s]; try discriminate.
      destruct (compile_ok (encode t1)); [|discriminate]. inversion Hb; subst. apply sh_shp; [eapply parse_sh; exact Ep|exact Hrf].
    - split; [exact (built_nonempty_branches e t0 r Hb)|]. split; [exact Hms|]. intros x Hx. split; [exact (built_no_adjacent_boundaries e t0 r Hb Hrf x Hx)|exact (built_no_adjacent_zoms e t0 r Hb Hrf x Hx)]. }
  assert (Hbt : Forall tok_bounds_ok ts) by (eapply Forall_impl; [|exact HQs]; intros a [[Ha _] _]; exact Ha).
  unfold any_tree in Hany.
  assert (Hm : rmapM (fold_map (fun _ => (0%N, 0%N))) ts = Ok (map (respan (fun _ => (0%N, 0%N))) ts)).
  { clear - Hbt. induction Hbt as [|a l Ha _ IH]; [reflexivity|]. cbn [rmapM map]. rewrite (OwnedFacts.fold_map_respan _ a Ha). cbn [rbind]. rewrite IH. reflexivity. }
  rewrite Hm in Hany. cbn [rbind] in Hany. inversion Hany; subst t. clear Hany Hm.
  set (g := fun _ : span => (0%N, 0%N)) in *.
  assert (HQ : Qalt (TAlt (0%N, 0%N) (map (respan g) ts))).
  { assert (Hbr : Forall (fun b => Qalt b /\ is_cat b = true) (map (respan g) ts)).
    { apply Forall_forall. intros b Hb. apply in_map_iff in Hb. destruct Hb as [t0 [<- Hin]]. rewrite Forall_forall in HQs. destruct (HQs t0 Hin) as [H1 H2].
      split; [apply Qalt_respan; exact H1|rewrite is_cat_respan; exact H2]. }
    rewrite Forall_forall in Hbr. split; [|split; [|split; [|split; [|split]]]].
    - cbn [tok_bounds_ok]. clear - Hbr. induction (map (respan g) ts) as [|b l IH]; [exact I|]. split; [exact (proj1 (proj1 (Hbr b (or_introl eq_refl))))|apply IH; intros x Hx; apply Hbr; right; exact Hx].
    - cbn [rep_free]. apply forallb_forall. intros b Hb. destruct (Hbr b Hb) as [[_ [H _]] _]. exact H.
    - cbn [shp]. apply forallb_forall. intros b Hb. destruct (Hbr b Hb) as [[_ [_ [H _]]] Hc]. rewrite Hc, H. reflexivity.
    - cbn [nonempty_branches]. apply andb_true_intro. split; [destruct ts; [congruence|reflexivity]|]. apply forallb_forall. intros b Hb. destruct (Hbr b Hb) as [[_ [_ [_ [H _]]]] _]. exact H.
    - cbn [may_end_sep]. destruct (existsb may_end_sep (map (respan g) ts)) eqn:E; [|reflexivity]. apply existsb_exists in E. destruct E as [b [Hb Hmb]].
      destruct (Hbr b Hb) as [[_ [_ [_ [_ [H _]]]]] _]. congruence.
    - intros x Hx. inversion Hx as [|sp0 bs0 bb x0 Hin Hxb| |]; subst. destruct (Hbr bb Hin) as [[_ [_ [_ [_ [_ H]]]]] _]. exact (H x Hxb). }
  unfold into_alternatives. eapply Forall_impl; [intros a Ha; apply Qalt_sound; exact Ha|]. apply alternatives_Q. constructor; [apply Qalt_non_trivial; exact HQ|constructor].
Qed.

End NegationRepFree.
