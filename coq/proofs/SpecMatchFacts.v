(* SpecMatchFacts.v -- the executable oracle [Spec.spec_match] decides the documented language [Spec.Lang]:
   spec_match orbit t w = true  <->  Lang orbit t w,  for every token tree and every text.
   The correspondence check compares the implementation's is_match with this oracle, so it compares it with the very
   language the theorems are about. *)
From Coq Require Import Arith Lia.
From WaxModel Require Import Base Token Regex Spec.
From WaxProofs Require Import MatcherFacts EncodeLang.
Local Open Scope nat_scope.

Section SpecMatch.
Variable orbit : char -> list char.
Notation FlatMatch := (Spec.FlatMatch orbit).
Notation leaf_piece := (Spec.leaf_piece orbit).
Notation Lang := (Spec.Lang orbit).
Notation sm := (Spec.sm orbit).
Notation leaf_sm := (Spec.leaf_sm orbit).

(* ---- the scan of a flat sequence with the four states ------------------------------------------------------------------ *)
Definition step_ok (q : fstate) (a : leaf) (u : str) (q' : fstate) : Prop :=
  is_closed q = false /\
  match a with
  | LTree root => (tree_piece (is_start q) true root u = true /\ q' = QClosed) \/
                  (tree_piece (is_start q) false root u = true /\ q' = QNeed)
  | _ => leaf_piece false false a u /\ q' = QMid
  end.

Inductive Scan : fstate -> list leaf -> str -> fstate -> Prop :=
| Scan_nil : forall q, Scan q [] [] q
| Scan_cons : forall q a x u v q1 q2, step_ok q a u q1 -> Scan q1 x v q2 -> Scan q (a :: x) (u ++ v) q2.

Lemma scan_app : forall x y q w q2, Scan q (x ++ y) w q2 <-> exists u v q1, w = u ++ v /\ Scan q x u q1 /\ Scan q1 y v q2.
Proof.
  induction x as [|a x IH]; intros y q w q2; cbn [app].
  - split.
    + intros H. exists [], w, q. split; [reflexivity|]. split; [constructor|exact H].
    + intros [u [v [q1 [-> [Hx Hy]]]]]. inversion Hx; subst. exact Hy.
  - split.
    + intros H. inversion H as [|? ? ? u v q1 ? Hs Hr]; subst. apply IH in Hr. destruct Hr as [u2 [v2 [q3 [-> [H1 H2]]]]].
      exists (u ++ u2), v2, q3. split; [apply app_assoc|]. split; [econstructor; eassumption|exact H2].
    + intros [u [v [q1 [-> [Hx Hy]]]]]. inversion Hx as [|? ? ? u1 v1 q3 ? Hs Hr]; subst. rewrite <- app_assoc. econstructor; [exact Hs|].
      apply IH. exists v1, v, q1. split; [reflexivity|]. split; assumption.
Qed.

Lemma leaf_piece_flags : forall a f l f' l' u, (forall r, a <> LTree r) -> leaf_piece f l a u -> leaf_piece f' l' a u.
Proof. intros a f l f' l' u H Hp. destruct a; try exact Hp. exfalso. eapply H. reflexivity. Qed.

(* the scan accepts exactly the flat-position semantics *)
Lemma scan_flat : forall x q w, is_closed q = false ->
  ((exists q', Scan q x w q' /\ q' <> QNeed) <-> (FlatMatch (is_start q) true x w /\ (q = QNeed -> x <> []))).
Proof.
  induction x as [|a x IH]; intros q w Hq.
  - split.
    + intros [q' [Hs Hn]]. inversion Hs; subst. split; [constructor|]. intros ->. congruence.
    + intros [Hm Hn]. inversion Hm; subst. exists q. split; [constructor|]. intros ->. apply Hn; reflexivity.
  - split.
    + intros [q' [Hs Hn]]. inversion Hs as [|? ? ? u v q1 ? Hst Hr]; subst. split; [|discriminate].
      destruct Hst as [_ Hst]. destruct a as [ci s| |neg ar| |lz|root].
      1-5: destruct Hst as [Hp ->]; constructor; [eapply leaf_piece_flags; [discriminate|exact Hp]|];
           apply (proj1 (IH QMid v eq_refl)); exists q'; split; assumption.
      destruct Hst as [[Hp ->]|[Hp ->]].
      * (* matched as last: nothing may follow *)
        inversion Hr as [|? ? ? ? ? ? ? Hst' _]; subst; [|destruct Hst' as [Hc _]; discriminate].
        constructor; [exact Hp|constructor].
      * (* matched as not last: something must follow *)
        destruct x as [|b x']; [inversion Hr; subst; congruence|].
        constructor; [exact Hp|]. apply (proj1 (IH QNeed v eq_refl)). exists q'. split; assumption.
    + intros [Hm _]. inversion Hm as [|? ? ? ? u v Hp Hr]; subst. destruct a as [ci s| |neg ar| |lz|root].
      1-5: destruct (proj2 (IH QMid v eq_refl)) as [q' [Hs Hn]]; [split; [exact Hr|discriminate]|];
           exists q'; split; [|exact Hn]; econstructor; [|exact Hs]; split; [exact Hq|]; split; [|reflexivity];
           eapply leaf_piece_flags; [discriminate|exact Hp].
      cbn [Spec.leaf_piece] in Hp. destruct x as [|b x'].
      * inversion Hr; subst. cbn [is_nil andb] in Hp. exists QClosed. split; [|discriminate].
        econstructor; [|constructor]. split; [exact Hq|]. left. split; [exact Hp|reflexivity].
      * cbn [is_nil andb] in Hp. destruct (proj2 (IH QNeed v eq_refl)) as [q' [Hs Hn]]; [split; [exact Hr|discriminate]|].
        exists q'. split; [|exact Hn]. econstructor; [|exact Hs]. split; [exact Hq|]. right. split; [exact Hp|reflexivity].
Qed.

Theorem scan_lang : forall x w, (exists q', Scan QStart x w q' /\ q' <> QNeed) <-> FlatMatch true true x w.
Proof.
  intros x w. rewrite (scan_flat x QStart w eq_refl). cbn [is_start]. split; [intros [H _]; exact H|intros H; split; [exact H|discriminate]].
Qed.

(* ---- one leaf ---------------------------------------------------------------------------------------------------------------- *)
Lemma splits_spec : forall w u v, In (u, v) (splits w) <-> w = u ++ v.
Proof.
  induction w as [|c w IH]; intros u v; cbn [splits].
  - split; [intros [H|[]]; inversion H; reflexivity|]. intros H. destruct u; [|discriminate]. cbn in H. subst. left. reflexivity.
  - split.
    + intros [H|H]; [inversion H; reflexivity|]. apply in_map_iff in H. destruct H as [[u' v'] [E Hin]]. inversion E; subst.
      apply IH in Hin. subst. reflexivity.
    + intros H. destruct u as [|d u]; [left; cbn in H; subst; reflexivity|]. right. cbn in H. inversion H; subst.
      apply in_map_iff. exists (u, v). split; [reflexivity|]. apply IH. reflexivity.
Qed.

Lemma leaf_sm_spec : forall l w q (k : K), leaf_sm l w q k = true <->
  exists u v q', w = u ++ v /\ step_ok q l u q' /\ k v q' = true.
Proof.
  intros l w q k. unfold Spec.leaf_sm, step_ok. destruct (is_closed q) eqn:Ec.
  { split; [discriminate|]. intros [u [v [q' [_ [[Hc _] _]]]]]. discriminate. }
  destruct l as [ci s| |neg ar| |lz|root].
  - split.
    + destruct (Regex.lit_match orbit ci s w) as [w'|] eqn:E; [|discriminate]. intros Hk.
      destruct (lit_match_sound orbit _ _ _ _ E) as [u [-> Hu]]. exists u, w', QMid. repeat split; assumption.
    + intros [u [v [q' [-> [[_ [Hp ->]] Hk]]]]]. cbn [Spec.leaf_piece] in Hp. rewrite (lit_match_complete orbit ci s u v Hp). exact Hk.
  - split.
    + destruct w as [|c w']; [discriminate|]. intros H. apply andb_prop in H. destruct H as [Hc Hk]. apply N.eqb_eq in Hc. subst c.
      exists [SEP], w', QMid. repeat split; try reflexivity. exact Hk.
    + intros [u [v [q' [-> [[_ [Hp ->]] Hk]]]]]. cbn [Spec.leaf_piece] in Hp. subst u. cbn [app]. rewrite N.eqb_refl. exact Hk.
  - split.
    + destruct w as [|c w']; [discriminate|]. intros H. apply andb_prop in H. destruct H as [Hc Hk].
      exists [c], w', QMid. repeat split; try reflexivity; [exists c; split; [reflexivity|exact Hc]|exact Hk].
    + intros [u [v [q' [-> [[_ [[c [-> Hc]] ->]] Hk]]]]]. cbn [app]. rewrite Hc. exact Hk.
  - split.
    + destruct w as [|c w']; [discriminate|]. intros H. apply andb_prop in H. destruct H as [Hc Hk].
      exists [c], w', QMid. repeat split; try reflexivity; [|exact Hk]. exists c. split; [reflexivity|].
      apply negb_true_iff, N.eqb_neq in Hc. exact Hc.
    + intros [u [v [q' [-> [[_ [[c [-> Hc]] ->]] Hk]]]]]. cbn [app]. apply N.eqb_neq in Hc. rewrite Hc. exact Hk.
  - split.
    + intros H. apply existsb_exists in H. destruct H as [[u v] [Hin H]]. apply splits_spec in Hin. apply andb_prop in H.
      destruct H as [Hn Hk]. exists u, v, QMid. repeat split; assumption.
    + intros [u [v [q' [-> [[_ [Hp ->]] Hk]]]]]. apply existsb_exists. exists (u, v). split; [apply splits_spec; reflexivity|].
      cbn [fst snd Spec.leaf_piece] in *. rewrite Hp, Hk. reflexivity.
  - split.
    + intros H. apply existsb_exists in H. destruct H as [[u v] [Hin H]]. apply splits_spec in Hin. cbn [fst snd] in H.
      apply orb_prop in H. destruct H as [H|H]; apply andb_prop in H; destruct H as [Hp Hk].
      * exists u, v, QClosed. repeat split; try assumption. left. split; [exact Hp|reflexivity].
      * exists u, v, QNeed. repeat split; try assumption. right. split; [exact Hp|reflexivity].
    + intros [u [v [q' [-> [[_ Hst] Hk]]]]]. apply existsb_exists. exists (u, v). split; [apply splits_spec; reflexivity|].
      cbn [fst snd]. destruct Hst as [[Hp ->]|[Hp ->]]; rewrite Hp, Hk; cbn; [reflexivity|apply orb_true_r].
Qed.

(* ---- progress of an iteration: it is droppable or lowers 2 * text + rank of the state ----------------------------------- *)
Definition rank (q : fstate) : nat := match q with QStart => 3 | QNeed => 2 | QMid => 1 | QClosed => 0 end.

Lemma step_progress : forall q a u q1, step_ok q a u q1 -> (u = [] /\ q1 = q) \/ rank q1 + 1 <= 2 * length u + rank q.
Proof.
  intros q a u q1 [Hc Hst]. assert (Hr : 1 <= rank q) by (destruct q; cbn in *; try lia; discriminate).
  destruct u as [|c u].
  - (* nothing consumed *)
    destruct a as [ci s| |neg ar| |lz|root].
    1-5: destruct Hst as [_ ->]; destruct q; cbn in *; try discriminate; try (right; lia); left; split; reflexivity.
    destruct Hst as [[_ ->]|[Hp ->]]; [right; cbn; lia|].
    unfold tree_piece in Hp. cbn [starts_sep ends_sep rev is_nil andb orb] in Hp. destruct q; cbn in *; try discriminate; right; lia.
  - right. cbn [length]. assert (rank q1 <= 2) by (destruct a; [destruct Hst as [_ ->]..|destruct Hst as [[_ ->]|[_ ->]]]; cbn; lia). lia.
Qed.

Lemma scan_progress : forall q x u q1, Scan q x u q1 -> (u = [] /\ q1 = q) \/ rank q1 + 1 <= 2 * length u + rank q.
Proof.
  intros q x u q1 H. induction H as [q|q a x u v q1 q2 Hst _ IH]; [left; split; reflexivity|].
  apply step_progress in Hst. rewrite app_length. destruct Hst as [[-> ->]|Hs], IH as [[-> ->]|Hi]; cbn [length app] in *.
  - left. split; reflexivity.
  - right. lia.
  - right. lia.
  - right. lia.
Qed.

(* iterations that consume nothing and leave the state alone can be dropped: what remains is bounded by the potential *)
Lemma normalise : forall (BX : list leaf -> Prop) rest q u q', Forall BX rest -> Scan q (concat rest) u q' ->
  exists rest', Forall BX rest' /\ Scan q (concat rest') u q' /\ length rest' <= 2 * length u + rank q /\ length rest' <= length rest.
Proof.
  intros BX. induction rest as [|x rest IH]; intros q u q' HF Hs.
  - exists []. split; [constructor|]. split; [exact Hs|]. cbn. lia.
  - inversion HF as [|? ? Hx HF']; subst. cbn [concat] in Hs. apply scan_app in Hs. destruct Hs as [u1 [u2 [q1 [-> [H1 H2]]]]].
    destruct (IH _ _ _ HF' H2) as [rest' [HF2 [Hs2 [Hb Hl]]]].
    destruct (scan_progress _ _ _ _ H1) as [[-> ->]|Hp].
    + exists rest'. split; [exact HF2|]. split; [exact Hs2|]. cbn [app length]. lia.
    + exists (x :: rest'). split; [constructor; assumption|]. split; [cbn [concat]; apply scan_app; exists u1, u2, q1; repeat split; assumption|].
      rewrite app_length. cbn [length]. lia.
Qed.

(* ---- repetitions of a body with a relational specification ---------------------------------------------------------------- *)
Section Rep.
Variable body : str -> fstate -> K -> bool.
Variable BX : list leaf -> Prop.
Hypothesis Hbody : forall w q (k : K), body w q k = true <-> exists x u v q', BX x /\ w = u ++ v /\ Scan q x u q' /\ k v q' = true.

Lemma rep_opt_spec : forall o w q (k : K), rep_opt body o w q k = true <->
  exists xs u v q', length xs <= o /\ Forall BX xs /\ w = u ++ v /\ Scan q (concat xs) u q' /\ k v q' = true.
Proof.
  induction o as [|o IH]; intros w q k; cbn [rep_opt].
  - rewrite orb_false_r. split.
    + intros Hk. exists [], [], w, q. split; [cbn; lia|]. split; [constructor|]. split; [reflexivity|]. split; [constructor|exact Hk].
    + intros [xs [u [v [q' [Hl [_ [-> [Hs Hk]]]]]]]]. destruct xs; [|cbn in Hl; lia]. inversion Hs; subst. exact Hk.
  - split.
    + intros H. apply orb_prop in H. destruct H as [Hk|H].
      * exists [], [], w, q. split; [cbn; lia|]. split; [constructor|]. split; [reflexivity|]. split; [constructor|exact Hk].
      * apply Hbody in H. destruct H as [x [u [v [q1 [Hx [-> [Hs Hr]]]]]]]. apply IH in Hr.
        destruct Hr as [xs [u2 [v2 [q2 [Hl [HF [-> [Hs2 Hk]]]]]]]].
        exists (x :: xs), (u ++ u2), v2, q2. split; [cbn [length]; lia|]. split; [constructor; assumption|]. split; [apply app_assoc|].
        split; [|exact Hk]. cbn [concat]. apply scan_app. exists u, u2, q1. repeat split; assumption.
    + intros [xs [u [v [q' [Hl [HF [-> [Hs Hk]]]]]]]]. destruct xs as [|x xs].
      * inversion Hs; subst. cbn [app]. rewrite Hk. reflexivity.
      * apply orb_true_iff. right. inversion HF as [|? ? Hx HF']; subst. cbn [concat] in Hs. apply scan_app in Hs.
        destruct Hs as [u1 [u2 [q1 [-> [H1 H2]]]]]. apply Hbody. exists x, u1, (u2 ++ v), q1. split; [exact Hx|]. split; [apply eq_sym, app_assoc|].
        split; [exact H1|]. apply IH. exists xs, u2, v, q'. cbn [length] in Hl. repeat split; try assumption. lia.
Qed.

Lemma rep_req_spec : forall r o w q (k : K), rep_req body r o w q k = true <->
  exists xs u v q', r <= length xs <= r + o /\ Forall BX xs /\ w = u ++ v /\ Scan q (concat xs) u q' /\ k v q' = true.
Proof.
  induction r as [|r IH]; intros o w q k; cbn [rep_req].
  - rewrite rep_opt_spec. split; intros [xs [u [v [q' [Hl H]]]]]; exists xs, u, v, q'; (split; [lia|exact H]).
  - split.
    + intros H. apply Hbody in H. destruct H as [x [u [v [q1 [Hx [-> [Hs Hr]]]]]]]. apply IH in Hr.
      destruct Hr as [xs [u2 [v2 [q2 [Hl [HF [-> [Hs2 Hk]]]]]]]].
      exists (x :: xs), (u ++ u2), v2, q2. split; [cbn [length]; lia|]. split; [constructor; assumption|]. split; [apply app_assoc|].
      split; [|exact Hk]. cbn [concat]. apply scan_app. exists u, u2, q1. repeat split; assumption.
    + intros [xs [u [v [q' [Hl [HF [-> [Hs Hk]]]]]]]]. destruct xs as [|x xs]; [cbn in Hl; lia|].
      inversion HF as [|? ? Hx HF']; subst. cbn [concat] in Hs. apply scan_app in Hs.
      destruct Hs as [u1 [u2 [q1 [-> [H1 H2]]]]]. apply Hbody. exists x, u1, (u2 ++ v), q1. split; [exact Hx|]. split; [apply eq_sym, app_assoc|].
      split; [exact H1|]. apply IH. exists xs, u2, v, q'. cbn [length] in Hl. repeat split; try assumption; lia.
Qed.
End Rep.

(* ---- the scan of a token tree ---------------------------------------------------------------------------------------------- *)
Definition sm_ok (t : tok) : Prop :=
  forall w q (k : K), sm t w q k = true <-> exists x u v q', Expands t x /\ w = u ++ v /\ Scan q x u q' /\ k v q' = true.

Lemma in_skipn' : forall {A} n (l : list A) y, In y (skipn n l) -> In y l.
Proof. intros A n l y H. rewrite <- (firstn_skipn n l). apply in_or_app. right. exact H. Qed.
Lemma in_firstn' : forall {A} n (l : list A) y, In y (firstn n l) -> In y l.
Proof. intros A n l y H. rewrite <- (firstn_skipn n l). apply in_or_app. left. exact H. Qed.

Lemma rank_le : forall q, rank q <= 3. Proof. destruct q; cbn; lia. Qed.

Theorem sm_spec : forall t, sm_ok t.
Proof.
  induction t as [sp l|sp bs IH|sp ts IH|sp b lo hi IH] using tok_ind'; intros w q k.
  - cbn [Spec.sm]. rewrite leaf_sm_spec. split.
    + intros [u [v [q' [-> [Hs Hk]]]]]. exists [l], u, v, q'. split; [constructor|]. split; [reflexivity|]. split; [|exact Hk].
      rewrite <- (app_nil_r u). econstructor; [exact Hs|constructor].
    + intros [x [u [v [q' [Hx [-> [Hs Hk]]]]]]]. inversion Hx; subst. inversion Hs as [|? ? ? u1 v1 q1 ? Hst Hr]; subst. inversion Hr; subst.
      rewrite app_nil_r. exists u1, v, q'. split; [reflexivity|]. split; [exact Hst|exact Hk].
  - cbn [Spec.sm]. rewrite existsb_exists. split.
    + intros [b [Hin H]]. rewrite Forall_forall in IH. apply (IH b Hin) in H. destruct H as [x [u [v [q' [Hx H]]]]].
      exists x, u, v, q'. split; [eapply E_alt; eassumption|exact H].
    + intros [x [u [v [q' [Hx H]]]]]. inversion Hx as [|? ? b ? Hin Hb| |]; subst. exists b. split; [exact Hin|].
      rewrite Forall_forall in IH. apply (IH b Hin). exists x, u, v, q'. split; [exact Hb|exact H].
  - cbn [Spec.sm].
    assert (Hgo : forall w q,
      (fix go (ts0 : list tok) (w0 : str) (q0 : fstate) {struct ts0} : bool :=
         match ts0 with [] => k w0 q0 | t0 :: ts' => sm t0 w0 q0 (fun w' q' => go ts' w' q') end) ts w q = true <->
      exists xs u v q', Forall2 Expands ts xs /\ w = u ++ v /\ Scan q (concat xs) u q' /\ k v q' = true).
    { clear w q. induction IH as [|t0 ts' Ht0 _ IHts]; intros w q.
      - split.
        + intros Hk. exists [], [], w, q. split; [constructor|]. split; [reflexivity|]. split; [constructor|exact Hk].
        + intros [xs [u [v [q' [HF [-> [Hs Hk]]]]]]]. inversion HF; subst. inversion Hs; subst. exact Hk.
      - rewrite (Ht0 w q). split.
        + intros [x [u [v [q1 [Hx [-> [Hs Hr]]]]]]]. apply IHts in Hr. destruct Hr as [xs [u2 [v2 [q2 [HF [-> [Hs2 Hk]]]]]]].
          exists (x :: xs), (u ++ u2), v2, q2. split; [constructor; assumption|]. split; [apply app_assoc|]. split; [|exact Hk].
          cbn [concat]. apply scan_app. exists u, u2, q1. repeat split; assumption.
        + intros [xs [u [v [q' [HF [-> [Hs Hk]]]]]]]. inversion HF as [|? x ? xs' Hx HF']; subst. cbn [concat] in Hs. apply scan_app in Hs.
          destruct Hs as [u1 [u2 [q1 [-> [H1 H2]]]]]. exists x, u1, (u2 ++ v), q1. split; [exact Hx|]. split; [apply eq_sym, app_assoc|].
          split; [exact H1|]. apply IHts. exists xs', u2, v, q'. repeat split; assumption. }
    rewrite Hgo. split.
    + intros [xs [u [v [q' [HF H]]]]]. exists (concat xs), u, v, q'. split; [constructor; exact HF|exact H].
    + intros [x [u [v [q' [Hx H]]]]]. inversion Hx; subst. eexists _, u, v, q'. split; [eassumption|exact H].
  - cbn [Spec.sm]. rewrite andb_true_iff. rewrite (rep_req_spec (sm b) (Expands b) IH). split.
    + intros [Hord [xs [u [v [q' [Hl [HF [-> [Hs Hk]]]]]]]]]. exists (concat xs), u, v, q'. split; [|repeat split; assumption].
      constructor; [|exact HF]. unfold in_bounds. split; [lia|]. destruct hi as [h|]; [|exact I].
      apply N.leb_le in Hord. pose proof (Nat.le_min_l (N.to_nat (h - lo)) (2 * length (u ++ v) + 4)). lia.
    + intros [x [u [v [q' [Hx [-> [Hs Hk]]]]]]]. inversion Hx as [| | |? ? ? ? xs [Hlo Hhi] HF]; subst. split.
      * destruct hi as [h|]; [apply N.leb_le; lia|reflexivity].
      * (* the mandatory iterations, then the optional ones without the droppable *)
        set (r := N.to_nat lo). assert (Hr : r <= length xs) by (subst r; lia).
        rewrite <- (firstn_skipn r xs) in Hs. rewrite concat_app in Hs. apply scan_app in Hs. destruct Hs as [u1 [u2 [q1 [-> [H1 H2]]]]].
        assert (HFs : Forall (Expands b) (skipn r xs)) by (apply Forall_forall; intros y Hy; rewrite Forall_forall in HF; apply HF; eapply in_skipn'; exact Hy).
        destruct (normalise (Expands b) _ _ _ _ HFs H2) as [rest' [HF' [Hs' [Hb Hl]]]].
        exists (firstn r xs ++ rest'), (u1 ++ u2), v, q'. split; [|split; [|split; [reflexivity|split; [|exact Hk]]]].
        -- rewrite app_length, firstn_length, Nat.min_l by exact Hr. rewrite skipn_length in Hl. split; [lia|].
           pose proof (rank_le q1). rewrite !app_length.
           destruct hi as [h|].
           ++ apply Nat.add_le_mono_l. apply Nat.min_glb; [subst r; lia|lia].
           ++ lia.
        -- apply Forall_app. split; [|exact HF']. apply Forall_forall. intros y Hy. rewrite Forall_forall in HF. apply HF. eapply in_firstn'. exact Hy.
        -- rewrite concat_app. apply scan_app. exists u1, u2, q1. repeat split; assumption.
Qed.

(* ---- the oracle decides the documented language --------------------------------------------------------------------------------- *)
Theorem spec_match_spec : forall t w, spec_match orbit t w = true <-> Lang t w.
Proof.
  intros t w. unfold Spec.spec_match, Spec.Lang. split.
  - intros H. apply (proj1 (sm_spec t _ _ _)) in H. destruct H as [x [u [v [q' [Hx [-> [Hs Hk]]]]]]].
    apply andb_prop in Hk. destruct Hk as [Hv Hq]. destruct v; [|discriminate]. rewrite app_nil_r.
    exists x. split; [exact Hx|]. apply scan_lang. exists q'. split; [exact Hs|]. intros ->. discriminate.
  - intros [x [Hx Hm]]. apply scan_lang in Hm. destruct Hm as [q' [Hs Hn]]. apply (proj2 (sm_spec t _ _ _)). exists x, w, [], q'. split; [exact Hx|].
    split; [symmetry; apply app_nil_r|]. split; [exact Hs|]. destruct q'; try reflexivity. congruence.
Qed.

End SpecMatch.

(* the two executables of the correspondence check - the model of the compiled program run by the model engine, and the
   oracle for the documented language - agree on every text, for every tree in the class of C01_conformance *)
Theorem executables_agree : forall orbit t w, wf_tok t = true -> trees_exact t = true ->
  accepts orbit (Encode.encode t) w = spec_match orbit t w.
Proof.
  intros orbit t w Hwf He.
  pose proof (accepts_spec orbit (Encode.encode t) w) as Ha. pose proof (spec_match_spec orbit t w) as Hs.
  pose proof (conformance orbit t w Hwf He) as Hc.
  destruct (accepts orbit (Encode.encode t) w), (spec_match orbit t w); try reflexivity.
  - assert (false = true) by (apply Hs, Hc, Ha; reflexivity). discriminate.
  - assert (false = true) by (apply Ha, Hc, Hs; reflexivity). discriminate.
Qed.
