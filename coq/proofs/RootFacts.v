(* RootFacts.v -- C12, second sentence: a glob never reports "sometimes rooted".  For globs that build and have no repetition: an
   alternation at the beginning of the expression (at any nesting) has no branch that begins with a root - the rule checker rejects
   it (RootedSubGlob) through the context that nested branches inherit - so the fold over starting tokens answers Never, and a
   glob whose first token is a leaf answers Always or Never. *)
From Coq Require Import Arith Lia.
From WaxModel Require Import Base Token Regex Spec Encode Variance Fold Rule Parse Query Glob.
From WaxProofs Require Import SpecFacts EncodeLang RuleFacts FuelFacts DepthTreeFacts DepthAltFacts BuiltNonempty RuleAdjFacts ParseShape.
Local Open Scope nat_scope.

Definition alt_ok_b (o : outer) (b : tok) : Prop :=
  match terminals_of (concatenation b) with Some tm => check_alternation tm o = None | None => True end.

Lemma opt_first_none2 : forall {A} (a b : option A), opt_first a b = None -> a = None /\ b = None.
Proof. intros A [x|] b H; [discriminate|]. split; [reflexivity|exact H]. Qed.

(* in a context without left neighbour *)
Definition Q (t : tok) : Prop := forall o, o_left o = None ->
  match t with
  | TCat sp ts => item_ok o t -> alt_ok_b o t -> has_root_fold t = Some Never
  | TAlt sp bs => (forall b, In b bs -> item_ok o b /\ alt_ok_b o b) -> has_root_fold t = Some Never
  | _ => True
  end.

Lemma certainty_never : forall l, l <> [] -> Forall (fun w => w = Never) l -> reduce_pure when_certainty l = Some Never.
Proof.
  intros [|a l] Hne H; [congruence|]. inversion H as [|? ? Ha Hl]; subst. cbn [reduce_pure]. f_equal. clear Hne H.
  induction Hl as [|b l Hb _ IH]; [reflexivity|]. subst b. cbn [fold_left when_certainty]. exact IH.
Qed.

Theorem starting_alternations_unrooted : forall t, shp t = true -> nonempty_branches t = true -> Q t.
Proof.
  induction t as [sp l|sp bs IH|sp ts IH|sp b lo hi IH] using tok_ind'; intros Hs Hn o Ho; cbn [Q]; try exact I.
  - intros Hb. cbn [has_root_fold]. cbn [shp nonempty_branches] in Hs, Hn. apply andb_prop in Hn. destruct Hn as [Hnil Hn]. rewrite forallb_forall in Hs, Hn. rewrite Forall_forall in IH.
    assert (Hall : forall b, In b bs -> has_root_fold b = Some Never).
    { intros b Hin. specialize (Hs b Hin). apply andb_prop in Hs. destruct Hs as [Hcat Hsb]. destruct (Hb b Hin) as [Hok Ha].
      pose proof (IH b Hin Hsb (Hn b Hin) o Ho) as HQ. destruct b as [| |spb tsb|]; try discriminate. exact (HQ Hok Ha). }
    apply certainty_never.
    + destruct bs as [|b0 bs']; [discriminate|]. cbn [flat_map]. rewrite (Hall b0 (or_introl eq_refl)). discriminate.
    + apply Forall_forall. intros w Hw. apply in_flat_map in Hw. destruct Hw as [b [Hin Hw]]. rewrite (Hall b Hin) in Hw. destruct Hw as [<-|[]]. reflexivity.
  - intros Hok Ha. cbn [shp nonempty_branches] in Hs, Hn. apply andb_prop in Hn. destruct Hn as [Hnil Hn].
    destruct ts as [|t0 ts']; [discriminate|]. cbn [has_root_fold]. inversion IH as [|? ? IH0 _]; subst.
    cbn [forallb] in Hs, Hn. apply andb_prop in Hs, Hn. destruct Hs as [Hs0 _]. destruct Hn as [Hn0 _]. apply andb_prop in Hs0. destruct Hs0 as [Hnc0 Hs0].
    destruct t0 as [s0 l0|s0 bs0|s0 cs0|s0 b0 lo0 hi0]; try discriminate.
    + (* a leaf: the alternation rule rejects a rooting first terminal *)
      cbn [has_root_fold opt_list reduce_pure fold_left]. unfold alt_ok_b in Ha. cbn [concatenation] in Ha.
      assert (Hf : (is_sep (TLeaf s0 l0) || is_rooted_tree (TLeaf s0 l0)) = false).
      { destruct ts' as [|m2 ts2]; cbn [terminals_of] in Ha.
        - unfold check_alternation in Ha. rewrite Ho in Ha. cbn [isSome negb] in Ha. rewrite andb_true_r in Ha. destruct (is_sep _ || is_rooted_tree _); [discriminate|reflexivity].
        - destruct (last_opt (m2 :: ts2)) as [e|] eqn:El.
          + unfold check_alternation in Ha. rewrite Ho in Ha. cbn [isSome negb] in Ha. rewrite andb_true_r in Ha. destruct (is_sep _ || is_rooted_tree _); [discriminate|reflexivity].
          + destruct (DepthFacts.last_opt_nonempty (m2 :: ts2)) as [e He]; [discriminate|]. congruence. }
      f_equal. destruct l0; try reflexivity; cbn in Hf; try discriminate. destruct root; [discriminate|reflexivity].
    + (* a nested alternation: same context *)
      destruct (branch_item_decomp o (TCat sp (TAlt s0 bs0 :: ts'))) as [_ Herr]. pose proof (proj1 Herr (Hok _ (reach_refl _))) as Hsteps.
      cbn [concatenation] in Hsteps. unfold adjacent in Hsteps. cbn [adjacent_aux] in Hsteps. inversion Hsteps as [|? ? He _]; subst. cbn [step_err] in He.
      apply first_some_l_none in He. rewrite Forall_forall in He.
      set (o' := outer_or o None (match ts' with r :: _ => Some r | [] => None end)) in *.
      assert (Ho' : o_left o' = None) by (unfold o'; cbn [outer_or o_left opt_or]; exact Ho).
      assert (Hb : forall b, In b bs0 -> item_ok o' b /\ alt_ok_b o' b).
      { intros b Hin. split.
        - apply (item_ok_child o (TCat sp (TAlt s0 bs0 :: ts')) (o', b) Hok). unfold item_children. cbn [fst snd concatenation]. unfold adjacent. cbn [adjacent_aux flat_map step_children].
          apply in_or_app. left. apply in_map_iff. exists b. auto.
        - specialize (He b Hin). unfold alt_ok_b. fold o' in He. destruct (terminals_of (concatenation b)) as [tm|]; [|exact I]. exact (proj2 (opt_first_none2 _ _ He)). }
      pose proof (IH0 Hs0 Hn0 o' Ho' Hb) as H0. rewrite H0. reflexivity.
Qed.

(* C12: a glob that builds and has no repetition is always rooted or never rooted *)
Theorem check_never_sometimes : forall t, check t = Ok None -> shp t = true -> nonempty_branches t = true -> has_root t <> Sometimes.
Proof.
  intros t Hck Hs Hn. pose proof (check_item_ok t Hck) as Hok. unfold has_root.
  destruct t as [sp l|sp bs|sp ts|sp b lo hi]; try discriminate.
  - cbn [has_root_fold]. destruct (leaf_is_rooting l); discriminate.
  - (* an alternation at the root *)
    assert (Hb : forall b, In b bs -> item_ok (outer_or outer_default None None) b /\ alt_ok_b (outer_or outer_default None None) b).
    { destruct (branch_item_decomp outer_default (TAlt sp bs)) as [_ Herr]. pose proof (proj1 Herr (Hok _ (reach_refl _))) as Hsteps. cbn [concatenation adjacent adjacent_aux] in Hsteps.
      inversion Hsteps as [|? ? He _]; subst. cbn [step_err] in He. apply first_some_l_none in He. rewrite Forall_forall in He.
      intros b Hin. split.
      - apply (item_ok_child outer_default (TAlt sp bs) (outer_or outer_default None None, b) Hok). unfold item_children. cbn [fst snd concatenation adjacent adjacent_aux flat_map step_children].
        rewrite app_nil_r. apply in_map_iff. exists b. auto.
      - specialize (He b Hin). unfold alt_ok_b. destruct (terminals_of (concatenation b)) as [tm|]; [|exact I]. exact (proj2 (opt_first_none2 _ _ He)). }
    rewrite (starting_alternations_unrooted _ Hs Hn (outer_or outer_default None None) eq_refl Hb). discriminate.
  - cbn [shp nonempty_branches] in Hs, Hn. apply andb_prop in Hn. destruct Hn as [Hnil Hn]. destruct ts as [|t0 ts']; [discriminate|].
    cbn [forallb] in Hs, Hn. apply andb_prop in Hs, Hn. destruct Hs as [Hs0 Hs']. destruct Hn as [Hn0 Hn']. apply andb_prop in Hs0. destruct Hs0 as [Hnc0 Hs0].
    cbn [has_root_fold]. destruct t0 as [s0 l0|s0 bs0|s0 cs0|s0 b0 lo0 hi0]; try discriminate.
    + cbn [has_root_fold opt_list reduce_pure fold_left]. destruct (leaf_is_rooting l0); discriminate.
    + destruct (branch_item_decomp outer_default (TCat sp (TAlt s0 bs0 :: ts'))) as [_ Herr]. pose proof (proj1 Herr (Hok _ (reach_refl _))) as Hsteps.
      cbn [concatenation] in Hsteps. unfold adjacent in Hsteps. cbn [adjacent_aux] in Hsteps. inversion Hsteps as [|? ? He _]; subst. cbn [step_err] in He.
      apply first_some_l_none in He. rewrite Forall_forall in He.
      set (o' := outer_or outer_default None (match ts' with r :: _ => Some r | [] => None end)) in *.
      assert (Hb : forall b, In b bs0 -> item_ok o' b /\ alt_ok_b o' b).
      { intros b Hin. split.
        - apply (item_ok_child outer_default (TCat sp (TAlt s0 bs0 :: ts')) (o', b) Hok). unfold item_children. cbn [fst snd concatenation]. unfold adjacent. cbn [adjacent_aux flat_map step_children].
          apply in_or_app. left. apply in_map_iff. exists b. auto.
        - specialize (He b Hin). unfold alt_ok_b. fold o' in He. destruct (terminals_of (concatenation b)) as [tm|]; [|exact I]. exact (proj2 (opt_first_none2 _ _ He)). }
      rewrite (starting_alternations_unrooted _ Hs0 Hn0 o' eq_refl Hb). cbn. discriminate.
Qed.

Theorem built_never_sometimes : forall e t r, build e = BuildOk t r -> rep_free t = true -> has_root t <> Sometimes.
Proof.
  intros e t r Hb Hr. unfold build in Hb. destruct (parse e) as [t0| |] eqn:Ep; try discriminate.
  destruct (check t0) as [[[k sp]|]|s] eqn:Ec; try discriminate. destruct (compile_ok (encode t0)) eqn:Eco; [|discriminate]. inversion Hb; subst.
  apply (check_never_sometimes t Ec); [apply sh_shp; [eapply parse_sh; exact Ep|exact Hr]|].
  apply (built_nonempty_branches e t (encode t)). unfold build. rewrite Ep, Ec, Eco. reflexivity.
Qed.
