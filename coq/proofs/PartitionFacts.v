(* PartitionFacts.v -- C05 / C08: partitioning a parsed expression never cuts its text inside a character: the top-level
   tokens tile the expression (each token's span begins where the previous one ends, the first at 0), so the number of
   bytes popped is the start of a token, and unrooting a tree wildcard skips one ASCII character (`/` or the `(` of a flag). *)
From Coq Require Import Arith Lia.
From WaxModel Require Import Base Token Regex Encode Variance Fold Rule Parse Query Glob.
From WaxProofs Require Import ParseFacts SpanFacts.
Local Open Scope N_scope.

(* ---- every token's span runs from where its parser started to where it stopped ------------------------------------------------ *)
Lemma p_token_span : forall f tm i t i', p_token f tm i = POk (t, i') -> tspan t = mk_span i i'.
Proof.
  intros f tm i t i' H. destruct f as [|f]; [discriminate|]. cbn [p_token] in H. set (iF := flags_with_state i) in *.
  destruct (p_literal iF) as [[l1 i1]|]; cbn [leaf_tok] in H; [inversion H; reflexivity|].
  assert (Tail : forall (x : pres (option (tok * input))),
     (forall y, x = POk (Some y) -> tspan (fst y) = mk_span i (snd y)) ->
     match x with
     | PFuel => PFuel
     | PErr => PErr
     | POk (Some x) => POk x
     | POk None =>
         match leaf_tok i (p_wildcard tm iF) with
         | Some x => POk x
         | None => match leaf_tok i (p_class iF) with
                   | Some x => POk x
                   | None => match (match i_s iF with c :: r => if c =? SEP then Some (c, r) else None | [] => None end) with
                             | Some (c, r) => POk (TLeaf (mk_span i (adv1 iF c r)) LSep, adv1 iF c r)
                             | None => PErr
                             end
                   end
         end
     end = POk (t, i') -> tspan t = mk_span i i').
  { intros x Hx HA. destruct x as [[y|]| |]; try discriminate.
    - inversion HA; subst. exact (Hx (t, i') eq_refl).
    - destruct (p_wildcard tm iF) as [[lw iw]|]; cbn [leaf_tok] in HA; [inversion HA; reflexivity|].
      destruct (p_class iF) as [[lc ic]|]; cbn [leaf_tok] in HA; [inversion HA; reflexivity|].
      destruct (match i_s iF with c :: r => if c =? SEP then Some (c, r) else None | [] => None end) as [[c r]|]; [|discriminate]. inversion HA. reflexivity. }
  match type of H with
  | match ?R with _ => _ end = _ => destruct R as [[y|]| |] eqn:ER; try discriminate
  end.
  - inversion H; subst.
    destruct (match i_s iF with c :: r => if c =? c_lt then Some (c, r) else None | [] => None end) as [[c r]|]; [|discriminate].
    destruct (p_glob f TermRep (adv1 iF c r)) as [[body i1]| |]; try discriminate.
    destruct (p_bounds i1) as [[lo hi] i2]. destruct (tag1 c_gt i2); inversion ER. reflexivity.
  - revert H. match goal with |- match ?A with _ => _ end = _ -> _ => intros H; apply (Tail A); [|exact H] end.
    intros y Hy. destruct (match i_s iF with c :: r => if c =? c_lbrace then Some (c, r) else None | [] => None end) as [[c r]|]; [|discriminate].
    destruct (p_branches f (adv1 iF c r)) as [[bs i1]| |]; try discriminate. destruct (tag1 c_rbrace i1); inversion Hy. reflexivity.
Qed.

(* ---- the tokens of a concatenation tile the text they were read from ------------------------------------------------------------ *)
Fixpoint tiled (p : N) (ts : list tok) (q : N) : Prop :=
  match ts with
  | [] => p = q
  | t :: r => fst (tspan t) = p /\ tiled (p + snd (tspan t)) r q
  end.

Lemma adv_pos : forall i i', adv_rel i i' -> i_pos i <= i_pos i'.
Proof. intros i i' [mid [_ H]]. lia. Qed.

Lemma p_tokens_tiled : forall e f tm i ts i', at_ e i -> p_tokens f tm i = POk (ts, i') -> tiled (i_pos i) ts (i_pos i').
Proof.
  intros e. induction f as [|f IH]; intros tm i ts i' Hat H; [discriminate|]. cbn [p_tokens] in H.
  destruct (p_token f tm i) as [[t i1]| |] eqn:Et; [| |discriminate].
  - destruct (p_tokens f tm i1) as [[ts' i2]| |] eqn:Ets; try discriminate. inversion H; subst.
    destruct (proj1 (proj2 (grammar_ok e f)) _ _ _ _ Et Hat) as [Ha _].
    cbn [tiled]. rewrite (p_token_span _ _ _ _ _ Et). unfold mk_span. cbn [fst snd]. split; [reflexivity|].
    pose proof (adv_pos _ _ Ha). replace (i_pos i + (i_pos i1 - i_pos i)) with (i_pos i1) by lia.
    apply (IH tm i1 ts' i' (at_adv _ _ _ Hat Ha) Ets).
  - inversion H; subst. reflexivity.
Qed.

Lemma tiled_firstn : forall ts p q n, tiled p ts q -> (n < length ts)%nat ->
  exists t, nth_error ts n = Some t /\ fst (tspan t) = p + sum_spans (firstn n ts).
Proof.
  induction ts as [|t ts IH]; intros p q n H Hn; [cbn in Hn; lia|]. cbn [tiled] in H. destruct H as [Hp Hr]. destruct n as [|n].
  - exists t. split; [reflexivity|]. cbn [firstn sum_spans]. lia.
  - cbn [length] in Hn. destruct (IH _ _ n Hr ltac:(lia)) as [t' [Ht' Hs]]. exists t'. split; [exact Ht'|].
    cbn [firstn sum_spans]. rewrite Hs. lia.
Qed.

(* ---- a rooted tree wildcard begins with an ASCII character --------------------------------------------------------------------- *)
Lemma flags_head : forall i, flags_with_state i = i \/ exists r, i_s i = c_lparen :: r.
Proof.
  intros i. unfold flags_with_state. destruct (length (i_s i)) as [|n]; [left; reflexivity|]. cbn [flags_with_state_f].
  unfold flag_group. destruct (i_s i) as [|c1 [|c2 r]] eqn:E; try (left; reflexivity).
  destruct (N.eqb_spec c1 c_lparen) as [->|Hne]; [right; eexists; reflexivity|]. cbn [andb]. left. reflexivity.
Qed.

Lemma p_wildcard_rooted_head : forall tm i i', p_wildcard tm i = Some (LTree true, i') -> exists r, i_s i = SEP :: r.
Proof.
  intros tm i i' H. unfold p_wildcard in H. cbv zeta in H.
  destruct (match i_s i with d :: _ => d =? c_qmark | [] => false end).
  - destruct (i_s i); inversion H.
  - match type of H with (match ?T with Some x => Some x | None => _ end) = _ => destruct T as [[l1 i1]|] eqn:Et end.
    + inversion H; subst. clear H.
      match type of Et with (match ?P with _ => _ end) = _ => destruct P as [[root ip]|] eqn:Ep; [|discriminate] end.
      destruct (i_s i) as [|c r] eqn:E.
      * destruct (i_sub i =? i_pos i); [|discriminate]. inversion Ep; subst.
        repeat match type of Et with
               | context [match ?x with _ => _ end] =>
                   lazymatch x with context [match _ with _ => _ end] => fail | _ => destruct x end
               end; try discriminate; inversion Et.
      * destruct (N.eqb_spec c SEP) as [->|Hne]; [eexists; reflexivity|].
        destruct (i_sub i =? i_pos i); [|discriminate]. inversion Ep; subst.
        repeat match type of Et with
               | context [match ?x with _ => _ end] =>
                   lazymatch x with context [match _ with _ => _ end] => fail | _ => destruct x end
               end; try discriminate; inversion Et.
    + destruct (i_s i) as [|c r]; [discriminate|].
      repeat match type of H with
             | context [if ?x then _ else _] => destruct x
             end; try discriminate; inversion H.
Qed.

Lemma p_token_rooted_head : forall f tm i sp i', p_token f tm i = POk (TLeaf sp (LTree true), i') ->
  exists c0 r, i_s i = c0 :: r /\ utf8_len c0 = 1.
Proof.
  intros f tm i sp i' H.
  assert (Hw : exists iw, p_wildcard tm (flags_with_state i) = Some (LTree true, iw)).
  { destruct f as [|f]; [discriminate|]. cbn [p_token] in H. set (iF := flags_with_state i) in *.
    destruct (p_literal iF) as [[l1 i1]|] eqn:El; cbn [leaf_tok] in H.
    { inversion H; subst. unfold p_literal in El. destruct (lit_chars (i_s iF)) as [[tx rs]|]; [|discriminate]. destruct (is_nil tx); [discriminate|]. inversion El. }
    match type of H with
    | match ?R with _ => _ end = _ => destruct R as [[y|]| |] eqn:ER; try discriminate
    end.
    - inversion H; subst. exfalso.
      destruct (match i_s iF with c :: r => if c =? c_lt then Some (c, r) else None | [] => None end) as [[c r]|]; [|discriminate].
      destruct (p_glob f TermRep (adv1 iF c r)) as [[body i1]| |]; try discriminate.
      destruct (p_bounds i1) as [[lo hi] i2]. destruct (tag1 c_gt i2); inversion ER.
    - match type of H with
      | match ?R with _ => _ end = _ => destruct R as [[y|]| |] eqn:EA; try discriminate
      end.
      + inversion H; subst. exfalso.
        destruct (match i_s iF with c :: r => if c =? c_lbrace then Some (c, r) else None | [] => None end) as [[c r]|]; [|discriminate].
        destruct (p_branches f (adv1 iF c r)) as [[bs i1]| |]; try discriminate. destruct (tag1 c_rbrace i1); inversion EA.
      + destruct (p_wildcard tm iF) as [[lw iw]|] eqn:Ew; cbn [leaf_tok] in H.
        * inversion H; subst. exists i'. reflexivity.
        * exfalso. destruct (p_class iF) as [[lc ic]|] eqn:Ec; cbn [leaf_tok] in H.
          -- inversion H; subst. unfold p_class in Ec.
             repeat match type of Ec with
                    | context [match ?x with _ => _ end] =>
                        lazymatch x with context [match _ with _ => _ end] => fail | _ => destruct x end
                    end; try discriminate; inversion Ec.
          -- destruct (match i_s iF with c :: r => if c =? SEP then Some (c, r) else None | [] => None end) as [[c r]|]; [|discriminate]. inversion H. }
  destruct Hw as [iw Hw]. apply p_wildcard_rooted_head in Hw. destruct Hw as [r Hr].
  destruct (flags_head i) as [E|[r' E]].
  - rewrite E in Hr. exists SEP, r. split; [exact Hr|reflexivity].
  - exists c_lparen, r'. split; [exact E|reflexivity].
Qed.

Definition root_ascii (e : str) (t : tok) : Prop :=
  match t with
  | TLeaf (s, _) (LTree true) => exists pre c0 post, e = pre ++ c0 :: post /\ blen pre = s /\ utf8_len c0 = 1
  | _ => True
  end.

Lemma p_tokens_roots : forall e f tm i ts i', at_ e i -> p_tokens f tm i = POk (ts, i') -> Forall (root_ascii e) ts.
Proof.
  intros e. induction f as [|f IH]; intros tm i ts i' Hat H; [discriminate|]. cbn [p_tokens] in H.
  destruct (p_token f tm i) as [[t i1]| |] eqn:Et; [| |discriminate].
  - destruct (p_tokens f tm i1) as [[ts' i2]| |] eqn:Ets; try discriminate. inversion H; subst.
    destruct (proj1 (proj2 (grammar_ok e f)) _ _ _ _ Et Hat) as [Ha _]. constructor; [|apply (IH tm i1 ts' i' (at_adv _ _ _ Hat Ha) Ets)].
    destruct t as [[s n] [| | | | |[|]]| | |]; try exact I. cbn [root_ascii].
    pose proof (p_token_span _ _ _ _ _ Et) as Hsp. cbn [tspan] in Hsp. unfold mk_span in Hsp. inversion Hsp; subst.
    destruct (p_token_rooted_head _ _ _ _ _ Et) as [c0 [r [Hr Hc]]]. destruct Hat as [pre [He Hp]].
    exists pre, c0, r. split; [rewrite He, Hr; reflexivity|]. split; [symmetry; exact Hp|exact Hc].
  - inversion H; subst. constructor.
Qed.

Lemma boundary_drop : forall e n, boundary_of e n -> drop_bytes e n <> None.
Proof. intros e n [pre [post [-> ->]]]. rewrite drop_bytes_app. discriminate. Qed.

Lemma nth_skipn : forall {A} (l : list A) n x r, skipn n l = x :: r -> nth_error l n = Some x /\ (n < length l)%nat.
Proof.
  induction l as [|a l IH]; intros n x r H.
  - destruct n; discriminate.
  - destruct n as [|n]; cbn [skipn] in H; [inversion H; subst; split; [reflexivity|cbn; lia]|].
    destruct (IH n x r H) as [H1 H2]. split; [exact H1|cbn [length]; lia].
Qed.

From WaxProofs Require Import AlgebraFacts AlgebraClosure OwnedFacts BuiltFacts.

Lemma bounds_skipn : forall n ts,
  (fix go (l : list tok) : Prop := match l with [] => True | x :: l' => tok_bounds_ok x /\ go l' end) ts ->
  (fix go (l : list tok) : Prop := match l with [] => True | x :: l' => tok_bounds_ok x /\ go l' end) (skipn n ts).
Proof.
  induction n as [|n IH]; intros ts H; [exact H|]. destruct ts as [|t ts]; [exact I|]. cbn [skipn]. apply IH. exact (proj2 H).
Qed.

(* the invariant text prefix only fails by a checked overflow (in the text variance of a token) *)
Lemma prefix_loop_safe : forall hc ts n head checkpoint, safe (fun _ => True) (prefix_loop hc n ts head checkpoint).
Proof.
  intros hc. induction ts as [|t ts IH]; intros n head checkpoint; cbn [prefix_loop]; [exact I|].
  eapply safe_bind; [apply text_variance_safe|]. intros v _. destruct v; [apply IH|exact I].
Qed.

Lemma invariant_text_prefix_safe : forall hc t, safe (fun _ => True) (invariant_text_prefix hc t).
Proof.
  intros hc t. unfold invariant_text_prefix.
  eapply (safe_bind (fun _ => True)).
  - destruct (concatenation t) as [|t0 r]; [exact I|]. destruct (has_root t0); try exact I.
    eapply safe_bind; [apply text_variance_safe|]. intros; exact I.
  - intros b _. destruct b; [exact I|]. eapply safe_bind; [apply prefix_loop_safe|]. intros; exact I.
Qed.

(* C05 / C08: partitioning a built glob never cuts its expression inside a character (the popped bytes end where a token begins;
   unrooting skips one ASCII character), never fails to re-annotate the postfix, and can only fail by a checked overflow *)
Theorem partition_panics_only_by_overflow : forall hc e t r s, build e = BuildOk t r -> partition hc e t = Panic s -> s = PanicOverflow.
Proof.
  intros hc e t r s Hb. pose proof (built_bounds_ok e t r Hb) as Hbounds.
  assert (Hp : parse e = ParseOk t).
  { unfold build in Hb. destruct (parse e) as [t0| |]; try discriminate. destruct (check t0) as [[[k sp]|]|s0]; try discriminate.
    destruct (compile_ok (encode t0)); [|discriminate]. inversion Hb; subst. reflexivity. }
  clear Hb. pose proof (invariant_text_prefix_safe hc t) as Hpre.
  destruct (invariant_text_prefix hc t) as [[n text]|s0] eqn:Ei.
  2:{ unfold partition. rewrite Ei. cbn [rbind]. intros H. inversion H; subst. exact Hpre. }
  unfold partition. rewrite Ei. cbn [rbind].
  unfold parse in Hp. destruct e as [|c e'].
  { inversion Hp; subst. cbn [tok_empty]. destruct (n =? 0); cbn; discriminate. }
  destruct (p_tokens (parse_fuel (c :: e')) TermTop (set_sub (init_input (c :: e')))) as [[ts i1]| |] eqn:E; try discriminate.
  destruct ts as [|t0 ts0]; [discriminate|]. destruct (i_s i1) eqn:Ei1; [|discriminate]. inversion Hp; subst. clear Hp.
  set (e := c :: e') in *. set (ts := t0 :: ts0) in *.
  assert (Hat : at_ e (set_sub (init_input e))) by (eapply at_adv; [apply at_init|apply set_sub_rel]).
  pose proof (p_tokens_tiled e _ _ _ _ _ Hat E) as Htile. cbn [set_sub init_input i_pos] in Htile.
  pose proof (p_tokens_roots e _ _ _ _ _ Hat E) as Hroots.
  destruct (proj1 (grammar_ok e _) _ _ _ _ E Hat) as [_ Hspans].
  destruct (N.of_nat (length ts) <=? n) eqn:Elen; [discriminate|].
  destruct (skipn (N.to_nat n) ts) as [|first rest] eqn:Es; [discriminate|].
  destruct (nth_skipn _ _ _ _ Es) as [Hnth Hlt].
  destruct (tiled_firstn _ _ _ _ Htile Hlt) as [t' [Ht' Hstart]]. rewrite Hnth in Ht'. inversion Ht'; subst t'. rewrite N.add_0_l in Hstart.
  assert (Hsok : span_ok e (tspan first)).
  { apply spans_ok_span. eapply all_spans_in; [exact Hspans|]. eapply nth_error_In. exact Hnth. }
  assert (Hroot : root_ascii e first) by (rewrite Forall_forall in Hroots; apply Hroots; eapply nth_error_In; exact Hnth).
  assert (Hbsk : tok_bounds_ok first /\ (fix go (l : list tok) : Prop := match l with [] => True | x :: l' => tok_bounds_ok x /\ go l' end) rest).
  { cbn [tok_bounds_ok] in Hbounds. pose proof (bounds_skipn (N.to_nat n) ts Hbounds) as Hsk. rewrite Es in Hsk. exact Hsk. }
  destruct (unroot first) as [first' u] eqn:Eu.
  assert (Hfirst' : tok_bounds_ok first').
  { unfold unroot in Eu. destruct first as [[s1 n1] [| | | | |[|]]| | |]; inversion Eu; subst; try exact (proj1 Hbsk); exact I. }
  match goal with |- context [fold_map ?f ?p] => rewrite (fold_map_respan f p) end.
  2:{ cbn [tok_bounds_ok]. split; [exact Hfirst'|exact (proj2 Hbsk)]. }
  cbn [rbind].
  match goal with |- context [drop_bytes e ?o] => assert (Hb : boundary_of e o) end.
  { destruct (tspan first) as [s0 n0] eqn:Esp. cbn [fst] in Hstart. apply span_ok_iff in Hsok. destruct Hsok as [Hb0 _].
    unfold unroot in Eu. destruct first as [[s1 n1] [| | | | |[|]]| | |]; inversion Eu; subst; try (rewrite N.add_0_r; exact Hb0).
    cbn [tspan] in Esp. inversion Esp as [[Hs1 Hn1]]. cbn [root_ascii] in Hroot. destruct Hroot as [pre [c0 [post [He [Hpre' Hc0]]]]].
    exists (pre ++ [c0]), post. split; [rewrite <- app_assoc; exact He|]. rewrite blen_app. cbn [blen]. lia. }
  pose proof (boundary_drop _ _ Hb) as Hd. destruct (drop_bytes e _); [discriminate|congruence].
Qed.
