(* DepthTreeFacts.v -- C10 for flat patterns that contain tree wildcards (`src/**/*.rs`, `**/a/*`, `/usr/**`): the depth the
   pattern reports is a lower bound only (no upper bound), and that bound is at most the number of components of every
   canonical path of the documented language.  Two halves: (A) the conjunction fold over the leaves keeps the lower bound
   below the number of maximal runs of non-boundary leaves; (B) every run contributes a component to every match. *)
From Coq Require Import Arith Lia.
From WaxModel Require Import Base Token Regex Spec Encode Variance Fold Rule.
From WaxProofs Require Import SpecFacts EncodeLang RuleFacts DepthFacts ExhaustFacts.
Local Open Scope N_scope.
Local Arguments N.add : simpl never.
Local Arguments N.ltb : simpl never.

Definition is_bnd (l : leaf) : bool := match l with LSep | LTree _ => true | _ => false end.
Definition is_tree_leaf (l : leaf) : bool := match l with LTree _ => true | _ => false end.

(* no two boundaries are adjacent ([pb]: the previous leaf is a boundary) *)
Fixpoint chain_ok (pb : bool) (x : list leaf) : bool :=
  match x with [] => true | a :: r => negb (pb && is_bnd a) && chain_ok (is_bnd a) r end.

(* the number of maximal runs of non-boundary leaves ([pr]: the previous leaf belongs to a run) *)
Fixpoint runs (pr : bool) (x : list leaf) : N :=
  match x with
  | [] => 0
  | a :: r => if is_bnd a then runs false r else (if pr then 0 else 1) + runs true r
  end.

(* ---- (A) the algebra ------------------------------------------------------------------------------------------------------------------ *)
Definition lo (v : nvar) : N := match v with Inv j => j | Var (Bounded (BLower k)) => k | _ => 0 end.
Definition shape (v : nvar) : Prop := match v with Inv _ | Var Unbounded | Var (Bounded (BLower _)) => True | _ => False end.
Definition vform (v : nvar) : Prop := match v with Var Unbounded | Var (Bounded (BLower _)) => True | _ => False end.

Lemma vform_shape : forall v, vform v -> shape v.
Proof. intros [j|[[k|k|a b]|]] H; try exact I; destruct H. Qed.

Lemma cadd_ok : forall a b c, cadd a b = Ok c -> c = a + b.
Proof. intros a b c H. unfold cadd in H. destruct (a + b <? usize_max1); inversion H; reflexivity. Qed.

Lemma conj_inv : forall v i v', shape v -> nvar_conj v (Inv i) = Ok v' -> shape v' /\ lo v' = lo v + i /\ (vform v -> vform v').
Proof.
  intros [j|[[k|k|a b]|]] i v' Hs H; try destruct Hs; cbn [nvar_conj rbind] in H.
  - destruct (cadd j i) as [c|] eqn:E; [|discriminate]. inversion H; subst. apply cadd_ok in E. subst c. cbn. split; [exact I|]. split; [reflexivity|intros []].
  - cbn [bvr_translation rbind] in H. destruct (cadd k i) as [c|] eqn:E; [|discriminate]. inversion H; subst. apply cadd_ok in E. subst c. cbn. auto.
  - inversion H; subst. unfold n_into_lower_bound. destruct (N.eqb_spec i 0) as [->|Hi]; cbn; auto.
Qed.

Lemma conj_unb : forall v v', shape v -> nvar_conj v (Var Unbounded) = Ok v' -> vform v' /\ lo v' = lo v.
Proof.
  intros [j|[[k|k|a b]|]] v' Hs H; try destruct Hs; cbn [nvar_conj rbind bvr_open_upper] in H; inversion H; subst.
  - unfold n_into_lower_bound. destruct (N.eqb_spec j 0) as [->|Hj]; cbn; auto.
  - cbn. auto.
  - cbn. auto.
Qed.

Lemma fin_lo : forall T v v', shape v -> sterm_finalize (T, v) = Ok v' ->
  shape v' /\ (vform v -> vform v') /\
  lo v' = match T with TOpen => lo v + 1 | TClosed => match v with Inv n => N.pred n | _ => lo v end | _ => lo v end.
Proof.
  intros T v v' Hs H. unfold sterm_finalize in H. cbn [fst snd] in H. destruct T.
  - destruct (conj_inv v 1 v' Hs H) as [H1 [H2 H3]]. auto.
  - inversion H; subst. auto.
  - inversion H; subst. auto.
  - inversion H; subst. destruct v as [n|b]; cbn; auto. all: try (split; [exact I|]; split; [intros []|reflexivity]).
  - inversion H; subst. auto.
Qed.

Inductive kind := KRun | KSep | KTree.
Definition kind_of (l : leaf) : kind := match l with LSep => KSep | LTree _ => KTree | _ => KRun end.
Definition kind_bnd (k : kind) : bool := match k with KRun => false | _ => true end.
Definition kind_run (k : kind) : bool := match k with KRun => true | _ => false end.

Definition sterm_of (l : leaf) : sterm :=
  match l with LSep => (TClosed, Inv 1) | LTree _ => (TCoalescent, Var Unbounded) | _ => (TOpen, Inv 0) end.
Lemma depth_leaf_sterm : forall l, depth_leaf l = BConj (sterm_of l).
Proof. intros []; reflexivity. Qed.

(* the state of the fold after a leaf of kind [k], [r] runs having begun, [seen]: some tree wildcard was folded *)
Definition J (T : termination) (v : nvar) (r : N) (k : kind) (seen : bool) : Prop :=
  shape v /\ (seen = true -> vform v) /\
  match k with
  | KRun => (T = TOpen /\ lo v + 1 <= r) \/ (T = TFirst /\ lo v <= r)
  | KSep => (T = TLast /\ lo v <= r) \/ (T = TClosed /\ lo v <= r + 1)
  | KTree => (T = TLast \/ T = TClosed \/ T = TCoalescent) /\ lo v <= r /\ vform v
  end.

Lemma J_init : forall l, J (fst (sterm_of l)) (snd (sterm_of l)) (if is_bnd l then 0 else 1) (kind_of l) (is_tree_leaf l).
Proof.
  intros l. unfold J. destruct l; cbn; (split; [exact I|]); (split; [try discriminate; auto|]); try (left; split; [reflexivity|lia]); try (right; split; [reflexivity|lia]).
  split; [auto|]. split; [lia|exact I].
Qed.

Ltac conj_step H :=
  match type of H with
  | rbind (nvar_conj ?a ?b) _ = _ => let c := fresh "c" in let E := fresh "E" in destruct (nvar_conj a b) as [c|] eqn:E; [|discriminate]; cbn [rbind] in H
  | rbind (sterm_finalize ?a) _ = _ => let c := fresh "c" in let E := fresh "E" in destruct (sterm_finalize a) as [c|] eqn:E; [|discriminate]; cbn [rbind] in H
  end.

Lemma J_step : forall T v r k seen l T' v',
  J T v r k seen -> negb (kind_bnd k && is_bnd l) = true -> sterm_conj (T, v) (sterm_of l) = Ok (T', v') ->
  J T' v' (r + (if kind_run k || is_bnd l then 0 else 1)) (kind_of l) (seen || is_tree_leaf l).
Proof.
  intros T v r k seen l T' v' [Hs [Hseen HJ]] Hadj H. unfold sterm_conj in H. cbn [fst snd] in H.
  destruct (kind_of l) eqn:Ek.
  - (* a run leaf *)
    assert (El : sterm_of l = (TOpen, Inv 0) /\ is_bnd l = false /\ is_tree_leaf l = false) by (destruct l; try discriminate; auto).
    destruct El as [El [Eb Et]]. rewrite El in H. cbn [fst snd] in H. rewrite Eb, Et, !orb_false_r. clear Hadj.
    destruct k; cbn [kind_run].
    + destruct HJ as [[-> Hl]|[-> Hl]]; cbn [term_conj] in H; conj_step H; inversion H; subst;
        destruct (conj_inv _ _ _ Hs E) as [S1 [S2 S3]]; (split; [exact S1|]); (split; [intros Hx; apply S3; apply Hseen; exact Hx|]).
      * left. split; [reflexivity|lia].
      * right. split; [reflexivity|lia].
    + destruct HJ as [[-> Hl]|[-> Hl]]; cbn [term_conj] in H; conj_step H; inversion H; subst;
        destruct (conj_inv _ _ _ Hs E) as [S1 [S2 S3]]; (split; [exact S1|]); (split; [intros Hx; apply S3; apply Hseen; exact Hx|]).
      * left. split; [reflexivity|lia].
      * right. split; [reflexivity|lia].
    + destruct HJ as [[-> | [-> | ->]] [Hl Hv]]; cbn [term_conj] in H.
      * conj_step H. inversion H; subst. destruct (conj_inv _ _ _ Hs E) as [S1 [S2 S3]]. split; [exact S1|]. split; [intros _; apply S3; exact Hv|]. left. split; [reflexivity|lia].
      * conj_step H. inversion H; subst. destruct (conj_inv _ _ _ Hs E) as [S1 [S2 S3]]. split; [exact S1|]. split; [intros _; apply S3; exact Hv|]. right. split; [reflexivity|lia].
      * conj_step H. conj_step H. inversion H; subst.
        assert (c = Inv 1) by (unfold sterm_finalize in E; cbn in E; inversion E; reflexivity). subst c.
        destruct (conj_inv _ _ _ Hs E0) as [S1 [S2 S3]]. split; [exact S1|]. split; [intros _; apply S3; exact Hv|]. right. split; [reflexivity|lia].
  - (* a separator: only after a run leaf *)
    assert (El : l = LSep) by (destruct l; try discriminate; reflexivity). subst l. cbn [sterm_of fst snd is_bnd is_tree_leaf] in *.
    rewrite orb_true_r, orb_false_r, N.add_0_r. destruct k; cbn [kind_bnd andb negb] in Hadj; try discriminate.
    destruct HJ as [[-> Hl]|[-> Hl]]; cbn [term_conj] in H; conj_step H; inversion H; subst;
      destruct (conj_inv _ _ _ Hs E) as [S1 [S2 S3]]; (split; [exact S1|]); (split; [intros Hx; apply S3; apply Hseen; exact Hx|]).
    + left. split; [reflexivity|lia].
    + right. split; [reflexivity|lia].
  - (* a tree wildcard: only after a run leaf *)
    assert (El : sterm_of l = (TCoalescent, Var Unbounded) /\ is_bnd l = true /\ is_tree_leaf l = true) by (destruct l; try discriminate; auto).
    destruct El as [El [Eb Et]]. rewrite El in H. cbn [fst snd] in H. rewrite Eb, Et, !orb_true_r, N.add_0_r.
    destruct k; cbn [kind_bnd andb negb] in Hadj; rewrite ?Eb in Hadj; try discriminate.
    destruct HJ as [[-> Hl]|[-> Hl]]; cbn [term_conj] in H; conj_step H; conj_step H; inversion H; subst;
      destruct (fin_lo _ _ _ Hs E) as [F1 [F2 F3]]; destruct (conj_unb _ _ F1 E0) as [U1 U2];
      (split; [apply vform_shape; exact U1|]); (split; [intros _; exact U1|]); (split; [auto|]); (split; [lia|exact U1]).
Qed.

Lemma J_fold : forall ls T v r k seen acc,
  J T v r k seen -> chain_ok (kind_bnd k) ls = true ->
  rfold bterm_conj (BConj (T, v)) (map depth_leaf ls) = Ok acc ->
  exists T' v', acc = BConj (T', v') /\
    J T' v' (r + runs (kind_run k) ls) (match last_opt ls with Some l => kind_of l | None => k end) (seen || existsb is_tree_leaf ls).
Proof.
  induction ls as [|l ls IH]; intros T v r k seen acc HJ Hc H.
  - cbn in H. inversion H; subst. exists T, v. split; [reflexivity|]. cbn [runs last_opt existsb]. rewrite N.add_0_r, orb_false_r. exact HJ.
  - cbn [map rfold] in H. rewrite depth_leaf_sterm in H. cbn [bterm_conj] in H.
    destruct (sterm_conj (T, v) (sterm_of l)) as [[T1 v1]|] eqn:E; [|discriminate]. cbn [rbind] in H.
    cbn [chain_ok] in Hc. apply andb_prop in Hc. destruct Hc as [Hadj Hc].
    pose proof (J_step _ _ _ _ _ _ _ _ HJ Hadj E) as HJ1.
    assert (Hkb : kind_bnd (kind_of l) = is_bnd l) by (destruct l; reflexivity). rewrite <- Hkb in Hc.
    destruct (IH _ _ _ _ _ _ HJ1 Hc H) as [T' [v' [-> HJ']]]. exists T', v'. split; [reflexivity|].
    assert (Er : r + (if kind_run k || is_bnd l then 0 else 1) + runs (kind_run (kind_of l)) ls = r + runs (kind_run k) (l :: ls)).
    { cbn [runs]. destruct (is_bnd l) eqn:Eb.
      - rewrite orb_true_r. replace (kind_run (kind_of l)) with false by (destruct l; try discriminate; reflexivity). lia.
      - rewrite orb_false_r. replace (kind_run (kind_of l)) with true by (destruct l; try discriminate; reflexivity). destruct (kind_run k); lia. }
    rewrite Er in HJ'.
    assert (El : match last_opt ls with Some l0 => kind_of l0 | None => kind_of l end = match last_opt (l :: ls) with Some l0 => kind_of l0 | None => k end).
    { destruct ls as [|l1 ls1]; [reflexivity|]. destruct (last_opt_nonempty (l1 :: ls1)) as [x Hx]; [discriminate|].
      change (last_opt (l :: l1 :: ls1)) with (last_opt (l1 :: ls1)). rewrite Hx. reflexivity. }
    rewrite El in HJ'. cbn [existsb]. rewrite orb_assoc. exact HJ'.
Qed.

(* the reported depth of a flat pattern with a tree wildcard: a lower bound, at most the number of runs *)
Lemma flat_tree_depth : forall l0 ls v,
  chain_ok false (l0 :: ls) = true -> existsb is_tree_leaf (l0 :: ls) = true ->
  (match last_opt (l0 :: ls) with Some LSep => False | _ => True end) ->
  (do r <- rreduce bterm_conj (map depth_leaf (l0 :: ls)); bterm_finalize (match r with Some x => x | None => bterm_zero end)) = Ok v ->
  vform v /\ lo v <= runs false (l0 :: ls).
Proof.
  intros l0 ls v Hc Hex Hlast H. cbn [map rreduce] in H. rewrite depth_leaf_sterm in H.
  destruct (rfold bterm_conj (BConj (sterm_of l0)) (map depth_leaf ls)) as [acc|] eqn:Ef; [|discriminate]. cbn [rmap rbind] in H.
  cbn [chain_ok andb negb] in Hc.
  assert (Hkb : kind_bnd (kind_of l0) = is_bnd l0) by (destruct l0; reflexivity). rewrite <- Hkb in Hc.
  destruct (sterm_of l0) as [T0 v0] eqn:E0.
  pose proof (J_init l0) as HJ0. rewrite E0 in HJ0. cbn [fst snd] in HJ0.
  destruct (J_fold ls _ _ _ _ _ acc HJ0 Hc Ef) as [T' [v' [-> [Hs [Hseen HJ]]]]].
  assert (Er : (if is_bnd l0 then 0 else 1) + runs (kind_run (kind_of l0)) ls = runs false (l0 :: ls)).
  { cbn [runs]. destruct (is_bnd l0) eqn:Eb.
    - replace (kind_run (kind_of l0)) with false by (destruct l0; try discriminate; reflexivity). lia.
    - replace (kind_run (kind_of l0)) with true by (destruct l0; try discriminate; reflexivity). reflexivity. }
  rewrite Er in HJ. cbn [existsb] in Hex. rewrite Hex in Hseen. specialize (Hseen eq_refl).
  assert (Ek : match last_opt ls with Some l => kind_of l | None => kind_of l0 end = match last_opt (l0 :: ls) with Some l => kind_of l | None => KRun end).
  { destruct ls as [|l1 ls1]; [reflexivity|]. destruct (last_opt_nonempty (l1 :: ls1)) as [x Hx]; [discriminate|].
    change (last_opt (l0 :: l1 :: ls1)) with (last_opt (l1 :: ls1)). rewrite Hx. reflexivity. }
  rewrite Ek in HJ. destruct (last_opt_nonempty (l0 :: ls)) as [ll Hll]; [discriminate|]. rewrite Hll in HJ, Hlast.
  cbn [bterm_finalize] in H. destruct (fin_lo _ _ _ Hs H) as [F1 [F2 F3]]. split; [apply F2; exact Hseen|]. rewrite F3.
  destruct (kind_of ll) eqn:Ekl.
  - destruct HJ as [[-> Hl]|[-> Hl]]; lia.
  - destruct ll; try discriminate. destruct Hlast.
  - destruct HJ as [[-> | [-> | ->]] [Hl Hv]]; try lia. destruct v' as [n|b]; [destruct Hv|lia].
Qed.

(* ---- (B) every run is a component of every match ------------------------------------------------------------------------------------------- *)
(* separators every match must contain: one per separator, one per tree wildcard that is neither an unrooted first one nor the last leaf *)
Fixpoint sb (f : bool) (x : list leaf) : N :=
  match x with
  | [] => 0
  | a :: r => (match a with LSep => 1 | LTree root => if (f && negb root) || is_nil r then 0 else 1 | _ => 0 end) + sb false r
  end.

Section Count.
Variable orbit : char -> list char.
Notation FlatMatch := (Spec.FlatMatch orbit).

Lemma starts_sep_seps : forall u, starts_sep u = true -> 1 <= seps u.
Proof. intros [|c u] H; [discriminate|]. cbn [starts_sep] in H. cbn [seps]. rewrite H. lia. Qed.

Lemma seps_lower : forall x f w, FlatMatch f true x w -> sb f x <= seps w.
Proof.
  induction x as [|a x IH]; intros f w H.
  - inversion H; subst. cbn. lia.
  - inversion H as [|f0 l0 a0 x0 u v Hp Hrest]; subst. rewrite seps_app. cbn [sb]. specialize (IH _ _ Hrest).
    destruct a; cbn [leaf_piece] in Hp; try lia.
    + subst u. cbn. lia.
    + cbn [andb] in Hp. destruct ((f && negb root) || is_nil x) eqn:E; [lia|]. apply orb_false_iff in E. destruct E as [E1 E2].
      unfold tree_piece in Hp. rewrite E1, E2 in Hp. cbn [andb orb] in Hp. apply andb_prop in Hp. destruct Hp as [Hp _].
      rewrite orb_false_r in Hp. apply starts_sep_seps in Hp. lia.
Qed.

Lemma runs_sb : forall x,
  (chain_ok false x = true -> runs true x <= sb false x) /\ (chain_ok true x = true -> runs false x <= sb false x + 1).
Proof.
  induction x as [|a x [IH1 IH2]]; [cbn; split; intros; lia|].
  destruct (is_bnd a) eqn:Eb.
  - split.
    + intros Hc. cbn [chain_ok andb negb] in Hc. rewrite Eb in Hc. cbn [runs]. rewrite Eb. specialize (IH2 Hc). cbn [sb].
      destruct a; try discriminate; [lia|]. cbn [andb orb]. destruct x as [|b x']; [cbn; lia|]. cbn [is_nil]. lia.
    + intros Hc. cbn [chain_ok andb negb] in Hc. rewrite Eb in Hc. discriminate.
  - split.
    + intros Hc. cbn [chain_ok andb negb] in Hc. rewrite Eb in Hc. cbn [runs sb]. rewrite Eb. specialize (IH1 Hc). destruct a; try discriminate; lia.
    + intros Hc. cbn [chain_ok] in Hc. rewrite Eb, andb_false_r in Hc. cbn [negb andb] in Hc. cbn [runs sb]. rewrite Eb. specialize (IH1 Hc). destruct a; try discriminate; lia.
Qed.

Lemma runs_ncomp : forall a x w, chain_ok false (a :: x) = true -> FlatMatch true true (a :: x) w ->
  starts_sep w = leaf_is_rooting a -> 1 <= ncomp w -> runs false (a :: x) <= ncomp w.
Proof.
  intros a x w Hc Hm Hroot Hn. pose proof (seps_lower _ _ _ Hm) as Hs. destruct (runs_sb x) as [R1 R2].
  cbn [chain_ok andb negb] in Hc. unfold ncomp in *. destruct w as [|c w']; [cbn in Hn; lia|]. rewrite Hroot in *.
  cbn [runs sb] in *. destruct (is_bnd a) eqn:Eb.
  - specialize (R2 Hc). destruct a; try discriminate; cbn [leaf_is_rooting] in *.
    + destruct (is_nil (tl (c :: w'))); lia.
    + destruct root; cbn [andb negb orb] in Hs.
      * destruct x as [|b x']; [cbn; lia|]. cbn [is_nil] in Hs. destruct (is_nil (tl (c :: w'))); lia.
      * lia.
  - specialize (R1 Hc). destruct a; try discriminate; cbn [leaf_is_rooting] in *; lia.
Qed.

Lemma last_sep_ends : forall x f l w, FlatMatch f l x w -> last_opt x = Some LSep -> ends_sep w = true.
Proof.
  induction x as [|b x IH]; intros f l w Hm Hl; [discriminate|].
  inversion Hm as [|f0 l0 a0 x0 u v Hp Hrest]; subst. destruct x as [|c x'].
  - cbn in Hl. inversion Hl; subst b. inversion Hrest; subst. rewrite app_nil_r. cbn [leaf_piece] in Hp. subst u. reflexivity.
  - change (last_opt (b :: c :: x')) with (last_opt (c :: x')) in Hl. pose proof (IH _ _ _ Hrest Hl) as He.
    apply ends_sep_iff in He. destruct He as [v' ->]. apply ends_sep_iff. exists (u ++ v'). apply app_assoc.
Qed.

End Count.

(* ---- the theorem ---------------------------------------------------------------------------------------------------------------------------- *)
Lemma chain_of_tokens : forall ts pb, forallb is_leaf ts = true -> adjacent_boundary ts = None ->
  (pb = true -> match ts with t :: _ => is_boundary t = false | [] => True end) -> chain_ok pb (map leaf_of ts) = true.
Proof.
  induction ts as [|t ts IH]; intros pb Hl Ha Hp; [reflexivity|].
  cbn [forallb] in Hl. apply andb_prop in Hl. destruct Hl as [Ht Hl]. cbn [map chain_ok].
  assert (Eb : is_bnd (leaf_of t) = is_boundary t) by (destruct t as [sp l| | |]; try discriminate; destruct l; reflexivity).
  rewrite Eb. apply andb_true_intro. split.
  - destruct pb; [|reflexivity]. rewrite (Hp eq_refl). reflexivity.
  - apply IH; [exact Hl| |].
    + destruct ts as [|t1 ts']; [reflexivity|]. cbn [adjacent_boundary] in Ha. destruct (is_boundary t && is_boundary t1); [discriminate|exact Ha].
    + intros Hb. destruct ts as [|t1 ts']; [exact I|]. cbn [adjacent_boundary] in Ha. rewrite Hb in Ha. cbn [andb] in Ha.
      destruct (is_boundary t1); [discriminate|reflexivity].
Qed.

Lemma depth_fold_leaves : forall ts, forallb is_leaf ts = true ->
  rmapM depth_fold ts = Ok (map (fun t => Some (depth_leaf (leaf_of t))) ts).
Proof.
  induction ts as [|t ts IH]; intros Hf; [reflexivity|].
  cbn [forallb] in Hf. apply andb_prop in Hf. destruct Hf as [Ht Hf]. cbn [rmapM rbind map].
  destruct t as [sp l| | |]; try discriminate. cbn [depth_fold rbind leaf_of]. rewrite (IH Hf). reflexivity.
Qed.

Theorem depth_flat_tree_sound : forall orbit sp ts v p l0 rest,
  forallb is_leaf ts = true -> adjacent_boundary ts = None -> existsb tree_tok ts = true ->
  map leaf_of ts = l0 :: rest ->
  depth_variance (TCat sp ts) = Ok v -> Lang orbit (TCat sp ts) p ->
  canonical p = true -> 1 <= ncomp p -> starts_sep p = leaf_is_rooting l0 ->
  in_variance (ncomp p) v.
Proof.
  intros orbit sp ts v p l0 rest Hl Ha Hex Hls Hv [x [Hx Hm]] Hcan Hn Hroot.
  inversion Hx; subst. match goal with HF : Forall2 Expands ts ?xs |- _ => rewrite (expands_leaves ts xs Hl HF) in Hm end.
  pose proof (chain_of_tokens ts false Hl Ha (fun H => ltac:(discriminate))) as Hc. rewrite Hls in *.
  assert (Hext : existsb is_tree_leaf (l0 :: rest) = true).
  { rewrite <- Hls. apply existsb_exists in Hex. destruct Hex as [t [Hin Ht]]. apply existsb_exists. exists (leaf_of t). split; [apply in_map; exact Hin|].
    destruct t as [s0 l| | |]; try discriminate. destruct l; try discriminate. reflexivity. }
  (* a pattern that ends with a separator matches no canonical path that has a component *)
  assert (Hlast : match last_opt (l0 :: rest) with Some LSep => False | _ => True end).
  { destruct (last_opt (l0 :: rest)) as [ll|] eqn:Ell; [|exact I]. destruct ll; try exact I.
    pose proof (last_sep_ends orbit _ _ _ _ Hm Ell) as He.
    unfold canonical in Hcan. apply andb_prop in Hcan. destruct Hcan as [_ Hcn]. rewrite He in Hcn. cbn [andb] in Hcn.
    apply negb_true_iff in Hcn. apply negb_false_iff in Hcn.
    destruct p as [|c [|d p']]; [discriminate| |discriminate].
    unfold ends_sep in He. cbn in He. unfold ncomp in Hn. cbn [starts_sep] in Hn. rewrite He in Hn. cbn in Hn. lia. }
  unfold depth_variance in Hv. cbn [depth_fold] in Hv. rewrite (depth_fold_leaves ts Hl) in Hv. cbn [rbind] in Hv.
  rewrite (ExhaustFacts.flat_map_opt_some (fun t => depth_leaf (leaf_of t))) in Hv. rewrite <- (map_map leaf_of depth_leaf), Hls in Hv.
  destruct (flat_tree_depth l0 rest v Hc Hext Hlast Hv) as [Hvf Hlo].
  pose proof (runs_ncomp orbit l0 rest p Hc Hm Hroot Hn) as Hr.
  destruct v as [n|[[k|k|a b]|]]; try destruct Hvf; cbn [in_variance lo] in *; [lia|exact I].
Qed.
