(* NegationRep.v -- C03 for negated globs with repetitions: for every glob that builds, whose repetitions are written out at least once,
   are bounded above or hold a bounded token, and have bodies that begin and end with a leaf, and that cannot end with a separator,
   `not` is the per-entry filter; each `Always` verdict's promise is proved (C09 with repetitions), the adjacency facts come from C06
   with repetitions. *)
From Coq Require Import Arith Lia.
From WaxModel Require Import Base Token Regex Spec Encode Variance Fold Rule Parse Query Glob Walk.
From WaxProofs Require Import AlgebraFacts SpecFacts EncodeLang OwnedFacts ComposeFacts RuleFacts FuelFacts WalkFacts PruneFacts GlobWalkFacts NotWalkFacts NegationFacts ZomFacts ExhaustFacts NegationWalkFacts.
From WaxProofs Require Import DepthTreeFacts DepthAltFacts BuiltFacts BuiltNonempty RuleAdjFacts ParseShape RuleZomFacts NegationAltFacts.
From WaxProofs Require Import AlgebraClosure.
From WaxProofs Require ExhaustAltFacts ExhaustRepFacts RuleAdjRep RuleZomRep.
Local Open Scope nat_scope.

(* what an alternative inherits *)
Definition Qrep (a : tok) : Prop :=
  tok_bounds_ok a /\ ExhaustRepFacts.frp a = true /\ nonempty_branches a = true /\
  forall x, Expands a x -> chain_ok false x = true /\ zchain false x = true /\ last_opt x <> Some LSep.

Lemma Qrep_branch : forall sp bs b, Qrep (TAlt sp bs) -> In b bs -> Qrep b.
Proof.
  intros sp bs b [Hb [Hf [Hn Hx]]] Hin. cbn [ExhaustRepFacts.frp nonempty_branches] in *. apply andb_prop in Hn. destruct Hn as [_ Hn].
  rewrite forallb_forall in Hf, Hn. specialize (Hf b Hin). apply andb_prop in Hf. repeat split.
  - clear - Hb Hin. cbn [tok_bounds_ok] in Hb. induction bs as [|b0 bs IH]; [contradiction|]. destruct Hb as [H0 Hb]. destruct Hin as [<-|Hin]; [exact H0|exact (IH Hb Hin)].
  - exact (proj2 Hf).
  - exact (Hn b Hin).
  - apply Hx. econstructor; eassumption.
  - apply Hx. econstructor; eassumption.
  - apply Hx. econstructor; eassumption.
Qed.

Lemma rep_range_one : forall lo hi, rep_range lo hi = Inv 1%N -> lo = 1%N /\ hi = Some 1%N.
Proof.
  intros lo hi H. unfold rep_range, from_closed_open in H. destruct hi as [h|].
  - destruct (h <? lo)%N eqn:E.
    + exfalso. destruct h; unfold try_lower_upper in H; repeat break_if_in H; try discriminate; arith_hyps; try lia.
    + destruct lo; unfold try_lower_upper in H; repeat break_if_in H; try discriminate; arith_hyps; try lia.
      all: injection H as Hp; subst p; split; [reflexivity|f_equal; lia].
  - destruct lo; [discriminate|]. unfold try_lower_upper in H. cbn in H. discriminate.
Qed.

Lemma Qrep_non_trivial : forall t, Qrep t -> Qrep (into_non_trivial t).
Proof.
  induction t as [sp l|sp bs IH|sp ts IH|sp b lo hi IH] using tok_ind'; intros HQ; cbn [into_non_trivial]; try exact HQ.
  - destruct bs as [|b [|b2 bs']]; try exact HQ. inversion IH as [|? ? Hb _]; subst. apply Hb. eapply Qrep_branch; [exact HQ|left; reflexivity].
  - destruct ts as [|b [|b2 ts']]; try exact HQ. inversion IH as [|? ? Hb _]; subst. apply Hb.
    destruct HQ as [Hbd [Hf [Hn Hx]]]. cbn [tok_bounds_ok ExhaustRepFacts.frp nonempty_branches forallb] in *.
    rewrite !andb_true_r in *. cbn [is_nil negb andb] in Hn. repeat split; try tauto; apply (Hx x); apply expands_single_cat; exact H.
  - destruct (rep_range lo hi) as [n|v] eqn:Er; [|exact HQ]. destruct n as [|[p|p|]]; try exact HQ. apply IH.
    destruct (rep_range_one lo hi Er) as [-> ->]. destruct HQ as [Hbd [Hf [Hn Hx]]]. cbn [tok_bounds_ok ExhaustRepFacts.frp nonempty_branches] in *.
    apply andb_prop in Hf. destruct Hf as [_ Hf]. apply andb_prop in Hn. destruct Hn as [Hn _].
    assert (Hex : forall x, Expands b x -> Expands (TRep sp b 1 (Some 1%N)) x).
    { intros x H. rewrite <- (app_nil_r x). change (x ++ []) with (concat [x]). apply E_rep; [split; cbn; lia|constructor; [exact H|constructor]]. }
    repeat split; try tauto; apply (Hx x); apply Hex; exact H.
Qed.

Lemma alternatives_Qrep : forall fuel queue, Forall Qrep queue -> Forall Qrep (alternatives_loop fuel queue).
Proof.
  induction fuel as [|f IH]; intros queue HQ; [constructor|]. cbn [alternatives_loop]. destruct queue as [|t rest]; [constructor|].
  inversion HQ as [|? ? Ht Hrest]; subst. destruct t as [sp l|sp bs|sp ts|sp b lo hi]; try (constructor; [exact Ht|apply IH; exact Hrest]).
  assert (Hbs : Forall Qrep (map into_non_trivial bs)).
  { apply Forall_forall. intros b' Hb'. apply in_map_iff in Hb'. destruct Hb' as [b [<- Hin]]. apply Qrep_non_trivial. eapply Qrep_branch; eassumption. }
  apply Forall_app. split.
  - apply Forall_forall. intros a Ha. apply filter_In in Ha. rewrite Forall_forall in Hbs. exact (Hbs a (proj1 Ha)).
  - apply IH. apply Forall_app. split; [exact Hrest|]. apply Forall_forall. intros a Ha. apply filter_In in Ha. rewrite Forall_forall in Hbs. exact (Hbs a (proj1 Ha)).
Qed.

Section NegationRep.
Variable orbit : char -> list char.
Notation Lang := (Spec.Lang orbit).

Lemma Qrep_sound : forall a, Qrep a -> sound_alt orbit a.
Proof.
  intros a [Hb [Hf [Hn Hx]]]. split; [exact Hb|]. intros He w z Hz [x [Hxa Hma]]. destruct (Hx x Hxa) as [Hc [Hzc Hl]].
  exists x. split; [exact Hxa|]. exact (ExhaustRepFacts.frp_always_sound orbit a w z x Hf Hn He Hz Hxa Hc Hzc Hl Hma).
Qed.

Theorem negation_of_any_built_glob_with_required_reps : forall e t r ext nxt exh nonexh,
  build e = BuildOk t r -> ExhaustRepFacts.required_reps t = true -> RuleZomRep.rep_class t = true -> RuleZomRep.shz t = true -> may_end_sep t = false ->
  not_partition t = Ok (ext, nxt) -> decides orbit exh ext -> decides orbit nonexh nxt -> opt_match exh [] = false ->
  (forall q, matched exh nonexh q = true <-> Lang t (join_path q)) /\
  forall ls mind maxd root, names_valid root ->
    yields (walk mind maxd (ls ++ [nl exh nonexh]) root) =
    filter (fun q => negb (matched exh nonexh q)) (yields (walk mind maxd ls root)).
Proof.
  intros e t r ext nxt exh nonexh Hb Hrq Hrc Hz Hms. apply negation_walk_sound_alts.
  destruct (RuleZomRep.built_parts e t r Hb) as [Ep Ec]. pose proof (built_nonempty_branches e t r Hb) as Hne.
  assert (HQ : Qrep t).
  { split; [exact (built_bounds_ok e t r Hb)|]. split; [apply ExhaustRepFacts.sh_frp; [eapply parse_sh; exact Ep|exact Hrq]|]. split; [exact Hne|].
    intros x Hx. split; [exact (RuleZomRep.built_no_adjacent_boundaries_r e t r Hb Hrc x Hx)|]. split; [exact (RuleZomRep.built_no_adjacent_zoms_r e t r Hb Hrc Hz x Hx)|].
    exact (RuleZomRep.no_trailing_sep_r t Hne (RuleZomRep.sh_shr t (parse_sh e t Ep) Hrc) Hms x Hx). }
  unfold into_alternatives. eapply Forall_impl; [intros a Ha; apply Qrep_sound; exact Ha|]. apply alternatives_Qrep. constructor; [apply Qrep_non_trivial; exact HQ|constructor].
Qed.

End NegationRep.
