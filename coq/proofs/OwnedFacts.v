(* OwnedFacts.v -- C19: conversions that rebuild the token tree (into_owned, clone, the `any` combinator: Token::fold_map)
   change nothing but the annotations, and nothing that matching or a query computes looks at an annotation. *)
From Coq Require Import Arith Lia.
From WaxModel Require Import Base Token Regex Spec Encode Variance Fold Rule Parse Query.
From WaxProofs Require Import EncodeFacts AlgebraFacts.

Fixpoint respan (f : span -> span) (t : tok) : tok :=
  match t with
  | TLeaf sp l => TLeaf (f sp) l
  | TAlt sp bs => TAlt (f sp) (map (respan f) bs)
  | TCat sp ts => TCat (f sp) (map (respan f) ts)
  | TRep sp b lo hi => TRep (f sp) (respan f b) lo hi
  end.

Lemma rmapM_respan : forall f l,
  (fix go (l : list tok) : Prop := match l with [] => True | x :: l' => tok_bounds_ok x /\ go l' end) l ->
  Forall (fun t => tok_bounds_ok t -> fold_map f t = Ok (respan f t)) l -> rmapM (fold_map f) l = Ok (map (respan f) l).
Proof.
  intros f l Hb H. induction H as [|t l Ht _ IH]; [reflexivity|].
  destruct Hb as [Hbt Hbl]. cbn [rmapM rbind map]. rewrite (Ht Hbt). cbn [rbind]. rewrite (IH Hbl). reflexivity.
Qed.

(* fold_map only changes annotations (the bounds of repetitions survive the detour through NaturalRange) *)
Lemma fold_map_respan : forall f t, tok_bounds_ok t -> fold_map f t = Ok (respan f t).
Proof.
  intros f. induction t as [sp l|sp bs IH|sp ts IH|sp b lo hi IH] using tok_ind'; intros Hb.
  - reflexivity.
  - cbn [fold_map respan]. cbn [tok_bounds_ok] in Hb. rewrite (rmapM_respan f bs Hb IH). reflexivity.
  - cbn [fold_map respan]. cbn [tok_bounds_ok] in Hb. rewrite (rmapM_respan f ts Hb IH). reflexivity.
  - cbn [fold_map respan]. destruct Hb as [Hb Hbo]. rewrite (IH Hb). cbn [rbind]. rewrite (rep_roundtrip_id lo hi Hbo). reflexivity.
Qed.

Lemma map_ext_forall : forall {A B} (f g : A -> B) l, Forall (fun a => f a = g a) l -> map f l = map g l.
Proof. intros A B f g l H. induction H as [|a l Ha _ IH]; [reflexivity|]. cbn [map]. rewrite Ha, IH. reflexivity. Qed.

(* the encoder does not look at annotations *)
Lemma seq_edges_aux_pointwise : forall fs gs,
  Forall2 (fun (f g : bool -> bool -> re) => forall s e, f s e = g s e) fs gs ->
  forall first s e, seq_edges_aux first fs s e = seq_edges_aux first gs s e.
Proof.
  intros fs gs H. induction H as [|f g fs gs Hfg Hrest IH]; intros first s e; [reflexivity|].
  destruct Hrest as [|f' g' fs' gs' Hfg' Hrest'].
  - cbn [seq_edges_aux]. apply Hfg.
  - change (seq_edges_aux first (f :: f' :: fs') s e) with (RCat (f (s && first) false) (seq_edges_aux false (f' :: fs') s e)).
    change (seq_edges_aux first (g :: g' :: gs') s e) with (RCat (g (s && first) false) (seq_edges_aux false (g' :: gs') s e)).
    rewrite Hfg, (IH false s e). reflexivity.
Qed.

Lemma enc_tok_respan : forall f t cap s e, enc_tok cap (respan f t) s e = enc_tok cap t s e.
Proof.
  intros f. induction t as [sp l|sp bs IH|sp ts IH|sp b lo hi IH] using tok_ind'; intros cap s e.
  - reflexivity.
  - cbn [respan enc_tok]. f_equal. f_equal. rewrite map_map. apply map_ext_forall.
    eapply Forall_impl; [|exact IH]. intros a Ha. cbn beta. rewrite Ha. reflexivity.
  - cbn [respan enc_tok]. unfold seq_edges. apply seq_edges_aux_pointwise. rewrite map_map.
    induction IH as [|a l Ha _ IHl]; cbn [map]; constructor; [|exact IHl]. intros s' e'. apply Ha.
  - cbn [respan enc_tok]. destruct (norm_bounds lo hi). rewrite IH. reflexivity.
Qed.

Lemma encode_respan : forall f t, encode (respan f t) = encode t.
Proof. intros. unfold encode. apply enc_tok_respan. Qed.

(* nor do the queries *)
Lemma rmapM_ext_forall : forall {A B} (g h : A -> res B) l, Forall (fun a => g a = h a) l -> rmapM g l = rmapM h l.
Proof. intros A B g h l H. induction H as [|a l Ha _ IH]; [reflexivity|]. cbn [rmapM]. rewrite Ha, IH. reflexivity. Qed.

Lemma depth_fold_respan : forall f t, depth_fold (respan f t) = depth_fold t.
Proof.
  intros f. induction t as [sp l|sp bs IH|sp ts IH|sp b lo hi IH] using tok_ind'.
  - reflexivity.
  - cbn [respan depth_fold]. assert (E : rmapM depth_fold (map (respan f) bs) = rmapM depth_fold bs).
    { induction IH as [|a l Ha _ IHl]; [reflexivity|]. cbn [map rmapM]. rewrite Ha, IHl. reflexivity. }
    rewrite E. reflexivity.
  - cbn [respan depth_fold]. assert (E : rmapM depth_fold (map (respan f) ts) = rmapM depth_fold ts).
    { induction IH as [|a l Ha _ IHl]; [reflexivity|]. cbn [map rmapM]. rewrite Ha, IHl. reflexivity. }
    rewrite E. reflexivity.
  - cbn [respan depth_fold]. rewrite IH. reflexivity.
Qed.

Lemma text_fold_respan : forall hc f t, text_fold hc (respan f t) = text_fold hc t.
Proof.
  intros hc f. induction t as [sp l|sp bs IH|sp ts IH|sp b lo hi IH] using tok_ind'.
  - reflexivity.
  - cbn [respan text_fold]. assert (E : rmapM (text_fold hc) (map (respan f) bs) = rmapM (text_fold hc) bs).
    { induction IH as [|a l Ha _ IHl]; [reflexivity|]. cbn [map rmapM]. rewrite Ha, IHl. reflexivity. }
    rewrite E. reflexivity.
  - cbn [respan text_fold]. assert (E : rmapM (text_fold hc) (map (respan f) ts) = rmapM (text_fold hc) ts).
    { induction IH as [|a l Ha _ IHl]; [reflexivity|]. cbn [map rmapM]. rewrite Ha, IHl. reflexivity. }
    rewrite E. reflexivity.
  - cbn [respan text_fold]. rewrite IH. reflexivity.
Qed.

Lemma has_root_fold_respan : forall f t, has_root_fold (respan f t) = has_root_fold t.
Proof.
  intros f. induction t as [sp l|sp bs IH|sp ts IH|sp b lo hi IH] using tok_ind'.
  - reflexivity.
  - cbn [respan has_root_fold]. f_equal. induction IH as [|a l Ha _ IHl]; [reflexivity|]. cbn [map flat_map]. rewrite Ha, IHl. reflexivity.
  - cbn [respan has_root_fold]. destruct ts as [|t0 ts']; [reflexivity|]. cbn [map]. inversion IH as [|? ? H0 _]; subst. rewrite H0. reflexivity.
  - cbn [respan has_root_fold]. rewrite IH. reflexivity.
Qed.

Lemma has_root_respan : forall f t, has_root (respan f t) = has_root t.
Proof. intros. unfold has_root. rewrite has_root_fold_respan. reflexivity. Qed.

Lemma depth_variance_respan : forall f t, depth_variance (respan f t) = depth_variance t.
Proof. intros. unfold depth_variance. rewrite depth_fold_respan. reflexivity. Qed.

Lemma text_variance_respan : forall hc f t, text_variance hc (respan f t) = text_variance hc t.
Proof. intros. unfold text_variance. rewrite text_fold_respan. reflexivity. Qed.

(* C19: a glob passed through a combinator matches what it matched before *)
Theorem any_of_one : forall orbit t w, tok_bounds_ok t ->
  exists a, any_tree [t] = Ok a /\ (Regex.sem orbit (encode a) w <-> Regex.sem orbit (encode t) w).
Proof.
  intros orbit t w Hb. unfold any_tree. cbn [rmapM rbind]. rewrite (fold_map_respan _ t Hb). cbn [rbind].
  eexists. split; [reflexivity|]. rewrite (any_is_union orbit (0, 0) [respan (fun _ => (0, 0)) t] w) by discriminate. split.
  - intros [x [[<-|[]] H]]. rewrite encode_respan in H. exact H.
  - intros H. exists (respan (fun _ => (0, 0)) t). split; [left; reflexivity|]. rewrite encode_respan. exact H.
Qed.
