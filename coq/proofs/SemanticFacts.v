(* SemanticFacts.v -- C12: the breadth-first search for semantic literals (`.` and `..` components) reaches every nested
   component of the expression. *)
From Coq Require Import Arith Lia.
From WaxModel Require Import Base Token Regex Encode Variance Fold Rule Parse Query.
Local Open Scope nat_scope.

Definition csize (c : list tok) : nat := fold_right (fun t a => tsize t + a) 0 c.
Definition qsize (q : list (list tok)) : nat := fold_right (fun c a => csize c + a) 0 q.

Lemma tsize_pos : forall t, 1 <= tsize t.
Proof. destruct t; cbn; lia. Qed.

Lemma csize_app : forall a b, csize (a ++ b) = csize a + csize b.
Proof. induction a as [|t a IH]; intros b; cbn [app csize fold_right]; [reflexivity|]. fold (csize (a ++ b)) (csize a). rewrite IH. lia. Qed.

Lemma qsize_app : forall a b, qsize (a ++ b) = qsize a + qsize b.
Proof. induction a as [|c a IH]; intros b; cbn [app qsize fold_right]; [reflexivity|]. fold (qsize (a ++ b)) (qsize a). rewrite IH. lia. Qed.

Lemma take_nonboundary_size : forall ts a b, take_nonboundary ts = (a, b) -> csize a + csize b = csize ts.
Proof.
  induction ts as [|t ts IH]; intros a b H; cbn [take_nonboundary] in H.
  - inversion H; subst. reflexivity.
  - destruct (is_boundary t).
    + inversion H; subst. reflexivity.
    + destruct (take_nonboundary ts) as [a' b'] eqn:E. inversion H; subst. specialize (IH _ _ eq_refl).
      cbn [csize fold_right]. fold (csize a') (csize ts). lia.
Qed.

Lemma components_f_size : forall f ts, qsize (components_f f ts) <= csize ts.
Proof.
  induction f as [|f IH]; intros ts; cbn [components_f]; [cbn; lia|].
  destruct ts as [|t r]; [cbn; lia|]. cbn [csize fold_right]. fold (csize r).
  destruct (is_sep t); [specialize (IH r); lia|].
  destruct (is_tree t).
  - cbn [qsize fold_right csize]. fold (qsize (components_f f r)). specialize (IH r). lia.
  - destruct (take_nonboundary r) as [a b] eqn:E. cbn [qsize fold_right csize]. fold (csize a) (qsize (components_f f b)).
    pose proof (take_nonboundary_size _ _ _ E). specialize (IH b). lia.
Qed.

Lemma components_f_nonempty : forall f ts, Forall (fun c => c <> []) (components_f f ts).
Proof.
  induction f as [|f IH]; intros ts; cbn [components_f]; [constructor|].
  destruct ts as [|t r]; [constructor|]. destruct (is_sep t); [apply IH|]. destruct (is_tree t).
  - constructor; [discriminate|apply IH].
  - destruct (take_nonboundary r) as [a b]. constructor; [discriminate|apply IH].
Qed.

Lemma components_size : forall ts, qsize (components ts) <= csize ts.
Proof. intros. apply components_f_size. Qed.
Lemma components_nonempty : forall ts, Forall (fun c => c <> []) (components ts).
Proof. intros. apply components_f_nonempty. Qed.

Lemma csize_children : forall t, csize (children t) < tsize t.
Proof.
  destruct t as [sp l|sp bs|sp ts|sp b lo hi]; cbn [children tsize csize fold_right]; try lia.
Qed.

Lemma csize_nonempty : forall c, c <> [] -> 1 <= csize c.
Proof. intros [|t c] H; [congruence|]. cbn [csize fold_right]. pose proof (tsize_pos t). lia. Qed.

(* what the search looks for: a component, at any nesting depth, that is spelled entirely with literals whose text is `.` or `..` *)
Inductive has_sem : list (list tok) -> Prop :=
| hs_here : forall c q s, In c q -> component_literal c = Some s -> is_semantic s = true -> has_sem q
| hs_deeper : forall c q t, In c q -> component_literal c = None -> In t c -> is_branch t = true ->
    has_sem (components (children t)) -> has_sem q.

Lemma has_sem_incl : forall q q', has_sem q -> incl q q' -> has_sem q'.
Proof.
  intros q q' H Hi. destruct H as [c q0 s Hin Hl Hs|c q0 t Hin Hl Ht Hb Hd].
  - eapply hs_here; [apply Hi; exact Hin|exact Hl|exact Hs].
  - eapply hs_deeper; [apply Hi; exact Hin|exact Hl|exact Ht|exact Hb|exact Hd].
Qed.

Definition expand_comp (c : list tok) : list (list tok) :=
  flat_map (fun t => if is_branch t then components (children t) else []) c.

Lemma expand_size : forall c, qsize (expand_comp c) + (if existsb is_branch c then 1 else 0) <= csize c.
Proof.
  induction c as [|t c IH]; [cbn; lia|]. unfold expand_comp in *. cbn [flat_map existsb csize fold_right]. fold (csize c).
  rewrite qsize_app. destruct (is_branch t) eqn:Eb; cbn [orb].
  - pose proof (components_size (children t)). pose proof (csize_children t). destruct (existsb is_branch c); lia.
  - cbn [qsize fold_right]. pose proof (tsize_pos t). destruct (existsb is_branch c); lia.
Qed.

Lemma expand_nonempty : forall c, Forall (fun x => x <> []) (expand_comp c).
Proof.
  induction c as [|t c IH]; [constructor|]. unfold expand_comp in *. cbn [flat_map]. apply Forall_app. split; [|exact IH].
  destruct (is_branch t); [apply components_nonempty|constructor].
Qed.

Lemma semantic_loop_complete : forall fuel q,
  Forall (fun c => c <> []) q -> qsize q < fuel -> has_sem q -> semantic_loop fuel q = true.
Proof.
  induction fuel as [|f IH]; intros q Hne Hf Hs; [lia|]. cbn [semantic_loop].
  destruct q as [|c rest]; [inversion Hs as [? ? ? Hin|? ? ? Hin]; contradiction|].
  inversion Hne as [|? ? Hc Hrest]; subst. cbn [qsize fold_right] in Hf. fold (qsize rest) in Hf.
  pose proof (csize_nonempty c Hc) as Hc1.
  destruct (component_literal c) as [s|] eqn:El.
  - destruct (is_semantic s) eqn:Es; [reflexivity|]. cbn [orb]. apply IH; [exact Hrest|lia|].
    inversion Hs as [c0 q0 s0 Hin Hl Hs0|c0 q0 t Hin Hl Ht Hb Hd]; subst.
    + destruct Hin as [<-|Hin]; [rewrite El in Hl; inversion Hl; subst; congruence|]. eapply hs_here; eassumption.
    + destruct Hin as [<-|Hin]; [rewrite El in Hl; discriminate|]. eapply hs_deeper; eassumption.
  - fold (expand_comp c). apply IH.
    + apply Forall_app. split; [exact Hrest|apply expand_nonempty].
    + rewrite qsize_app. pose proof (expand_size c). destruct (existsb is_branch c) eqn:Eb; [lia|].
      (* no branch token: nothing is added *)
      assert (Hz : expand_comp c = []).
      { unfold expand_comp. clear -Eb. induction c as [|t c IHc]; [reflexivity|]. cbn [existsb] in Eb. apply orb_false_iff in Eb.
        destruct Eb as [Et Ec]. cbn [flat_map]. rewrite Et, (IHc Ec). reflexivity. }
      rewrite Hz. cbn. lia.
    + inversion Hs as [c0 q0 s0 Hin Hl Hs0|c0 q0 t Hin Hl Ht Hb Hd]; subst.
      * destruct Hin as [<-|Hin]; [rewrite El in Hl; discriminate|].
        eapply hs_here; [apply in_or_app; left; exact Hin|exact Hl|exact Hs0].
      * destruct Hin as [<-|Hin].
        -- eapply has_sem_incl; [exact Hd|]. intros x Hx. apply in_or_app. right. unfold expand_comp. apply in_flat_map.
           exists t. split; [exact Ht|]. rewrite Hb. exact Hx.
        -- eapply hs_deeper; [apply in_or_app; left; exact Hin|exact Hl|exact Ht|exact Hb|exact Hd].
Qed.

Lemma csize_concatenation : forall t, csize (concatenation t) <= tsize t.
Proof.
  destruct t as [sp l|sp bs|sp ts|sp b lo hi]; cbn [concatenation csize fold_right tsize]; try lia.
Qed.

(* C12: a glob reports semantic literals whenever some component of the expression, at any nesting depth, is spelled
   entirely as the literal `.` or `..` *)
Theorem semantic_literals_found : forall t, has_sem (components (concatenation t)) -> has_semantic_literals t = true.
Proof.
  intros t H. unfold has_semantic_literals. apply semantic_loop_complete; [apply components_nonempty| |exact H].
  pose proof (components_size (concatenation t)). pose proof (csize_concatenation t). lia.
Qed.
