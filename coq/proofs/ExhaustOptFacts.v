(* ExhaustOptFacts.v -- C09 with optional repetitions: an `Always` verdict is sound also when a repetition may be written out zero times,
   provided it is bounded above and its body holds no tree wildcard (`<[0-9]:0,3>`, `<a/:0,2>b/**`) - the known class
   optional_repetition is about optional repetitions whose own term is unbounded (`<a/**:0,1>*`); here the term of the repetition has an
   upper bound in every member, so it promises nothing, whether it is written out or not.  The coverage argument of ExhaustRepFacts is
   split into per-node lemmas (alternation, concatenation) that any class can reuse. *)
From Coq Require Import Arith Lia.
From WaxModel Require Import Base Token Regex Spec Encode Variance Fold Rule Parse Query Glob.
From WaxProofs Require Import SpecFacts EncodeLang RuleFacts DepthFacts ExhaustFacts TextFacts DepthTreeFacts DepthAltFacts BuiltNonempty RuleAdjFacts ParseShape.
From WaxProofs Require Import RuleZomFacts AlgebraFacts AlgebraClosure ExhaustAltFacts ExhaustRepFacts.
Local Open Scope nat_scope.

(* ---- terms without an unbounded member ------------------------------------------------------------------------------------------------- *)
Definition nov (s : sterm) : Prop := ~ vform (snd s).
Definition btn (b : bterm) : Prop := bt_ok b /\ members b <> [] /\ Forall nov (members b).

Lemma safe_and : forall {A} (P Q : A -> Prop) r, safe P r -> (forall v, r = Ok v -> P v -> Q v) -> safe (fun v => P v /\ Q v) r.
Proof. intros A P Q [v|s] H HQ; cbn [safe] in *; [split; [exact H|exact (HQ v eq_refl H)]|exact H]. Qed.

Lemma bterm_conj_members_inv : forall l r c, bterm_conj l r = Ok c -> forall m, In m (members c) ->
  exists a b, In a (members l) /\ In b (members r) /\ sterm_conj a b = Ok m.
Proof.
  intros l r c H m Hm. destruct l as [a|ss], r as [b|bs]; cbn [bterm_conj members] in *.
  - destruct (sterm_conj a b) as [x|] eqn:E; [|discriminate]. inversion H; subst. destruct Hm as [<-|[]]. exists a, b. split; [left; reflexivity|]. split; [left; reflexivity|exact E].
  - destruct (rmapM (fun b0 => sterm_conj a b0) bs) as [cs|] eqn:E; [|discriminate]. inversion H; subst. cbn [members] in Hm. apply (proj1 (set_of_list_in _ _)) in Hm.
    destruct (rmapM_all_ok _ _ _ E m Hm) as [b0 [Hb0 Hc]]. exists a, b0. split; [left; reflexivity|]. split; [exact Hb0|exact Hc].
  - destruct (rmapM (fun a0 => sterm_conj a0 b) ss) as [cs|] eqn:E; [|discriminate]. inversion H; subst. cbn [members] in Hm. apply (proj1 (set_of_list_in _ _)) in Hm.
    destruct (rmapM_all_ok _ _ _ E m Hm) as [a0 [Ha0 Hc]]. exists a0, b. split; [exact Ha0|]. split; [left; reflexivity|exact Hc].
  - destruct (rmapM (fun ab => sterm_conj (fst ab) (snd ab)) (list_prod ss bs)) as [cs|] eqn:E; [|discriminate]. inversion H; subst. cbn [members] in Hm. apply (proj1 (set_of_list_in _ _)) in Hm.
    destruct (rmapM_all_ok _ _ _ E m Hm) as [[a0 b0] [Hab Hc]]. apply in_prod_iff in Hab. exists a0, b0. cbn [fst snd] in Hc. tauto.
Qed.

Lemma bterm_product_members_inv : forall x r y, bterm_product x r = Ok y -> forall m', In m' (members y) ->
  exists m, In m (members x) /\ sterm_product m r = Ok m'.
Proof.
  intros [a|ss] r y H m' Hm'; cbn [bterm_product members] in *.
  - destruct (sterm_product a r) as [c|] eqn:E; [|discriminate]. inversion H; subst. destruct Hm' as [<-|[]]. exists a. split; [left; reflexivity|exact E].
  - destruct (rmapM (fun a => sterm_product a r) ss) as [cs|] eqn:E; [|discriminate]. inversion H; subst. cbn [members] in Hm'. apply (proj1 (set_of_list_in _ _)) in Hm'.
    exact (rmapM_all_ok _ _ _ E m' Hm').
Qed.

Lemma nonempty_in : forall {A} (l : list A), l <> [] -> exists a, In a l.
Proof. intros A [|a l] H; [congruence|exists a; left; reflexivity]. Qed.

Lemma btn_conj : forall x y, btn x -> btn y -> safe btn (bterm_conj x y).
Proof.
  intros x y [Hx [Nx Vx]] [Hy [Ny Vy]]. unfold btn. apply safe_and; [apply bterm_conj_safe; assumption|]. intros c Hc Hokc. split.
  - destruct (nonempty_in _ Nx) as [a Ha]. destruct (nonempty_in _ Ny) as [b Hb]. destruct (bterm_conj_members _ _ _ a b Hc Ha Hb) as [s [_ Hs]]. intros E. rewrite E in Hs. contradiction.
  - apply Forall_forall. intros m Hm. destruct (bterm_conj_members_inv _ _ _ Hc m Hm) as [a [b [Ha [Hb Hab]]]].
    rewrite Forall_forall in Vx, Vy. intros Hv. destruct (proj2 (sterm_conj_keeps_upper a b m (bt_ok_members _ Hx a Ha) (bt_ok_members _ Hy b Hb) Hab) Hv) as [H1|H1]; [exact (Vx a Ha H1)|exact (Vy b Hb H1)].
Qed.

Lemma btn_disj : forall x y, btn x -> btn y -> btn (bterm_disj x y).
Proof.
  intros x y [Hx [Nx Vx]] [Hy [Ny Vy]]. split; [apply bterm_disj_ok; assumption|]. split.
  - destruct (nonempty_in _ Nx) as [a Ha]. intros E. assert (Hin : In a (members (bterm_disj x y))) by (apply bterm_disj_members; left; exact Ha). rewrite E in Hin. contradiction.
  - apply Forall_forall. intros m Hm. apply bterm_disj_members in Hm. rewrite Forall_forall in Vx, Vy. destruct Hm as [Hm|Hm]; [exact (Vx m Hm)|exact (Vy m Hm)].
Qed.

Lemma btn_product : forall x r h, btn x -> nv_ok r -> hi_of r = Some h -> safe btn (bterm_product x r).
Proof.
  intros x r h [Hx [Nx Vx]] Hr Hh. unfold btn. apply safe_and; [apply bterm_product_safe; assumption|]. intros y Hy Hoky. split.
  - destruct (nonempty_in _ Nx) as [a Ha]. destruct (bterm_product_members _ _ _ Hy a Ha) as [m' [Hm' _]]. intros E. rewrite E in Hm'. contradiction.
  - apply Forall_forall. intros m' Hm'. destruct (bterm_product_members_inv _ _ _ Hy m' Hm') as [m [Hm Hp]]. rewrite Forall_forall in Vx.
    unfold sterm_product in Hp. destruct (nvar_product (snd m) r) as [v|] eqn:Ev; [|discriminate]. cbn [rbind] in Hp. inversion Hp; subst. intros Hv. cbn [snd] in Hv.
    exact (Vx m Hm (product_keeps_upper _ _ _ _ (bt_ok_members _ Hx m Hm) Hr Hh Ev Hv)).
Qed.

Lemma btn_zero : btn bterm_zero.
Proof. split; [exact I|]. split; [discriminate|]. constructor; [intros []|constructor]. Qed.

Lemma btn_leaf : forall l, is_tree_leaf l = false -> btn (depth_leaf l).
Proof. intros l H. split; [apply depth_leaf_ok|]. rewrite depth_leaf_sterm. split; [discriminate|]. constructor; [destruct l; try discriminate; intros []|constructor]. Qed.

Lemma exh_children_safe_P : forall (P : bterm -> Prop) conj (ts : list tok),
  Forall (fun t => safe (opt_ok P) (exh_fold t)) ts ->
  safe (Forall (opt_ok P)) (rmapM snd (take_exh conj (rev (combine ts (map exh_fold ts))))).
Proof.
  intros P conj ts H. apply rmapM_safe. apply Forall_forall. intros [t r] Hin. apply take_exh_incl in Hin.
  apply in_rev in Hin. cbn [snd].
  assert (Hc : forall (l : list tok) t r, In (t, r) (combine l (map exh_fold l)) -> In t l /\ r = exh_fold t).
  { clear. induction l as [|x l IH]; intros t r H; [contradiction|]. cbn in H. destruct H as [H|H].
    - inversion H; subst. split; [left; reflexivity|reflexivity].
    - destruct (IH _ _ H) as [H1 H2]. split; [right; exact H1|exact H2]. }
  destruct (Hc _ _ _ Hin) as [Ht ->]. rewrite Forall_forall in H. apply H. exact Ht.
Qed.

(* ---- the class ------------------------------------------------------------------------------------------------------------------------------ *)
Fixpoint tree_free (t : tok) : bool :=
  match t with
  | TLeaf _ l => negb (is_tree_leaf l)
  | TAlt _ bs => forallb tree_free bs
  | TCat _ ts => forallb tree_free ts
  | TRep _ b _ _ => tree_free b
  end.

Definition is_some (o : option N) : bool := match o with Some _ => true | None => false end.

(* repetitions: required ones as in ExhaustRepFacts; optional ones bounded above with a body that holds no tree wildcard *)
Fixpoint frq (t : tok) : bool :=
  match t with
  | TLeaf _ _ => true
  | TAlt _ bs => forallb (fun b => is_branch b && frq b) bs
  | TCat _ ts => forallb frq ts
  | TRep _ b lo hi => is_branch b && frq b &&
      (((1 <=? lo)%N && (is_some hi || bounded_branch b)) || ((lo =? 0)%N && is_some hi && tree_free b))
  end.

Lemma frq_rep_hi : forall b lo (hi : option N), ((1 <=? lo)%N && (is_some hi || bounded_branch b)) || ((lo =? 0)%N && is_some hi && tree_free b) = true ->
  bounded_branch b = false -> exists h, hi = Some h.
Proof.
  intros b lo hi H Hb. rewrite Hb, orb_false_r in H. destruct hi as [h|]; [exists h; reflexivity|]. cbn [is_some] in H. rewrite !andb_false_r in H. discriminate.
Qed.

(* the fold of a tree without tree wildcards has no unbounded member *)
Lemma tf_fold : forall t, frq t = true -> tree_free t = true -> safe (opt_ok btn) (exh_fold t).
Proof.
  induction t as [sp l|sp bs IH|sp ts IH|sp b lo hi IH] using tok_ind'; intros Hq Ht; cbn [exh_fold].
  - cbn [tree_free] in Ht. apply negb_true_iff in Ht. exact (btn_leaf l Ht).
  - cbn [frq tree_free] in Hq, Ht. rewrite forallb_forall in Hq, Ht.
    assert (Hall : Forall (fun t => safe (opt_ok btn) (exh_fold t)) bs).
    { rewrite Forall_forall in IH. apply Forall_forall. intros b Hb. specialize (Hq b Hb). apply andb_prop in Hq. exact (IH b Hb (proj2 Hq) (Ht b Hb)). }
    eapply safe_bind; [apply (exh_children_safe_P btn); exact Hall|]. intros terms0 Ht0.
    eapply safe_bind; [apply (rreduce_safe btn); [intros x y Hx Hy; apply btn_disj; assumption|apply opt_list_ok; exact Ht0]|].
    intros sum Hs. destruct (Nat.eqb _ _); [exact Hs|]. destruct (exh_maybe sum); [exact Hs|exact btn_zero].
  - cbn [frq tree_free] in Hq, Ht. rewrite forallb_forall in Hq, Ht.
    assert (Hall : Forall (fun t => safe (opt_ok btn) (exh_fold t)) ts).
    { rewrite Forall_forall in IH. apply Forall_forall. intros b Hb. exact (IH b Hb (Hq b Hb) (Ht b Hb)). }
    eapply safe_bind; [apply (exh_children_safe_P btn); exact Hall|]. intros terms0 Ht0.
    eapply safe_bind; [apply (rreduce_safe btn); [apply btn_conj|apply opt_list_ok; exact Ht0]|].
    intros sum Hs. destruct (Nat.eqb _ _); [exact Hs|]. destruct (exh_maybe sum); [exact Hs|exact btn_zero].
  - cbn [frq tree_free] in Hq, Ht. apply andb_prop in Hq. destruct Hq as [Hq Hcl]. apply andb_prop in Hq. destruct Hq as [Hbr Hqb].
    eapply safe_bind; [apply (exh_children_safe_P btn true [b]); constructor; [exact (IH Hqb Ht)|constructor]|]. intros terms0 Ht0.
    eapply safe_bind; [apply (rreduce_safe btn); [apply btn_conj|apply opt_list_ok; exact Ht0]|].
    intros sum Hs.
    assert (Hf : opt_ok btn (if Nat.eqb 1 (length (flat_map opt_list terms0)) then sum else if exh_maybe sum then sum else Some bterm_zero)).
    { destruct (Nat.eqb _ _); [exact Hs|]. destruct (exh_maybe sum); [exact Hs|exact btn_zero]. }
    destruct (if Nat.eqb 1 (length (flat_map opt_list terms0)) then sum else if exh_maybe sum then sum else Some bterm_zero) as [x|]; [|exact I].
    pose proof (frq_rep_hi b lo hi Hcl) as Hhi. destruct (bounded_branch b) eqn:Ebb; [exact Hf|]. destruct (exh_rep_finalizes x); [|exact Hf].
    destruct (Hhi eq_refl) as [h ->].
    eapply safe_bind; [apply (btn_product x _ (N.max lo h) Hf (fco_ok lo (Some h)) (rep_range_hi lo h))|]. intros y Hy; exact Hy.
Qed.

(* ---- coverage, node by node ------------------------------------------------------------------------------------------------------------------- *)
(* a token taken before the last one expands to separators, zero-or-more and tree wildcards only *)
Definition Fz (t : tok) : Prop := free_tok t = true -> forall x, Expands t x -> forallb szt x = true.

Lemma fold_cov_g : forall R ys bs, Forall2 Expands R ys -> Forall2 (fun t b => exh_fold t = Ok (Some b)) R bs ->
  Forall (fun t => Cov t /\ Fz t) R -> abl_free_t R ->
  forall acc Y sa c, bt_ok acc -> In sa (members acc) -> (vform (snd sa) -> has_ft Y) -> (R <> [] -> forallb szt Y = true) ->
  rfold bterm_conj acc bs = Ok c ->
  exists sc, In sc (members c) /\ (vform (snd sc) -> has_ft (concat (rev ys) ++ Y)).
Proof.
  intros R ys bs HX. revert bs. induction HX as [|r y R' ys' Hy HX' IH]; intros bs HB HS Hab acc Y sa c Hok Hsa Hft Hszt H.
  - inversion HB; subst. cbn in H. inversion H; subst. exists sa. split; [exact Hsa|exact Hft].
  - inversion HB as [|? br ? bs' Hbr HB']; subst. inversion HS as [|? ? [[_ HSr] Hrf] HS']; subst.
    cbn [rfold] in H. destruct (bterm_conj acc br) as [acc'|] eqn:Ec; [|discriminate]. cbn [rbind] in H.
    destruct (HSr br Hbr y Hy) as [m [Hm Hmft]]. pose proof (exh_fold_ok _ _ Hbr) as Hokr.
    destruct (bterm_conj_members _ _ _ sa m Ec Hsa Hm) as [sa' [Hsa' Hin']].
    assert (Hok' : bt_ok acc') by exact (safe_ok_inv _ _ _ (bterm_conj_safe _ _ Hok Hokr) Ec).
    destruct (sterm_conj_keeps_upper _ _ _ (bt_ok_members _ Hok sa Hsa) (bt_ok_members _ Hokr m Hm) Hsa') as [_ Hconv].
    assert (HsY : forallb szt Y = true) by (apply Hszt; discriminate).
    assert (Hft' : vform (snd sa') -> has_ft (y ++ Y)).
    { intros Hv. destruct (Hconv Hv) as [H1|H1]; [apply has_ft_prepend; exact (Hft H1)|apply has_ft_append; [exact (Hmft H1)|exact HsY]]. }
    assert (Hab' : abl_free_t R') by (destruct R' as [|r2 R'']; [exact I|exact (proj2 Hab)]).
    assert (Hszt' : R' <> [] -> forallb szt (y ++ Y) = true).
    { intros Hne. destruct R' as [|r2 R'']; [congruence|]. destruct Hab as [Hfr _]. rewrite forallb_app, HsY, (Hrf Hfr y Hy). reflexivity. }
    destruct (IH bs' HB' HS' Hab' acc' (y ++ Y) sa' c Hok' Hin' Hft' Hszt' H) as [sc [C2 C3]]. exists sc. split; [exact C2|].
    cbn [rev]. rewrite concat_app. cbn [concat]. rewrite app_nil_r, <- app_assoc. exact C3.
Qed.


Lemma Cov_alt : forall sp bs, negb (is_nil bs) = true -> Forall (fun b => is_branch b = true /\ Cov b) bs -> Cov (TAlt sp bs).
Proof.
  intros sp bs Hnil Hall. rewrite Forall_forall in Hall.
  assert (HSb : Forall (fun b => Cov b) bs) by (apply Forall_forall; intros b Hb; exact (proj2 (Hall b Hb))).
  assert (Hbr : Forall (fun x : tok * res (option bterm) => is_branch (fst x) = true) (rev (combine bs (map exh_fold bs)))).
  { rewrite combine_map. apply Forall_forall. intros [t e] Hin. apply in_rev in Hin. apply in_map_iff in Hin. destruct Hin as [t0 [E Ht0]]. inversion E; subst. cbn [fst]. exact (proj1 (Hall t Ht0)). }
  assert (Core : forall r, exh_fold (TAlt sp bs) = Ok r -> exists b, r = Some b /\
            forall x, Expands (TAlt sp bs) x -> exists m, In m (members b) /\ (vform (snd m) -> has_ft x)).
  { intros r Hr. cbn [exh_fold] in Hr. rewrite (take_exh_alt _ Hbr) in Hr. rewrite combine_map, <- map_rev in Hr.
    destruct (rmapM snd (map (fun t => (t, exh_fold t)) (rev bs))) as [terms0|] eqn:Em; [|discriminate]. cbn [rbind] in Hr.
    pose proof (rmapM_snd_map _ _ Em) as HF.
    assert (HSr : Forall (fun b => Cov b) (rev bs)) by (apply Forall_forall; intros b Hb; rewrite Forall_forall in HSb; apply HSb; apply in_rev; exact Hb).
    destruct (forall2_somes_c _ _ HF HSr) as [tbs [-> Htbs]]. rewrite flat_map_somes in Hr.
    destruct tbs as [|b1 tbs']. { inversion Htbs as [E1|]. destruct bs as [|b0 bs']; [discriminate|]. cbn [rev] in E1. destruct (rev bs'); discriminate. }
    cbn [rreduce] in Hr. destruct (rfold rdisj b1 tbs') as [c|] eqn:Ef; [|discriminate]. cbn [rmap rbind] in Hr.
    assert (Hmem : forall y, In y (members c) <-> exists bb, In bb (b1 :: tbs') /\ In y (members bb)).
    { intros y. rewrite (rfold_disj_members _ _ _ Ef). split.
      - intros [H1|[bb [Hb Hy]]]; [exists b1; split; [left; reflexivity|exact H1]|exists bb; split; [right; exact Hb|exact Hy]].
      - intros [bb [[<-|Hb] Hy]]; [left; exact Hy|right; exists bb; auto]. }
    assert (Hccov : forall x, Expands (TAlt sp bs) x -> exists m, In m (members c) /\ (vform (snd m) -> has_ft x)).
    { intros x Hx. inversion Hx as [|sp0 bs0 bb x0 Hin Hxb| |]; subst. apply in_rev in Hin.
      destruct (forall2_in_l _ _ _ _ Htbs Hin) as [tb [Htb He]]. rewrite Forall_forall in HSr. destruct (HSr bb Hin) as [_ H2].
      destruct (H2 tb He x Hxb) as [m [Hm Hft]]. exists m. split; [apply Hmem; exists tb; auto|exact Hft]. }
    destruct (Nat.eqb (length bs) (length (b1 :: tbs'))).
    - inversion Hr; subst. exists c. auto.
    - destruct (exh_maybe (Some c)).
      + inversion Hr; subst. exists c. auto.
      + inversion Hr; subst. exists bterm_zero. split; [reflexivity|]. intros x _. exists (TOpen, Inv 0%N). split; [left; reflexivity|intros []]. }
  split.
  + intros r Hr. destruct (Core r Hr) as [b [-> _]]. discriminate.
  + intros b Hb. destruct (Core _ Hb) as [b' [E H2]]. inversion E; subst. exact H2.
Qed.

Lemma Cov_cat : forall sp ts, negb (is_nil ts) = true -> Forall (fun m => Cov m /\ Fz m) ts -> Cov (TCat sp ts).
Proof.
  intros sp ts Hnil HSm.
  assert (Core : forall r, exh_fold (TCat sp ts) = Ok r -> exists b, r = Some b /\
            forall x, Expands (TCat sp ts) x -> exists m, In m (members b) /\ (vform (snd m) -> has_ft x)).
  { intros r Hr. cbn [exh_fold] in Hr. rewrite combine_map, <- map_rev in Hr.
    set (g := fun t => (t, exh_fold t)) in *.
    destruct (take_exh_shape (map g (rev ts))) as [Habl [rest Hsplit]].
    apply map_eq_app in Hsplit. destruct Hsplit as [R [R2 [Erev [ER ER2]]]].
    rewrite <- ER in Hr, Habl. pose proof (abl_free_map R Habl) as HablT.
    destruct (rmapM snd (map g R)) as [terms0|] eqn:Em; [|discriminate]. cbn [rbind] in Hr.
    pose proof (rmapM_snd_map _ _ Em) as HF.
    assert (HSR : Forall (fun m => Cov m /\ Fz m) R).
    { apply Forall_forall. intros m Hm. rewrite Forall_forall in HSm. apply HSm. apply in_rev. rewrite Erev. apply in_or_app. left. exact Hm. }
    assert (HSR1 : Forall (fun m => Cov m) R) by (eapply Forall_impl; [|exact HSR]; intros a [Ha _]; exact Ha).
    destruct (forall2_somes_c _ _ HF HSR1) as [tbs [-> Htbs]]. rewrite flat_map_somes in Hr.
    assert (Hzero : exists b, Some bterm_zero = Some b /\
              forall x, Expands (TCat sp ts) x -> exists m, In m (members b) /\ (vform (snd m) -> has_ft x)).
    { exists bterm_zero. split; [reflexivity|]. intros x _. exists (TOpen, Inv 0%N). split; [left; reflexivity|intros []]. }
    destruct R as [|r1 R'].
    - inversion Htbs; subst. cbn [rreduce rbind] in Hr. destruct ts as [|t0 ts']; [discriminate|]. cbn [length Nat.eqb exh_maybe] in Hr. inversion Hr; subst. exact Hzero.
    - inversion Htbs as [|? b1 ? tbs' Hb1 Htbs']; subst. cbn [rreduce] in Hr. destruct (rfold bterm_conj b1 tbs') as [c|] eqn:Ef; [|discriminate]. cbn [rmap rbind] in Hr.
      inversion HSR as [|? ? [[_ HS1] Hrf1] HSR']; subst.
      assert (Hsum : forall x, Expands (TCat sp ts) x -> exists m, In m (members c) /\ (vform (snd m) -> has_ft x)).
      { assert (Hab' : abl_free_t R') by (destruct R' as [|r2 R'']; [exact I|exact (proj2 HablT)]).
        intros x Hx. inversion Hx as [| |sp0 ts0 xs HFx|]; subst.
        assert (HFr : Forall2 Expands (rev ts) (rev xs)) by (apply forall2_rev; exact HFx).
        rewrite Erev in HFr. apply Forall2_app_inv_l in HFr. destruct HFr as [ys [ys2 [HFy [HFy2 Exs]]]].
        inversion HFy as [|? y1 ? ys' Hy1 HFy']; subst.
        destruct (HS1 b1 Hb1 y1 Hy1) as [m1 [Hm1 Hft1]].
        assert (Hszt1 : R' <> [] -> forallb szt y1 = true).
        { intros Hne. destruct R' as [|r2 R'']; [congruence|]. destruct HablT as [Hfr _]. exact (Hrf1 Hfr y1 Hy1). }
        destruct (fold_cov_g R' ys' tbs' HFy' Htbs' HSR' Hab' b1 y1 m1 c (exh_fold_ok _ _ Hb1) Hm1 Hft1 Hszt1 Ef) as [sc [Hsc Hftc]].
        exists sc. split; [exact Hsc|]. intros Hv. specialize (Hftc Hv).
        assert (Ex : concat xs = concat (rev ys2) ++ (concat (rev ys') ++ y1)).
        { rewrite <- (rev_involutive xs), Exs, rev_app_distr, concat_app. f_equal. cbn [rev]. rewrite concat_app. cbn [concat]. rewrite app_nil_r. reflexivity. }
        rewrite Ex. apply has_ft_prepend. exact Hftc. }
      destruct (Nat.eqb (length ts) (length (b1 :: tbs'))).
      + inversion Hr; subst. exists c. auto.
      + destruct (exh_maybe (Some c)); inversion Hr; subst; [exists c; auto|exact Hzero]. }
  split.
  + intros r Hr. destruct (Core r Hr) as [b [-> _]]. discriminate.
  + intros b0 Hb. destruct (Core _ Hb) as [b' [E H2]]. inversion E; subst. exact H2.
Qed.

(* ---- the class is covered ---------------------------------------------------------------------------------------------------------------------- *)
Lemma free_expands_q : forall t, frq t = true -> all_unbounded t = true -> forall x, Expands t x -> forallb szt x = true.
Proof.
  induction t as [sp l|sp bs IH|sp ts IH|sp b lo hi IH] using tok_ind'; intros Hr Hu x Hx.
  - inversion Hx; subst. cbn [all_unbounded] in Hu. rewrite exh_takes_szt in Hu. cbn [forallb]. rewrite Hu. reflexivity.
  - inversion Hx as [|sp0 bs0 bb x0 Hin Hxb| |]; subst. cbn [frq all_unbounded] in *. rewrite forallb_forall in Hr, Hu. rewrite Forall_forall in IH.
    specialize (Hr bb Hin). apply andb_prop in Hr. exact (IH bb Hin (proj2 Hr) (Hu bb Hin) x Hxb).
  - inversion Hx as [| |sp0 ts0 xs HF|]; subst. cbn [frq all_unbounded] in *. clear Hx. induction HF as [|t0 x0 ts' xs' Hx0 _ IHF]; [reflexivity|].
    inversion IH as [|? ? I0 I']; subst. cbn [forallb] in Hr, Hu. apply andb_prop in Hr, Hu. cbn [concat]. rewrite forallb_app.
    rewrite (I0 (proj1 Hr) (proj1 Hu) x0 Hx0), (IHF I' (proj2 Hr) (proj2 Hu)). reflexivity.
  - inversion Hx as [| | |sp0 b0 lo0 hi0 xs Hb HF]; subst. cbn [frq all_unbounded] in *.
    apply andb_prop in Hr. destruct Hr as [Hr Hcl]. apply andb_prop in Hr. destruct Hr as [_ Hfb].
    assert (Hfr : free_rep b lo hi = false).
    { unfold free_rep. apply orb_prop in Hcl. destruct Hcl as [Hc|Hc].
      - apply andb_prop in Hc. destruct Hc as [Hlo _]. apply N.leb_le in Hlo. destruct (N.eqb_spec lo 0); [lia|reflexivity].
      - apply andb_prop in Hc. destruct Hc as [Hc _]. apply andb_prop in Hc. destruct Hc as [_ Hh]. destruct hi; [|discriminate]. apply andb_false_r. }
    rewrite Hfr in Hu. cbn [orb] in Hu. apply forallb_concat. eapply Forall_impl; [|exact HF]. intros y Hy. exact (IH Hfb Hu y Hy).
Qed.

Lemma frq_Fz : forall t, frq t = true -> Fz t.
Proof. intros t Hr Hf x Hx. destruct t as [sp l| | |]; apply (free_expands_q _ Hr Hf x Hx). Qed.

Theorem frq_Cov : forall t, frq t = true -> nonempty_branches t = true -> Cov t.
Proof.
  induction t as [sp l|sp bs IH|sp ts IH|sp b lo hi IH] using tok_ind'; intros Hs Hn.
  - apply leaf_cov.
  - cbn [frq nonempty_branches] in Hs, Hn. apply andb_prop in Hn. destruct Hn as [Hnil Hn]. apply Cov_alt; [exact Hnil|].
    apply Forall_forall. intros b Hb. rewrite Forall_forall in IH. rewrite forallb_forall in Hs, Hn. specialize (Hs b Hb). apply andb_prop in Hs.
    split; [exact (proj1 Hs)|exact (IH b Hb (proj2 Hs) (Hn b Hb))].
  - cbn [frq nonempty_branches] in Hs, Hn. apply andb_prop in Hn. destruct Hn as [Hnil Hn]. apply Cov_cat; [exact Hnil|].
    apply Forall_forall. intros m Hm. rewrite Forall_forall in IH. rewrite forallb_forall in Hs, Hn. split; [exact (IH m Hm (Hs m Hm) (Hn m Hm))|exact (frq_Fz m (Hs m Hm))].
  - pose proof (tf_fold (TRep sp b lo hi) Hs) as Htf.
    cbn [frq nonempty_branches] in Hs, Hn.
    apply andb_prop in Hs. destruct Hs as [Hs Hcl]. apply andb_prop in Hs. destruct Hs as [Hbr Hfb].
    apply andb_prop in Hn. destruct Hn as [Hnb _].
    destruct (IH Hfb Hnb) as [Hb1 Hb2].
    assert (Core : forall r, exh_fold (TRep sp b lo hi) = Ok r -> exists y, r = Some y /\
              forall x, Expands (TRep sp b lo hi) x -> exists m, In m (members y) /\ (vform (snd m) -> has_ft x)).
    { intros r Hr. pose proof Hr as Hr0. cbn [exh_fold] in Hr. rewrite (take_exh_single b (exh_fold b) Hbr) in Hr. cbn [rmapM rbind snd] in Hr.
      destruct (exh_fold b) as [rb|] eqn:Eb; [|discriminate]. cbn [rbind] in Hr. destruct rb as [xb|]; [|exfalso; exact (Hb1 None eq_refl eq_refl)].
      cbn [flat_map opt_list app rreduce rfold rmap rbind length Nat.eqb] in Hr.
      pose proof (exh_fold_ok _ _ Eb) as Hokb.
      apply orb_prop in Hcl. destruct Hcl as [Hreq|Hopt].
      - (* required: the last copy *)
        apply andb_prop in Hreq. destruct Hreq as [Hlo Hhi]. apply N.leb_le in Hlo.
        assert (Hlast : forall x, Expands (TRep sp b lo hi) x -> exists m, In m (members xb) /\ (vform (snd m) -> has_ft x)).
        { intros x Hx. inversion Hx as [| | |sp0 b0 lo0 hi0 xs Hbd HF]; subst. destruct Hbd as [Hl _].
          destruct (exists_last (l := xs)) as [ini [xl E]]. { intros ->. cbn in Hl. lia. } subst xs.
          apply Forall_app in HF. destruct HF as [_ HF]. inversion HF as [|? ? Hxl _]; subst.
          destruct (Hb2 xb eq_refl xl Hxl) as [m [Hm Hft]]. exists m. split; [exact Hm|]. intros Hv. rewrite concat_app. cbn [concat]. rewrite app_nil_r.
          apply has_ft_prepend. exact (Hft Hv). }
        destruct (bounded_branch b) eqn:Ebb.
        + inversion Hr; subst. exists xb. split; [reflexivity|exact Hlast].
        + destruct (exh_rep_finalizes xb).
          * destruct (bterm_product xb (rep_range lo hi)) as [y|] eqn:Ep; [|discriminate]. cbn [rbind] in Hr. inversion Hr; subst. exists y. split; [reflexivity|].
            rewrite orb_false_r in Hhi. destruct hi as [h|]; [|discriminate].
            intros x Hx. destruct (Hlast x Hx) as [m [Hm Hft]]. destruct (bterm_product_members _ _ _ Ep m Hm) as [m' [Hm' Epm]].
            exists m'. split; [exact Hm'|]. intros Hv. apply Hft. unfold sterm_product in Epm.
            destruct (nvar_product (snd m) (rep_range lo (Some h))) as [v|] eqn:Ev; [|discriminate]. cbn [rbind] in Epm. inversion Epm; subst. cbn [snd] in Hv.
            exact (product_keeps_upper _ _ _ _ (bt_ok_members _ Hokb m Hm) (fco_ok lo (Some h)) (rep_range_hi lo h) Ev Hv).
          * inversion Hr; subst. exists xb. split; [reflexivity|exact Hlast].
      - (* optional, bounded above, no tree wildcard in the body: no member of the term is unbounded, so nothing is promised *)
        apply andb_prop in Hopt. destruct Hopt as [_ Htf0]. specialize (Htf Htf0). rewrite Hr0 in Htf. cbn [safe] in Htf.
        assert (Hsome : exists y, r = Some y).
        { destruct (bounded_branch b); [inversion Hr; eexists; reflexivity|]. destruct (exh_rep_finalizes xb); [|inversion Hr; eexists; reflexivity].
          destruct (bterm_product xb (rep_range lo hi)) as [y|]; [|discriminate]. cbn [rbind] in Hr. inversion Hr. eexists; reflexivity. }
        destruct Hsome as [y ->]. exists y. split; [reflexivity|]. cbn [opt_ok] in Htf. destruct Htf as [_ [Hne Hnov]].
        intros x _. destruct (nonempty_in _ Hne) as [m Hm]. exists m. split; [exact Hm|]. intros Hv. rewrite Forall_forall in Hnov. exfalso. exact (Hnov m Hm Hv). }
    split.
    + intros r Hr. destruct (Core r Hr) as [y [-> _]]. discriminate.
    + intros y Hy. destruct (Core _ Hy) as [y' [E H2]]. inversion E; subst. exact H2.
Qed.

(* ---- the verdict ----------------------------------------------------------------------------------------------------------------------------------- *)
Theorem frq_always_sound : forall orbit t p z x,
  frq t = true -> nonempty_branches t = true -> is_exhaustive t = Ok Always -> nosep z = true ->
  Expands t x -> chain_ok false x = true -> zchain false x = true -> last_opt x <> Some LSep ->
  FlatMatch orbit true true x p -> FlatMatch orbit true true x (p ++ SEP :: z).
Proof.
  intros orbit t p z x Hf Hne He Hz Hx Hc Hzc Hl Hm.
  destruct (frq_Cov t Hf Hne) as [_ HS]. unfold is_exhaustive in He. destruct (exh_fold t) as [[b|]|] eqn:Ef; try discriminate. cbn [rbind] in He. inversion He as [Hal].
  destruct (HS b eq_refl x Hx) as [m [Hmem Hft]].
  pose proof (Hft (exhaustive_vform_any _ (always_members b Hal m Hmem))) as Hxft.
  apply open_tail_l_extends; [|exact Hz|exact Hm]. apply ft_open_tail; assumption.
Qed.

(* the class on built globs *)
Fixpoint plain_reps (t : tok) : bool :=
  match t with
  | TLeaf _ _ => true
  | TAlt _ bs => forallb plain_reps bs
  | TCat _ ts => forallb plain_reps ts
  | TRep _ b lo hi => (((1 <=? lo)%N && (is_some hi || bounded_branch b)) || ((lo =? 0)%N && is_some hi && tree_free b)) && plain_reps b
  end.

Lemma sh_frq : forall t, sh t -> plain_reps t = true -> frq t = true.
Proof.
  induction t as [sp l|sp bs IH|sp ts IH|sp b lo hi IH] using tok_ind'; intros Hs Hr; try reflexivity; cbn [sh frq plain_reps] in *.
  - induction IH as [|x l Hx _ IHl]; [reflexivity|]. destruct Hs as [[Hc Hsx] Hs']. cbn [forallb] in *. apply andb_prop in Hr. destruct Hr as [Hr1 Hr2].
    rewrite (Hx Hsx Hr1), (IHl Hs' Hr2). destruct x; try discriminate; reflexivity.
  - induction IH as [|x l Hx _ IHl]; [reflexivity|]. destruct Hs as [[Hc Hsx] Hs']. cbn [forallb] in *. apply andb_prop in Hr. destruct Hr as [Hr1 Hr2].
    rewrite (Hx Hsx Hr1), (IHl Hs' Hr2). reflexivity.
  - destruct Hs as [Hc Hsb]. apply andb_prop in Hr. destruct Hr as [Hr Hrb]. rewrite Hr, (IH Hsb Hrb). destruct b; try discriminate; reflexivity.
Qed.

Theorem built_plain_reps_always_sound : forall orbit e t r p z x,
  build e = BuildOk t r -> plain_reps t = true -> is_exhaustive t = Ok Always -> nosep z = true ->
  Expands t x -> chain_ok false x = true -> zchain false x = true -> last_opt x <> Some LSep ->
  FlatMatch orbit true true x p -> FlatMatch orbit true true x (p ++ SEP :: z).
Proof.
  intros orbit e t r p z x Hb Hr. pose proof (BuiltNonempty.built_nonempty_branches e t r Hb) as Hne.
  assert (Hf : frq t = true).
  { unfold build in Hb. destruct (parse e) as [t0| |] eqn:Ep; try discriminate. destruct (check t0) as [[[k sp]|]|s]; try discriminate.
    destruct (compile_ok (encode t0)); [|discriminate]. inversion Hb; subst. apply sh_frq; [eapply parse_sh; exact Ep|exact Hr]. }
  exact (frq_always_sound orbit t p z x Hf Hne).
Qed.
