(* DepthRooted.v -- C10 with the rootedness condition stated through the query has_root, as in the property's quantifier: for a
   glob that builds and has no repetition, every canonical path of the documented language that begins with a separator exactly
   when the glob reports "always rooted" has a component count within the reported depth variance. *)
From Coq Require Import Arith Lia.
From WaxModel Require Import Base Token Regex Spec Encode Variance Fold Rule Parse Query Glob.
From WaxProofs Require Import SpecFacts EncodeLang RuleFacts DepthFacts ExhaustFacts PruneFacts DepthTreeFacts DepthAltFacts BuiltNonempty RuleAdjFacts ParseShape RootFacts BuiltDepth.
Local Open Scope N_scope.

Definition hd_rooting (x : list leaf) : bool := match x with a :: _ => leaf_is_rooting a | [] => false end.

Lemma certainty_fold : forall l a w, fold_left when_certainty l a = w -> w <> Sometimes -> a = w /\ Forall (fun u => u = w) l.
Proof.
  induction l as [|b l IH]; intros a w H Hw; [split; [exact H|constructor]|]. cbn [fold_left] in H. destruct (IH _ _ H Hw) as [H1 H2].
  assert (Hab : a = w /\ b = w) by (destruct a, b; cbn [when_certainty] in H1; try (exfalso; apply Hw; symmetry; exact H1); split; exact H1).
  destruct Hab as [-> ->]. split; [reflexivity|constructor; [reflexivity|exact H2]].
Qed.

(* the verdict of the root query decides how every expansion begins *)
Lemma root_expansions : forall t, nonempty_branches t = true -> rep_free t = true -> forall w, has_root_fold t = Some w -> w <> Sometimes ->
  forall x, Expands t x -> hd_rooting x = (match w with Always => true | _ => false end).
Proof.
  induction t as [sp l|sp bs IH|sp ts IH|sp b lo hi IH] using tok_ind'; intros Hn Hr w Hw Hns x Hx; try discriminate.
  - inversion Hx; subst. cbn [has_root_fold] in Hw. inversion Hw; subst. cbn [hd_rooting]. destruct (leaf_is_rooting l); reflexivity.
  - inversion Hx as [|sp0 bs0 bb x0 Hin Hxb| |]; subst. cbn [nonempty_branches rep_free has_root_fold] in *. apply andb_prop in Hn. destruct Hn as [Hnil Hn].
    rewrite forallb_forall in Hn, Hr. rewrite Forall_forall in IH.
    destruct (has_root_fold_some bb (Hn bb Hin)) as [wb Hwb].
    assert (Hinw : In wb (flat_map (fun b => opt_list (has_root_fold b)) bs)) by (apply in_flat_map; exists bb; split; [exact Hin|rewrite Hwb; left; reflexivity]).
    destruct (flat_map (fun b => opt_list (has_root_fold b)) bs) as [|a l] eqn:Ef; [contradiction|]. cbn [reduce_pure] in Hw. inversion Hw as [Hfold].
    destruct (certainty_fold l a w Hfold Hns) as [Ha Hl]. assert (wb = w) by (destruct Hinw as [<-|Hinl]; [exact Ha|rewrite Forall_forall in Hl; exact (Hl wb Hinl)]). subst wb.
    rewrite Hfold. exact (IH bb Hin (Hn bb Hin) (Hr bb Hin) w Hwb Hns x Hxb).
  - inversion Hx as [| |sp0 ts0 xs HF|]; subst. cbn [nonempty_branches rep_free has_root_fold] in *. apply andb_prop in Hn. destruct Hn as [Hnil Hn].
    destruct HF as [|t0 x0 ts' xs' Hx0 HF']; [discriminate|]. inversion IH as [|? ? I0 _]; subst. cbn [forallb] in Hn, Hr. apply andb_prop in Hn, Hr.
    destruct (has_root_fold_some t0 (proj1 Hn)) as [w0 Hw0]. rewrite Hw0 in Hw. cbn [opt_list reduce_pure fold_left] in Hw. inversion Hw; subst w0.
    pose proof (I0 (proj1 Hn) (proj1 Hr) w Hw0 Hns x0 Hx0) as H0. cbn [concat].
    pose proof (expands_nonempty t0 x0 (proj1 Hn) (proj1 Hr) Hx0) as Nx. destruct x0 as [|a x0']; [congruence|]. exact H0.
Qed.

Section DepthRooted.
Variable orbit : char -> list char.
Hypothesis orbit_nosep : forall c d, In d (orbit c) -> d <> SEP.

Theorem built_rep_free_depth_sound_rooted : forall e t r v p,
  build e = BuildOk t r -> rep_free t = true ->
  depth_variance t = Ok v -> depth_closed_variant t = false ->
  Lang orbit t p -> canonical p = true -> 1 <= ncomp p ->
  starts_sep p = (match has_root t with Always => true | _ => false end) ->
  in_variance (ncomp p) v.
Proof.
  intros e t r v p Hb Hrf Hv Hcv HL Hcan Hn Hroot.
  eapply (built_rep_free_depth_sound orbit orbit_nosep); try eassumption.
  intros x Hx _. rewrite Hroot. pose proof (built_nonempty_branches e t r Hb) as Hne.
  destruct (has_root_fold_some t Hne) as [w Hw]. unfold has_root. rewrite Hw.
  assert (Hns : w <> Sometimes).
  { intros ->. apply (built_never_sometimes e t r Hb Hrf). unfold has_root. rewrite Hw. reflexivity. }
  symmetry. exact (root_expansions t Hne Hrf w Hw Hns x Hx).
Qed.

End DepthRooted.
