(* WalkFacts.v -- the combinator stack machine of Walk.v refines the pruned pre-order specification,
   for every tree, every stack of layers, every depth window; corollaries for C03, C13, C15, C16, C20. *)
From Coq Require Import Arith Lia Permutation.
From WaxModel Require Import Base Token Walk.
Local Open Scope nat_scope.

Section Refinement.
Variable ls : list layer.
Variable mind : nat.
Variable maxd : option nat.

(* ---- one entry through the layers -------------------------------------------------------------------- *)
Lemma through_RTree : forall l e c acc, exists acc', through l e RTree c acc = (RTree, c, acc').
Proof.
  induction l as [|x l IH]; intros e c acc; cbn [through]; [eexists; reflexivity|].
  destruct (x e RTree); cbn [step_layer]; apply IH.
Qed.

(* from filtrate (or node residue) the walk is cancelled at most once, and exactly when the entry ends up
   discarded as a tree *)
Lemma through_shape : forall l e t c acc, t <> RTree ->
  (exists acc', through l e t c acc = (RTree, S c, acc')) \/
  (exists t' acc', t' <> RTree /\ through l e t c acc = (t', c, acc')).
Proof.
  induction l as [|x l IH]; intros e t c acc Ht; cbn [through].
  - right. exists t, (rev acc). split; [exact Ht|reflexivity].
  - destruct (x e t) eqn:Ex, t; cbn [step_layer]; try congruence; try (apply IH; congruence);
      left; apply through_RTree.
Qed.

(* ---- specification of a stack ---------------------------------------------------------------------------- *)
Definition spec_item (d : nat) (it : fitem) : list ritem :=
  match it with
  | FI p n => spec ls mind maxd d p n
  | FE p e => [RError p e]
  end.
Definition spec_frame (d : nat) (f : frame) : list ritem :=
  if over maxd d then [] else flat_map (spec_item d) f.
Fixpoint spec_wd (st : wd) : list ritem :=
  match st with
  | [] => []
  | f :: rest => spec_frame (length rest) f ++ spec_wd rest
  end.

Definition isize (it : fitem) : nat := match it with FI _ n => nsize n | FE _ _ => 1 end.
Definition fsize (f : frame) : nat := fold_right (fun it a => isize it + a) 0 f.
Definition wsize (st : wd) : nat := fold_right (fun f a => fsize f + a) 0 st.
Definition measure (st : wd) : nat := 2 * wsize st + length st.

Lemma push_spec : forall d p kids,
  flat_map (spec_item d) (push p kids) =
  (fix go (ks : list (name * node)) : list ritem :=
     match ks with [] => [] | k :: ks' => spec ls mind maxd d (p ++ [fst k]) (snd k) ++ go ks' end) kids.
Proof. intros d p kids. induction kids as [|k ks IH]; cbn; [reflexivity|]. f_equal. exact IH. Qed.

Lemma fsize_push : forall p kids,
  fsize (push p kids) =
  (fix go (ks : list (name * node)) : nat := match ks with [] => 0 | k :: ks' => nsize (snd k) + go ks' end) kids.
Proof. intros p kids. induction kids as [|k ks IH]; cbn; [reflexivity|]. f_equal. exact IH. Qed.

Lemma wd_next_none : forall (st : wd), wd_next maxd st = None -> spec_wd st = [].
Proof.
  induction st as [|f rest IH]; [reflexivity|]. cbn [wd_next spec_wd]. unfold spec_frame.
  destruct (over maxd (length rest)).
  - intros H. cbn [app]. apply IH, H.
  - destruct f as [|[p n|p e] sibs].
    + intros H. cbn. apply IH, H.
    + destruct n; discriminate.
    + discriminate.
Qed.

Definition item_spec (it : witem) (st' : wd) : list ritem :=
  match it with
  | WError p d => RError p d :: spec_wd st'
  | WEntry p is_dir d =>
      let e := mkEntry p is_dir in
      shown ls mind d e ++ (if is_dir && pruned ls mind d e then spec_wd (wd_skip st') else spec_wd st')
  end.

Lemma spec_wd_cons_item : forall (it : fitem) (sibs : frame) (rest : wd),
  spec_wd ((it :: sibs) :: rest) =
  if over maxd (length rest) then spec_wd rest else spec_item (length rest) it ++ spec_wd (sibs :: rest).
Proof.
  intros it sibs rest. cbn [spec_wd]. unfold spec_frame. destruct (over maxd (length rest)); [reflexivity|].
  cbn [flat_map]. symmetry. apply app_assoc.
Qed.

Lemma spec_wd_push : forall (f sibs : frame) (rest : wd),
  spec_wd (f :: sibs :: rest) =
  (if over maxd (S (length rest)) then [] else flat_map (spec_item (S (length rest))) f) ++ spec_wd (sibs :: rest).
Proof. intros. reflexivity. Qed.

Lemma measure_cons_item : forall (it : fitem) (sibs : frame) (rest : wd), measure ((it :: sibs) :: rest) = 2 * isize it + measure (sibs :: rest).
Proof. intros. unfold measure. cbn [wsize fold_right length fsize]. fold (fsize sibs). lia. Qed.

Lemma measure_push : forall (f sibs : frame) (rest : wd), measure (f :: sibs :: rest) = 2 * fsize f + 1 + measure (sibs :: rest).
Proof. intros. unfold measure. cbn [wsize fold_right length]. lia. Qed.

Lemma wd_next_some : forall (st : wd) it st', wd_next maxd st = Some (it, st') ->
  spec_wd st = item_spec it st'
  /\ measure st' < measure st
  /\ (match it with WEntry _ true _ => measure (wd_skip st') < measure st | _ => True end).
Proof.
  induction st as [|f rest IH]; intros it st' H; [discriminate|].
  cbn [wd_next] in H.
  destruct (over maxd (length rest)) eqn:Eo.
  - destruct (IH _ _ H) as (H1 & H2 & H3). split.
    + cbn [spec_wd]. unfold spec_frame. rewrite Eo. exact H1.
    + unfold measure in *. cbn [wsize fold_right length]. fold (wsize rest).
      split; [lia|]. destruct it as [p [|] d|]; try exact I. lia.
  - destruct f as [|[p n|p e] sibs].
    + destruct (IH _ _ H) as (H1 & H2 & H3). split.
      * cbn [spec_wd]. unfold spec_frame. rewrite Eo. exact H1.
      * unfold measure in *. cbn [wsize fold_right length fsize]. fold (wsize rest).
        split; [lia|]. destruct it as [p [|] d|]; try exact I. lia.
    + rewrite spec_wd_cons_item, Eo. rewrite measure_cons_item. cbn [spec_item isize].
      destruct n as [|kids| |]; inversion H; subst; clear H; cbn [item_spec andb wd_skip tl spec nsize].
      * (* file *)
        split; [reflexivity|]. split; [lia|exact I].
      * (* directory *)
        rewrite spec_wd_push, measure_push, fsize_push. split; [|split; lia].
        rewrite <- app_assoc. f_equal.
        destruct (pruned ls mind (length rest) {| e_path := p; e_dir := true |}); cbn [orb app]; [reflexivity|].
        destruct (over maxd (S (length rest))); cbn [app]; [reflexivity|].
        rewrite push_spec. reflexivity.
      * (* unreadable directory *)
        rewrite spec_wd_push, measure_push. cbn [fsize fold_right isize]. split; [|split; lia].
        rewrite <- app_assoc. f_equal.
        destruct (pruned ls mind (length rest) {| e_path := p; e_dir := true |}); cbn [orb app]; [reflexivity|].
        destruct (over maxd (S (length rest))); cbn [app flat_map spec_item]; reflexivity.
      * (* error node *)
        split; [reflexivity|]. split; [lia|exact I].
    + inversion H; subst; clear H. rewrite spec_wd_cons_item, Eo, measure_cons_item. cbn [spec_item item_spec isize app].
      split; [reflexivity|]. split; [lia|exact I].
Qed.

(* C13: for every tree, stack of layers and depth window, the machine produces exactly the pruned pre-order *)
Theorem run_refines : forall fuel st, measure st < fuel -> run fuel mind maxd ls st = spec_wd st.
Proof.
  induction fuel as [|fuel IH]; intros st Hf; [lia|]. cbn [run].
  destruct (wd_next maxd st) as [[it st']|] eqn:En.
  - destruct (wd_next_some _ _ _ En) as (Hs & Hm1 & Hm2). rewrite Hs.
    destruct it as [p is_dir d|p d]; cbn [item_spec].
    + unfold shown, pruned. destruct (Nat.ltb d mind) eqn:Ed; cbn [negb andb app].
      * rewrite andb_false_r. apply IH. lia.
      * unfold final_tag, seen_tags.
        destruct (through_shape ls (mkEntry p is_dir) Filtrate 0 [] ltac:(discriminate)) as [[acc' Ht] | (t' & acc' & Hn & Ht)];
          rewrite Ht; cbn [fst snd app].
        -- destruct is_dir; cbn [andb Nat.iter]; f_equal; apply IH; lia.
        -- destruct is_dir; cbn [andb Nat.iter]; f_equal; destruct t'; try congruence; apply IH; lia.
    + f_equal. apply IH. lia.
  - symmetry. apply wd_next_none, En.
Qed.

Lemma walk_fuel_enough : forall root, measure (wd_init root) < walk_fuel root.
Proof. intros root. unfold measure, wd_init, walk_fuel. cbn. lia. Qed.

Theorem walk_refines : forall root, walk mind maxd ls root = walk_spec mind maxd ls root.
Proof.
  intros root. unfold walk. rewrite run_refines by apply walk_fuel_enough.
  unfold wd_init, walk_spec. cbn [spec_wd length]. unfold spec_frame.
  assert (over maxd 0 = false) as -> by (destruct maxd; reflexivity).
  cbn [flat_map spec_item]. rewrite !app_nil_r. reflexivity.
Qed.

End Refinement.

(* ---- induction on directory trees ------------------------------------------------------------------------ *)
Section node_ind.
  Variable P : node -> Prop.
  Hypothesis Hfile : P NFile.
  Hypothesis Hdir : forall kids, Forall (fun k => P (snd k)) kids -> P (NDir kids).
  Hypothesis Hdirerr : P NDirErr.
  Hypothesis Herr : P NErr.
  Fixpoint node_ind' (n : node) : P n :=
    match n with
    | NFile => Hfile
    | NDir kids => Hdir kids ((fix go (l : list (name * node)) : Forall (fun k => P (snd k)) l :=
                      match l with [] => Forall_nil _ | k :: l' => Forall_cons k (node_ind' (snd k)) (go l') end) kids)
    | NDirErr => Hdirerr
    | NErr => Herr
    end.
End node_ind.

(* ---- C13: what the specification says about discards --------------------------------------------------------- *)
(* nothing beneath a directory that is discarded as a tree is produced *)
Lemma pruned_dir_alone : forall ls mind maxd d p kids,
  pruned ls mind d (mkEntry p true) = true ->
  spec ls mind maxd d p (NDir kids) = shown ls mind d (mkEntry p true).
Proof. intros. cbn [spec]. rewrite H. cbn [orb]. apply app_nil_r. Qed.

(* discarding a directory as a single file (or keeping it) skips none of its children *)
Lemma unpruned_dir_children : forall ls mind maxd d p kids,
  pruned ls mind d (mkEntry p true) = false -> over maxd (S d) = false ->
  spec ls mind maxd d p (NDir kids) =
  shown ls mind d (mkEntry p true) ++
  flat_map (fun k => spec ls mind maxd (S d) (p ++ [fst k]) (snd k)) kids.
Proof.
  intros. cbn [spec]. rewrite H, H0. cbn [orb].
  f_equal.
Qed.

(* whatever the verdicts on an entry that is not a directory, only that entry is affected *)
Lemma nondir_alone : forall ls mind maxd d p, spec ls mind maxd d p NFile = shown ls mind d (mkEntry p false).
Proof. reflexivity. Qed.

(* ---- C16: monotone tags, one observation per layer ----------------------------------------------------------------- *)
Definition tag_rank (t : tag) : nat := match t with Filtrate => 0 | RNode => 1 | RTree => 2 end.

Lemma step_layer_monotone : forall v t, tag_rank t <= tag_rank (fst (step_layer v t)).
Proof. intros [] []; cbn; lia. Qed.

Lemma through_monotone : forall l e t c acc, tag_rank t <= tag_rank (fst (fst (through l e t c acc))).
Proof.
  induction l as [|x l IH]; intros e t c acc; cbn [through]; [cbn; lia|].
  destruct (step_layer (x e t) t) as [t' b] eqn:E.
  pose proof (step_layer_monotone (x e t) t) as Hm. rewrite E in Hm. cbn [fst] in Hm.
  etransitivity; [exact Hm|]. apply IH.
Qed.

(* a later layer never brings an entry back nor downgrades a discarded tree to a discarded file *)
Lemma final_tag_app_monotone : forall l1 l2 e,
  tag_rank (final_tag l1 e) <= tag_rank (final_tag (l1 ++ l2) e).
Proof.
  intros l1 l2 e. unfold final_tag.
  assert (G : forall l t c acc, exists c' acc',
             fst (through (l ++ l2) e t c acc) = fst (through l2 e (fst (fst (through l e t c acc))) c' acc')).
  { induction l as [|x l IH]; intros t c acc; cbn [app through].
    - exists c, acc. reflexivity.
    - destruct (step_layer (x e t) t) as [t' b]. apply IH. }
  destruct (G l1 Filtrate 0 []) as [c' [acc' Hg]]. rewrite Hg. apply through_monotone.
Qed.

Lemma through_seen_length : forall l e t c acc, length (snd (through l e t c acc)) = length l + length acc.
Proof.
  induction l as [|x l IH]; intros e t c acc; cbn [through].
  - cbn. rewrite rev_length. reflexivity.
  - destruct (step_layer (x e t) t) as [t' b]. rewrite IH. cbn [length]. lia.
Qed.

(* every layer observes every produced entry exactly once *)
Lemma seen_once : forall l e, length (seen_tags l e) = length l.
Proof. intros l e. unfold seen_tags. rewrite through_seen_length. cbn. lia. Qed.

(* layers whose verdict does not depend on how the entry reaches them *)
Definition tag_independent (l : layer) : Prop := forall e t, l e t = l e Filtrate.

Lemma through_tag_independent : forall l e t c acc,
  Forall tag_independent l ->
  fst (fst (through l e t c acc)) =
    match t with
    | RTree => RTree
    | _ => if existsb (fun x => match x e Filtrate with VTree => true | _ => false end) l then RTree
           else match t with
                | RNode => RNode
                | _ => if existsb (fun x => match x e Filtrate with VFile => true | _ => false end) l then RNode else Filtrate
                end
    end.
Proof.
  induction l as [|x l IH]; intros e t c acc Hi; cbn [through existsb].
  - destruct t; reflexivity.
  - inversion Hi as [|? ? Hx Hl]; subst. rewrite (Hx e t).
    destruct (x e Filtrate) eqn:Ex, t; cbn [step_layer orb]; rewrite (IH _ _ _ _ Hl); reflexivity.
Qed.

Lemma existsb_perm : forall {A} (f : A -> bool) l l', Permutation l l' -> existsb f l = existsb f l'.
Proof.
  intros A f l l' H. induction H; cbn [existsb]; try congruence.
  - destruct (f x), (f y); reflexivity.
Qed.

(* C16: the outcome for an entry does not depend on the order of the stack *)
Lemma final_tag_permutation : forall l l' e,
  Permutation l l' -> Forall tag_independent l -> final_tag l e = final_tag l' e.
Proof.
  intros l l' e Hp Hi. unfold final_tag.
  assert (Hi' : Forall tag_independent l').
  { rewrite Forall_forall in *. intros x Hx. apply Hi. eapply Permutation_in; [apply Permutation_sym; exact Hp|exact Hx]. }
  rewrite (through_tag_independent l e Filtrate 0 [] Hi), (through_tag_independent l' e Filtrate 0 [] Hi').
  rewrite (existsb_perm _ l l' Hp). rewrite (existsb_perm (fun x => match x e Filtrate with VFile => true | _ => false end) l l' Hp).
  reflexivity.
Qed.

(* the produced items with the per-layer observations erased *)
Definition strip (r : ritem) : ritem :=
  match r with REntry e t _ => REntry e t [] | RError p d => RError p d end.

Lemma spec_permutation : forall l l' mind maxd n d p,
  Permutation l l' -> Forall tag_independent l ->
  map strip (spec l mind maxd d p n) = map strip (spec l' mind maxd d p n).
Proof.
  intros l l' mind maxd n. induction n as [|kids IH| |] using node_ind'; intros d p Hp Hi.
  - cbn [spec]. unfold shown. destruct (Nat.ltb d mind); [reflexivity|]. cbn [map strip].
    rewrite (final_tag_permutation l l' _ Hp Hi). reflexivity.
  - cbn [spec]. rewrite !map_app. unfold shown, pruned.
    rewrite (final_tag_permutation l l' _ Hp Hi). f_equal.
    + destruct (Nat.ltb d mind); reflexivity.
    + destruct (negb (Nat.ltb d mind) && match final_tag l' {| e_path := p; e_dir := true |} with RTree => true | _ => false end
                || over maxd (S d)); [reflexivity|].
      induction IH as [|k ks Hk _ IHks]; [reflexivity|]. rewrite !map_app. f_equal; [apply Hk; assumption|exact IHks].
  - cbn [spec]. rewrite !map_app. unfold shown, pruned.
    rewrite (final_tag_permutation l l' _ Hp Hi). f_equal.
    destruct (Nat.ltb d mind); reflexivity.
  - reflexivity.
Qed.

(* ---- C20: layers neither create nor alter error items ------------------------------------------------------------------- *)
Lemma errors_from_the_tree : forall l mind maxd n d p q e,
  In (RError q e) (spec l mind maxd d p n) -> In (RError q e) (spec [] mind maxd d p n).
Proof.
  intros l mind maxd n. induction n as [|kids IH| |] using node_ind'; intros d p q e H.
  - cbn [spec] in H. unfold shown in H. destruct (Nat.ltb d mind); cbn in H; [contradiction|]. destruct H as [H|[]]; discriminate.
  - cbn [spec] in *. apply in_app_or in H. destruct H as [H|H].
    + unfold shown in H. destruct (Nat.ltb d mind); cbn in H; [contradiction|]. destruct H as [H|[]]; discriminate.
    + apply in_or_app. right.
      assert (Hp0 : pruned [] mind d {| e_path := p; e_dir := true |} = false).
      { unfold pruned, final_tag. cbn. apply andb_false_r. }
      rewrite Hp0. cbn [orb].
      destruct (pruned l mind d {| e_path := p; e_dir := true |} || over maxd (S d)) eqn:E; [contradiction|].
      apply orb_false_iff in E. destruct E as [_ E]. rewrite E.
      induction IH as [|k ks Hk _ IHks]; [contradiction|].
      apply in_app_or in H. apply in_or_app. destruct H as [H|H]; [left; eapply Hk; exact H|right; apply IHks; exact H].
  - cbn [spec] in *. apply in_app_or in H. destruct H as [H|H].
    + unfold shown in H. destruct (Nat.ltb d mind); cbn in H; [contradiction|]. destruct H as [H|[]]; discriminate.
    + apply in_or_app. right.
      assert (Hp0 : pruned [] mind d {| e_path := p; e_dir := true |} = false).
      { unfold pruned, final_tag. cbn. apply andb_false_r. }
      rewrite Hp0. cbn [orb].
      destruct (pruned l mind d {| e_path := p; e_dir := true |} || over maxd (S d)) eqn:E; [contradiction|].
      apply orb_false_iff in E. destruct E as [_ E]. rewrite E. exact H.
  - exact H.
Qed.

(* ---- C15: every produced entry lies inside the depth window --------------------------------------------------------------- *)
Lemma entries_in_window : forall l mind maxd n d p e t s,
  over maxd d = false ->
  In (REntry e t s) (spec l mind maxd d p n) ->
  exists k, length (e_path e) = length p + k /\ mind <= d + k /\ over maxd (d + k) = false.
Proof.
  intros l mind maxd n. induction n as [|kids IH| |] using node_ind'; intros d p e t s Ho H.
  - cbn [spec] in H. unfold shown in H. destruct (Nat.ltb d mind) eqn:E; cbn in H; [contradiction|].
    destruct H as [H|[]]. inversion H; subst. exists 0. cbn [e_path]. apply Nat.ltb_ge in E. rewrite !Nat.add_0_r. auto.
  - cbn [spec] in H. apply in_app_or in H. destruct H as [H|H].
    + unfold shown in H. destruct (Nat.ltb d mind) eqn:E; cbn in H; [contradiction|].
      destruct H as [H|[]]. inversion H; subst. exists 0. cbn [e_path]. apply Nat.ltb_ge in E. rewrite !Nat.add_0_r. auto.
    + destruct (pruned l mind d {| e_path := p; e_dir := true |} || over maxd (S d)) eqn:E; [contradiction|].
      apply orb_false_iff in E. destruct E as [_ E].
      induction IH as [|k ks Hk _ IHks]; [contradiction|].
      apply in_app_or in H. destruct H as [H|H]; [|apply IHks; exact H].
      destruct (Hk (S d) (p ++ [fst k]) e t s E H) as [j [Hl [Hm Hov]]].
      exists (S j). rewrite app_length in Hl. cbn [length] in Hl.
      replace (d + S j) with (S d + j) by lia. repeat split; [lia|lia|exact Hov].
  - cbn [spec] in H. apply in_app_or in H. destruct H as [H|H].
    + unfold shown in H. destruct (Nat.ltb d mind) eqn:E; cbn in H; [contradiction|].
      destruct H as [H|[]]. inversion H; subst. exists 0. cbn [e_path]. apply Nat.ltb_ge in E. rewrite !Nat.add_0_r. auto.
    + destruct (pruned l mind d {| e_path := p; e_dir := true |} || over maxd (S d)); [contradiction|].
      destruct H as [H|[]]. discriminate.
  - cbn [spec] in H. destruct H as [H|[]]. discriminate.
Qed.

(* ---- C02: the glob walker's component loop ------------------------------------------------------------------------------------ *)
(* an entry is only kept (yielded) when the complete program matches its relative path *)
Lemma zip_loop_keep : forall cands progs whole, zip_loop cands progs whole = Keep -> whole = true.
Proof.
  induction cands as [|c cands IH]; intros progs whole H.
  - destruct progs; cbn in H; [destruct whole; [reflexivity|discriminate]|discriminate].
  - destruct progs as [|pr progs]; cbn [zip_loop] in H.
    + destruct whole; [reflexivity|discriminate].
    + destruct cands as [|c' cands'], progs as [|pr' progs'];
        destruct (pr c); try discriminate; try (destruct whole; [reflexivity|discriminate]);
        try (eapply IH; exact H).
Qed.

(* a directory is only discarded as a tree when one of the component programs rejects the component of the
   relative path at its own position: skipping it cannot lose an entry all of whose components are accepted *)
Lemma zip_loop_tree : forall cands progs whole,
  zip_loop cands progs whole = VTree ->
  exists i c pr, nth_error cands i = Some c /\ nth_error progs i = Some pr /\ pr c = false.
Proof.
  induction cands as [|c cands IH]; intros progs whole H.
  - destruct progs; cbn in H; [destruct whole; discriminate|discriminate].
  - destruct progs as [|pr progs]; cbn [zip_loop] in H.
    + destruct whole; discriminate.
    + destruct (pr c) eqn:Epr.
      * assert (Hrec : zip_loop cands progs whole = VTree).
        { destruct cands as [|c' cands'], progs as [|pr' progs']; try exact H; destruct whole; discriminate. }
        destruct (IH _ _ Hrec) as [i [c0 [pr0 [H1 [H2 H3]]]]]. exists (S i), c0, pr0. auto.
      * exists 0, c, pr. auto.
Qed.

Lemma glob_layer_keep_matches : forall prefix progs complete e t,
  glob_layer prefix progs complete e t = Keep -> complete (join_path (prefix ++ e_path e)) = true.
Proof. intros prefix progs complete e t H. unfold glob_layer in H. eapply zip_loop_keep. exact H. Qed.

(* ---- C03: a negation keeps exactly the filtrate that neither of its programs matches ---------------------------------------------- *)
Lemma through_app : forall l1 l2 e t c acc, exists c' acc',
  fst (through (l1 ++ l2) e t c acc) = fst (through l2 e (fst (fst (through l1 e t c acc))) c' acc').
Proof.
  induction l1 as [|x l IH]; intros l2 e t c acc; cbn [app through].
  - exists c, acc. reflexivity.
  - destruct (step_layer (x e t) t) as [t' b]. apply IH.
Qed.

Lemma final_tag_snoc : forall ls l e,
  final_tag (ls ++ [l]) e = fst (step_layer (l e (final_tag ls e)) (final_tag ls e)).
Proof.
  intros ls l e. unfold final_tag. destruct (through_app ls [l] e Filtrate 0 []) as [c' [acc' H]].
  rewrite H. cbn [through]. destruct (step_layer _ _); reflexivity.
Qed.

Definition opt_match (f : option (str -> bool)) (s : str) : bool := match f with Some g => g s | None => false end.

Lemma not_layer_filtrate : forall ls prefix gw exh nonexh e,
  final_tag (ls ++ [not_layer prefix gw exh nonexh]) e = Filtrate <->
  final_tag ls e = Filtrate /\
  opt_match exh (join_path (presented prefix gw e Filtrate)) = false /\
  opt_match nonexh (join_path (presented prefix gw e Filtrate)) = false.
Proof.
  intros ls prefix gw exh nonexh e. rewrite final_tag_snoc.
  destruct (final_tag ls e) eqn:Et.
  - unfold not_layer, opt_match. destruct exh as [f|], nonexh as [g|];
      repeat match goal with |- context [if ?b then _ else _] => destruct b eqn:? end; cbn; split; intros H;
      try discriminate; try (destruct H as [_ [? ?]]; discriminate); try (repeat split; reflexivity); try reflexivity.
  - split; [|intros [H _]; discriminate].
    destruct (not_layer prefix gw exh nonexh e RNode); cbn; discriminate.
  - split; [|intros [H _]; discriminate].
    destruct (not_layer prefix gw exh nonexh e RTree); cbn; discriminate.
Qed.

(* ---- C14: what an entry of a glob walk presents --------------------------------------------------------------------------------------- *)
Lemma presented_filtrate_depth : forall prefix e,
  length (presented prefix true e Filtrate) = length prefix + length (e_path e).
Proof. intros. cbn [presented]. apply app_length. Qed.

(* ==== C02 / C03 at the level of what a walk yields ================================================================= *)
Definition yields (l : list ritem) : list rpath :=
  flat_map (fun r => match r with REntry e Filtrate _ => [e_path e] | _ => [] end) l.

Lemma yields_app : forall a b, yields (a ++ b) = yields a ++ yields b.
Proof. intros. unfold yields. apply flat_map_app. Qed.

(* every entry of a tree, in pre-order (an unreadable directory is an entry; an error node is not) *)
Fixpoint all_entries (p : rpath) (n : node) : list rpath :=
  match n with
  | NFile | NDirErr => [p]
  | NErr => []
  | NDir kids => p :: (fix go (ks : list (name * node)) : list rpath :=
                         match ks with [] => [] | k :: ks' => all_entries (p ++ [fst k]) (snd k) ++ go ks' end) kids
  end.

Lemma all_entries_extend : forall n p q, In q (all_entries p n) -> exists r, q = p ++ r.
Proof.
  induction n as [|kids IH| |] using node_ind'; intros p q H; cbn [all_entries] in H.
  - destruct H as [<-|[]]. exists []. symmetry. apply app_nil_r.
  - destruct H as [<-|H]; [exists []; symmetry; apply app_nil_r|].
    induction IH as [|k ks Hk _ IHks]; [contradiction|]. apply in_app_or in H. destruct H as [H|H]; [|apply IHks; exact H].
    destruct (Hk _ _ H) as [r ->]. exists ([fst k] ++ r). apply eq_sym, app_assoc.
  - destruct H as [<-|[]]. exists []. symmetry. apply app_nil_r.
  - contradiction.
Qed.

Section GlobWalk.
Variable prefix : rpath.
Variable progs : list (name -> bool).
Variable complete : str -> bool.
(* the paths the hypothesis is needed for (e.g. those made of valid names; `fun _ => True` for all) *)
Variable good : rpath -> Prop.
(* pruning soundness: whatever the complete program accepts, every component program accepts at its own position *)
Hypothesis Hprune : forall rel, good rel -> complete (join_path rel) = true ->
  forall i c pr, nth_error rel i = Some c -> nth_error progs i = Some pr -> pr c = true.

Definition gl : layer := glob_layer prefix progs complete.
Definition keeps (q : rpath) : bool :=
  complete (join_path (prefix ++ q)) && Nat.leb (length progs) (length (prefix ++ q)).

Lemma zip_loop_keep_len : forall cands ps whole, zip_loop cands ps whole = Keep -> length ps <= length cands.
Proof.
  induction cands as [|c cands IH]; intros ps whole H.
  - destruct ps; cbn in H; [cbn; lia|discriminate].
  - destruct ps as [|pr ps]; [cbn; lia|]. cbn [zip_loop] in H. cbn [length].
    destruct (pr c); [|destruct cands, ps; discriminate].
    destruct cands as [|c' cands'], ps as [|pr' ps']; cbn [length]; try lia; try (apply IH in H; cbn [length] in H; lia);
      try (destruct whole; discriminate).
Qed.

Lemma zip_loop_file : forall cands ps whole, zip_loop cands ps whole = VFile -> whole = false \/ length cands < length ps.
Proof.
  induction cands as [|c cands IH]; intros ps whole H.
  - destruct ps; cbn in H; [destruct whole; [discriminate|left; reflexivity]|right; cbn; lia].
  - destruct ps as [|pr ps]; cbn [zip_loop] in H; [destruct whole; [discriminate|left; reflexivity]|].
    destruct (pr c); [|destruct cands, ps; discriminate].
    destruct cands as [|c' cands'], ps as [|pr' ps'].
    + destruct whole; [discriminate|left; reflexivity].
    + right. cbn. lia.
    + destruct (IH _ _ H) as [Hw|Hl]; [left; exact Hw|right; cbn [length] in *; lia].
    + destruct (IH _ _ H) as [Hw|Hl]; [left; exact Hw|right; cbn [length] in *; lia].
Qed.

Lemma nth_error_skipn : forall {A} (l : list A) d i, nth_error (skipn d l) i = nth_error l (d + i).
Proof. induction l as [|a l IH]; intros [|d] i; cbn; try reflexivity; [destruct i; reflexivity|apply IH]. Qed.

(* a discarded directory and everything beneath it are rejected by the complete program *)
Lemma tree_verdict_rejects_subtree : forall e t r, good (prefix ++ (e_path e ++ r)) ->
  gl e t = VTree -> complete (join_path (prefix ++ (e_path e ++ r))) = false.
Proof.
  intros e t r Hg H. unfold gl, glob_layer in H. apply zip_loop_tree in H. destruct H as [i [c [pr [Hc [Hp Hr]]]]].
  rewrite nth_error_skipn in Hc. rewrite nth_error_skipn in Hp.
  destruct (complete (join_path (prefix ++ e_path e ++ r))) eqn:E; [|reflexivity].
  rewrite (Hprune _ Hg E (Nat.pred (length (e_path e)) + i) c pr) in Hr; [discriminate| |exact Hp].
  rewrite app_assoc. rewrite nth_error_app1; [exact Hc|]. apply nth_error_Some. rewrite Hc. discriminate.
Qed.

Lemma final_tag_single : forall (l : layer) e, final_tag [l] e = fst (step_layer (l e Filtrate) Filtrate).
Proof. intros l e. unfold final_tag. cbn [through]. destruct (step_layer (l e Filtrate) Filtrate). reflexivity. Qed.

Lemma filter_all_false : forall {A} (f : A -> bool) l, (forall a, In a l -> f a = false) -> filter f l = [].
Proof.
  induction l as [|a l IH]; intros H; [reflexivity|]. cbn [filter]. rewrite (H a (or_introl eq_refl)).
  apply IH. intros b Hb. apply H. right. exact Hb.
Qed.

Lemma verdict_keep : forall e t, gl e t = Keep -> keeps (e_path e) = true.
Proof.
  intros e t Ev. unfold gl, glob_layer in Ev. unfold keeps. rewrite (zip_loop_keep _ _ _ Ev).
  apply zip_loop_keep_len in Ev. rewrite !skipn_length in Ev.
  apply andb_true_intro. split; [reflexivity|]. apply Nat.leb_le. rewrite app_length in *. lia.
Qed.

Lemma verdict_file : forall e t, gl e t = VFile -> keeps (e_path e) = false.
Proof.
  intros e t Ev. unfold gl, glob_layer in Ev. unfold keeps. apply zip_loop_file in Ev. destruct Ev as [Ev|Ev].
  - rewrite Ev. reflexivity.
  - rewrite !skipn_length in Ev. apply andb_false_iff. right. apply Nat.leb_gt. rewrite app_length in *. lia.
Qed.

Lemma verdict_tree : forall e t r, good (prefix ++ (e_path e ++ r)) -> gl e t = VTree -> keeps (e_path e ++ r) = false.
Proof. intros e t r Hg Ev. unfold keeps. rewrite (tree_verdict_rejects_subtree e t r Hg Ev). reflexivity. Qed.

Lemma yields_shown : forall d e,
  yields (shown [gl] 0 d e) = filter keeps [e_path e] \/ (gl e Filtrate = VTree /\ yields (shown [gl] 0 d e) = []).
Proof.
  intros d e. unfold shown. cbn [Nat.ltb Nat.leb]. unfold yields. cbn [flat_map]. rewrite final_tag_single.
  destruct (gl e Filtrate) eqn:Ev; cbn [step_layer fst filter app].
  - left. rewrite (verdict_keep e Filtrate Ev). reflexivity.
  - left. rewrite (verdict_file e Filtrate Ev). reflexivity.
  - right. split; reflexivity.
Qed.

(* C02: the walk of a glob yields exactly the entries that the complete program matches (and that have at least as many
   components as there are component programs), each once, in pre-order; pruning never loses one *)
Theorem glob_walk_yields : forall n d p,
  (forall q, In q (all_entries p n) -> good (prefix ++ q)) ->
  yields (spec [gl] 0 None d p n) = filter keeps (all_entries p n).
Proof.
  assert (Hself : forall (e : entry) r, good (prefix ++ e_path e ++ r) -> gl e Filtrate = VTree -> keeps (e_path e ++ r) = false).
  { intros e r Hg Ev. exact (verdict_tree e Filtrate r Hg Ev). }
  induction n as [|kids IH| |] using node_ind'; intros d p Hgood.
  - cbn [spec all_entries]. destruct (yields_shown d (mkEntry p false)) as [H|[Ev H]]; rewrite H; [reflexivity|].
    cbn [filter]. assert (Hg : good (prefix ++ e_path (mkEntry p false) ++ [])) by (cbn [e_path]; rewrite app_nil_r; apply Hgood; left; reflexivity).
    pose proof (Hself _ [] Hg Ev) as Hk. cbn [e_path] in Hk. rewrite app_nil_r in Hk. rewrite Hk. reflexivity.
  - cbn [spec all_entries]. rewrite yields_app.
    set (e := mkEntry p true).
    set (rest := (fix go (ks : list (name * node)) : list rpath :=
                    match ks with [] => [] | k :: ks' => all_entries (p ++ [fst k]) (snd k) ++ go ks' end) kids).
    assert (Hgood' : forall q, In q (p :: rest) -> good (prefix ++ q)) by exact Hgood.
    assert (Hkids : yields ((fix go (ks : list (name * node)) : list ritem :=
                       match ks with [] => [] | k :: ks' => spec [gl] 0 None (S d) (p ++ [fst k]) (snd k) ++ go ks' end) kids)
                    = filter keeps rest).
    { assert (Hr : forall q, In q rest -> good (prefix ++ q)) by (intros q Hq; apply Hgood'; right; exact Hq).
      clear Hgood Hgood'. subst rest. induction IH as [|k ks Hk _ IHks]; [reflexivity|]. rewrite yields_app, filter_app, Hk, IHks; [reflexivity| |].
      - intros q Hq. apply Hr. apply in_or_app. right. exact Hq.
      - intros q Hq. apply Hr. apply in_or_app. left. exact Hq. }
    assert (Hsub : forall r, In (p ++ r) (p :: rest) -> good (prefix ++ e_path e ++ r)) by (intros r Hr; apply Hgood'; exact Hr).
    unfold pruned. cbn [Nat.ltb Nat.leb negb andb over orb]. rewrite final_tag_single.
    destruct (yields_shown d e) as [H|[Ev H]].
    + rewrite H. destruct (gl e Filtrate) eqn:Ev; cbn [step_layer fst orb].
      * rewrite Hkids. change (p :: rest) with ([e_path e] ++ rest). rewrite filter_app. reflexivity.
      * rewrite Hkids. change (p :: rest) with ([e_path e] ++ rest). rewrite filter_app. reflexivity.
      * (* a tree verdict: nothing at or beneath the directory is kept *)
        assert (Hall : filter keeps (p :: rest) = []).
        { apply filter_all_false. intros q Hq. destruct (all_entries_extend (NDir kids) p q Hq) as [r ->].
          apply (Hself e r (Hsub r Hq) Ev). }
        rewrite Hall. assert (Hp : filter keeps [e_path e] = []).
        { apply filter_all_false. intros q [<-|[]]. assert (Hin : In (p ++ []) (p :: rest)) by (rewrite app_nil_r; left; reflexivity).
          pose proof (Hself e [] (Hsub [] Hin) Ev) as Hk. rewrite app_nil_r in Hk. exact Hk. }
        rewrite Hp. reflexivity.
    + rewrite H, Ev. cbn [step_layer fst app orb]. unfold yields. cbn [flat_map]. symmetry. apply filter_all_false. intros q Hq.
      destruct (all_entries_extend (NDir kids) p q Hq) as [r ->]. apply (Hself e r (Hsub r Hq) Ev).
  - cbn [spec all_entries]. rewrite yields_app.
    assert (Herr : forall b : bool, yields (if b then [] else [RError p d]) = []) by (intros []; reflexivity). rewrite Herr, app_nil_r.
    destruct (yields_shown d (mkEntry p true)) as [H|[Ev H]]; rewrite H; [reflexivity|].
    cbn [filter]. assert (Hg : good (prefix ++ e_path (mkEntry p true) ++ [])) by (cbn [e_path]; rewrite app_nil_r; apply Hgood; left; reflexivity).
    pose proof (Hself _ [] Hg Ev) as Hk. cbn [e_path] in Hk. rewrite app_nil_r in Hk. rewrite Hk. reflexivity.
  - reflexivity.
Qed.

End GlobWalk.

Section NotWalk.
Variable ls : list layer.
Variables exh nonexh : option (str -> bool).
(* a negation over a walk whose entries present their own path (path walks, prefix-free glob walks) *)
Definition nl : layer := not_layer [] false exh nonexh.
Definition matched (q : rpath) : bool := opt_match exh (join_path q) || opt_match nonexh (join_path q).
(* what the exhaustiveness verdict promises: beneath a path the exhaustive program matches, the negation matches everything *)
(* the paths the promise is needed for (e.g. those made of valid names; `fun _ => True` for all) *)
Variable good : rpath -> Prop.
Hypothesis Hexh : forall p r, good (p ++ r) -> r <> [] -> opt_match exh (join_path p) = true -> matched (p ++ r) = true.

(* what a walk yields are entries of the tree *)
Lemma spec_yields_entries : forall l mind maxd n d p q, In q (yields (spec l mind maxd d p n)) -> In q (all_entries p n).
Proof.
  intros l mind maxd n. induction n as [|kids IH| |] using node_ind'; intros d p q H.
  - cbn [spec] in H. cbn [all_entries]. unfold shown, yields in H. destruct (Nat.ltb d mind); cbn in H; [contradiction|].
    destruct (final_tag l _); cbn in H; try contradiction. destruct H as [<-|[]]. left. reflexivity.
  - cbn [spec] in H. cbn [all_entries]. rewrite yields_app in H. apply in_app_or in H. destruct H as [H|H].
    + unfold shown, yields in H. destruct (Nat.ltb d mind); cbn in H; [contradiction|].
      destruct (final_tag l _); cbn in H; try contradiction. destruct H as [<-|[]]. left. reflexivity.
    + right. destruct (pruned l mind d _ || over maxd (S d)); [contradiction|].
      induction IH as [|k ks Hk _ IHks]; [contradiction|]. rewrite yields_app in H. apply in_app_or in H. apply in_or_app.
      destruct H as [H|H]; [left; eapply Hk; exact H|right; apply IHks; exact H].
  - cbn [spec] in H. cbn [all_entries]. rewrite yields_app in H. apply in_app_or in H. destruct H as [H|H].
    + unfold shown, yields in H. destruct (Nat.ltb d mind); cbn in H; [contradiction|].
      destruct (final_tag l _); cbn in H; try contradiction. destruct H as [<-|[]]. left. reflexivity.
    + destruct (pruned l mind d _ || over maxd (S d)); cbn in H; contradiction.
  - cbn in H. contradiction.
Qed.

Lemma nl_verdict : forall e t,
  nl e t = if opt_match exh (join_path (e_path e)) then VTree else if opt_match nonexh (join_path (e_path e)) then VFile else Keep.
Proof.
  intros e t. unfold nl, not_layer, opt_match. destruct t; cbn [presented]; destruct exh as [f|], nonexh as [g|]; reflexivity.
Qed.

Lemma spec_extend : forall l mind maxd n d p q, In q (yields (spec l mind maxd d p n)) -> exists r, q = p ++ r.
Proof.
  intros l mind maxd n. induction n as [|kids IH| |] using node_ind'; intros d p q H.
  - cbn [spec] in H. unfold shown, yields in H. destruct (Nat.ltb d mind); cbn in H; [contradiction|].
    destruct (final_tag l _); cbn in H; try contradiction. destruct H as [<-|[]]. exists []. symmetry. apply app_nil_r.
  - cbn [spec] in H. rewrite yields_app in H. apply in_app_or in H. destruct H as [H|H].
    + unfold shown, yields in H. destruct (Nat.ltb d mind); cbn in H; [contradiction|].
      destruct (final_tag l _); cbn in H; try contradiction. destruct H as [<-|[]]. exists []. symmetry. apply app_nil_r.
    + destruct (pruned l mind d _ || over maxd (S d)); [contradiction|].
      induction IH as [|k ks Hk _ IHks]; [contradiction|]. rewrite yields_app in H. apply in_app_or in H.
      destruct H as [H|H]; [|apply IHks; exact H]. destruct (Hk _ _ _ H) as [r ->]. exists ([fst k] ++ r). apply eq_sym, app_assoc.
  - cbn [spec] in H. rewrite yields_app in H. apply in_app_or in H. destruct H as [H|H].
    + unfold shown, yields in H. destruct (Nat.ltb d mind); cbn in H; [contradiction|].
      destruct (final_tag l _); cbn in H; try contradiction. destruct H as [<-|[]]. exists []. symmetry. apply app_nil_r.
    + destruct (pruned l mind d _ || over maxd (S d)); cbn in H; contradiction.
  - cbn in H. contradiction.
Qed.

Lemma shown_not : forall mind d e,
  yields (shown (ls ++ [nl]) mind d e) = filter (fun q => negb (matched q)) (yields (shown ls mind d e)).
Proof.
  intros mind d e. unfold shown. destruct (Nat.ltb d mind); [reflexivity|]. unfold yields. cbn [flat_map]. rewrite !app_nil_r.
  rewrite final_tag_snoc, nl_verdict. unfold matched.
  destruct (final_tag ls e); cbn [filter];
    destruct (opt_match exh (join_path (e_path e))), (opt_match nonexh (join_path (e_path e))); reflexivity.
Qed.

(* C03: `not` yields exactly the entries of the underlying walk that the negation does not match; discarding whole
   trees changes nothing, given what the exhaustiveness verdict promises *)
Theorem not_walk_yields : forall mind maxd n d p, (forall q, In q (all_entries p n) -> good q) ->
  yields (spec (ls ++ [nl]) mind maxd d p n) = filter (fun q => negb (matched q)) (yields (spec ls mind maxd d p n)).
Proof.
  intros mind maxd n. induction n as [|kids IH| |] using node_ind'; intros d p Hgood.
  - cbn [spec]. apply shown_not.
  - cbn [spec]. rewrite !yields_app, filter_app, shown_not. f_equal.
    set (e := mkEntry p true).
    assert (Hkids : yields ((fix go (ks : list (name * node)) : list ritem :=
                       match ks with [] => [] | k :: ks' => spec (ls ++ [nl]) mind maxd (S d) (p ++ [fst k]) (snd k) ++ go ks' end) kids)
                    = filter (fun q => negb (matched q))
                        (yields ((fix go (ks : list (name * node)) : list ritem :=
                           match ks with [] => [] | k :: ks' => spec ls mind maxd (S d) (p ++ [fst k]) (snd k) ++ go ks' end) kids))).
    { assert (Hg : forall q, In q ((fix go (ks : list (name * node)) : list rpath :=
                      match ks with [] => [] | k :: ks' => all_entries (p ++ [fst k]) (snd k) ++ go ks' end) kids) -> good q).
      { intros q Hq. apply Hgood. cbn [all_entries]. right. exact Hq. }
      clear Hgood. induction IH as [|k ks Hk _ IHks]; [reflexivity|]. rewrite !yields_app, filter_app, Hk, IHks; [reflexivity| |].
      - intros q Hq. apply Hg. apply in_or_app. right. exact Hq.
      - intros q Hq. apply Hg. apply in_or_app. left. exact Hq. }
    unfold pruned. rewrite final_tag_snoc, nl_verdict.
    destruct (over maxd (S d)); [rewrite !orb_true_r; reflexivity|]. rewrite !orb_false_r.
    destruct (Nat.ltb d mind); cbn [negb andb]; [exact Hkids|].
    destruct (final_tag ls e) eqn:Et; cbn [step_layer fst].
    + destruct (opt_match exh (join_path (e_path e))) eqn:Ex; cbn [step_layer fst].
      * (* the negation discards the tree: everything beneath is matched by the negation anyway *)
        symmetry. apply filter_all_false. intros q Hq. apply negb_false_iff.
        assert (Hext : exists r, q = p ++ r /\ r <> [] /\ good q).
        { clear Hkids. assert (Hg : forall q0, In q0 ((fix go (ks : list (name * node)) : list rpath :=
                      match ks with [] => [] | k :: ks' => all_entries (p ++ [fst k]) (snd k) ++ go ks' end) kids) -> good q0).
          { intros q0 Hq0. apply Hgood. cbn [all_entries]. right. exact Hq0. }
          clear Hgood. induction kids as [|k ks IHk]; [contradiction|]. rewrite yields_app in Hq. apply in_app_or in Hq.
          destruct Hq as [Hq|Hq].
          - destruct (spec_extend _ _ _ _ _ _ _ Hq) as [r ->]. exists ([fst k] ++ r). split; [apply eq_sym, app_assoc|]. split; [discriminate|].
            apply Hg. apply in_or_app. left. eapply spec_yields_entries. exact Hq.
          - inversion IH; subst. apply IHk; [assumption|exact Hq|]. intros q0 Hq0. apply Hg. apply in_or_app. right. exact Hq0. }
        destruct Hext as [r [-> [Hr Hg]]]. apply Hexh; [exact Hg|exact Hr|exact Ex].
      * destruct (opt_match nonexh (join_path (e_path e))); cbn [step_layer fst]; exact Hkids.
    + destruct (opt_match exh (join_path (e_path e))) eqn:Ex; cbn [step_layer fst].
      * symmetry. apply filter_all_false. intros q Hq. apply negb_false_iff.
        assert (Hext : exists r, q = p ++ r /\ r <> [] /\ good q).
        { clear Hkids. assert (Hg : forall q0, In q0 ((fix go (ks : list (name * node)) : list rpath :=
                      match ks with [] => [] | k :: ks' => all_entries (p ++ [fst k]) (snd k) ++ go ks' end) kids) -> good q0).
          { intros q0 Hq0. apply Hgood. cbn [all_entries]. right. exact Hq0. }
          clear Hgood. induction kids as [|k ks IHk]; [contradiction|]. rewrite yields_app in Hq. apply in_app_or in Hq.
          destruct Hq as [Hq|Hq].
          - destruct (spec_extend _ _ _ _ _ _ _ Hq) as [r ->]. exists ([fst k] ++ r). split; [apply eq_sym, app_assoc|]. split; [discriminate|].
            apply Hg. apply in_or_app. left. eapply spec_yields_entries. exact Hq.
          - inversion IH; subst. apply IHk; [assumption|exact Hq|]. intros q0 Hq0. apply Hg. apply in_or_app. right. exact Hq0. }
        destruct Hext as [r [-> [Hr Hg]]]. apply Hexh; [exact Hg|exact Hr|exact Ex].
      * destruct (opt_match nonexh (join_path (e_path e))); cbn [step_layer fst]; exact Hkids.
    + destruct (opt_match exh (join_path (e_path e))), (opt_match nonexh (join_path (e_path e))); reflexivity.
  - cbn [spec]. rewrite !yields_app, filter_app, shown_not. f_equal.
    assert (Herr : forall b : bool, yields (if b then [] else [RError p d]) = []) by (intros []; reflexivity). rewrite !Herr. reflexivity.
  - reflexivity.
Qed.

End NotWalk.
