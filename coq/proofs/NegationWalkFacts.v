(* NegationWalkFacts.v -- C03 end to end for the negations people write: when every alternative of the negated pattern is a
   flat, rule-checked pattern that does not end in a separator (`**/target/**`, `*.md`, `**/.git/**`, `src/**/*.tmp`, ...),
   walk.not(pattern) yields exactly the entries of the underlying walk that the pattern does not match.  The promise of
   the exhaustive verdict is discharged by ExhaustFacts.flat_always_sound for each alternative. *)
From Coq Require Import Arith Lia.
From WaxModel Require Import Base Token Regex Spec Encode Variance Fold Rule Parse Query Walk.
From WaxProofs Require Import AlgebraFacts SpecFacts OwnedFacts ComposeFacts WalkFacts PruneFacts GlobWalkFacts NotWalkFacts NegationFacts ZomFacts.
From WaxProofs Require Import ExhaustFacts.
Local Open Scope nat_scope.

(* a flat, rule-checked alternative that does not end in a separator *)
Definition flat_ok (a : tok) : Prop :=
  match a with
  | TCat _ ts => forallb is_leaf ts = true /\ adjacent_boundary ts = None /\ adj_zom ts = false /\ last_not_sep ts
  | _ => False
  end.

Lemma flat_bounds_ok : forall a, flat_ok a -> tok_bounds_ok a.
Proof.
  intros [| |sp ts|] H; try contradiction. destruct H as [Hl _]. cbn [tok_bounds_ok].
  induction ts as [|t ts IH]; [exact I|]. cbn [forallb] in Hl. apply andb_prop in Hl. destruct Hl as [Ht Hts].
  split; [destruct t; try discriminate; exact I|apply IH; exact Hts].
Qed.

Section NegationWalk.
Variable orbit : char -> list char.
Notation Lang := (Spec.Lang orbit).

(* extending a matched path by whole components *)
Lemma flat_always_descendants : forall sp ts r, forallb is_leaf ts = true -> is_exhaustive (TCat sp ts) = Ok Always ->
  adjacent_boundary ts = None -> adj_zom ts = false -> last_not_sep ts ->
  Forall valid_name r -> forall w, Lang (TCat sp ts) w -> Lang (TCat sp ts) (fold_left (fun acc c => acc ++ SEP :: c) r w).
Proof.
  intros sp ts r Hl He Hab Haz Hls Hr. induction Hr as [|c r [_ Hc] _ IH]; intros w Hw; [exact Hw|]. cbn [fold_left]. apply IH.
  apply flat_always_sound; assumption.
Qed.

Lemma join_fold : forall r p, p <> [] -> join_path (p ++ r) = fold_left (fun acc c => acc ++ SEP :: c) r (join_path p).
Proof.
  induction r as [|c r IH]; intros p Hp; [rewrite app_nil_r; reflexivity|]. cbn [fold_left].
  replace (p ++ c :: r) with ((p ++ [c]) ++ r) by (rewrite <- app_assoc; reflexivity). rewrite IH by (destruct p; discriminate).
  f_equal. apply (join_app p [c] Hp). discriminate.
Qed.

(* ---- the two parts of the partition ------------------------------------------------------------------------------------------------ *)
Definition part_of (l : list tok) (o : option tok) : Prop :=
  match l, o with
  | [], None => True
  | _ :: _, Some t => t = TAlt (0%N, 0%N) (map (respan (fun _ => (0%N, 0%N))) l)
  | _, _ => False
  end.

Lemma not_partition_parts : forall t ext nxt, Forall tok_bounds_ok (into_alternatives t) -> not_partition t = Ok (ext, nxt) ->
  exists ex nx, part_of ex ext /\ part_of nx nxt /\
    (forall a, In a ex -> In a (into_alternatives t) /\ is_exhaustive a = Ok Always) /\
    (forall a, In a nx -> In a (into_alternatives t)).
Proof.
  intros t ext nxt Hb H. unfold not_partition in H.
  destruct (rmapM (fun a => do w0 <- is_exhaustive a; Ok (match w0 with Always => true | _ => false end)) (into_alternatives t)) as [flags|] eqn:Ef; [|discriminate].
  cbn [rbind] in H. set (alts := into_alternatives t) in *. set (tagged := combine alts flags) in *.
  set (ex := map fst (filter (fun p => snd p) tagged)) in *. set (nx := map fst (filter (fun p => negb (snd p)) tagged)) in *.
  assert (Htag : forall a fl, In (a, fl) tagged -> In a alts /\ (fl = true -> is_exhaustive a = Ok Always)).
  { subst tagged. clear -Ef. revert flags Ef. induction alts as [|a0 l IH]; intros flags Ef a fl Hin; [contradiction|].
    cbn [rmapM] in Ef. destruct (is_exhaustive a0) as [w0|] eqn:Ew; [|discriminate]. cbn [rbind] in Ef.
    destruct (rmapM _ l) as [fls|] eqn:El; [|discriminate]. cbn [rbind] in Ef. inversion Ef; subst. cbn [combine] in Hin.
    destruct Hin as [Hin|Hin].
    - inversion Hin; subst. split; [left; reflexivity|]. intros Hfl. destruct w0; try discriminate. exact Ew.
    - destruct (IH fls eq_refl a fl Hin) as [H1 H2]. split; [right; exact H1|exact H2]. }
  assert (Hex : forall a, In a ex -> In a alts /\ is_exhaustive a = Ok Always).
  { intros a Ha. subst ex. apply in_map_iff in Ha. destruct Ha as [[a' fl] [<- Hin]]. apply filter_In in Hin. destruct Hin as [Hin Hfl].
    cbn [snd] in Hfl. destruct (Htag _ _ Hin) as [H1 H2]. split; [exact H1|apply H2; exact Hfl]. }
  assert (Hnx : forall a, In a nx -> In a alts).
  { intros a Ha. subst nx. apply in_map_iff in Ha. destruct Ha as [[a' fl] [<- Hin]]. apply filter_In in Hin. exact (proj1 (Htag _ _ (proj1 Hin))). }
  assert (Hany : forall l o, (forall a, In a l -> In a alts) -> match l with [] => Ok None | _ => rmap Some (any_tree l) end = Ok o -> part_of l o).
  { intros l o Hl Ho. destruct l as [|a0 l']; [inversion Ho; exact I|].
    assert (Hbl : Forall tok_bounds_ok (a0 :: l')) by (apply Forall_forall; intros a Ha; rewrite Forall_forall in Hb; apply Hb, Hl; exact Ha).
    unfold any_tree in Ho.
    assert (Hm : rmapM (fold_map (fun _ => (0%N, 0%N))) (a0 :: l') = Ok (map (respan (fun _ => (0%N, 0%N))) (a0 :: l'))).
    { clear -Hbl. induction Hbl as [|a l Ha _ IH]; [reflexivity|]. cbn [rmapM map]. rewrite (OwnedFacts.fold_map_respan _ a Ha). cbn [rbind]. rewrite IH. reflexivity. }
    rewrite Hm in Ho. cbn [rbind rmap] in Ho. inversion Ho; subst. reflexivity. }
  destruct (match ex with [] => Ok None | _ => rmap Some (any_tree ex) end) as [oe|] eqn:Eoe; [|discriminate]. cbn [rbind] in H.
  destruct (match nx with [] => Ok None | _ => rmap Some (any_tree nx) end) as [on|] eqn:Eon; [|discriminate]. cbn [rbind] in H.
  inversion H; subst. exists ex, nx. split; [apply Hany; [intros a Ha; exact (proj1 (Hex a Ha))|exact Eoe]|].
  split; [apply Hany; [exact Hnx|exact Eon]|]. split; [exact Hex|exact Hnx].
Qed.

Lemma part_lang : forall l o w, part_of l o -> (opt_lang orbit o w <-> exists a, In a l /\ Lang a w).
Proof.
  intros l o w H. destruct l as [|a0 l'], o as [t|]; try contradiction.
  - cbn. split; [contradiction|intros [a [[] _]]].
  - cbn [part_of] in H. subst t. cbn [opt_lang]. rewrite ComposeFacts.lang_alt. split.
    + intros [b [Hin Hl]]. apply in_map_iff in Hin. destruct Hin as [a [<- Hin]]. exists a. split; [exact Hin|apply (lang_respan orbit (fun _ => (0%N, 0%N)) a w); exact Hl].
    + intros [a [Hin Hl]]. exists (respan (fun _ => (0%N, 0%N)) a). split; [apply in_map; exact Hin|apply lang_respan; exact Hl].
Qed.

(* the engines decide the documented languages of the two parts (the regex crate on the compiled programs, through conformance) *)
Definition decides (f : option (str -> bool)) (o : option tok) : Prop :=
  match f, o with
  | Some g, Some t => forall w, g w = true <-> Lang t w
  | None, None => True
  | _, _ => False
  end.

Lemma decides_lang : forall f o w, decides f o -> (opt_match f w = true <-> opt_lang orbit o w).
Proof.
  intros [g|] [t|] w H; try contradiction; cbn [opt_match opt_lang]; [apply H|split; [discriminate|contradiction]].
Qed.

Theorem negation_walk_flat : forall t ext nxt exh nonexh,
  Forall flat_ok (into_alternatives t) -> not_partition t = Ok (ext, nxt) ->
  decides exh ext -> decides nonexh nxt -> opt_match exh [] = false ->
  (forall q, matched exh nonexh q = true <-> Lang t (join_path q)) /\
  forall ls mind maxd root, names_valid root ->
    yields (walk mind maxd (ls ++ [nl exh nonexh]) root) =
    filter (fun q => negb (matched exh nonexh q)) (yields (walk mind maxd ls root)).
Proof.
  intros t ext nxt exh nonexh Hflat Hpart Hde Hdn Hroot.
  assert (Hb : Forall tok_bounds_ok (into_alternatives t)) by (eapply Forall_impl; [|exact Hflat]; intros a Ha; apply flat_bounds_ok; exact Ha).
  destruct (not_partition_parts t ext nxt Hb Hpart) as [ex [nx [Pex [Pnx [Hex Hnx]]]]].
  split.
  - intros q. unfold matched. rewrite orb_true_iff, (decides_lang exh ext _ Hde), (decides_lang nonexh nxt _ Hdn).
    apply (not_partition_lang orbit t ext nxt (join_path q) Hb Hpart).
  - intros ls mind maxd root Hvalid. rewrite !walk_refines.
    apply (not_walk_yields ls exh nonexh (Forall valid_name)).
    + (* the promise of the exhaustive verdict *)
      intros p r Hv Hr Hm. unfold matched. apply orb_true_iff. left.
      destruct p as [|c0 p0]; [cbn [join_path] in Hm; congruence|].
      apply (decides_lang exh ext _ Hde). apply (decides_lang exh ext _ Hde) in Hm.
      apply (part_lang ex ext _ Pex). apply (part_lang ex ext _ Pex) in Hm. destruct Hm as [a [Hin Hl]].
      exists a. split; [exact Hin|]. destruct (Hex a Hin) as [Halt Halways].
      rewrite Forall_forall in Hflat. pose proof (Hflat a Halt) as Hfa. destruct a as [| |sp ts|]; try contradiction.
      destruct Hfa as [Hl1 [Hab [Haz Hls]]]. rewrite join_fold by discriminate.
      apply (flat_always_descendants sp ts r Hl1 Halways Hab Haz Hls); [|exact Hl].
      apply Forall_app in Hv. exact (proj2 Hv).
    + intros q Hq. eapply all_entries_valid; [exact Hvalid|constructor|exact Hq].
Qed.

End NegationWalk.
