(* AlgebraClosure.v -- C05: the variance algebra is closed on valid operands: none of its `unreachable!()` / `expect`
   sites is reachable; the only way a query on a token tree can fail is a checked addition or multiplication overflowing.
   Holds for every token tree (whatever bounds, nesting, classes). *)
From Coq Require Import Lia.
From WaxModel Require Import Base Token Regex Encode Variance Fold.
From WaxProofs Require Import AlgebraFacts.

Local Arguments N.add : simpl never.
Local Arguments N.sub : simpl never.
Local Arguments N.mul : simpl never.
Local Arguments N.ltb : simpl never.
Local Arguments N.eqb : simpl never.
Local Arguments N.min : simpl never.
Local Arguments N.max : simpl never.
Local Arguments N.pred : simpl never.

(* the outcome is a value satisfying P, or the checked-arithmetic panic *)
Definition safe {A} (P : A -> Prop) (r : res A) : Prop :=
  match r with Ok x => P x | Panic s => s = PanicOverflow end.

Lemma safe_bind : forall {A B} (P : A -> Prop) (Q : B -> Prop) (r : res A) (f : A -> res B),
  safe P r -> (forall x, P x -> safe Q (f x)) -> safe Q (rbind r f).
Proof. intros A B P Q [x|s] f Hr Hf; cbn in *; [apply Hf; exact Hr|exact Hr]. Qed.

Lemma safe_weaken : forall {A} (P Q : A -> Prop) r, safe P r -> (forall x, P x -> Q x) -> safe Q r.
Proof. intros A P Q [x|s] H HPQ; cbn in *; [apply HPQ; exact H|exact H]. Qed.

Lemma safe_ok : forall {A} (P : A -> Prop) x, P x -> safe P (Ok x).
Proof. intros; assumption. Qed.

Lemma cadd_safe : forall a b, safe (fun c => c = a + b) (cadd a b).
Proof. intros a b. unfold cadd. destruct (a + b <? usize_max1); cbn; reflexivity. Qed.
Lemma cmul_safe : forall a b, safe (fun c => c = a * b) (cmul a b).
Proof. intros a b. unfold cmul. destruct (a * b <? usize_max1); cbn; reflexivity. Qed.

Lemma rmapM_safe : forall {A B} (P : B -> Prop) (f : A -> res B) l,
  Forall (fun a => safe P (f a)) l -> safe (Forall P) (rmapM f l).
Proof.
  intros A B P f l H. induction H as [|a l Ha _ IH]; [constructor|]. cbn [rmapM].
  eapply safe_bind; [exact Ha|]. intros b Hb. eapply safe_bind; [exact IH|]. intros bs Hbs. constructor; assumption.
Qed.

Lemma rfold_safe : forall {A} (P : A -> Prop) (f : A -> A -> res A) l acc,
  (forall x y, P x -> P y -> safe P (f x y)) -> P acc -> Forall P l -> safe P (rfold f acc l).
Proof.
  intros A P f l. induction l as [|a l IH]; intros acc Hf Ha Hl; [exact Ha|].
  inversion Hl; subst. cbn [rfold]. eapply safe_bind; [apply Hf; assumption|]. intros x Hx. apply IH; assumption.
Qed.

Definition opt_ok {A} (P : A -> Prop) (o : option A) : Prop := match o with Some x => P x | None => True end.

Lemma rreduce_safe : forall {A} (P : A -> Prop) (f : A -> A -> res A) l,
  (forall x y, P x -> P y -> safe P (f x y)) -> Forall P l -> safe (opt_ok P) (rreduce f l).
Proof.
  intros A P f [|a l] Hf Hl; [exact I|]. inversion Hl; subst. unfold rreduce.
  pose proof (rfold_safe P f l a Hf H1 H2) as H. destruct (rfold f a l); cbn in *; exact H.
Qed.

Ltac arith_hyps :=
  repeat match goal with
         | H : (_ && _) = true |- _ => apply andb_prop in H; destruct H
         | H : (_ && _) = false |- _ => apply andb_false_iff in H; destruct H
         | H : (_ =? _) = true |- _ => apply N.eqb_eq in H
         | H : (_ =? _) = false |- _ => apply N.eqb_neq in H
         | H : (_ <? _) = true |- _ => apply N.ltb_lt in H
         | H : (_ <? _) = false |- _ => apply N.ltb_ge in H
         end.
Ltac break_if :=
  match goal with
  | |- context [if ?c then _ else _] => let E := fresh "E" in destruct c eqn:E
  end.

(* ---- valid ranges ------------------------------------------------------------------------------------------------- *)
Definition vr_ok (v : vrange) : Prop := match v with Bounded b => bvr_ok b | Unbounded => True end.
Definition nv_ok (v : nvar) : Prop := match v with Var v => vr_ok v | Inv _ => True end.

Ltac break_if_in H :=
  match type of H with
  | context [if ?c then _ else _] => let E := fresh "E" in destruct c eqn:E
  end.

Lemma tlu_ok : forall l u r, try_lower_upper l u = Some r -> bvr_ok r.
Proof.
  intros l u r H. unfold try_lower_upper in H. repeat break_if_in H; try discriminate; inversion H; subst; cbn [bvr_ok];
    arith_hyps; destruct u; lia.
Qed.

Lemma fco_ok : forall c o, nv_ok (from_closed_open c o).
Proof.
  intros c o. unfold from_closed_open.
  destruct (match o with Some o0 => if o0 <? c then (o0, Some c) else (c, Some o0) | None => (c, None) end) as [l u].
  assert (H : nv_ok (match try_lower_upper l u with Some r => Var (Bounded r) | None => Inv l end)).
  { destruct (try_lower_upper l u) eqn:E; [apply tlu_ok in E; exact E|exact I]. }
  destruct l; [destruct u; [exact H|exact I]|exact H].
Qed.

(* the numeric view of a range: closed lower bound and optional upper bound *)
Definition lo_of (r : nrange) : N :=
  match r with Inv n => n | Var Unbounded => 0 | Var (Bounded (BLower n)) => n | Var (Bounded (BUpper _)) => 0 | Var (Bounded (BBoth lo _)) => lo end.
Definition hi_of (r : nrange) : option N :=
  match r with Inv n => Some n | Var Unbounded => None | Var (Bounded (BLower _)) => None | Var (Bounded (BUpper n)) => Some n
             | Var (Bounded (BBoth lo ext)) => Some (lo + ext) end.

Lemma nr_lower_view : forall r, lower_usize (nr_lower r) = lo_of r.
Proof. intros [n|[[n|n|lo ext]|]]; cbn; try reflexivity. unfold nbound_of_n. destruct (N.eqb_spec n 0); subst; reflexivity. Qed.

Lemma nr_upper_view : forall r, safe (fun u => upper_usize u = hi_of r) (nr_upper r).
Proof.
  intros [n|[[n|n|lo ext]|]]; cbn; try reflexivity.
  - unfold nbound_of_n. destruct (N.eqb_spec n 0); subst; reflexivity.
  - unfold cadd. break_if; cbn; reflexivity.
Qed.

Lemma bvr_upper_view : forall a, safe (fun u => upper_usize u = hi_of (Var (Bounded a))) (bvr_upper a).
Proof. intros a. exact (nr_upper_view (Var (Bounded a))). Qed.

(* from_closed_open yields a variant range as soon as the (sorted) bounds differ or the upper bound is missing *)
Lemma fco_var : forall c o, (match o with Some u => c <> u | None => True end) -> exists v, from_closed_open c o = Var v /\ vr_ok v.
Proof.
  intros c o H. pose proof (fco_ok c o) as Hok. unfold from_closed_open in *.
  destruct o as [u|].
  - destruct (u <? c) eqn:E; arith_hyps.
    + unfold try_lower_upper in *. destruct u as [|pu].
      * cbn in *. destruct c; [lia|]. cbn in *. eexists; split; [reflexivity|exact Hok].
      * revert Hok. repeat break_if; arith_hyps; try lia; intros Hok; eexists; (split; [reflexivity|exact Hok]).
    + unfold try_lower_upper in *. destruct c as [|pc].
      * revert Hok. cbn [N.eqb]. repeat break_if; arith_hyps; try lia; intros Hok; eexists; (split; [reflexivity|exact Hok]).
      * revert Hok. repeat break_if; arith_hyps; try lia; intros Hok; eexists; (split; [reflexivity|exact Hok]).
  - destruct c; [eexists; split; [reflexivity|exact I]|]. revert Hok. unfold try_lower_upper. cbn. intros Hok. eexists; split; [reflexivity|exact Hok].
Qed.

(* ---- union -------------------------------------------------------------------------------------------------------- *)
Lemma lower_min_le : forall x y, lower_usize (lower_min x y) <= lower_usize x.
Proof.
  intros [| |a] [| |b]; cbn [lower_min lower_usize]; try lia; break_if; arith_hyps; cbn [lower_usize] in *; lia.
Qed.

Lemma upper_max_ge : forall x y,
  match upper_usize (upper_max x y) with
  | Some m => exists ux, upper_usize x = Some ux /\ ux <= m
  | None => True
  end.
Proof.
  intros [| |a] [| |b]; cbn [upper_max upper_usize]; try exact I; try break_if; arith_hyps; cbn [upper_usize];
    eexists; (split; [reflexivity|lia]).
Qed.

Lemma bvr_gap : forall a, bvr_ok a ->
  match hi_of (Var (Bounded a)) with Some h => lower_usize (bvr_lower a) < h | None => True end.
Proof. intros [n|n|lo ext] H; cbn in *; lia. Qed.

Lemma bvr_union_safe : forall a other, bvr_ok a -> safe vr_ok (bvr_union a other).
Proof.
  intros a other Ha. unfold bvr_union.
  eapply safe_bind; [apply bvr_upper_view|]. intros au Hau.
  eapply safe_bind; [apply nr_upper_view|]. intros ou Hou.
  pose proof (lower_min_le (bvr_lower a) (nr_lower other)) as Hl.
  pose proof (upper_max_ge au ou) as Hu. pose proof (bvr_gap a Ha) as Hg. rewrite <- Hau in Hg.
  destruct (fco_var (lower_usize (lower_min (bvr_lower a) (nr_lower other))) (upper_usize (upper_max au ou))) as [v [Ev Hv]].
  { destruct (upper_usize (upper_max au ou)) as [m|]; [|exact I]. destruct Hu as [ux [Eux Hle]]. rewrite Eux in Hg. lia. }
  rewrite Ev. exact Hv.
Qed.

(* ---- translation, conjunction ----------------------------------------------------------------------------------------- *)
Lemma bvr_translation_safe : forall a v, bvr_ok a -> safe bvr_ok (bvr_translation a v).
Proof.
  intros [n|n|lo ext] v Ha; cbn [bvr_translation]; (eapply safe_bind; [apply cadd_safe|]); intros x ->; cbn in *; lia.
Qed.

Lemma bvr_conj_safe : forall a b, bvr_ok a -> bvr_ok b -> safe bvr_ok (bvr_conj a b).
Proof.
  intros a b Ha Hb. destruct (bvr_conj_total a b Ha Hb) as [[r [-> Hr]]| ->]; [exact Hr|reflexivity].
Qed.

Lemma nvar_conj_safe : forall l r, nv_ok l -> nv_ok r -> safe nv_ok (nvar_conj l r).
Proof.
  intros [a|[a|]] [b|[b|]] Hl Hr; cbn [nvar_conj nv_ok vr_ok] in *.
  - eapply safe_bind; [apply cadd_safe|]. intros; exact I.
  - eapply safe_bind; [apply bvr_translation_safe; exact Hr|]. intros x Hx; exact Hx.
  - unfold n_into_lower_bound. break_if; arith_hyps; cbn; lia.
  - eapply safe_bind; [apply bvr_translation_safe; exact Hl|]. intros x Hx; exact Hx.
  - eapply safe_bind; [apply bvr_conj_safe; assumption|]. intros x Hx; exact Hx.
  - destruct a; cbn in *; try exact I; lia.
  - unfold n_into_lower_bound. break_if; arith_hyps; cbn; lia.
  - destruct b; cbn in *; try exact I; lia.
  - exact I.
Qed.

Lemma nvar_disj_safe : forall l r, nv_ok l -> nv_ok r -> safe nv_ok (nvar_disj l r).
Proof.
  intros l r Hl Hr. unfold nvar_disj. destruct (nvar_eqb l r); [exact Hl|].
  destruct l as [a|[a|]], r as [b|[b|]]; cbn [nv_ok vr_ok] in *; try exact I.
  - cbn. unfold n_bound. destruct (try_lower_upper (N.min a b) (Some (N.max a b))) eqn:E; [apply tlu_ok in E; exact E|exact I].
  - eapply safe_bind; [apply bvr_union_safe; exact Hr|]. intros x Hx; exact Hx.
  - eapply safe_bind; [apply bvr_union_safe; exact Hl|]. intros x Hx; exact Hx.
  - eapply safe_bind; [apply bvr_union_safe; exact Hl|]. intros x Hx; exact Hx.
Qed.

(* ---- products ------------------------------------------------------------------------------------------------------ *)
Lemma nb_product_lower : forall x y, safe (fun z => lower_usize z = lower_usize x * lower_usize y) (nb_product x y).
Proof.
  intros [| |a] [| |b]; cbn [nb_product lower_usize safe]; try lia.
  eapply safe_bind; [apply cmul_safe|]. intros z ->. reflexivity.
Qed.

Definition mul_opt (a b : option N) : option N :=
  match a, b with Some x, Some y => Some (x * y) | _, _ => None end.

Lemma nb_product_upper : forall x y, safe (fun z => upper_usize z = mul_opt (upper_usize x) (upper_usize y)) (nb_product x y).
Proof.
  intros [| |a] [| |b]; cbn [nb_product upper_usize safe mul_opt]; try reflexivity; try (f_equal; lia).
  eapply safe_bind; [apply cmul_safe|]. intros z ->. reflexivity.
Qed.

Lemma by_bound_product_view : forall l r,
  safe (fun x => x = from_closed_open (lo_of l * lo_of r) (mul_opt (hi_of l) (hi_of r))) (by_bound_product l r).
Proof.
  intros l r. unfold by_bound_product.
  eapply safe_bind; [apply nr_upper_view|]. intros lu Hlu.
  eapply safe_bind; [apply nr_upper_view|]. intros ru Hru.
  eapply safe_bind; [apply nb_product_lower|]. intros lower Hlower.
  eapply safe_bind; [apply nb_product_upper|]. intros upper Hupper.
  cbn. rewrite Hlower, Hupper, !nr_lower_view, Hlu, Hru. reflexivity.
Qed.

Lemma fco_unbounded : forall c o, from_closed_open c o = Var Unbounded -> c = 0 /\ o = None.
Proof.
  intros c o H. unfold from_closed_open in H.
  destruct o as [u|].
  - exfalso. destruct (u <? c) eqn:E.
    + destruct u; [|]; destruct (try_lower_upper _ _); discriminate.
    + destruct c; destruct (try_lower_upper _ _); discriminate.
  - destruct c; [split; reflexivity|]. destruct (try_lower_upper _ _); discriminate.
Qed.

Lemma bvr_view_gap : forall a, bvr_ok a -> match hi_of (Var (Bounded a)) with Some h => lo_of (Var (Bounded a)) < h | None => 0 < lo_of (Var (Bounded a)) end.
Proof. intros [n|n|lo ext] H; cbn in *; lia. Qed.

Lemma bvr_product_safe : forall a b, bvr_ok a -> bvr_ok b -> safe vr_ok (bvr_product a b).
Proof.
  intros a b Ha Hb. unfold bvr_product. eapply safe_bind; [apply by_bound_product_view|]. intros x ->.
  pose proof (bvr_view_gap a Ha) as Ga. pose proof (bvr_view_gap b Hb) as Gb.
  destruct (fco_var (lo_of (Var (Bounded a)) * lo_of (Var (Bounded b))) (mul_opt (hi_of (Var (Bounded a))) (hi_of (Var (Bounded b))))) as [v [Ev Hv]].
  { destruct (hi_of (Var (Bounded a))) as [ha|], (hi_of (Var (Bounded b))) as [hb|]; cbn [mul_opt]; try exact I. nia. }
  rewrite Ev. exact Hv.
Qed.

Lemma bvr_product_nz_safe : forall a n, bvr_ok a -> n <> 0 -> safe bvr_ok (bvr_product_nz a n).
Proof.
  intros a n Ha Hn. unfold bvr_product_nz. eapply safe_bind; [apply by_bound_product_view|]. intros x ->.
  pose proof (bvr_view_gap a Ha) as Ga.
  destruct (fco_var (lo_of (Var (Bounded a)) * n) (mul_opt (hi_of (Var (Bounded a))) (Some n))) as [v [Ev Hv]].
  { destruct (hi_of (Var (Bounded a))) as [ha|]; cbn [mul_opt]; [nia|exact I]. }
  change (lo_of (Inv n)) with n. change (hi_of (@Inv N bvr n)) with (Some n). rewrite Ev. destruct v as [bv|]; [exact Hv|]. exfalso. apply fco_unbounded in Ev. destruct Ev as [E0 En].
  destruct (hi_of (Var (Bounded a))); cbn [mul_opt] in En; [discriminate|]. nia.
Qed.

Lemma nvar_product_safe : forall l r, nv_ok l -> nv_ok r -> safe nv_ok (nvar_product l r).
Proof.
  intros [a|[a|]] [n|[b|]] Hl Hr; cbn [nvar_product nv_ok vr_ok] in *; try exact I.
  - eapply safe_bind; [apply cmul_safe|]. intros; exact I.
  - destruct (a =? 0) eqn:E; [exact I|]. arith_hyps. eapply safe_bind; [apply bvr_product_nz_safe; assumption|]. intros x Hx; exact Hx.
  - destruct (a =? 0) eqn:E; exact I.
  - destruct (n =? 0) eqn:E; [exact I|]. arith_hyps. eapply safe_bind; [apply bvr_product_nz_safe; assumption|]. intros x Hx; exact Hx.
  - eapply safe_bind; [apply bvr_product_safe; assumption|]. intros x Hx; exact Hx.
  - destruct (n =? 0) eqn:E; exact I.
Qed.

(* ---- boundary terms ------------------------------------------------------------------------------------------------ *)
Definition st_ok (s : sterm) : Prop := nv_ok (snd s).
Definition bt_ok (t : bterm) : Prop := match t with BConj s => st_ok s | BDisj ss => Forall st_ok ss end.

Lemma sterm_finalize_safe : forall s, st_ok s -> safe nv_ok (sterm_finalize s).
Proof.
  intros [tm v] H. unfold sterm_finalize, st_ok in *. cbn [fst snd] in *. destruct tm; try exact H.
  - apply nvar_conj_safe; [exact H|exact I].
  - destruct v; [exact I|exact H].
Qed.

Lemma sterm_conj_safe : forall l r, st_ok l -> st_ok r -> safe st_ok (sterm_conj l r).
Proof.
  intros l r Hl Hr. unfold sterm_conj. destruct (term_conj (fst l) (fst r)).
  - eapply safe_bind; [apply sterm_finalize_safe; exact Hl|]. intros lv Hlv.
    eapply safe_bind; [apply nvar_conj_safe; [exact Hlv|exact Hr]|]. intros v Hv. exact Hv.
  - eapply safe_bind; [apply sterm_finalize_safe; exact Hr|]. intros rv Hrv.
    eapply safe_bind; [apply nvar_conj_safe; [exact Hl|exact Hrv]|]. intros v Hv. exact Hv.
  - eapply safe_bind; [apply nvar_conj_safe; [exact Hl|exact Hr]|]. intros v Hv. exact Hv.
Qed.

Lemma set_insert_ok : forall x s, st_ok x -> Forall st_ok s -> Forall st_ok (set_insert x s).
Proof.
  intros x s Hx Hs. induction Hs as [|y s Hy Hs IH]; cbn [set_insert]; [constructor; [exact Hx|constructor]|].
  destruct (sterm_eqb x y); constructor; assumption.
Qed.

Lemma fold_insert_ok : forall l s, Forall st_ok l -> Forall st_ok s -> Forall st_ok (fold_left (fun s x => set_insert x s) l s).
Proof.
  induction l as [|x l IH]; intros s Hl Hs; [exact Hs|]. inversion Hl; subst. cbn [fold_left]. apply IH; [assumption|].
  apply set_insert_ok; assumption.
Qed.

Lemma set_of_list_ok : forall l, Forall st_ok l -> Forall st_ok (set_of_list l).
Proof. intros l H. unfold set_of_list. apply fold_insert_ok; [exact H|constructor]. Qed.

Lemma bterm_conj_safe : forall l r, bt_ok l -> bt_ok r -> safe bt_ok (bterm_conj l r).
Proof.
  intros [a|as_] [b|bs] Hl Hr; cbn [bterm_conj bt_ok] in *.
  - eapply safe_bind; [apply sterm_conj_safe; assumption|]. intros c Hc; exact Hc.
  - eapply safe_bind; [apply (rmapM_safe st_ok)|intros cs Hcs; apply set_of_list_ok; exact Hcs].
    eapply Forall_impl; [|exact Hr]. intros x Hx. apply sterm_conj_safe; assumption.
  - eapply safe_bind; [apply (rmapM_safe st_ok)|intros cs Hcs; apply set_of_list_ok; exact Hcs].
    eapply Forall_impl; [|exact Hl]. intros x Hx. apply sterm_conj_safe; assumption.
  - eapply safe_bind; [apply (rmapM_safe st_ok)|intros cs Hcs; apply set_of_list_ok; exact Hcs].
    apply Forall_forall. intros [x y] Hin. apply in_prod_iff in Hin. destruct Hin as [Hx Hy].
    rewrite Forall_forall in Hl, Hr. apply sterm_conj_safe; [apply Hl; exact Hx|apply Hr; exact Hy].
Qed.

Lemma bterm_disj_ok : forall l r, bt_ok l -> bt_ok r -> bt_ok (bterm_disj l r).
Proof.
  intros [a|as_] [b|bs] Hl Hr; cbn [bterm_disj bt_ok] in *.
  - apply set_of_list_ok. constructor; [exact Hl|constructor; [exact Hr|constructor]].
  - apply set_insert_ok; assumption.
  - apply set_insert_ok; assumption.
  - apply fold_insert_ok; assumption.
Qed.

Lemma bterm_product_safe : forall l r, bt_ok l -> nv_ok r -> safe bt_ok (bterm_product l r).
Proof.
  intros [a|as_] r Hl Hr; cbn [bterm_product bt_ok] in *.
  - unfold sterm_product. eapply safe_bind; [eapply safe_bind; [apply nvar_product_safe; [exact Hl|exact Hr]|]|].
    + intros v Hv. exact (Hv : st_ok (fst a, v)).
    + intros c Hc. exact Hc.
  - eapply safe_bind; [apply (rmapM_safe st_ok)|intros cs Hcs; apply set_of_list_ok; exact Hcs].
    eapply Forall_impl; [|exact Hl]. intros x Hx. unfold sterm_product.
    eapply safe_bind; [apply nvar_product_safe; [exact Hx|exact Hr]|]. intros v Hv. exact Hv.
Qed.

Lemma bterm_finalize_safe : forall t, bt_ok t -> safe nv_ok (bterm_finalize t).
Proof.
  intros [a|as_] H; cbn [bterm_finalize bt_ok] in *; [apply sterm_finalize_safe; exact H|].
  eapply safe_bind; [apply (rmapM_safe nv_ok)|].
  - eapply Forall_impl; [|exact H]. intros x Hx. apply sterm_finalize_safe. exact Hx.
  - intros vs Hvs. eapply safe_bind; [apply (rreduce_safe nv_ok); [apply nvar_disj_safe|exact Hvs]|].
    intros [v|] Hv; [exact Hv|exact I].
Qed.

(* ---- the folds over token trees -------------------------------------------------------------------------------------- *)
Lemma opt_list_ok : forall {A} (P : A -> Prop) l, Forall (opt_ok P) l -> Forall P (flat_map opt_list l).
Proof.
  intros A P l H. induction H as [|[x|] l Hx _ IH]; cbn [flat_map opt_list app]; [constructor|constructor; assumption|exact IH].
Qed.

Lemma depth_leaf_ok : forall l, bt_ok (depth_leaf l).
Proof. intros []; exact I. Qed.

Lemma depth_fold_safe : forall t, safe (opt_ok bt_ok) (depth_fold t).
Proof.
  induction t as [sp l|sp bs IH|sp ts IH|sp b lo hi IH] using tok_ind'; cbn [depth_fold].
  - apply depth_leaf_ok.
  - eapply safe_bind; [apply (rmapM_safe (opt_ok bt_ok)); exact IH|]. intros terms Ht.
    apply rreduce_safe; [|apply opt_list_ok; exact Ht]. intros x y Hx Hy. apply bterm_disj_ok; assumption.
  - eapply safe_bind; [apply (rmapM_safe (opt_ok bt_ok)); exact IH|]. intros terms Ht.
    apply rreduce_safe; [apply bterm_conj_safe|apply opt_list_ok; exact Ht].
  - eapply safe_bind; [exact IH|]. intros term Ht.
    eapply safe_bind; [apply (rreduce_safe bt_ok); [apply bterm_conj_safe|]|].
    + destruct term; cbn [opt_list]; [constructor; [exact Ht|constructor]|constructor].
    + intros [x|] Hx; [|exact I]. eapply safe_bind; [apply bterm_product_safe; [exact Hx|apply fco_ok]|]. intros y Hy; exact Hy.
Qed.

Theorem depth_variance_safe : forall t, safe nv_ok (depth_variance t).
Proof.
  intros t. unfold depth_variance. eapply safe_bind; [apply depth_fold_safe|]. intros [x|] Hx; apply bterm_finalize_safe; [exact Hx|exact I].
Qed.

Lemma size_leaf_ok : forall l, nv_ok (size_leaf l).
Proof. intros [ci s| |neg a| |lz|root]; cbn; try exact I. destruct a; exact I. Qed.

Lemma size_fold_safe : forall t, safe (opt_ok nv_ok) (size_fold t).
Proof.
  induction t as [sp l|sp bs IH|sp ts IH|sp b lo hi IH] using tok_ind'; cbn [size_fold].
  - apply size_leaf_ok.
  - eapply safe_bind; [apply (rmapM_safe (opt_ok nv_ok)); exact IH|]. intros terms Ht.
    apply rreduce_safe; [apply nvar_disj_safe|apply opt_list_ok; exact Ht].
  - eapply safe_bind; [apply (rmapM_safe (opt_ok nv_ok)); exact IH|]. intros terms Ht.
    apply rreduce_safe; [apply nvar_conj_safe|apply opt_list_ok; exact Ht].
  - eapply safe_bind; [exact IH|]. intros [x|] Hx; [|exact I].
    eapply safe_bind; [apply nvar_product_safe; [exact Hx|apply fco_ok]|]. intros y Hy; exact Hy.
Qed.

Theorem size_variance_safe : forall t, safe nv_ok (size_variance t).
Proof.
  intros t. unfold size_variance. eapply safe_bind; [apply size_fold_safe|]. intros [x|] Hx; [exact Hx|exact I].
Qed.

Section Text.
Variable has_casing : char -> bool.

Lemma tvar_product_safe : forall l r, safe (fun _ => True) (tvar_product l r).
Proof.
  intros [a|[[]|]] [n|[b|]]; cbn [tvar_product]; try exact I; try (destruct (n =? 0); exact I).
  destruct (n =? 0); [exact I|]. unfold text_repeated.
  eapply (safe_bind (fun _ => True)); [eapply (safe_bind (fun _ => True)); [eapply safe_weaken; [apply cmul_safe|intros; exact I]|intros; exact I]|intros; exact I].
Qed.

Lemma text_fold_safe : forall t, safe (fun _ => True) (text_fold has_casing t).
Proof.
  induction t as [sp l|sp bs IH|sp ts IH|sp b lo hi IH] using tok_ind'; cbn [text_fold].
  - exact I.
  - eapply safe_bind; [apply (rmapM_safe (fun _ => True)); exact IH|]. intros; exact I.
  - eapply safe_bind; [apply (rmapM_safe (fun _ => True)); exact IH|]. intros; exact I.
  - eapply safe_bind; [exact IH|]. intros [x|] _; [|exact I].
    eapply safe_bind; [apply tvar_product_safe|]. intros; exact I.
Qed.

Theorem text_variance_safe : forall t, safe (fun _ => True) (text_variance has_casing t).
Proof. intros t. unfold text_variance. eapply safe_bind; [apply text_fold_safe|]. intros; exact I. Qed.
End Text.

(* ---- exhaustiveness ---------------------------------------------------------------------------------------------------- *)
Lemma take_exh_incl : forall {A} conj (l : list (tok * A)) x, In x (take_exh conj l) -> In x l.
Proof.
  intros A conj l. induction l as [|[t a] l IH]; intros x H; [contradiction|]. cbn [take_exh] in H.
  destruct t; try (destruct (exh_takes _); [destruct H as [<-|H]; [left; reflexivity|right; apply IH; exact H]|contradiction]);
    (destruct (conj && bounded_branch _); [destruct H as [<-|[]]; left; reflexivity|
     destruct H as [<-|H]; [left; reflexivity|right; apply IH; exact H]]).
Qed.

Lemma exh_children_safe : forall conj (ts : list tok),
  Forall (fun t => safe (opt_ok bt_ok) (exh_fold t)) ts ->
  safe (Forall (opt_ok bt_ok)) (rmapM snd (take_exh conj (rev (combine ts (map exh_fold ts))))).
Proof.
  intros conj ts H. apply rmapM_safe. apply Forall_forall. intros [t r] Hin. apply take_exh_incl in Hin.
  apply in_rev in Hin. cbn [snd].
  assert (Hc : forall (l : list tok) t r, In (t, r) (combine l (map exh_fold l)) -> In t l /\ r = exh_fold t).
  { clear. induction l as [|x l IH]; intros t r H; [contradiction|]. cbn in H. destruct H as [H|H].
    - inversion H; subst. split; [left; reflexivity|reflexivity].
    - destruct (IH _ _ H) as [H1 H2]. split; [right; exact H1|exact H2]. }
  destruct (Hc _ _ _ Hin) as [Ht ->]. rewrite Forall_forall in H. apply H. exact Ht.
Qed.

Lemma exh_fold_safe : forall t, safe (opt_ok bt_ok) (exh_fold t).
Proof.
  induction t as [sp l|sp bs IH|sp ts IH|sp b lo hi IH] using tok_ind'; cbn [exh_fold].
  - apply depth_leaf_ok.
  - eapply safe_bind; [apply exh_children_safe; exact IH|]. intros terms0 Ht.
    eapply safe_bind; [apply (rreduce_safe bt_ok); [intros x y Hx Hy; apply bterm_disj_ok; assumption|apply opt_list_ok; exact Ht]|].
    intros sum Hs. destruct (Nat.eqb _ _); [exact Hs|]. destruct (exh_maybe sum); [exact Hs|exact I].
  - eapply safe_bind; [apply exh_children_safe; exact IH|]. intros terms0 Ht.
    eapply safe_bind; [apply (rreduce_safe bt_ok); [apply bterm_conj_safe|apply opt_list_ok; exact Ht]|].
    intros sum Hs. destruct (Nat.eqb _ _); [exact Hs|]. destruct (exh_maybe sum); [exact Hs|exact I].
  - eapply safe_bind; [apply (exh_children_safe true [b]); constructor; [exact IH|constructor]|]. intros terms0 Ht.
    eapply safe_bind; [apply (rreduce_safe bt_ok); [apply bterm_conj_safe|apply opt_list_ok; exact Ht]|].
    intros sum Hs.
    assert (Hf : opt_ok bt_ok (if Nat.eqb 1 (length (flat_map opt_list terms0)) then sum else if exh_maybe sum then sum else Some bterm_zero)).
    { destruct (Nat.eqb _ _); [exact Hs|]. destruct (exh_maybe sum); [exact Hs|exact I]. }
    destruct (if Nat.eqb 1 (length (flat_map opt_list terms0)) then sum else if exh_maybe sum then sum else Some bterm_zero) as [x|]; [|exact I].
    destruct (bounded_branch b); [exact Hf|]. destruct (exh_rep_finalizes x); [|exact Hf].
    eapply safe_bind; [apply bterm_product_safe; [exact Hf|apply fco_ok]|]. intros y Hy; exact Hy.
Qed.

Theorem is_exhaustive_safe : forall t, safe (fun _ => True) (is_exhaustive t).
Proof. intros t. unfold is_exhaustive. eapply safe_bind; [apply exh_fold_safe|]. intros; exact I. Qed.

(* ---- the rule checker and the build ----------------------------------------------------------------------------------- *)
From WaxModel Require Import Rule Parse Glob.

Lemma rule_size_list_safe : forall l, safe (fun _ => True) (rule_size_list l).
Proof.
  induction l as [|x l IH]; [exact I|]. cbn [rule_size_list].
  eapply safe_bind; [apply size_variance_safe|]. intros [n|v] _; [|exact IH]. destruct (MAX_INVARIANT_SIZE <=? n); [exact I|exact IH].
Qed.

Theorem check_safe : forall t, safe (fun _ => True) (check t).
Proof.
  intros t. unfold check. destruct (rule_boundary t); [exact I|]. destruct (rule_bounds t); [exact I|].
  destruct (rule_branch t); [exact I|]. apply rule_size_list_safe.
Qed.

(* C05: the only panics a build can end in are a checked-arithmetic overflow (in the size rule) and the compile panic *)
Theorem build_panic_sites : forall e s, build e = BuildPanic s -> s = PanicOverflow \/ s = PanicCompile.
Proof.
  intros e s H. unfold build in H. destruct (parse e) as [t| |]; try discriminate.
  pose proof (check_safe t) as Hc. destruct (check t) as [[[k sp]|]|s']; try discriminate.
  - destruct (compile_ok (encode t)); [discriminate|]. inversion H. right. reflexivity.
  - inversion H; subst. left. exact Hc.
Qed.

Lemma safe_panic : forall {A} (P : A -> Prop) r s, safe P r -> r = Panic s -> s = PanicOverflow.
Proof. intros A P r s H ->. exact H. Qed.

Theorem queries_panic_only_by_overflow : forall has_casing t s,
  depth_variance t = Panic s \/ size_variance t = Panic s \/ text_variance has_casing t = Panic s \/
  is_exhaustive t = Panic s \/ check t = Panic s -> s = PanicOverflow.
Proof.
  intros hc t s [H|[H|[H|[H|H]]]].
  - eapply safe_panic; [apply depth_variance_safe|exact H].
  - eapply safe_panic; [apply size_variance_safe|exact H].
  - eapply safe_panic; [apply text_variance_safe|exact H].
  - eapply safe_panic; [apply is_exhaustive_safe|exact H].
  - eapply safe_panic; [apply check_safe|exact H].
Qed.
