(* BuiltConformance.v -- C01 for the globs that build: outside the three known classes (a class with a reversed range, a rooted
   tree wildcard that begins the expression and is followed by something, a tree wildcard whose flat position is not the same in
   every expansion) the compiled program matches exactly the documented language. *)
From Coq Require Import Arith Lia.
From WaxModel Require Import Base Token Regex Spec Encode Variance Fold Rule Parse Query Glob.
From WaxProofs Require Import SpecFacts EncodeLang FuelFacts BuiltFacts BuiltNonempty.
Local Open Scope N_scope.

Definition bad_ctx (x : bool * bool * bool) : bool := match x with (root, s0, e0) => root && s0 && negb e0 end.

Fixpoint ctxs_cat (s e : bool) (ts : list tok) (first : bool) : list (bool * bool * bool) :=
  match ts with
  | [] => []
  | t0 :: ts' => tree_ctxs t0 (s && first) (e && is_nil ts') ++ ctxs_cat s e ts' false
  end.

Lemma tree_ctxs_cat : forall sp ts s e, tree_ctxs (TCat sp ts) s e = ctxs_cat s e ts true.
Proof.
  intros sp ts s e. cbn [tree_ctxs].
  match goal with |- ?F ts true = _ => assert (G : forall l first, F l first = ctxs_cat s e l first) end.
  { induction l as [|t0 l IH]; intros first; [reflexivity|]. cbn [ctxs_cat]. rewrite <- IH. reflexivity. }
  apply G.
Qed.

(* the class of the conformance theorem is the complement of two known classes *)
Lemma exact_split : forall t s ps e pe,
  stable_gen true t s ps e pe = stable_gen false t s ps e pe && negb (existsb bad_ctx (tree_ctxs t s e)).
Proof.
  induction t as [sp l|sp bs IH|sp ts IH|sp b lo hi IH] using tok_ind'; intros s ps e pe.
  - destruct l; cbn [stable_gen tree_ctxs existsb]; try reflexivity. cbn [andb bad_ctx]. rewrite orb_false_r.
    destruct (poss_ok s ps), (poss_ok e pe), root, s, e; reflexivity.
  - cbn [stable_gen tree_ctxs]. induction IH as [|b bs' Hb _ IHb]; [reflexivity|].
    cbn [forallb flat_map]. rewrite existsb_app, Hb, IHb.
    destruct (stable_gen false b s ps e pe), (forallb (fun b0 => stable_gen false b0 s ps e pe) bs'),
      (existsb bad_ctx (tree_ctxs b s e)), (existsb bad_ctx (flat_map (fun b0 => tree_ctxs b0 s e) bs')); reflexivity.
  - rewrite !stable_gen_cat, tree_ctxs_cat.
    assert (G : forall first pre, stable_cat (stable_gen true) s ps e pe ts first pre =
              stable_cat (stable_gen false) s ps e pe ts first pre && negb (existsb bad_ctx (ctxs_cat s e ts first))).
    { induction IH as [|t0 ts' H0 _ IHt]; intros first pre; [reflexivity|].
      cbn [stable_cat ctxs_cat]. rewrite existsb_app, H0, IHt.
      destruct (stable_gen false t0 _ _ _ _), (stable_cat (stable_gen false) _ _ _ _ _ _ _), (existsb bad_ctx (tree_ctxs _ _ _)), (existsb bad_ctx (ctxs_cat _ _ _ _)); reflexivity. }
    apply G.
  - cbn [stable_gen tree_ctxs]. apply IH.
Qed.

Lemma trees_exact_split : forall t, trees_exact t = trees_stable t && negb (rooted_first_tree t).
Proof. intros t. unfold trees_exact, trees_stable, stable, rooted_first_tree. rewrite exact_split. reflexivity. Qed.

Lemma ne_wf : forall t, ne t -> (forall x, sub x t -> bad_bounds x = false) -> has_reversed_range t = false -> wf_tok t = true.
Proof.
  induction t as [sp l|sp bs IH|sp ts IH|sp b lo hi IH] using tok_ind'; intros Hn Hb Hr.
  - destruct l; try reflexivity. cbn [has_reversed_range wf_tok] in *. apply negb_false_iff in Hr. exact Hr.
  - cbn [wf_tok has_reversed_range] in *. destruct Hn as [Hnil Hn]. replace (is_nil bs) with false by (destruct bs; [congruence|reflexivity]). cbn [negb andb].
    assert (Hsub : forall b1, In b1 bs -> forall x, sub x b1 -> bad_bounds x = false) by (intros b1 Hin x Hx; apply Hb; eapply sub_child; [exact Hin|exact Hx]).
    clear Hb Hnil. induction IH as [|b1 bs' Hb1 _ IHbs]; [reflexivity|]. destruct Hn as [Hn1 Hn']. cbn [forallb existsb] in *. apply orb_false_iff in Hr. destruct Hr as [Hr1 Hr'].
    rewrite Hb1; [|exact Hn1|apply Hsub; left; reflexivity|exact Hr1]. apply IHbs; [exact Hn'|exact Hr'|intros b2 Hin; apply Hsub; right; exact Hin].
  - cbn [wf_tok has_reversed_range] in *. destruct Hn as [Hnil Hn].
    assert (Hsub : forall b1, In b1 ts -> forall x, sub x b1 -> bad_bounds x = false) by (intros b1 Hin x Hx; apply Hb; eapply sub_child; [exact Hin|exact Hx]).
    clear Hb Hnil. induction IH as [|b1 bs' Hb1 _ IHbs]; [reflexivity|]. destruct Hn as [Hn1 Hn']. cbn [forallb existsb] in *. apply orb_false_iff in Hr. destruct Hr as [Hr1 Hr'].
    rewrite Hb1; [|exact Hn1|apply Hsub; left; reflexivity|exact Hr1]. apply IHbs; [exact Hn'|exact Hr'|intros b2 Hin; apply Hsub; right; exact Hin].
  - cbn [wf_tok has_reversed_range ne] in *. rewrite IH; [|exact Hn|intros x Hx; apply Hb; eapply sub_child; [left; reflexivity|exact Hx]|exact Hr].
    cbn [andb]. pose proof (Hb _ (sub_refl _)) as H0. cbn [bad_bounds] in H0. destruct hi as [h|]; [|reflexivity].
    apply orb_false_iff in H0. destruct H0 as [H0 _]. apply N.ltb_ge in H0. apply N.leb_le. exact H0.
Qed.

Theorem built_wf : forall e t r, build e = BuildOk t r -> has_reversed_range t = false -> wf_tok t = true.
Proof.
  intros e t r H Hr. unfold build in H. destruct (parse e) as [t0| |] eqn:Ep; try discriminate.
  destruct (check t0) as [[[k sp]|]|s] eqn:Ec; try discriminate. destruct (compile_ok (encode t0)); [|discriminate]. inversion H; subst.
  apply ne_wf; [eapply parse_ne; exact Ep|apply built_bounds_everywhere; exact Ec|exact Hr].
Qed.

(* C01 for every glob that builds, outside the known classes reversed_class_range, unstable_tree_position and rooted_first_tree *)
Theorem built_conformance : forall orbit e t r,
  build e = BuildOk t r -> has_reversed_range t = false -> trees_stable t = true -> rooted_first_tree t = false ->
  forall w, sem orbit (encode t) w <-> Lang orbit t w.
Proof.
  intros orbit e t r Hb Hr Hs Hf w. apply conformance; [eapply built_wf; eassumption|]. rewrite trees_exact_split, Hs, Hf. reflexivity.
Qed.
