(* ParseFacts.v -- facts about the parser model (Parse.v) and escaping (Query.v). *)
From WaxModel Require Import Base Token Parse Regex Encode Variance Fold Rule Query.

Lemma mem_special_split :
  forall c, mem c LIT_SPECIAL = (N.eqb c SEP || (is_meta_character c || N.eqb c BSLASH)).
Proof.
  intros c. unfold LIT_SPECIAL, is_meta_character, GLOB_META, mem, SEP, BSLASH. cbn [existsb].
  repeat rewrite orb_false_r.
  destruct (c =? 47), (c =? 63), (c =? 42), (c =? 36), (c =? 58), (c =? 60), (c =? 62), (c =? 40), (c =? 41),
    (c =? 91), (c =? 93), (c =? 123), (c =? 125), (c =? 44), (c =? 92); reflexivity.
Qed.

Lemma meta_escapable : forall c, is_meta_character c = mem c LIT_ESCAPABLE.
Proof. reflexivity. Qed.

(* no separator and no backslash *)
Definition plain (s : str) : bool := forallb (fun c => negb (N.eqb c SEP) && negb (N.eqb c BSLASH)) s.

(* C18: the literal parser reads an escaped separator-free, backslash-free string back as that string *)
Lemma lit_chars_escape : forall s, plain s = true -> lit_chars (escape s) = Some (s, []).
Proof.
  induction s as [|c s IH]; intros Hp; [reflexivity|].
  cbn [plain forallb] in Hp. apply andb_prop in Hp. destruct Hp as [Hc Hs].
  apply andb_prop in Hc. destruct Hc as [Hsep Hbs].
  apply negb_true_iff in Hsep. apply negb_true_iff in Hbs.
  cbn [escape]. destruct (is_meta_character c) eqn:Em.
  - cbn [lit_chars]. rewrite N.eqb_refl. rewrite <- meta_escapable, Em. fold (plain s) in Hs. rewrite (IH Hs). reflexivity.
  - cbn [lit_chars]. rewrite Hbs. rewrite mem_special_split, Hsep, Em, Hbs. cbn [orb].
    fold (plain s) in Hs. rewrite (IH Hs). reflexivity.
Qed.

(* escaping leaves strings without meta-characters unchanged *)
Lemma escape_identity : forall s, existsb is_meta_character s = false -> escape s = s.
Proof.
  induction s as [|c s IH]; intros H; [reflexivity|].
  cbn [existsb] in H. apply orb_false_iff in H. destruct H as [Hc Hs].
  cbn [escape]. rewrite Hc, (IH Hs). reflexivity.
Qed.

(* every character the literal parser treats specially, other than `/` and `\`, is a meta-character *)
Lemma special_is_meta :
  forall c, mem c LIT_SPECIAL = true -> c <> SEP -> c <> BSLASH -> is_meta_character c = true.
Proof.
  intros c H Hs Hb. rewrite mem_special_split in H.
  apply N.eqb_neq in Hs. apply N.eqb_neq in Hb. rewrite Hs, Hb in H. cbn [orb] in H. rewrite orb_false_r in H. exact H.
Qed.

(* C17: the span of a parse error entry covers exactly the character at the location (nothing at the end) *)
Lemma err_span_char : forall pos c s, err_span pos (c :: s) = (pos, utf8_len c).
Proof. reflexivity. Qed.
Lemma err_span_end : forall pos, err_span pos [] = (pos, 0).
Proof. reflexivity. Qed.

Lemma blen_app : forall a b, blen (a ++ b) = blen a + blen b.
Proof. induction a as [|c a IH]; intros b; cbn [app blen]; [reflexivity|]. rewrite IH. lia. Qed.

Lemma utf8_len_pos : forall c, 1 <= utf8_len c.
Proof. intros c. unfold utf8_len. destruct (c <? 128), (c <? 2048), (c <? 65536); lia. Qed.

(* C08: dropping the bytes of a prefix of the expression leaves the suffix (a character boundary) *)
Lemma drop_bytes_app : forall a b, drop_bytes (a ++ b) (blen a) = Some b.
Proof.
  induction a as [|c a IH]; intros b.
  - cbn [app blen]. destruct b; reflexivity.
  - cbn [app blen drop_bytes]. pose proof (utf8_len_pos c) as Hc.
    destruct (N.eqb_spec (utf8_len c + blen a) 0) as [E|E]; [lia|].
    destruct (N.leb_spec (utf8_len c) (utf8_len c + blen a)) as [_|E2]; [|lia].
    replace (utf8_len c + blen a - utf8_len c) with (blen a) by lia. apply IH.
Qed.
