(* ComposeFacts.v -- C07 at the level of the documented language: an alternation is the union of its branches, a
   repetition is the union of its body written out a permitted number of times, and both hold in place - inside any
   surrounding concatenation (not beneath a repetition, where the choice is made per iteration). *)
From Coq Require Import Arith Lia.
From WaxModel Require Import Base Token Regex Spec.
Local Open Scope nat_scope.

Section Compose.
Variable orbit : char -> list char.
Notation Lang := (Spec.Lang orbit).

Lemma expands_alt : forall sp bs x, Expands (TAlt sp bs) x <-> exists b, In b bs /\ Expands b x.
Proof.
  intros sp bs x. split.
  - intros H. inversion H; subst. eexists. split; eassumption.
  - intros [b [Hin Hb]]. eapply E_alt; eassumption.
Qed.

Lemma forall2_repeat_l : forall {A B} (R : A -> B -> Prop) a ys, Forall2 R (repeat a (length ys)) ys <-> Forall (R a) ys.
Proof.
  intros A B R a ys. induction ys as [|y ys IH]; cbn [length repeat].
  - split; constructor.
  - split; intros H; inversion H; subst; constructor; try assumption; apply IH; assumption.
Qed.

Lemma forall2_length : forall {A B} (R : A -> B -> Prop) xs ys, Forall2 R xs ys -> length xs = length ys.
Proof. intros A B R xs ys H. induction H; cbn; congruence. Qed.

Lemma expands_rep : forall sp sp' b lo hi x,
  Expands (TRep sp b lo hi) x <-> exists n, in_bounds n lo hi /\ Expands (TCat sp' (repeat b n)) x.
Proof.
  intros sp sp' b lo hi x. split.
  - intros H. inversion H as [| | |? ? ? ? xs Hb HF]; subst. exists (length xs). split; [exact Hb|]. constructor. apply forall2_repeat_l. exact HF.
  - intros [n [Hb Hc]]. inversion Hc as [| |? ? xs HF|]; subst. pose proof (forall2_length _ _ _ HF) as Hl. rewrite repeat_length in Hl. subst n.
    constructor; [exact Hb|]. apply forall2_repeat_l. exact HF.
Qed.

(* replacing an element of a concatenation by something with the same expansions *)
Lemma expands_cat_subst : forall (I : Type) sp pre t post (u : I -> tok),
  (forall x, Expands t x <-> exists i, Expands (u i) x) ->
  forall x, Expands (TCat sp (pre ++ t :: post)) x <-> exists i, Expands (TCat sp (pre ++ u i :: post)) x.
Proof.
  intros I sp pre t post u H x. split.
  - intros Hx. inversion Hx as [| |? ? xs HF|]; subst. apply Forall2_app_inv_l in HF. destruct HF as [xs1 [xs2 [H1 [H2 ->]]]].
    inversion H2 as [|? y ? ys Hy Hpost]; subst. apply H in Hy. destruct Hy as [i Hi]. exists i. constructor.
    apply Forall2_app; [exact H1|constructor; assumption].
  - intros [i Hx]. inversion Hx as [| |? ? xs HF|]; subst. apply Forall2_app_inv_l in HF. destruct HF as [xs1 [xs2 [H1 [H2 ->]]]].
    inversion H2 as [|? y ? ys Hy Hpost]; subst. constructor. apply Forall2_app; [exact H1|constructor; [|exact Hpost]].
    apply H. exists i. exact Hy.
Qed.

(* ---- the documented language ------------------------------------------------------------------------------------------------ *)
Theorem lang_alt : forall sp bs w, Lang (TAlt sp bs) w <-> exists b, In b bs /\ Lang b w.
Proof.
  intros sp bs w. unfold Spec.Lang. split.
  - intros [x [Hx Hm]]. apply expands_alt in Hx. destruct Hx as [b [Hin Hb]]. exists b. split; [exact Hin|]. exists x. split; assumption.
  - intros [b [Hin [x [Hx Hm]]]]. exists x. split; [apply expands_alt; exists b; split; assumption|exact Hm].
Qed.

Theorem lang_rep : forall sp sp' b lo hi w,
  Lang (TRep sp b lo hi) w <-> exists n, in_bounds n lo hi /\ Lang (TCat sp' (repeat b n)) w.
Proof.
  intros sp sp' b lo hi w. unfold Spec.Lang. split.
  - intros [x [Hx Hm]]. apply (expands_rep sp sp') in Hx. destruct Hx as [n [Hb Hc]]. exists n. split; [exact Hb|]. exists x. split; assumption.
  - intros [n [Hb [x [Hx Hm]]]]. exists x. split; [apply (expands_rep sp sp'); exists n; split; assumption|exact Hm].
Qed.

(* in place: an alternation inside a concatenation *)
Theorem lang_alt_in_place : forall sp sp' pre bs post w,
  Lang (TCat sp (pre ++ TAlt sp' bs :: post)) w <-> exists b, In b bs /\ Lang (TCat sp (pre ++ b :: post)) w.
Proof.
  intros sp sp' pre bs post w. unfold Spec.Lang. split.
  - intros [x [Hx Hm]].
    apply (expands_cat_subst {b : tok | In b bs} sp pre (TAlt sp' bs) post (fun i => proj1_sig i)) in Hx.
    + destruct Hx as [[b Hin] Hb]. exists b. split; [exact Hin|]. exists x. split; assumption.
    + intros y. rewrite expands_alt. split; [intros [b [Hin Hb]]; exists (exist _ b Hin); exact Hb|intros [[b Hin] Hb]; exists b; split; assumption].
  - intros [b [Hin [x [Hx Hm]]]]. exists x. split; [|exact Hm].
    apply (expands_cat_subst {b : tok | In b bs} sp pre (TAlt sp' bs) post (fun i => proj1_sig i)).
    + intros y. rewrite expands_alt. split; [intros [b' [Hin' Hb]]; exists (exist _ b' Hin'); exact Hb|intros [[b' Hin'] Hb]; exists b'; split; assumption].
    + exists (exist _ b Hin). exact Hx.
Qed.

(* in place: a repetition inside a concatenation *)
Theorem lang_rep_in_place : forall sp sp' sp'' pre b lo hi post w,
  Lang (TCat sp (pre ++ TRep sp' b lo hi :: post)) w <->
  exists n, in_bounds n lo hi /\ Lang (TCat sp (pre ++ TCat sp'' (repeat b n) :: post)) w.
Proof.
  intros sp sp' sp'' pre b lo hi post w. unfold Spec.Lang. split.
  - intros [x [Hx Hm]].
    apply (expands_cat_subst {n : nat | in_bounds n lo hi} sp pre (TRep sp' b lo hi) post (fun i => TCat sp'' (repeat b (proj1_sig i)))) in Hx.
    + destruct Hx as [[n Hb] Hc]. exists n. split; [exact Hb|]. exists x. split; assumption.
    + intros y. rewrite (expands_rep sp' sp''). split; [intros [n [Hb Hc]]; exists (exist _ n Hb); exact Hc|intros [[n Hb] Hc]; exists n; split; assumption].
  - intros [n [Hb [x [Hx Hm]]]]. exists x. split; [|exact Hm].
    apply (expands_cat_subst {n : nat | in_bounds n lo hi} sp pre (TRep sp' b lo hi) post (fun i => TCat sp'' (repeat b (proj1_sig i)))).
    + intros y. rewrite (expands_rep sp' sp''). split; [intros [n' [Hb' Hc]]; exists (exist _ n' Hb'); exact Hc|intros [[n' Hb'] Hc]; exists n'; split; assumption].
    + exists (exist _ n Hb). exact Hx.
Qed.

End Compose.
